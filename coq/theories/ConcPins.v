(** The tie between the concurrency models and the Go source: the action sequences the translator
    extracts from lib/concurrent/concurrent.go and env/env.go on every run (Gen/ConcActions.v) are
    (1) exactly the sequences whose steps the models ConcAtom / ConcFuture interpret, and
    (2) accepted by the lock-discipline analysis (Lockset), whose soundness is LocksetProofs. *)
From Lisp Require Import Base Lockset LocksetProofs LinCheck ConcAtom ConcFuture Gen.ConcActions.
Local Open Scope nat_scope.

Definition toks (l : list String.string) : list str := map s_ l.

(** ---- atoms: ConcAtom.step follows these lists token by token ----
    swap!:  [If( Return )] the non-atom guard;  Lock: Idle->SwapLocked;  DeferUnlock: the Unlock
    steps of SwapWritten / SwapFailed;  Read:Val: SwapLocked->SwapRead;  Apply + If( Return ):
    SwapRead->SwapFailed when the update fails;  WriteVal: SwapRead->SwapWritten;  Return. *)
Definition expected_swap := toks ["If("; "Return"; ")"; "Lock"; "DeferUnlock"; "Read:Val"; "Apply"; "If("; "Return"; ")"; "WriteVal"; "Return"]%string.
Definition expected_reset := toks ["If("; "Return"; ")"; "Lock"; "DeferUnlock"; "WriteVal"; "Return"]%string.
Definition expected_deref := toks ["RLock"; "DeferRUnlock"; "Read:Val"; "Return"]%string.
Definition expected_print := toks ["RLock"; "Read:Val"; "RUnlock"; "Apply"; "Return"]%string.

Lemma swap_actions : conc_swap_BANG = expected_swap. Proof. reflexivity. Qed.
Lemma reset_actions : conc_reset_BANG = expected_reset. Proof. reflexivity. Qed.
Lemma deref_actions : conc_Atom_Deref = expected_deref. Proof. reflexivity. Qed.
Lemma print_actions : conc_Atom_LispPrint = expected_print. Proof. reflexivity. Qed.

(** ---- futures: ConcFuture.body_step / caller_step follow these lists ---- *)
Definition expected_future_go := toks ["Apply"; "Lock"; "Write:Done"; "Unlock"; "If("; "Send:f.ErrChan"; "Return"; ")"; "Send:f.ValChan"]%string.
Definition expected_future_deref :=
  toks ["Select("; "Case("; "Recv:ctx.Done()"; "Return"; ")";
        "Case("; "Recv:f.ErrChan"; "Send:f.ErrChan"; "Return"; ")";
        "Case("; "Recv:f.ValChan"; "Send:f.ValChan"; "Return"; ")"; ")"]%string.
Definition expected_future_cancel :=
  toks ["Lock"; "DeferUnlock"; "Read:Done"; "If("; "Write:Cancelled"; "Write:Done"; "CallCancel"; ")"; "Read:Cancelled"; "Return"]%string.
Definition expected_is_done := toks ["Lock"; "DeferUnlock"; "Read:Done"; "Return"]%string.
Definition expected_is_cancelled := toks ["Lock"; "DeferUnlock"; "Read:Cancelled"; "Return"]%string.
Definition expected_new_future := toks ["Go"; "Return"]%string.

Lemma future_go_actions : conc_NewFuture_go = expected_future_go. Proof. reflexivity. Qed.
Lemma future_deref_actions : conc_Future_Deref = expected_future_deref. Proof. reflexivity. Qed.
Lemma future_cancel_actions : conc_Future_Cancel = expected_future_cancel. Proof. reflexivity. Qed.
Lemma is_done_actions : conc_Future_IsDone = expected_is_done. Proof. reflexivity. Qed.
Lemma is_cancelled_actions : conc_Future_IsCancelled = expected_is_cancelled. Proof. reflexivity. Qed.
Lemma new_future_actions : conc_NewFuture = expected_new_future. Proof. reflexivity. Qed.
(** the builtins future-cancelled? / future-done? / future-cancel go through the locked accessors *)
Lemma status_builtins_actions :
  conc_Load_lit4 = toks ["Call:own:IsCancelled"; "Return"]%string /\
  conc_Load_lit5 = toks ["Call:own:IsDone"; "Return"]%string /\
  conc_future_cancel = toks ["Call:own:Cancel"; "Return"]%string.
Proof. repeat split; reflexivity. Qed.

(** ---- the lock discipline of both files, on the regenerated lists ---- *)
Definition conc_shared (f : str) : bool := str_eqb f (s_ "Val") || str_eqb f (s_ "Done") || str_eqb f (s_ "Cancelled").
Definition env_shared (f : str) : bool := str_eqb f (s_ "data") || str_eqb f (s_ "outer").

(** entered by other packages / by the evaluator with nothing held *)
Definition conc_entry_points := toks ["Deref"; "LispPrint"; "Cancel"; "IsDone"; "IsCancelled"; "NewFuture"; "NewFuture_go";
                                      "swap_BANG"; "reset_BANG"; "future_call"; "future_cancel";
                                      "Load_lit1"; "Load_lit2"; "Load_lit3"; "Load_lit4"; "Load_lit5"; "Load_lit6"]%string.
Definition env_entry_points := toks ["Find"; "Set"; "Remove"; "Get"; "Update"; "Symbols";
                                     "NewEnv"; "NewSubordinateEnv"; "NewSubordinateEnvWithBinds"]%string.

Lemma conc_discipline : discipline conc_shared conc_all conc_entry_points = true.
Proof. vm_compute. reflexivity. Qed.
Lemma env_discipline : discipline env_shared env_all env_entry_points = true.
Proof. vm_compute. reflexivity. Qed.

(** what [discipline] gives for each function: accepted by fn_ok for its computed entry mode, against the
    computed table — hence (LocksetProofs.fn_ok_guarded) every path performs its shared accesses under the lock *)
Definition final_table (shared : str -> bool) (fns : list (str * list str)) : list summary :=
  rounds (length fns) shared [] (map (fun p => (fst p, parse (snd p))) fns).

Definition all_fn_ok (shared : str -> bool) (fns : list (str * list str)) : bool :=
  let tbl := final_table shared fns in
  forallb (fun p => existsb (fun m => fn_ok shared tbl m (parse (snd p))) [MFree; MR; MW]) fns &&
  (* the table is a fixed point: summarising once more against it changes nothing *)
  forallb (fun p => match summarize shared tbl (fst p) (parse (snd p)), find_sum tbl (fst p) with
                    | Some a, Some _ => existsb (fun b => str_eqb (s_name a) (s_name b) && mode_eqb (s_needs a) (s_needs b) &&
                                                          Bool.eqb (s_acquires a) (s_acquires b)) tbl
                    | _, _ => false end) fns.

Lemma conc_all_fn_ok : all_fn_ok conc_shared conc_all = true.
Proof. vm_compute. reflexivity. Qed.
Lemma env_all_fn_ok : all_fn_ok env_shared env_all = true.
Proof. vm_compute. reflexivity. Qed.

(** every function of env.go, on every path, touches the bindings map only under the scope's lock *)
Theorem env_accesses_guarded name code :
  In (name, code) env_all ->
  exists m, forall tr r, LocksetProofs.run (parse code) tr r ->
    accesses_guarded env_shared (final_table env_shared env_all) (mkL m None) tr.
Proof.
  intros Hin. pose proof env_all_fn_ok as H. unfold all_fn_ok in H. apply andb_true_iff in H. destruct H as [H _].
  pose proof (proj1 (forallb_forall _ _) H (name, code) Hin) as Hp. cbn [snd] in Hp.
  apply existsb_exists in Hp. destruct Hp as (m & _ & Hm). exists m. intros tr r Hrun.
  eapply fn_ok_guarded; eauto.
Qed.

Theorem conc_accesses_guarded name code :
  In (name, code) conc_all ->
  exists m, forall tr r, LocksetProofs.run (parse code) tr r ->
    accesses_guarded conc_shared (final_table conc_shared conc_all) (mkL m None) tr.
Proof.
  intros Hin. pose proof conc_all_fn_ok as H. unfold all_fn_ok in H. apply andb_true_iff in H. destruct H as [H _].
  pose proof (proj1 (forallb_forall _ _) H (name, code) Hin) as Hp. cbn [snd] in Hp.
  apply existsb_exists in Hp. destruct Hp as (m & _ & Hm). exists m. intros tr r Hrun.
  eapply fn_ok_guarded; eauto.
Qed.

(** ---- the register specification used on recorded histories is the model's sequential atom ---- *)
Definition model_event (t : nat) (o : aspec_op) (st : list Z) : option (event Z) :=
  match o with
  | AoDeref 0 => Some (EDeref Z t (aget st 0))
  | AoReset 0 v => Some (EReset Z t v)
  | AoSwapAdd 0 k => Some (ESwap Z t (fun x => Some (x + k)%Z) (RVal Z (aget st 0 + k)%Z))
  | AoSwapMulAdd 0 m k => Some (ESwap Z t (fun x => Some (x * m + k)%Z) (RVal Z (aget st 0 * m + k)%Z))
  | AoSwapFail 0 => Some (ESwap Z t (fun _ => None) (RErr Z))
  | _ => None
  end.

Lemma aspec_is_model_spec t o v e :
  model_event t o [v] = Some e ->
  fst (aspec_step [v] o) = [fst (spec_event Z v e)].
Proof.
  destruct o as [[|i]|[|i] x|[|i] k|[|i] m k|[|i]|i j|i j k]; simpl; intros H; try discriminate; injection H as <-; reflexivity.
Qed.

(** ---- D12 (open known finding): an update function that derefs the atom being swapped blocks for
    ever — the write lock is held across the call and sync.RWMutex is not reentrant ---- *)
Definition self_deref_prog : list (list (aop nat)) := [[OpSwapSelfDeref nat (fun x y => Some (x + y))]].
Definition self_deref_stuck : cstate nat := ConcAtom.run nat (init nat 1 self_deref_prog) [0; 0].

Lemma self_deref_deadlock :
  (exists th, nth_error (threads nat self_deref_stuck) 0 = Some th /\ tpc nat th <> Idle nat) /\
  (forall t, step nat self_deref_stuck t = None).
Proof.
  split.
  - eexists. split; [reflexivity | discriminate].
  - intros [|[|t]]; reflexivity.
Qed.
