#!/bin/bash
# try_seed.sh <seed id> [property] : apply /verif/seeded/<id>/patch.diff to /repo, run the property's quick
# check, undo the patch. Prints the VIOLATION lines and the exit code.
set -u
id="$1"; prop="${2:-$(python3 -c "import json;print(json.load(open('/verif/seeded/$id/meta.json'))['breaks_property'])")}"
git -C /repo apply "/verif/seeded/$id/patch.diff" || { echo "patch does not apply"; exit 2; }
/verif/bin/check "$prop" > /tmp/try_seed.$$.out 2>/tmp/try_seed.$$.err; rc=$?
git -C /repo checkout -- . 
grep -E '^(VIOLATION|KNOWN-FINDING)' /tmp/try_seed.$$.out | head -5; tail -1 /tmp/try_seed.$$.err
echo "seed=$id property=$prop exit=$rc"
first=$(grep -m1 -oE 'replay=[^ ]+' /tmp/try_seed.$$.out | cut -d= -f2); [ -n "$first" ] && sed -n '1,14p' "$first"
rm -f /tmp/try_seed.$$.out /tmp/try_seed.$$.err
