#!/bin/bash
# try_refactor.sh <patch> <prop>...: apply a behaviour-preserving patch to /repo, run the quick checks, undo. Prints one line per check.
set -u
patch="$1"; shift
git -C /repo apply "$patch" || { echo "patch does not apply: $patch"; exit 2; }
for p in "$@"; do
  out=$(/verif/bin/check "$p" 2>&1); rc=$?
  echo "$(basename $(dirname $patch)) $p exit=$rc $(echo "$out" | grep -c '^VIOLATION') violations; $(echo "$out" | tail -1)"
  if [ $rc -ne 0 ]; then echo "$out" | grep '^VIOLATION' | head -3; f=$(echo "$out" | grep -m1 -oE 'replay=[^ ]+' | cut -d= -f2); [ -n "$f" ] && sed -n '1,12p' "$f"; fi
done
git -C /repo checkout -- .
