(** C09 — atom operations are atomic, never lose updates and never hang. *)
From Coq Require Import Permutation.
From Lisp Require Import Base ConcAtom ConcAtomProofs LinCheck LinCheckProofs Lockset LocksetProofs Paths PinsCommon PinsAtom.
From Lisp.Gen Require Import ConcActions.

(** the model follows exactly the synchronisation paths of today's source (regenerated each run; path sets
    with deferred unlocks expanded, so a defer and explicit unlocks on every path are the same thing) *)
Theorem C09_source_swap : same_paths (fn_paths conc_swap_BANG) swap_paths = true. Proof. exact swap_actions. Qed.
Theorem C09_source_reset : same_paths (fn_paths conc_reset_BANG) reset_paths = true. Proof. exact reset_actions. Qed.
Theorem C09_source_deref : same_paths (fn_paths conc_Atom_Deref) deref_paths = true. Proof. exact deref_actions. Qed.
Theorem C09_source_print : same_paths (fn_paths conc_Atom_LispPrint) print_paths = true. Proof. exact print_actions. Qed.

(** every function of concurrent.go, on every path, accesses Atom.Val (and the future flags) only
    while holding the object's lock in a sufficient mode, and returns with its locks balanced *)
Theorem C09_lock_discipline : discipline val_shared conc_all conc_entry_points = true.
Proof. exact atom_discipline. Qed.
Theorem C09_accesses_guarded : forall name code, In (name, code) conc_all ->
  exists m, forall tr r, LocksetProofs.run (parse code) tr r ->
    accesses_guarded val_shared (final_table val_shared conc_all) (mkL m None) tr.
Proof. exact (all_fn_ok_guarded val_shared conc_all atom_all_fn_ok). Qed.

(** LINEARIZABILITY, for any number of threads, any programs of deref / reset! / swap! (with update
    functions that may fail), any schedule: the atom holds the replay of the linearisation history
    and every recorded result is the sequential atom's at that point *)
Theorem C09_linearizable : forall (V : Type) (v0 : V) progs sched,
  let s := ConcAtom.run V (init V v0 progs) sched in
  cell V s = replay V v0 (hist V s) /\ legal V v0 (hist V s).
Proof. exact atom_linearizable. Qed.

(** ... and that history is the history of the operations the threads issued: a finished thread was
    handed, in program order, the results recorded at the linearisation points of its own operations *)
Theorem C09_results_are_history : forall (V : Type) (v0 : V) progs sched t th,
  let s := ConcAtom.run V (init V v0 progs) sched in
  nth_error (threads V s) t = Some th -> tpc V th = Idle V -> todo V th = [] ->
  map (ev_ret V) (evs V t (hist V s)) = results V th /\
  nth_error progs t = Some (rev (map (ev_op V) (evs V t (hist V s)))).
Proof. exact atom_results_are_history. Qed.

(** a writer excludes everybody: no torn read by deref or print, no lost update *)
Theorem C09_exclusion : forall (V : Type) (v0 : V) progs sched t u tht thu,
  let s := ConcAtom.run V (init V v0 progs) sched in
  nth_error (threads V s) t = Some tht -> nth_error (threads V s) u = Some thu ->
  wcrit V (tpc V tht) = true -> (wcrit V (tpc V thu) = true \/ rcrit V (tpc V thu) = true) -> t = u.
Proof. exact atom_exclusion. Qed.

(** an update function that fails leaves the atom unchanged and usable: whenever no operation is
    in flight the lock is free (and the failed swap's event leaves the replayed value as it was) *)
Theorem C09_usable_after_failure : forall (V : Type) (v0 : V) progs sched,
  let s := ConcAtom.run V (init V v0 progs) sched in
  all_idle V s -> wlock V s = None /\ rlocks V s = [].
Proof. exact atom_quiescent_unlocked. Qed.

(** no hang: as long as no update function locks the atom being swapped again, some thread that has
    work left can always move *)
Theorem C09_deadlock_free : forall (V : Type) (v0 : V) s,
  Inv V v0 s -> no_self V s ->
  (exists t th, nth_error (threads V s) t = Some th /\ unfinished V th) ->
  exists t s', step V s t = Some s'.
Proof. exact atom_deadlock_free. Qed.

(** REFUTED for update functions that read the atom being swapped (open known finding D12,
    C09:swap-self-deref): one thread, (swap! a (fn [x] (+ x @a))), is stuck for ever *)
Theorem C09_self_deref_refuted :
  (exists th, nth_error (threads nat self_deref_stuck) 0 = Some th /\ tpc nat th <> Idle nat) /\
  (forall t, step nat self_deref_stuck t = None).
Proof. exact self_deref_deadlock. Qed.

(** the checker run on the recorded histories of the real atoms decides linearizability against the
    register specification, which is the model's sequential atom *)
Theorem C09_checker_decides : forall init h,
  atoms_linearizable init h = true <->
  exists w, Permutation w h /\ rt_ok aspec_op aspec_ret w /\ seq_ok (list Z) aspec_op aspec_ret aspec_step aspec_req init w.
Proof. exact (linearizable_b_spec (list Z) aspec_op aspec_ret aspec_step aspec_req). Qed.
Theorem C09_spec_is_model_spec : forall t o v e,
  model_event t o [v] = Some e -> fst (aspec_step [v] o) = [fst (spec_event Z v e)].
Proof. exact aspec_is_model_spec. Qed.

(** non-vacuity: three threads, nine operations, a concrete schedule (computed) *)
Example C09_example :
  let progs := [[OpSwap Z (fun x => Some (x + 1)%Z); OpDeref Z]; [OpReset Z 10%Z; OpSwap Z (fun _ => None)]; [OpDeref Z]] in
  let s := ConcAtom.run Z (init Z 0%Z progs) (concat (repeat [0;1;2;1;0]%nat 8)) in
  cell Z s = 10%Z /\ length (hist Z s) = 5%nat /\ wlock Z s = None /\
  map (results Z) (threads Z s) = [[RVal Z 1%Z; RVal Z 1%Z]; [RErr Z; RVal Z 10%Z]; [RVal Z 1%Z]].
Proof. vm_compute. repeat split. Qed.

Print Assumptions C09_source_swap.
Print Assumptions C09_lock_discipline.
Print Assumptions C09_accesses_guarded.
Print Assumptions C09_linearizable.
Print Assumptions C09_results_are_history.
Print Assumptions C09_exclusion.
Print Assumptions C09_usable_after_failure.
Print Assumptions C09_deadlock_free.
Print Assumptions C09_self_deref_refuted.
Print Assumptions C09_checker_decides.
Print Assumptions C09_spec_is_model_spec.
