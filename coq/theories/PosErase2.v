(** C19 / C17: the first-order builtins commute with [erase], continued (see PosErase.v). *)
From Lisp Require Import Base Value Core Binder Env Eval Interp EvalProofs Equal Printer QuasiProofs PosErase.

Lemma pc_contains : pc b_contains_Q.
Proof.
  intros a. destruct a as [|x [|y [|? ?]]]; try reflexivity; try (destruct x; reflexivity);
    try (destruct x; try reflexivity; destruct y; reflexivity).
  destruct x; destruct y; try reflexivity; simpl; er; try reflexivity. destruct (alookup s m); reflexivity.
Qed.
Lemma pc_keys : pc b_keys.
Proof.
  intros a. destruct a as [|x [|? ?]]; try reflexivity; destruct x; try reflexivity; simpl; er; try reflexivity.
  unfold em. rewrite map_map. simpl. rewrite map_erase_scalar; reflexivity.
Qed.
Lemma pc_vals : pc b_vals.
Proof.
  intros a. destruct a as [|x [|? ?]]; try reflexivity; destruct x; try reflexivity; simpl; er; try reflexivity.
  unfold em. rewrite !map_map. reflexivity.
Qed.
Lemma fold_aset_em : forall m1 m0,
  fold_left (fun acc kv => aset (fst kv) (snd kv) acc) (em m1) (em m0) = em (fold_left (fun acc kv => aset (fst kv) (snd kv) acc) m1 m0).
Proof. induction m1 as [|[k v] r IH]; intros m0; simpl; auto. rewrite aset_em. apply IH. Qed.
Lemma pc_merge : pc b_merge.
Proof.
  intros a. destruct a as [|x [|y [|? ?]]]; try reflexivity; try (destruct x; reflexivity);
    try (destruct x; try reflexivity; destruct y; reflexivity).
  destruct x; destruct y; try reflexivity.
  - simpl map. rewrite erase_nil, erase_map. cbn [b_merge bind eo].
    change (@nil (str * val)) with (em []) at 1. rewrite fold_aset_em, erase_map. reflexivity.
  - simpl map. rewrite !erase_map. cbn [b_merge bind eo]. rewrite fold_aset_em, erase_map. reflexivity.
Qed.

Lemma rename_go_em alt : forall d out,
  (fix go (out : list (str * val)) (d : list (str * val)) : outcome (list (str * val)) :=
     match d with
     | [] => Ok out
     | (k, v) :: r => match alookup k (em alt) with Some nk => let* nk' := as_str nk in go (aset nk' v out) r | None => go out r end
     end) (em out) (em d) =
  eom ((fix go (out : list (str * val)) (d : list (str * val)) : outcome (list (str * val)) :=
     match d with
     | [] => Ok out
     | (k, v) :: r => match alookup k alt with Some nk => let* nk' := as_str nk in go (aset nk' v out) r | None => go out r end
     end) out d).
Proof.
  induction d as [|[k v] r IH]; intros out; simpl; auto. rewrite alookup_em.
  destruct (alookup k alt) as [nk|]; simpl; [|apply IH]. rewrite as_str_erase. destruct nk; simpl; auto. rewrite aset_em. apply IH.
Qed.
Lemma filter_em (f : str -> bool) m : filter (fun kv => f (fst kv)) (em m) = em (filter (fun kv => f (fst kv)) m).
Proof. induction m as [|[k v] r IH]; simpl; auto. destruct (f k); simpl; now rewrite IH. Qed.
Lemma pc_rename_keys : pc b_rename_keys.
Proof.
  intros a. destruct a as [|x [|y [|? ?]]]; try reflexivity; try (destruct x; reflexivity);
    try (destruct x; try reflexivity; destruct y; reflexivity).
  destruct x; destruct y; try reflexivity. simpl map. rewrite !erase_map. unfold b_rename_keys.
  assert (E : filter (fun kv : str * val => match alookup (fst kv) (em m0) with Some _ => false | None => true end) (em m) =
              em (filter (fun kv : str * val => match alookup (fst kv) m0 with Some _ => false | None => true end) m)).
  { rewrite <- (filter_em (fun k => match alookup k m0 with Some _ => false | None => true end)).
    apply filter_ext. intros kv. rewrite alookup_em. destruct (alookup (fst kv) m0); reflexivity. }
  rewrite E, rename_go_em.
  match goal with |- context [eom ?X] => destruct X end; simpl; er; reflexivity.
Qed.

Lemma b_assoc_3 v idx nv : b_assoc [erase v; erase idx; erase nv] = eo (b_assoc [v; idx; nv]).
Proof. apply (pc_assoc [v; idx; nv]). Qed.

Definition ai_branch (v idx : val) : outcome val :=
  match v with
  | VMap m => let* k := as_str idx in Ok (match lookup_or_nil k m with VNil => VMap [] | b => b end)
  | VVec l _ => let* i := as_int idx in let* b := Core.index l i in Ok (match b with VNil => vvec [] | b => b end)
  | _ => Ok VNil
  end.
Lemma assoc_in_path_cons2 v idx i2 rest nv :
  assoc_in_path v (idx :: i2 :: rest) nv = (let* br := ai_branch v idx in let* inner := assoc_in_path br (i2 :: rest) nv in b_assoc [v; idx; inner]).
Proof. reflexivity. Qed.
Lemma ai_branch_erase v idx : ai_branch (erase v) (erase idx) = eo (ai_branch v idx).
Proof.
  destruct v as [| b | z | s | s p | l p | l p | m | ks | ps bd e mc | n | a | msg | pl p | t]; try reflexivity.
  - rewrite erase_vec. unfold ai_branch. rewrite as_int_erase. destruct idx; try reflexivity. cbn [as_int bind].
    rewrite index_erase. destruct (Core.index l z) as [a0| | |]; cbn [bind eo]; try reflexivity. f_equal. destruct a0; reflexivity.
  - rewrite erase_map. unfold ai_branch. rewrite as_str_erase. destruct idx; try reflexivity. cbn [as_str bind eo].
    rewrite lookup_or_nil_em. f_equal. destruct (lookup_or_nil s m); reflexivity.
Qed.

Lemma assoc_in_path_erase nv : forall path v, assoc_in_path (erase v) (map erase path) (erase nv) = eo (assoc_in_path v path nv).
Proof.
  induction path as [|idx rest IH]; intros v; [reflexivity|].
  destruct rest as [|i2 rest']; [apply b_assoc_3|].
  change (map erase (idx :: i2 :: rest')) with (erase idx :: erase i2 :: map erase rest').
  rewrite !assoc_in_path_cons2, ai_branch_erase. destruct (ai_branch v idx) as [br| | |]; cbn [bind eo]; try reflexivity.
  change (erase i2 :: map erase rest') with (map erase (i2 :: rest')). rewrite (IH br).
  destruct (assoc_in_path br (i2 :: rest') nv); cbn [bind eo]; try reflexivity. apply b_assoc_3.
Qed.
Lemma pc_assoc_in : pc b_assoc_in.
Proof.
  intros a. destruct a as [|x [|y [|z [|? ?]]]]; try reflexivity; try (destruct y; reflexivity).
  simpl map. destruct y; try reflexivity; er; try reflexivity. apply assoc_in_path_erase.
Qed.

Lemma pc_pred f : (forall v, f (erase v) = f v) -> pc (pred1 f).
Proof. intros H a. destruct a as [|x [|? ?]]; try reflexivity. simpl. now rewrite H. Qed.
Lemma pc_symbol : pc b_symbol.
Proof. intros a. destruct a as [|x [|? ?]]; try reflexivity; destruct x; reflexivity. Qed.
Lemma pc_keyword : pc b_keyword.
Proof. intros a. destruct a as [|x [|? ?]]; try reflexivity; destruct x; reflexivity. Qed.
Lemma pc_arith f : pc (arith f).
Proof. intros a. destruct a as [|x [|y [|? ?]]]; try reflexivity; destruct x; try reflexivity; destruct y; reflexivity. Qed.
Lemma pc_cmp f : pc (cmp f).
Proof. intros a. destruct a as [|x [|y [|? ?]]]; try reflexivity; destruct x; try reflexivity; destruct y; reflexivity. Qed.
Lemma pc_div : pc b_div.
Proof.
  intros a. destruct a as [|x [|y [|? ?]]]; try reflexivity; destruct x; try reflexivity; destruct y; try reflexivity.
  simpl map. rewrite !erase_int. simpl. destruct (Z.eqb z0 0); reflexivity.
Qed.
Lemma pc_equal : pc b_equal.
Proof. intros a. destruct a as [|x [|y [|? ?]]]; try reflexivity. simpl. rewrite equalI_erase. destruct (equalI x y); reflexivity. Qed.
Lemma is_error_erase v : is_error (erase v) = is_error v. Proof. destruct v; reflexivity. Qed.
Lemma pc_throw : pc b_throw.
Proof. intros a. destruct a as [|x [|? ?]]; try reflexivity. simpl. rewrite is_error_erase. destruct (is_error x); simpl; er; reflexivity. Qed.
Lemma pc_assert : pc b_assert.
Proof.
  intros a. destruct a as [|x [|y [|? ?]]]; try reflexivity.
  - destruct x; try reflexivity. destruct b; reflexivity.
  - destruct x; try reflexivity; [destruct y; try reflexivity; simpl; er; reflexivity | destruct b; try reflexivity; destruct y; try reflexivity; simpl; er; reflexivity].
Qed.
Lemma pc_with_meta : pc b_with_meta.
Proof.
  intros a. destruct a as [|x [|y [|? ?]]]; try reflexivity; try (destruct x; reflexivity).
  all: destruct x; try reflexivity; simpl; er; reflexivity.
Qed.
Lemma pc_pr_str : pc b_pr_str.
Proof. intros a. unfold b_pr_str. rewrite pr_list_erase. reflexivity. Qed.
Lemma pc_str : pc b_str.
Proof. intros a. unfold b_str. rewrite pr_list_erase. reflexivity. Qed.

Definition entry_pc (e : str * bentry) : Prop := match b_kind (snd e) with BPure f => pc f | _ => True end.

Lemma table_pc : Forall entry_pc builtin_table.
Proof.
  unfold builtin_table.
  repeat (apply Forall_cons; [first [exact I | unfold entry_pc; cbn [snd b_kind pure1 pure2 purev int2 pred];
    first [ apply pc_pred; intros v; destruct v; reflexivity |
    auto using pc_list, pc_vector, pc_cons, pc_concat, pc_vec, pc_nth, pc_first, pc_rest, pc_empty, pc_count, pc_conj, pc_seq, pc_take,
      pc_drop, pc_drop_last, pc_take_last, pc_subvec, pc_range, pc_hash_map, pc_set, pc_hash_set, pc_assoc, pc_dissoc, pc_get, pc_get_in,
      pc_contains, pc_keys, pc_vals, pc_merge, pc_rename_keys, pc_assoc_in, pc_symbol, pc_keyword, pc_arith, pc_cmp, pc_div, pc_equal,
      pc_throw, pc_assert, pc_with_meta, pc_pr_str, pc_str]] |]).
  apply Forall_nil.
Qed.
