(** C07, model side.  Once the context of an evaluation is cancelled,
    (1) every (sub)evaluation that is started returns the timeout error at once, whatever the form
        — a loop, a recursion, a macro call, a try — and does not touch the state;
    (2) what is still pending unwinds through code that only STARTS evaluations (each dies by (1)):
        the remaining forms of a do / let / function body are not evaluated, a catch handler does
        not get to evaluate anything, a finally body does not either;
    hence the work done after cancellation is bounded by the pending frames, not by the program. *)
From Lisp Require Import Base Value Core Binder Env Eval Interp EvalProofs.
Local Open Scope Z_scope.

Lemma eval_c_cancelled n d ast env st :
  cancelled st = true -> eval_c (S n) d ast env st = (Err (timeout_error ast), st).
Proof. intros H. simpl. rewrite H. reflexivity. Qed.

(** fuel irrelevance after cancellation: one unit is enough, more changes nothing *)
Corollary eval_c_cancelled_any_fuel n m d ast env st :
  cancelled st = true -> eval_c (S n) d ast env st = eval_c (S m) d ast env st.
Proof. intros H. rewrite !eval_c_cancelled by exact H. reflexivity. Qed.

(** the poll is the ONLY thing the context changes: while it is not cancelled eval_c runs the same
    iteration as the evaluator without a context *)
Lemma eval_c_live n d ast env st :
  cancelled st = false ->
  eval_c (S n) d ast env st = eval_step (eval_c n) (eval_c n) (call_builtin n (eval_c n)) n d ast env st.
Proof. intros H. simpl. rewrite H. reflexivity. Qed.

Lemma slice_all_but_last {A} (x : A) xs :
  slice (x :: xs) 0 (Z.of_nat (length (x :: xs)) - 1) = Ok (firstn (length xs) (x :: xs)).
Proof.
  unfold slice. simpl length. replace (Z.of_nat (S (length xs)) - 1) with (Z.of_nat (length xs)) by lia.
  destruct (Z.leb_spec 0 (Z.of_nat (length xs))); [|lia].
  destruct (Z.leb_spec (Z.of_nat (length xs)) (Z.of_nat (S (length xs)))); [|lia].
  cbn [andb Z.leb]. rewrite Z.sub_0_r, Nat2Z.id. reflexivity.
Qed.
Lemma slice_all {A} (l : list A) : slice l 0 (Z.of_nat (length l)) = Ok l.
Proof.
  unfold slice. destruct (Z.leb_spec 0 (Z.of_nat (length l))); [|lia].
  destruct (Z.leb_spec (Z.of_nat (length l)) (Z.of_nat (length l))); [|lia].
  cbn [andb Z.leb]. rewrite Z.sub_0_r, Nat2Z.id. simpl. rewrite firstn_all. reflexivity.
Qed.

Section Dead.
  (** any evaluator that honours the poll *)
  Variable ev ev_cont : nat -> val -> positive -> M val.
  Hypothesis ev_dead : forall d a e st, cancelled st = true -> ev d a e st = (Err (timeout_error a), st).
  Hypothesis ev_cont_dead : forall d a e st, cancelled st = true -> ev_cont d a e st = (Err (timeout_error a), st).

  (** no element of an argument list / body is evaluated *)
  Lemma eval_list_dead d x xs env st :
    cancelled st = true -> eval_list ev d (x :: xs) env st = (Err (timeout_error x), st).
  Proof. intros H. simpl. unfold bindM. rewrite ev_dead by exact H. reflexivity. Qed.

  (** a do / function / finally body (value of the last form wanted): stops at its first form *)
  Lemma do_all_dead d x xs env st :
    cancelled st = true -> dbg st = None ->
    do_forms ev d (x :: xs) 0 false env st = (Err (timeout_error x), st).
  Proof.
    intros H Hd. unfold do_forms. rewrite outing_hook_no_stepper by exact Hd.
    change (Nat.eqb (length (x :: xs)) 0) with false. cbv iota. unfold bindM, lift.
    change (Z.of_nat 0) with 0. rewrite slice_all. rewrite eval_list_dead by exact H. reflexivity.
  Qed.

  (** the body of a handler / let / do in tail position (last form kept for the loop): the first
      form is where it ends, be it evaluated by do or handed to the next loop iteration *)
  Lemma tail_body_dead d x xs env st :
    cancelled st = true -> dbg st = None ->
    (let+ ast' := do_forms ev d (x :: xs) 0 true env in ev_cont d ast' env) st = (Err (timeout_error x), st).
  Proof.
    intros H Hd. unfold bindM at 1. unfold do_forms. rewrite outing_hook_no_stepper by exact Hd.
    change (Nat.eqb (length (x :: xs)) 0) with false. cbv iota. unfold bindM, lift. change (Z.of_nat 0) with 0.
    rewrite slice_all_but_last. destruct xs as [|y ys].
    - cbn [length firstn eval_list ret]. cbn. rewrite ev_cont_dead by exact H. reflexivity.
    - cbn [length firstn]. rewrite eval_list_dead by exact H. reflexivity.
  Qed.

  (** binding the catch variable touches neither the flag nor the trace *)
  Lemma new_env_binds_flags o b e st r st' :
    new_env_binds o b e st = (r, st') -> cancelled st' = cancelled st /\ dbg st' = dbg st /\ trace st' = trace st.
  Proof.
    unfold new_env_binds, bindM, new_env, lift, ret. intros H.
    repeat match type of H with context [match ?x with _ => _ end] => destruct x end;
      injection H as _ <-; simpl; auto.
  Qed.

  (** A CATCH HANDLER CANNOT KEEP THE EVALUATION ALIVE: when the try body ends with an error in a
      cancelled context, the handler is entered (its variable is bound) and ends at its first form
      with the timeout error; nothing is traced *)
  Theorem handler_dead d (body : M val) e st st1 cbind h hs env :
    body st = (Err e, st1) -> cancelled st1 = true -> dbg st1 = None ->
    exists o st', catch_errors body
             (fun e => let+ new_env := new_env_binds env (VList [cbind] None) (VList [caught_value e] None) in
                       let+ ast' := do_forms ev d (h :: hs) 0 true new_env in ev_cont d ast' new_env) st = (o, st') /\
           (forall v, o <> Ok v) /\ trace st' = trace st1 /\ cancelled st' = true /\ dbg st' = None.
  Proof.
    intros Hb Hc Hd. unfold catch_errors. rewrite Hb. unfold bindM at 1.
    destruct (new_env_binds env (VList [cbind] None) (VList [caught_value e] None) st1) as [r st2] eqn:En.
    destruct (new_env_binds_flags _ _ _ _ _ _ En) as (F1 & F2 & F3).
    destruct r as [id| | |].
    - rewrite tail_body_dead by congruence.
      eexists _, _. split; [reflexivity|]. repeat split; first [congruence | discriminate].
    - eexists _, _. split; [reflexivity|]. repeat split; first [congruence | discriminate].
    - eexists _, _. split; [reflexivity|]. repeat split; first [congruence | discriminate].
    - eexists _, _. split; [reflexivity|]. repeat split; first [congruence | discriminate].
  Qed.

  (** A FINALLY BODY CANNOT EITHER: it ends at its first form, the outcome of the try is kept *)
  Theorem finally_dead d f fs env (rest : M val) st r st1 :
    rest st = (r, st1) -> r <> OutOfFuel -> cancelled st1 = true -> dbg st1 = None ->
    with_finally ev d (Some (f :: fs)) env rest st = (r, st1).
  Proof.
    intros Hr Hne Hc Hd. unfold with_finally. rewrite Hr.
    rewrite do_all_dead by assumption. destruct r; first [reflexivity | congruence].
  Qed.
End Dead.

(** eval_c is such an evaluator, at every fuel level above zero *)
Lemma eval_c_is_dead n : forall d a e st, cancelled st = true -> eval_c (S n) d a e st = (Err (timeout_error a), st).
Proof. intros. apply eval_c_cancelled. assumption. Qed.

(** ---- whole evaluations, for ARBITRARY rest-of-program forms (even ones that would never end) ---- *)
Definition sy (s : String.string) : val := VSym (s_ s) None.
Definition call0 (s : String.string) : val := VList [sy s] None.

(** (do (cancel!) REST): REST is never started *)
Theorem cancel_then_anything : forall rest,
  let '(o, st) := eval_c 8 1 (VList [sy "do"; call0 "cancel!"; rest] None) ROOT state0 in
  o = Err (timeout_error rest) /\ trace st = [] /\ cancelled st = true.
Proof. intros rest. vm_compute. repeat split. Qed.

(** cancelled inside a try body: the error reaches the handler, whose first form H is never
    started; the finally form F is never started; whatever BODY, H, MORE, F are *)
Theorem cancel_in_try_handler_and_finally_are_dead : forall body h more f,
  let prog := VList [sy "try"; VList [sy "do"; call0 "cancel!"; body] None;
                     VList [sy "catch"; sy "e"; h; more] None;
                     VList [sy "finally"; f] None] None in
  let '(o, st) := eval_c 10 1 prog ROOT state0 in
  o = Err (timeout_error h) /\ trace st = [] /\ cancelled st = true.
Proof. intros body h more f. vm_compute. repeat split. Qed.

(** a trace! after the cancellation inside the same argument list still runs (one builtin
    application per pending frame), but nothing that needs a new evaluation does *)
Theorem cancel_bounded_leftover : forall rest,
  let prog := VList [sy "do"; VList [sy "trace!"; call0 "cancel!"] None; VList [sy "trace!"; VInt 2] None; rest] None in
  let '(o, st) := eval_c 10 1 prog ROOT state0 in
  o = Err (timeout_error (VList [sy "trace!"; VInt 2] None)) /\ trace st = [VNil] /\ cancelled st = true.
Proof. intros rest. vm_compute. repeat split. Qed.
