(** C19 / C17: source positions never influence what a program computes.

    [erase] removes every source position from a value (symbols, lists, vectors, the bodies and
    parameter lists of closures, the cursor of error values).  Evaluation commutes with it: evaluating
    the position-less form in the position-less state gives exactly the position-less image of
    the outcome and of the final state (scopes, atoms, ordered trace) — for every program, fuel,
    depth and state.  So an AST built by a Go host, the same text read without a module name, read
    under a module name, or re-read from its printed form (C06) all compute the same thing: they differ
    in positions only, and positions only ever end up in the cursor of an error. *)
From Lisp Require Import Base Value Core Binder Env Eval Interp EvalProofs Equal Printer QuasiProofs.

Fixpoint erase (v : val) : val :=
  match v with
  | VSym s _ => VSym s None
  | VList l _ => VList ((fix go (l : list val) := match l with [] => [] | x :: r => erase x :: go r end) l) None
  | VVec l _ => VVec ((fix go (l : list val) := match l with [] => [] | x :: r => erase x :: go r end) l) None
  | VMap m => VMap ((fix go (m : list (str * val)) := match m with [] => [] | kv :: r => (fst kv, erase (snd kv)) :: go r end) m)
  | VFn ps b e mc => VFn (erase ps) (erase b) e mc
  | VLispErr p _ => VLispErr (erase p) None
  | x => x
  end.

Definition em (m : list (str * val)) : list (str * val) := map (fun kv => (fst kv, erase (snd kv))) m.

Lemma erase_list l p : erase (VList l p) = VList (map erase l) None. Proof. simpl. f_equal. Qed.
Lemma erase_vec l p : erase (VVec l p) = VVec (map erase l) None. Proof. simpl. f_equal. Qed.
Lemma erase_map m : erase (VMap m) = VMap (em m). Proof. simpl. f_equal. Qed.
Lemma erase_fn ps b e mc : erase (VFn ps b e mc) = VFn (erase ps) (erase b) e mc. Proof. reflexivity. Qed.
Lemma erase_lisperr p c : erase (VLispErr p c) = VLispErr (erase p) None. Proof. reflexivity. Qed.
Lemma erase_sym s p : erase (VSym s p) = VSym s None. Proof. reflexivity. Qed.
Lemma erase_vlist l : erase (vlist l) = vlist (map erase l). Proof. apply erase_list. Qed.
Lemma erase_vvec l : erase (vvec l) = vvec (map erase l). Proof. apply erase_vec. Qed.
Global Opaque erase.
Lemma erase_nil : erase VNil = VNil. Proof. reflexivity. Qed.
Lemma erase_bool b : erase (VBool b) = VBool b. Proof. reflexivity. Qed.
Lemma erase_int z : erase (VInt z) = VInt z. Proof. reflexivity. Qed.
Lemma erase_str s : erase (VStr s) = VStr s. Proof. reflexivity. Qed.
Lemma erase_set s : erase (VSet s) = VSet s. Proof. reflexivity. Qed.
Lemma erase_builtin s : erase (VBuiltin s) = VBuiltin s. Proof. reflexivity. Qed.
Lemma erase_atom s : erase (VAtom s) = VAtom s. Proof. reflexivity. Qed.
Lemma erase_goerr s : erase (VGoErr s) = VGoErr s. Proof. reflexivity. Qed.
Lemma erase_other s : erase (VOther s) = VOther s. Proof. reflexivity. Qed.
Global Hint Rewrite erase_list erase_vec erase_map erase_fn erase_lisperr erase_sym erase_vlist erase_vvec erase_nil erase_bool erase_int
  erase_str erase_set erase_builtin erase_atom erase_goerr erase_other : er.

Lemma erase_idem : forall v, erase (erase v) = erase v.
Proof.
  induction v using val_ind'; autorewrite with er; auto.
  - f_equal. rewrite map_map. apply map_ext_in. rewrite Forall_forall in H. auto.
  - f_equal. rewrite map_map. apply map_ext_in. rewrite Forall_forall in H. auto.
  - f_equal. unfold em. rewrite map_map. apply map_ext_in. rewrite Forall_forall in H. intros kv Hk. simpl. f_equal. auto.
  - congruence.
  - congruence.
Qed.

(** outcomes *)
Definition eo (o : outcome val) : outcome val :=
  match o with Ok v => Ok (erase v) | Err e => Err (erase e) | Panic s => Panic s | OutOfFuel => OutOfFuel end.
Definition eol (o : outcome (list val)) : outcome (list val) :=
  match o with Ok l => Ok (map erase l) | Err e => Err (erase e) | Panic s => Panic s | OutOfFuel => OutOfFuel end.
Definition eom (o : outcome (list (str * val))) : outcome (list (str * val)) :=
  match o with Ok l => Ok (em l) | Err e => Err (erase e) | Panic s => Panic s | OutOfFuel => OutOfFuel end.
Definition eoa {A} (o : outcome A) : outcome A :=
  match o with Ok a => Ok a | Err e => Err (erase e) | Panic s => Panic s | OutOfFuel => OutOfFuel end.

(** the kind of a value survives *)
Lemma type_tag_erase v : type_tag (erase v) = type_tag v.
Proof. destruct v; reflexivity. Qed.

Lemma get_slice_erase v : get_slice (erase v) = eol (get_slice v).
Proof. destruct v; autorewrite with er; reflexivity. Qed.

Lemma nth_opt_map {A B} (f : A -> B) l n : nth_opt (map f l) n = option_map f (nth_opt l n).
Proof. revert n; induction l as [|x r IH]; intros [|n]; simpl; auto. Qed.

Lemma index_erase l i : Core.index (map erase l) i = eo (Core.index l i).
Proof. unfold Core.index. destruct (Z.ltb i 0); [reflexivity|]. rewrite nth_opt_map. destruct (nth_opt l (Z.to_nat i)); reflexivity. Qed.

Lemma slice_erase l i j : slice (map erase l) i j = eol (slice l i j).
Proof. unfold slice. rewrite map_length. destruct (_ && _ && _)%bool; [|reflexivity]. simpl. now rewrite skipn_map, firstn_map. Qed.

Lemma set_nth_erase l n x : set_nth (map erase l) n (erase x) = option_map (map erase) (set_nth l n x).
Proof.
  revert n; induction l as [|y r IH]; intros [|n]; simpl; auto.
  rewrite IH. destruct (set_nth r n x); reflexivity.
Qed.

Lemma alookup_em k m : alookup k (em m) = option_map erase (alookup k m).
Proof. induction m as [|[k' v] r IH]; simpl; auto. destruct (str_eqb k k'); auto. Qed.
Lemma aset_em k v m : aset k (erase v) (em m) = em (aset k v m).
Proof. induction m as [|[k' v'] r IH]; simpl; auto. destruct (str_eqb k k'); simpl; [reflexivity | now rewrite IH]. Qed.
Lemma adel_em k m : adel k (em m) = em (adel k m).
Proof. induction m as [|[k' v'] r IH]; simpl; auto. destruct (str_eqb k k'); simpl; [reflexivity | now rewrite IH]. Qed.
Lemma lookup_or_nil_em k m : lookup_or_nil k (em m) = erase (lookup_or_nil k m).
Proof. unfold lookup_or_nil. rewrite alookup_em. destruct (alookup k m); reflexivity. Qed.
Lemma em_length m : length (em m) = length m. Proof. apply map_length. Qed.

Lemma as_int_erase v : as_int (erase v) = as_int v. Proof. destruct v; reflexivity. Qed.
Lemma as_str_erase v : as_str (erase v) = as_str v. Proof. destruct v; reflexivity. Qed.

Global Hint Rewrite get_slice_erase index_erase slice_erase set_nth_erase alookup_em aset_em adel_em lookup_or_nil_em em_length
  as_int_erase as_str_erase map_length map_app map_rev firstn_map skipn_map : er.

(** printing ignores positions *)
Lemma pr_str_erase r : forall v, pr_str r (erase v) = pr_str r v.
Proof.
  intros v. revert r. induction v using val_ind'; intros r; autorewrite with er; auto.
  - cbn [pr_str]. do 3 f_equal. rewrite map_map. apply map_ext_in. rewrite Forall_forall in H. auto.
  - cbn [pr_str]. do 3 f_equal. rewrite map_map. apply map_ext_in. rewrite Forall_forall in H. auto.
  - cbn [pr_str]. do 3 f_equal. unfold em. rewrite map_map. f_equal. apply map_ext_in. rewrite Forall_forall in H.
    intros kv Hk. simpl. f_equal. f_equal. auto.
  - cbn [pr_str]. now rewrite IHv1, IHv2.
  - cbn [pr_str]. now rewrite IHv.
Qed.

Lemma pr_list_erase r sep l : pr_list r sep (map erase l) = pr_list r sep l.
Proof. unfold pr_list. f_equal. rewrite map_map. apply map_ext. intros; apply pr_str_erase. Qed.

(** = ignores positions *)
Lemma sequential_erase v : sequential (erase v) = sequential v. Proof. destruct v; reflexivity. Qed.
Lemma seq_items_erase v : seq_items (erase v) = option_map (map erase) (seq_items v).
Proof. destruct v; autorewrite with er; reflexivity. Qed.

Lemma go_eq_erase a b : (match a with VSym _ _ | VList _ _ | VVec _ _ | VMap _ | VSet _ => False | _ => True end) ->
  go_eq_same_type (erase a) (erase b) = go_eq_same_type a b.
Proof. destruct a; intros H; try contradiction; destruct b; reflexivity. Qed.

Lemma equalI_erase : forall a w, equalI (erase a) (erase w) = equalI a w.
Proof.
  induction a using val_ind'; intros w;
    try (autorewrite with er; cbn [equalI]; rewrite ?type_tag_erase, ?sequential_erase;
         destruct (negb _); [reflexivity|]; destruct w; autorewrite with er; reflexivity).
  - (* list *) autorewrite with er. cbn [equalI]. rewrite type_tag_erase, sequential_erase. simpl type_tag. simpl sequential.
    destruct (negb _); [reflexivity|]. rewrite seq_items_erase. destruct (seq_items w) as [lb|]; [|reflexivity]. simpl option_map.
    rewrite !map_length. destruct (negb (Nat.eqb (length l) (length lb))); [reflexivity|].
    clear p. revert lb. induction H as [|x la Hx Hla IH]; intros lb; [reflexivity|].
    destruct lb as [|y lb']; [reflexivity|]. simpl. rewrite Hx. destruct (equalI x y) as [[|]|]; auto.
  - (* vec *) autorewrite with er. cbn [equalI]. rewrite type_tag_erase, sequential_erase. simpl type_tag. simpl sequential.
    destruct (negb _); [reflexivity|]. rewrite seq_items_erase. destruct (seq_items w) as [lb|]; [|reflexivity]. simpl option_map.
    rewrite !map_length. destruct (negb (Nat.eqb (length l) (length lb))); [reflexivity|].
    clear p. revert lb. induction H as [|x la Hx Hla IH]; intros lb; [reflexivity|].
    destruct lb as [|y lb']; [reflexivity|]. simpl. rewrite Hx. destruct (equalI x y) as [[|]|]; auto.
  - (* map *) autorewrite with er. cbn [equalI]. rewrite type_tag_erase, sequential_erase. simpl type_tag. simpl sequential.
    destruct (negb _); [reflexivity|]. destruct w; autorewrite with er; try reflexivity.
    destruct (negb (Nat.eqb (length m) (length m0))); [reflexivity|].
    induction H as [|[k v] ma Hx Hma IH]; [reflexivity|]. simpl. rewrite alookup_em.
    destruct (alookup k m0) as [bv|]; cbn; [|reflexivity]. simpl in Hx. rewrite Hx.
    destruct (equalI v bv) as [[|]|]; auto.
Qed.

(** ---- the first-order builtins commute with [erase] ---- *)
Definition pc (f : list val -> outcome val) : Prop := forall a, f (map erase a) = eo (f a).

Ltac er1 := rewrite ?erase_list, ?erase_vec, ?erase_map, ?erase_fn, ?erase_lisperr, ?erase_sym, ?erase_vlist, ?erase_vvec, ?erase_nil,
  ?erase_bool, ?erase_int, ?erase_str, ?erase_set, ?erase_builtin, ?erase_atom, ?erase_goerr, ?erase_other,
  ?get_slice_erase, ?index_erase, ?slice_erase, ?set_nth_erase, ?alookup_em, ?aset_em, ?adel_em, ?lookup_or_nil_em, ?em_length,
  ?as_int_erase, ?as_str_erase, ?map_length, ?map_app, ?map_rev, ?firstn_map, ?skipn_map.
Ltac er := er1; er1.
Ltac dgs := repeat match goal with
  | |- context [get_slice ?v] => destruct (get_slice v); cbn [eol bind eo]
  end.

Lemma pc_list : pc b_list. Proof. intros a. simpl. now er. Qed.
Lemma pc_vector : pc b_vector. Proof. intros a. simpl. now er. Qed.
Lemma pc_cons : pc b_cons.
Proof. intros a. destruct a as [|x [|s [|? ?]]]; try reflexivity. simpl. er. dgs; er; reflexivity. Qed.

Lemma concat_rest_erase : forall a acc, concat_rest (map erase acc) (map erase a) = eol (concat_rest acc a).
Proof.
  induction a as [|s r IH]; intros acc; simpl; [reflexivity|]. er. destruct (get_slice s); simpl; auto.
  rewrite <- map_app. apply IH.
Qed.
Lemma pc_concat : pc b_concat.
Proof.
  intros a. destruct a as [|s r]; [reflexivity|]. simpl. er. destruct (get_slice s) as [l0| | |]; simpl; auto.
  rewrite concat_rest_erase. destruct (concat_rest l0 r); simpl; er; reflexivity.
Qed.
Lemma pc_vec : pc b_vec.
Proof.
  intros a. destruct a as [|x [|? ?]]; try reflexivity; [|destruct x; reflexivity].
  destruct x; try reflexivity; simpl; er; try reflexivity. simpl. er. f_equal. f_equal. rewrite map_map. apply map_ext. reflexivity.
Qed.
Lemma pc_nth : pc b_nth.
Proof.
  intros a. destruct a as [|s [|i [|? ?]]]; try reflexivity; try (destruct i; reflexivity).
  destruct i; try reflexivity. simpl. er. destruct (get_slice s); simpl; auto. er.
  destruct (Z.ltb z _); [|reflexivity]. er. reflexivity.
Qed.
Lemma pc_first : pc b_first.
Proof.
  intros a. destruct a as [|s [|? ?]]; try reflexivity; [|destruct s; reflexivity].
  destruct s; try reflexivity; simpl; er; try reflexivity; destruct l; reflexivity.
Qed.
Lemma pc_rest : pc b_rest.
Proof.
  intros a. destruct a as [|s [|? ?]]; try reflexivity; [|destruct s; reflexivity].
  destruct s; try reflexivity; simpl; er; try reflexivity; destruct l; try reflexivity; simpl; er; reflexivity.
Qed.
Lemma pc_empty : pc b_empty_Q.
Proof. intros a. destruct a as [|s [|? ?]]; try reflexivity; destruct s; try reflexivity; simpl; er; reflexivity. Qed.
Lemma pc_count : pc b_count.
Proof. intros a. destruct a as [|s [|? ?]]; try reflexivity; destruct s; try reflexivity; simpl; er; reflexivity. Qed.

Lemma assoc_pairs_erase : forall kvs m, assoc_pairs (em m) (map erase kvs) = eom (assoc_pairs m kvs).
Proof.
  fix IH 1. intros [|k [|v r]] m; simpl; auto.
  - destruct k; reflexivity.
  - destruct k; try reflexivity; simpl; er; try reflexivity. apply IH.
Qed.
Lemma add_keys_erase : forall ks s, add_keys s (map erase ks) = eoa (add_keys s ks).
Proof. induction ks as [|k r IH]; intros s; simpl; auto. destruct k; try reflexivity; simpl; er; auto. Qed.
Lemma del_keys_erase : forall ks m, del_keys (em m) (map erase ks) = eom (del_keys m ks).
Proof. induction ks as [|k r IH]; intros m; simpl; auto. destruct k; try reflexivity; simpl; er; auto. Qed.
Lemma del_skeys_erase : forall ks s, del_skeys s (map erase ks) = eoa (del_skeys s ks).
Proof. induction ks as [|k r IH]; intros s; simpl; auto. destruct k; try reflexivity; simpl; er; auto. Qed.
Lemma set_items_erase : forall l s, set_items s (map erase l) = eoa (set_items s l).
Proof. induction l as [|k r IH]; intros s; simpl; auto. destruct k; try reflexivity; simpl; er; auto. Qed.

Lemma pc_conj : pc b_conj.
Proof.
  intros a. destruct a as [|c xs]; [reflexivity|]. destruct c; try reflexivity; simpl; er; try reflexivity.
  all: try (destruct (Nat.even _); [|reflexivity]; rewrite assoc_pairs_erase; destruct (assoc_pairs _ _); simpl; er; reflexivity).
  all: try (rewrite add_keys_erase; destruct (add_keys _ _); simpl; er; reflexivity).
Qed.
Lemma map_erase_scalar {A} (f : A -> val) l : (forall x, erase (f x) = f x) -> map erase (map f l) = map f l.
Proof. intros H. rewrite map_map. apply map_ext. exact H. Qed.

Lemma pc_seq : pc b_seq.
Proof.
  intros a. destruct a as [|s [|? ?]]; try reflexivity; [|destruct s; reflexivity].
  destruct s; try reflexivity; simpl; er; try reflexivity.
  - destruct s as [|c0 s']; try reflexivity; simpl; er; try reflexivity.
    change (VStr [c0] :: map (fun c : N => VStr [c]) s') with (map (fun c : N => VStr [c]) (c0 :: s')).
    rewrite map_erase_scalar; reflexivity.
  - destruct l; try reflexivity; simpl; er; reflexivity.
  - destruct l; try reflexivity; simpl; er; reflexivity.
  - rewrite map_erase_scalar; reflexivity.
Qed.

Ltac int_seq a :=
  let n := fresh "n" in let s := fresh "s" in
  destruct a as [|n [|s [|? ?]]]; try reflexivity; destruct n; try reflexivity; destruct s; try reflexivity.

Lemma pc_take : pc b_take. Proof. intros a. int_seq a; simpl; er; reflexivity. Qed.
Lemma pc_drop : pc b_drop. Proof. intros a. int_seq a; simpl; er; reflexivity. Qed.
Lemma pc_drop_last : pc b_drop_last. Proof. intros a. int_seq a; simpl; er; reflexivity. Qed.
Lemma nil_if_empty_erase l : nil_if_empty (map erase l) = erase (nil_if_empty l).
Proof. destruct l; try reflexivity; simpl; er; reflexivity. Qed.
Lemma pc_take_last : pc b_take_last.
Proof. intros a. int_seq a; simpl; er; rewrite ?nil_if_empty_erase; reflexivity. Qed.

Lemma pc_subvec : pc b_subvec.
Proof.
  intros a. destruct a as [|v [|f [|t [|? ?]]]]; try reflexivity.
  - destruct v; try reflexivity; simpl; er; try reflexivity. destruct f; simpl; try reflexivity.
    destruct (_ || _ || _)%bool; [reflexivity|]. er. destruct (slice l z (Z.of_nat (length l))); simpl; er; reflexivity.
  - destruct v; try reflexivity; simpl; er; try reflexivity. destruct f; simpl; try reflexivity. destruct t; simpl; try reflexivity.
    destruct (_ || _ || _)%bool; [reflexivity|]. er. destruct (slice l z z0); simpl; er; reflexivity.
Qed.
Lemma range_erase : forall n from, map erase (range_list from n) = range_list from n.
Proof. induction n; intros; simpl; er; congruence. Qed.
Lemma pc_range : pc b_range.
Proof.
  intros a. destruct a as [|x [|y [|? ?]]]; try reflexivity; destruct x; try reflexivity; destruct y; try reflexivity.
  simpl. er. now rewrite range_erase.
Qed.
Lemma new_hash_map_erase : forall kvs m, new_hash_map (em m) (map erase kvs) = eom (new_hash_map m kvs).
Proof.
  fix IH 1. intros [|k [|v r]] m; simpl; auto.
  - destruct k; reflexivity.
  - destruct k; try reflexivity; simpl; er; try reflexivity. apply IH.
Qed.
Lemma pc_hash_map : pc b_hash_map.
Proof.
  intros a. destruct a as [|x [|y r]]; try reflexivity. unfold b_hash_map.
  change (map erase (x :: y :: r)) with (erase x :: erase y :: map erase r). cbv iota.
  change (erase x :: erase y :: map erase r) with (map erase (x :: y :: r)). rewrite map_length.
  destruct (Nat.odd _); [reflexivity|].
  change (@nil (str * val)) with (em []) at 1.
  rewrite new_hash_map_erase. destruct (new_hash_map [] (x :: y :: r)); simpl; er; reflexivity.
Qed.
Lemma new_set_erase v : new_set (erase v) = eo (new_set v).
Proof.
  unfold new_set. destruct v; try reflexivity; er; try reflexivity; simpl; rewrite set_items_erase; destruct (set_items [] l); reflexivity.
Qed.
Lemma pc_set : pc b_set.
Proof. intros a. destruct a as [|x [|? ?]]; try reflexivity. apply new_set_erase. Qed.
Lemma pc_hash_set : pc b_hash_set.
Proof. intros a. unfold b_hash_set. rewrite <- erase_vlist. apply new_set_erase. Qed.

Lemma assoc_vec_erase : forall kvs l,
  (fix go (l : list val) (kvs : list val) : outcome (list val) :=
     match kvs with
     | [] => Ok l
     | VInt i :: v :: r =>
         if Z.ltb i 0 then Panic (s_ "index out of range")
         else match set_nth l (Z.to_nat i) v with Some l' => go l' r | None => Panic (s_ "index out of range") end
     | VInt _ :: [] => Panic (s_ "index out of range")
     | _ :: _ => goerr "assoc called with non-int key"
     end) (map erase l) (map erase kvs) =
  eol ((fix go (l : list val) (kvs : list val) : outcome (list val) :=
     match kvs with
     | [] => Ok l
     | VInt i :: v :: r =>
         if Z.ltb i 0 then Panic (s_ "index out of range")
         else match set_nth l (Z.to_nat i) v with Some l' => go l' r | None => Panic (s_ "index out of range") end
     | VInt _ :: [] => Panic (s_ "index out of range")
     | _ :: _ => goerr "assoc called with non-int key"
     end) l kvs).
Proof.
  fix IH 1. intros [|k [|v r]] l; simpl; auto.
  - destruct k; reflexivity.
  - destruct k; try reflexivity; simpl; er; try reflexivity. destruct (Z.ltb z 0); [reflexivity|].
    destruct (set_nth l (Z.to_nat z) v); simpl; auto.
Qed.

Lemma pc_assoc : pc b_assoc.
Proof.
  intros a. destruct a as [|c xs]; [reflexivity|]. unfold b_assoc. simpl map. cbn [length]. rewrite map_length.
  destruct c; try reflexivity; er; try reflexivity.
  - destruct (Nat.ltb _ 3); [reflexivity|]. rewrite assoc_vec_erase.
    match goal with |- context [eol ?X] => destruct X end; simpl; er; reflexivity.
  - destruct (Nat.ltb _ 3); [reflexivity|]. destruct (Nat.even _); [reflexivity|].
    rewrite assoc_pairs_erase. destruct (assoc_pairs m xs); simpl; er; reflexivity.
  - destruct (Nat.ltb _ 2); [reflexivity|]. rewrite add_keys_erase. destruct (add_keys ks xs); simpl; er; reflexivity.
Qed.

Lemma pc_dissoc : pc b_dissoc.
Proof.
  intros a. unfold b_dissoc. rewrite map_length. destruct (Nat.ltb _ 2); [reflexivity|].
  destruct a as [|c ks]; [reflexivity|]. simpl map. destruct c; try reflexivity; er; try reflexivity.
  - rewrite del_keys_erase. destruct (del_keys m ks); simpl; er; reflexivity.
  - rewrite del_skeys_erase. destruct (del_skeys ks0 ks); simpl; er; reflexivity.
Qed.

Lemma get2_erase hm key : get2 (erase hm) (erase key) = eo (get2 hm key).
Proof.
  unfold get2. destruct hm as [| b | z | s | s p | l p | l p | m | ks | ps bd e mc | n | a | msg | pl p | t];
    try (destruct key; reflexivity).
  - destruct key as [| b | z | s | s p0 | l0 p0 | l0 p0 | m | ks | ps bd e mc | n | a | msg | pl p0 | t]; try reflexivity; er; cbn [as_int as_str bind eo]; er; reflexivity.
  - destruct key as [| b | z | s | s p0 | l0 p0 | l0 p0 | m | ks | ps bd e mc | n | a | msg | pl p0 | t]; try reflexivity; er; cbn [as_int as_str bind eo]; er; reflexivity.
  - destruct key as [| b | z | s | s p0 | l0 p0 | l0 p0 | m0 | ks | ps bd e mc | n | a | msg | pl p0 | t]; try reflexivity; er; cbn [as_int as_str bind eo]; er; reflexivity.
  - destruct key as [| b | z | s | s p0 | l0 p0 | l0 p0 | m0 | ks0 | ps bd e mc | n | a | msg | pl p0 | t]; try reflexivity.
    er. simpl. destruct (smem s ks); reflexivity.
Qed.
Lemma pc_get : pc b_get.
Proof. intros a. destruct a as [|x [|y [|? ?]]]; try reflexivity. apply get2_erase. Qed.

Definition gi_branch (v idx : val) : outcome val :=
  match v with
  | VMap m => let* k := as_str idx in Ok (match lookup_or_nil k m with VNil => VMap [] | b => b end)
  | VList l _ => let* i := as_int idx in let* b := Core.index l i in Ok (match b with VNil => vlist [] | b => b end)
  | VVec l _ => let* i := as_int idx in let* b := Core.index l i in Ok (match b with VNil => vvec [] | b => b end)
  | _ => Ok VNil
  end.
Lemma get_in_path_cons2 v idx i2 rest : get_in_path v (idx :: i2 :: rest) = (let* br := gi_branch v idx in get_in_path br (i2 :: rest)).
Proof. reflexivity. Qed.
Lemma nil_to_erase (d : val) x : erase d = d -> d <> VNil -> (match erase x with VNil => d | y => y end) = erase (match x with VNil => d | y => y end).
Proof. intros Hd Hn. destruct x; try reflexivity; try (now rewrite Hd). Qed.
Lemma gi_branch_erase v idx : gi_branch (erase v) (erase idx) = eo (gi_branch v idx).
Proof.
  destruct v as [| b | z | s | s p | l p | l p | m | ks | ps bd e mc | n | a | msg | pl p | t]; try reflexivity.
  - rewrite erase_list. unfold gi_branch. rewrite as_int_erase. destruct idx; try reflexivity. cbn [as_int bind].
    rewrite index_erase. destruct (Core.index l z) as [a0| | |]; cbn [bind eo]; try reflexivity. f_equal. destruct a0; reflexivity.
  - rewrite erase_vec. unfold gi_branch. rewrite as_int_erase. destruct idx; try reflexivity. cbn [as_int bind].
    rewrite index_erase. destruct (Core.index l z) as [a0| | |]; cbn [bind eo]; try reflexivity. f_equal. destruct a0; reflexivity.
  - rewrite erase_map. unfold gi_branch. rewrite as_str_erase. destruct idx; try reflexivity. cbn [as_str bind eo].
    rewrite lookup_or_nil_em. f_equal. destruct (lookup_or_nil s m); reflexivity.
Qed.

Lemma get_in_path_erase : forall path v, get_in_path (erase v) (map erase path) = eo (get_in_path v path).
Proof.
  induction path as [|idx rest IH]; intros v; [reflexivity|].
  destruct rest as [|i2 rest']; [apply get2_erase|].
  change (map erase (idx :: i2 :: rest')) with (erase idx :: erase i2 :: map erase rest').
  rewrite !get_in_path_cons2, gi_branch_erase. destruct (gi_branch v idx); cbn [bind eo]; try reflexivity.
  apply (IH a).
Qed.
Lemma get_in_path_erase' path v v' : v' = erase v -> get_in_path v' (map erase path) = eo (get_in_path v path).
Proof. intros ->. apply get_in_path_erase. Qed.

Lemma b_get_in_spec x path p : b_get_in [x; VVec path p] = match x with VNil => Ok VNil | _ => get_in_path x path end.
Proof. destruct x; reflexivity. Qed.

Lemma pc_get_in : pc b_get_in.
Proof.
  intros a. destruct a as [|x [|y [|? ?]]]; try reflexivity; try (destruct x; reflexivity);
    try (destruct x; try reflexivity; destruct y; reflexivity).
  simpl map. destruct y; try (destruct x; reflexivity).
  rewrite erase_vec, !b_get_in_spec.
  destruct x; try reflexivity; er; apply get_in_path_erase'; now er.
Qed.

