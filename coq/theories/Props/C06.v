(** C06 — printing then reading returns the same value.
    Proved in full generality: the printer's escaping of strings (quoted form and raw ¬ form)
    is undone by the reader for EVERY string of code points.  The composition through the
    scanner for whole nested values (C06_print_read) is checked by correspondence and stated
    here as computed instances; see DESIGN.md for what remains to be proved. *)
From Lisp Require Import Base Value Core Scanner Reader Printer PrintReadProofs Equal.

(** quoted form: unescape . escape = id — for all strings, U+029E, backslashes, quotes,
    newlines included (the code before fix D8 failed this for U+029E) *)
Theorem C06_unescape_escape : forall s, unescape (escape_str s) = s.
Proof. exact unescape_escape. Qed.

(** raw form: un-doubling the raw-string quote inverts doubling, for all strings *)
Theorem C06_undouble_double : forall s, undouble (replace1 RAWQ [RAWQ; RAWQ] s) = s.
Proof. exact undouble_double. Qed.

(** the printed form of a string, as the one token it is, reads back as the string *)
Theorem C06_printed_string_token_reads_back : forall m line s,
  read_atom m (mkTok KString (34%N :: escape_str s ++ [34%N]) line) = Ok (VStr s).
Proof. exact read_atom_printed_string. Qed.
Theorem C06_printed_raw_token_reads_back : forall m line s, s <> [] ->
  read_atom m (mkTok KRawString (RAWQ :: replace1 RAWQ [RAWQ; RAWQ] s ++ [RAWQ]) line) = Ok (VStr s).
Proof. exact read_atom_printed_raw. Qed.

(** the escaped text never contains a raw newline (so the scanner's string literal is not cut) *)
Theorem C06_escaped_has_no_newline : forall s, existsb (N.eqb 10) (escape_str s) = false.
Proof. exact escape_str_no_newline. Qed.

(** computed instances of the whole round trip on nested values with the hard characters *)
Definition roundtrip (v : val) : bool :=
  match read_str None None None (pr_str true v) with Ok v' => eqS v' v | _ => false end.

Example C06_roundtrip_examples :
  forallb roundtrip
    [ VStr (s_ "a""b\c") ; VStr [120; 670; 121]%N ; VStr [10; 9; 13; 172; 123; 125]%N ; VStr (s_ "{""k"": ""v""}") ;
      VStr (s_ "{""a") ; VStr ([123; 34; 172; 172; 125]%N) ; VInt (-9223372036854775808) ; VInt 9223372036854775807 ;
      VList [VSym (s_ "x-1") None; VStr (KW :: s_ "k"); VVec [VNil; VBool true; VBool false] None] None ;
      VMap [(KW :: s_ "a", VList [] None); (s_ "s p", VSet [s_ "x"; KW :: s_ "y"])] ;
      VStr [] ; VList [VStr (s_ "\n"); VStr (s_ "\\")] None ] = true.
Proof. vm_compute. reflexivity. Qed.

(** the open finding: a string containing U+0000 prints, but the third-party scanner rejects
    NUL, so it cannot be read back *)
Example C06_nul_refuted : roundtrip (VStr [97; 0; 98]%N) = false.
Proof. vm_compute. reflexivity. Qed.

Print Assumptions C06_unescape_escape.
Print Assumptions C06_undouble_double.
Print Assumptions C06_printed_string_token_reads_back.
Print Assumptions C06_printed_raw_token_reads_back.
