(** Extraction of the executable model to OCaml.  ExtrOcamlBasic only (bool, option,
    unit, prod, list, sumbool, sumor to native OCaml types); N, Z, positive, nat stay the
    extracted inductive types; no Extract Constant of ours. *)
From Coq Require Import Extraction ExtrOcamlBasic.
From Lisp Require Import Run.
Extraction Language OCaml.
Extraction "model.ml" run_line.
