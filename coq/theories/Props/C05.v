(** C05 — reading never panics or hangs: every text yields an AST or an error. *)
From Lisp Require Import Base Value Core Scanner Reader ScannerProofs ReaderProofs Printer.
From Lisp.Gen Require Unicode.

(** Read_str (hence READ, the read-string builtin and the last step of READWithPreamble): for
    EVERY rune list — valid or invalid UTF-8 (an invalid byte is a rune above U+10FFFF),
    truncated anywhere — with or without module name, placeholder values and environment, the
    result is a value or an error: no panic (every slice/index/assertion of the reader is a
    checked primitive of the model) and no exhaustion of the model's fuel.  The Go constructor
    reached through «...» is assumed not to panic or diverge (it is a binder-wrapped builtin, C20). *)
Theorem C05_read_total : forall cm ph ext src,
  (forall f, ext = Some f -> forall n a, safe (f n a)) -> safe (read_str cm ph ext src).
Proof. exact read_str_total. Qed.

(** the scanner consumes at least one rune per token ... *)
Theorem C05_scan_progress : forall l, l <> [] -> (length (snd (fst (scan_token l))) < length l)%nat.
Proof. exact scan_token_progress. Qed.

(** ... so tokenize always ends because the input is exhausted: more fuel never changes its result *)
Theorem C05_tokenize_terminates : forall input extra,
  let l := match input with c :: r => if N.eqb c BOM then r else input | [] => [] end in
  tokenize_n (S (length input) + extra) input l false = tokenize input.
Proof. exact tokenize_fuel_irrelevant. Qed.

(** tokens have the shape the reader's unchecked slices rely on (a string token keeps both quotes ...) *)
Theorem C05_token_shapes : forall fuel whole l sb ts, tokenize_n fuel whole l sb = Some ts -> Forall tok_wf ts.
Proof. exact tokenize_n_wf. Qed.

(** the ASCII fast path of the letter/digit classes agrees with Go's unicode tables (generated) *)
Theorem C05_unicode_fast_path :
  forallb (fun c => Bool.eqb (is_letter c) (in_ranges c Unicode.letter_ranges)) (map N.of_nat (seq 0 170)) = true /\
  forallb (fun c => Bool.eqb (is_udigit c) (in_ranges c Unicode.digit_ranges)) (map N.of_nat (seq 0 1632)) = true.
Proof. exact fast_path_agrees. Qed.

(** PRINT is a structurally recursive total function of the value (stated for the record) *)
Example C05_print_total : forall readably v, exists s, pr_str readably v = s.
Proof. intros; eexists; reflexivity. Qed.

(** non-vacuity / regression witnesses of the repaired defects: reader macros at end of input,
    a placeholder without values, constructor brackets without environment *)
Example C05_witnesses :
  (exists e, read_str None None None (s_ "'") = Err e) /\
  (exists e, read_str None None None (s_ "(1 '") = Err e) /\
  read_str None None None (s_ "$x") = Ok VNil /\
  (exists e, read_str None None None [171%N; 187%N] = Err e).
Proof. repeat split; try (eexists; vm_compute; reflexivity). Qed.

Print Assumptions C05_read_total.
Print Assumptions C05_scan_progress.
Print Assumptions C05_tokenize_terminates.
Print Assumptions C05_token_shapes.
