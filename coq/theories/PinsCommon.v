(** Shared by the three pin files: the verdict of the lock-discipline analysis on a whole file. *)
From Lisp Require Import Base Lockset LocksetProofs Gen.ConcActions.
Local Open Scope nat_scope.

Definition toks (l : list String.string) : list str := map s_ l.

Definition final_table (shared : str -> bool) (fns : list (str * list str)) : list summary :=
  rounds (length fns) shared [] (map (fun p => (fst p, parse (snd p))) fns).

Definition all_fn_ok (shared : str -> bool) (fns : list (str * list str)) : bool :=
  let tbl := final_table shared fns in
  forallb (fun p => existsb (fun m => fn_ok shared tbl m (parse (snd p))) [MFree; MR; MW]) fns.

(** every function accepted: on every path its accesses to the shared fields are guarded *)
Theorem all_fn_ok_guarded shared fns : all_fn_ok shared fns = true ->
  forall name code, In (name, code) fns ->
  exists m, forall tr r, LocksetProofs.run (parse code) tr r ->
    accesses_guarded shared (final_table shared fns) (mkL m None) tr.
Proof.
  intros H name code Hin. unfold all_fn_ok in H.
  pose proof (proj1 (forallb_forall _ _) H (name, code) Hin) as Hp. cbn [snd] in Hp.
  apply existsb_exists in Hp. destruct Hp as (m & _ & Hm). exists m. intros tr r Hrun.
  eapply fn_ok_guarded; eauto.
Qed.

(** the functions of lib/concurrent/concurrent.go that other packages / the evaluator enter with nothing held *)
Definition conc_entry_points := toks ["Deref"; "LispPrint"; "Cancel"; "IsDone"; "IsCancelled"; "NewFuture"; "NewFuture_go";
                                      "swap_BANG"; "reset_BANG"; "future_call"; "future_cancel";
                                      "Load_lit1"; "Load_lit2"; "Load_lit3"; "Load_lit4"; "Load_lit5"; "Load_lit6"]%string.
