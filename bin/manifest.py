#!/usr/bin/env python3
"""regenerate MANIFEST.json's checks / not_applicable from bin/props.py (single source of truth)"""
import json, os, sys
ROOT = os.path.dirname(os.path.dirname(os.path.abspath(__file__)))
sys.path.insert(0, os.path.join(ROOT, "bin"))
from props import PROPS, NOT_CLAIMED
m = json.load(open(os.path.join(ROOT, "MANIFEST.json")))
m["checks"] = []
for pid in sorted(PROPS):
    s = PROPS[pid]
    m["checks"].append({
        "property_id": pid,
        "quick_cmd": "bin/check %s --tier quick" % pid,
        "thorough_cmd": "bin/check %s --tier thorough" % pid,
        "evidence_file": "evidence/%s.json" % pid,
        "replay_cmd_template": "cat {path}",
        "engine": "coq-model",
        "level_claimed": {"category": "proof", "text": s["level_text"], "design_ref": s.get("design_ref", "DESIGN.md §4 " + pid)},
        "level_note": s["level_note"],
        "technique": s["technique"],
    })
for e in m["engines"]:
    e["serves_properties"] = sorted(PROPS)
m["not_applicable"] = [{"property_id": p, "reason": r} for p, r in sorted(NOT_CLAIMED.items())]
json.dump(m, open(os.path.join(ROOT, "MANIFEST.json"), "w"), indent=1)
print("MANIFEST: %d checks, %d not claimed" % (len(m["checks"]), len(m["not_applicable"])))
