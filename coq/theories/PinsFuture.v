(** C10: the tie between the future model and lib/concurrent/concurrent.go. *)
From Lisp Require Import Base Lockset LocksetProofs ConcFuture Paths PinsCommon Gen.ConcActions.
Local Open Scope nat_scope.

(** ---- futures: ConcFuture.body_step / caller_step follow these path sets (Paths.fn_paths) ---- *)
Definition future_go_paths : list (list pev) :=
  [ [tk "Apply"; PLock; wr "Done"; PUnlock; tk "Send:f.ErrChan"]; [tk "Apply"; PLock; wr "Done"; PUnlock; tk "Send:f.ValChan"] ].
Definition future_deref_paths : list (list pev) :=
  [ [tk "Recv:ctx.Done()"]; [tk "Recv:f.ErrChan"; tk "Send:f.ErrChan"]; [tk "Recv:f.ValChan"; tk "Send:f.ValChan"] ].
Definition future_cancel_paths : list (list pev) :=
  [ [PLock; rd "Done"; wr "Cancelled"; wr "Done"; tk "CallCancel"; rd "Cancelled"; PUnlock];
    [PLock; rd "Done"; rd "Cancelled"; PUnlock] ].
Definition is_done_paths : list (list pev) := [ [PLock; rd "Done"; PUnlock] ].
Definition is_cancelled_paths : list (list pev) := [ [PLock; rd "Cancelled"; PUnlock] ].
Definition new_future_paths : list (list pev) := [ [tk "Go"] ].

Lemma future_go_actions : same_paths (fn_paths conc_NewFuture_go) future_go_paths = true. Proof. vm_compute. reflexivity. Qed.
Lemma future_deref_actions : same_paths (fn_paths conc_Future_Deref) future_deref_paths = true. Proof. vm_compute. reflexivity. Qed.
Lemma future_cancel_actions : same_paths (fn_paths conc_Future_Cancel) future_cancel_paths = true. Proof. vm_compute. reflexivity. Qed.
Lemma is_done_actions : same_paths (fn_paths conc_Future_IsDone) is_done_paths = true. Proof. vm_compute. reflexivity. Qed.
Lemma is_cancelled_actions : same_paths (fn_paths conc_Future_IsCancelled) is_cancelled_paths = true. Proof. vm_compute. reflexivity. Qed.
Lemma new_future_actions : same_paths (fn_paths conc_NewFuture) new_future_paths = true. Proof. vm_compute. reflexivity. Qed.
(** the builtins future-cancelled? / future-done? / future-cancel go through the locked accessors (the translator
    expands straight-line accessors in place: what the builtins do is the accessor's locked read) *)
Lemma status_builtins_actions :
  same_paths (fn_paths conc_Load_lit4) is_cancelled_paths = true /\
  same_paths (fn_paths conc_Load_lit5) is_done_paths = true /\
  same_paths (fn_paths conc_future_cancel) [[own "Cancel"]] = true.
Proof. repeat split; vm_compute; reflexivity. Qed.

Definition flags_shared (f : str) : bool := str_eqb f (s_ "Done") || str_eqb f (s_ "Cancelled").

Lemma future_discipline : discipline flags_shared conc_all conc_entry_points = true.
Proof. vm_compute. reflexivity. Qed.
Lemma future_all_fn_ok : all_fn_ok flags_shared conc_all = true.
Proof. vm_compute. reflexivity. Qed.
