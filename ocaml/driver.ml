(* Glue only: read one case per line from stdin, hand its bytes to the extracted
   Coq function run_line, print the resulting bytes.  All parsing, evaluation and
   canonical printing happen inside the extracted model. *)
open Model (* note: Model shadows string/char with Coq's; use Stdlib.* explicitly *)

let rec pos_of_int (i : int) : positive =
  if i = 1 then XH
  else if i land 1 = 0 then XO (pos_of_int (i lsr 1))
  else XI (pos_of_int (i lsr 1))

let n_of_int (i : int) : n = if i = 0 then N0 else Npos (pos_of_int i)

let rec int_of_pos (p : positive) : int =
  match p with XH -> 1 | XO q -> 2 * int_of_pos q | XI q -> 2 * int_of_pos q + 1

let int_of_n (x : n) : int = match x with N0 -> 0 | Npos p -> int_of_pos p

let bytes_of_line (s : Stdlib.String.t) : n list =
  let l = ref [] in
  for i = Stdlib.String.length s - 1 downto 0 do l := n_of_int (Stdlib.Char.code (Stdlib.String.get s i)) :: !l done;
  !l

let string_of_bytes (l : n list) : Stdlib.String.t =
  let b = Buffer.create 64 in
  Stdlib.List.iter (fun x -> Buffer.add_char b (Stdlib.Char.chr ((int_of_n x) land 255))) l;
  Buffer.contents b

let () =
  try
    while true do
      let line = input_line stdin in
      print_string (string_of_bytes (run_line (bytes_of_line line)));
      print_newline ()
    done
  with End_of_file -> ()
