package main

import (
	"context"
	"fmt"
	"os"
	"path/filepath"
	"strings"

	lisp "github.com/jig/lisp"
	"github.com/jig/lisp/types"
	"github.com/jig/scanner"
	. "verif.local/harness/h"
)

func init() { runners["C19"] = runC19 }

// tokenTexts splits a text into its token texts with the real scanner
func tokenTexts(src string) []string {
	var s scanner.Scanner
	s.Init(strings.NewReader(src))
	var out []string
	for tok := s.Scan(); tok != scanner.EOF; tok = s.Scan() {
		out = append(out, s.TokenText())
	}
	return out
}

// relayout re-renders a text with the same tokens and random blanks, newlines, CRLF, comments
func relayout(r *Rng, src string, hist map[string]int) string {
	ts := tokenTexts(src)
	var b strings.Builder
	if r.Intn(4) == 0 {
		b.WriteString("; leading comment ( \"\n\n")
		hist["leading-comment"]++
	}
	for i, t := range ts {
		if i > 0 {
			switch r.Intn(9) {
			case 0:
				b.WriteString("\n")
			case 1:
				b.WriteString("\r\n")
				hist["crlf"]++
			case 2:
				b.WriteString(" ; comment ) ] \"\n")
				hist["comment-between-tokens"]++
			case 3:
				b.WriteString("\n\n\t")
				hist["blank-line"]++
			default:
				b.WriteString(" ")
			}
		}
		b.WriteString(t)
	}
	switch r.Intn(4) {
	case 0:
		b.WriteString(" ; trailing comment without final newline")
		hist["trailing-comment-no-newline"]++
	case 1:
		b.WriteString("\n")
	case 2:
		b.WriteString("\r\n")
	}
	return b.String()
}

// posLine: the position part of the model's op E line
func posLine(o Outcome) string {
	if o.Err != nil {
		if p, ok := o.Err.(interface{ Position() *types.Position }); ok && p.Position() != nil {
			m := 0
			if p.Position().Module != nil {
				m = 1
			}
			return fmt.Sprintf("p %d %d %d ", m, p.Position().BeginRow, p.Position().Row)
		}
	}
	return "p - "
}

// evalText: READ (optionally under module "mod") then EVAL in a fresh world; returns the op-E line
func evalText(src string, module bool) (string, string, Outcome) {
	w, _ := NewWorld()
	var cur *types.Position
	if module {
		cur = types.NewCursorFile("mod")
	}
	o := Guard(func() (types.MalType, error) {
		ast, err := lisp.READ(src, cur, w.Env)
		if err != nil {
			return nil, fmt.Errorf("READERR: %w", err)
		}
		return lisp.EVAL(context.Background(), ast, w.Env)
	})
	if o.Err != nil && strings.HasPrefix(o.Err.Error(), "READERR") {
		return "READERR", "READERR", o
	}
	core := outcomeLine(o) + "| " + EncS(types.List{Val: w.Trace})
	return core, core + "| " + posLine(o), o
}

// errText: the error as a value, rendered position-free (the thrown object, or the message of a Go error)
func errText(o Outcome) string {
	if o.Err == nil {
		return ""
	}
	if ev, ok := o.Err.(interface{ ErrorValue() types.MalType }); ok {
		switch v := ev.ErrorValue().(type) {
		case error:
			return "go-error: " + v.Error()
		default:
			return "thrown: " + Show(v)
		}
	}
	return "go-error: " + o.Err.Error()
}

func runC19(tier string, seed uint64, rep *Report) {
	rep.Rule = "programs of the C01 generator (special forms, closures, recursion, builtin calls, errors) and macro programs, each delivered by seven routes in fresh " +
		"environments: the position-less AST built from Go (L-notation), its printed form re-read without module, re-read with a module name, re-rendered with random " +
		"layout (comments containing brackets and quotes between tokens, blank lines, CRLF, leading comment, trailing comment without final newline), as one `do`, " +
		"form by form through REPL, and load-file from a temp file. Direct oracle: all routes give the same result / error payload and the same ordered trace " +
		"(load-file: same trace, value nil). The text routes are also compared with the model (read then eval). Non-trivial: the program has at least two top-level forms or an effect."
	g := NewPG(NewRng(seed))
	hist := map[string]int{}
	n, depth := 300, 5
	if tier == "thorough" {
		n, depth = 8000, 7
	}
	tmp, _ := os.MkdirTemp("", "c19")
	defer os.RemoveAll(tmp)
	for i := 0; i < n; i++ {
		// a program = 1..4 top-level forms
		k := 1 + g.R.Intn(4)
		forms := make([]types.MalType, k)
		for j := range forms {
			if g.R.Intn(5) == 0 {
				forms[j] = Call("def", S(fmt.Sprintf("top%d", j)), g.Program(2+g.R.Intn(depth-1)))
			} else {
				forms[j] = g.Program(2 + g.R.Intn(depth-1))
			}
		}
		whole := types.List{Val: append([]types.MalType{S("do")}, forms...)}
		nontrivial := k >= 2
		// route 1: AST
		line1, o1, w1 := runProgram(whole)
		idx := rep.Add("P "+EncS(whole), line1, "AST "+Show(whole), nontrivial, "route:ast")
		ref := line1
		check := func(name, got, replay string) {
			if got != ref {
				rep.Violate(idx, fmt.Sprintf("route %q gives %q, the AST route gives %q", name, got, ref), replay)
			}
		}
		// the TEXT of the error (what catch binds, what str prints) must not depend on the route either: no
		// module name, file name, row or column may leak into it
		refText := errText(o1)
		checkText := func(name string, o Outcome, replay string) {
			if o1.Err != nil && o.Err != nil && errText(o) != refText {
				rep.Violate(idx, fmt.Sprintf("route %q: the error value reads %q, by the AST route %q: the delivery leaks into the error", name, errText(o), refText), replay)
			}
		}
		_ = w1
		// routes 2-4: text
		text := lisp.PRINT(whole)
		for _, rt := range []struct {
			name   string
			src    string
			module bool
		}{{"reread", text, false}, {"reread+module", text, true}, {"layout", relayout(g.R, text, hist), false}, {"layout+module", relayout(g.R, text, hist), true}} {
			core, full, o := evalText(rt.src, rt.module)
			md := "0 "
			if rt.module {
				md = "1 "
			}
			ci := rep.Add("E "+md+encSrc(rt.src), full, fmt.Sprintf("%s: %q", rt.name, rt.src), nontrivial, "route:"+rt.name)
			if o.Panic != nil {
				rep.Violate(ci, fmt.Sprintf("panic: %v", o.Panic), fmt.Sprintf("%q", rt.src))
			}
			check(rt.name, core, fmt.Sprintf("%q", rt.src))
			checkText(rt.name, o, fmt.Sprintf("%q", rt.src))
		}
		// route 5: form by form through REPL (the value of the last form, printed)
		{
			w, _ := NewWorld()
			var last types.MalType
			var lastErr error
			for _, f := range forms {
				res, err := lisp.REPL(context.Background(), w.Env, lisp.PRINT(f), types.NewCursorFile("REPL"))
				last, lastErr = res, err
				if err != nil {
					break
				}
			}
			got := ""
			if lastErr != nil {
				got = "E " + EncS(lastErr) + "| " + EncS(types.List{Val: w.Trace})
			} else {
				got = "S " + fmt.Sprint(last) + "| " + EncS(types.List{Val: w.Trace})
			}
			want := ref
			if o1.Err == nil && o1.Panic == nil {
				want = "S " + lisp.PRINT(o1.Val) + "| " + strings.SplitN(ref, "| ", 2)[1]
			}
			hist["route:repl"]++
			if got != want && !HasMultiMap(o1.Val) {
				rep.Violate(idx, fmt.Sprintf("feeding the forms one by one to REPL gives %q, the single `do` gives %q", got, want), Show(whole))
			}
		}
		// route 7: load-file (value nil by construction, same effects)
		{
			var b strings.Builder
			for j, f := range forms {
				t := relayout(g.R, lisp.PRINT(f), hist)
				if j < len(forms)-1 && !strings.HasSuffix(t, "\n") {
					t += "\n" // only the LAST line of the file may end in a comment without final newline
				}
				b.WriteString(t)
			}
			path := filepath.Join(tmp, fmt.Sprintf("prog%d.lisp", i))
			os.WriteFile(path, []byte(b.String()), 0o644)
			w, _ := NewWorld()
			o := w.Eval(context.Background(), Call("load-file", path))
			got := outcomeLine(o) + "| " + EncS(types.List{Val: w.Trace})
			want := ref
			if o1.Err == nil && o1.Panic == nil {
				want = "V n | " + strings.SplitN(ref, "| ", 2)[1]
			}
			hist["route:load-file"]++
			if got != want {
				rep.Violate(idx, fmt.Sprintf("load-file gives %q, the single `do` gives %q (file %q)", got, want, b.String()), Show(whole))
			}
		}
	}
	mergeHist(rep, g.Hist)
	for k, v := range hist {
		rep.Histogram[k] += v
	}
}
