package main

import (
	"os"
	"path/filepath"
	"context"
	"fmt"
	"strings"
	"time"

	lisp "github.com/jig/lisp"
	"github.com/jig/lisp/types"
	. "verif.local/harness/h"
)

func init() { runners["C07"] = runC07 }

// runCancellable evaluates ast in a fresh world under a cancellable context; (cancel!) inside the
// program cancels that context. Returns the canonical line of model op C.
func runCancellable(ast types.MalType) (string, Outcome) {
	w, err := NewWorld()
	if err != nil {
		panic(err)
	}
	ctx, cancel := context.WithCancel(context.Background())
	defer cancel()
	w.Cancel = cancel
	w.TraceLimit = 3000 // a program that runs on after its cancellation is stopped here, not by the Go stack limit
	done := make(chan Outcome, 1)
	go func() { done <- w.Eval(ctx, ast) }()
	select {
	case o := <-done:
		return outcomeLine(o) + "| " + EncS(types.List{Val: w.TraceSnapshot()}), o
	case <-time.After(20 * time.Second):
		return "HANG | ", Outcome{}
	}
}

// self-cancelling never-ending programs: iteration K cancels the context
func c07Loops(r *Rng, hist map[string]int) (types.MalType, int) {
	k := 1 + r.Intn(12)
	src := ""
	switch r.Intn(6) {
	case 0:
		hist["shape:tail-loop"]++
		src = fmt.Sprintf("(do (def lp (fn [n] (do (trace! n) (if (= n %d) (cancel!)) (lp (+ n 1))))) (lp 0))", k)
	case 1:
		hist["shape:non-tail-recursion"]++
		src = fmt.Sprintf("(do (def rc (fn [n] (do (trace! n) (if (= n %d) (cancel!)) (+ 1 (rc (+ n 1)))))) (rc 0))", k)
	case 2:
		hist["shape:tree-recursion"]++
		src = fmt.Sprintf("(do (def tr (fn [n] (do (trace! n) (if (= n %d) (cancel!)) (+ (tr (+ n 1)) (tr (+ n 2)))))) (tr 0))", k)
	case 3:
		hist["shape:macro-recursion"]++
		src = fmt.Sprintf("(do (defmacro mm (fn [n] (do (trace! n) (if (= n %d) (cancel!)) (list 'mm (+ n 1))))) (mm 0))", k)
	case 4:
		hist["shape:loop-in-handler"]++
		src = fmt.Sprintf("(do (def lp (fn [n] (do (trace! n) (if (= n %d) (cancel!)) (lp (+ n 1))))) (try (throw 1) (catch e (lp 0)) (finally (trace! :finally) (lp 100))))", k)
	default:
		hist["shape:nested-try-handlers-loop-again"]++
		src = fmt.Sprintf("(do (def lp (fn [n] (do (trace! n) (if (= n %d) (cancel!)) (lp (+ n 1))))) (try (try (lp 0) (catch e (do (trace! :inner) (lp 50))) (finally (lp 60))) (catch e2 (do (trace! :outer) (lp 70))) (finally (trace! :f2) (lp 80))))", k)
	}
	w, _ := NewWorld()
	ast, err := READ(w, src)
	if err != nil {
		panic("harness: " + src + ": " + err.Error())
	}
	return StripPos(ast), k
}

// ---- real time: programs that never end or block, a deadline or a cancel from outside ----
type c07Timed struct{ tag, src string; wantTimeoutError, handlerMustRun bool }

var c07TimedShapes = []c07Timed{
	{"timed:tail-loop", "(do (def lp (fn [n] (lp (+ n 1)))) (lp 0))", true, false},
	// depth-bounded inner recursion, repeated by an outer non-tail recursion (no evaluation loop turns twice): never ends in practice, never overflows the Go stack
	{"timed:non-tail-recursion", "(do (def rc (fn [n] (if (> n 1500) 0 (+ 1 (rc (+ n 1)))))) (def again (fn [k] (if (> k 1000000) 0 (+ (rc 0) (again (+ k 1)))))) (again 0))", true, false},
	{"timed:tree-recursion", "(do (def tr (fn [n] (if (> n 22) 1 (+ (tr (+ n 1)) (tr (+ n 1)))))) (def lp (fn [] (do (tr 0) (lp)))) (lp))", true, false},
	{"timed:macro-recursion", "(do (defmacro mm (fn [n] (list 'mm (+ n 1)))) (mm 0))", true, false},
	{"timed:sleep", "(sleep 100000)", true, false},
	{"timed:deref-sleeping-future", "@(future (sleep 100000))", true, false},
	{"timed:deref-looping-future", "(do (def lp (fn [n] (lp (+ n 1)))) @(future (lp 0)))", true, false},
	{"timed:handler-runs-then-loops", "(do (def lp (fn [n] (lp (+ n 1)))) (try (sleep 100000) (catch e (do (trace! :handler) (lp 0)))))", false, true},
	{"timed:handler-sleeps-again", "(try (sleep 100000) (catch e (do (trace! :handler) (sleep 100000))) (finally (sleep 100000)))", false, true},
	{"timed:nested-try-all-loop", "(do (def lp (fn [n] (lp (+ n 1)))) (try (try (lp 0) (catch e (lp 0)) (finally (lp 0))) (catch e (lp 0)) (finally (lp 0))))", false, false},
	{"timed:tree-recursion-in-handler", "(do (def tr (fn [n] (if (> n 40) 1 (+ (tr (+ n 1)) (tr (+ n 1)))))) (try (throw 1) (catch e (try (tr 0) (catch e2 (tr 0))))))", false, false},
	{"timed:atom-read-behind-busy-future", "(do (def a (atom 0)) (def f (future (swap! a (fn [x] (do (sleep 100000) x))))) (sleep 5) @a)", false, false},
	{"timed:map-over-sleeps", "(map (fn [x] (sleep 100000)) [1 2 3])", true, false},
	// the never-ending part is reached through eval / read-string / load-file: the caller's context must travel along
	{"timed:loop-through-eval", "(eval '(do (def lp (fn [n] (lp (+ n 1)))) (lp 0)))", true, false},
	{"timed:sleep-through-eval-read-string", "(eval (read-string \"(sleep 100000)\"))", true, false},
	{"timed:handler-re-enters-eval", "(try (throw 1) (catch e (eval '(sleep 100000))))", true, false},
	{"timed:loop-through-load-file", "(load-file \"@LOOPFILE@\")", true, false},
	// a future created by an EARLIER evaluation (under no deadline) and dereferenced by this one
	{"timed:deref-future-of-an-earlier-evaluation", "@earlier", true, false},
	{"timed:deref-earlier-future-inside-try", "(try @earlier (catch e (do (trace! :handler) @earlier)))", false, true},
}

func runC07(tier string, seed uint64, rep *Report) {
	rep.Rule = "(A, exact, vs the model's op C) programs of the C01 generator in which one expression in 12 is preceded by (cancel!) — a harness builtin cancelling the context of the running evaluation — and " +
		"never-ending programs that cancel themselves at iteration K (tail loop, non-tail, tree and macro recursion, loops inside catch handlers and finally bodies, nested try whose handlers loop again): result and ordered trace must be " +
		"exactly what the model computes with the poll at the top of every iteration; a model answer of out-of-fuel counts as disagreement. " +
		"(B, wall clock, direct oracle) never-ending / blocking shapes (the same families plus sleep, deref of a sleeping or looping future, an atom read behind a future that holds the atom, map over sleeps, handlers that loop or sleep again) " +
		"under a deadline or an outside cancel at a random instant: lisp.EVAL must return within 400 ms of the deadline, with an error mentioning a timeout where nothing can catch it, the handler's trace where one must run, " +
		"and futures started by the program must stop tracing once their creator was cancelled. Non-trivial: the program reaches the cancellation (A) / every timed run (B)."
	r := NewRng(seed)
	g := NewPG(r)
	g.CancelOdds = 12
	nA, nB := 500, 4
	if tier == "thorough" {
		nA, nB = 12000, 20
	}
	for i := 0; i < nA; i++ {
		var prog types.MalType
		loopK := -1
		if i%3 == 2 {
			prog, loopK = c07Loops(r, rep.Histogram)
		} else {
			prog = g.Program(2 + r.Intn(4))
		}
		line, o := runCancellable(prog)
		reached := strings.Contains(Show(prog), "cancel!")
		idx := rep.Add("C "+EncS(prog), line, Show(prog), reached, "outcome:"+outcomeKind(line))
		if o.Panic != nil {
			rep.Violate(idx, fmt.Sprintf("a Go panic escaped from EVAL under a cancellable context: %v", o.Panic), Show(prog))
		}
		if strings.HasPrefix(line, "HANG") {
			rep.Violate(idx, "EVAL did not return within 20s although the program cancels its own context", Show(prog))
			emergencyFlush(rep)
		}
		if loopK >= 0 {
			// the program traces its iteration number and cancels its context in iteration K: nothing may be traced after K
			var want []types.MalType
			for n := 0; n <= loopK; n++ {
				want = append(want, n)
			}
			wantLine := "| " + EncS(types.List{Val: want})
			if !strings.HasSuffix(line, wantLine) || !strings.HasPrefix(line, "E") {
				rep.Violate(idx, fmt.Sprintf("the evaluation went on after its context was cancelled in iteration %d: it must end with the timeout error having traced 0..%d, got %s", loopK, loopK, line), Show(prog))
			}
		}
	}
	mergeHist(rep, g.Hist)
	// ---- B
	const bound = 400 * time.Millisecond
	tmp, err := os.MkdirTemp("", "c07files")
	if err != nil {
		panic(err)
	}
	defer os.RemoveAll(tmp)
	loopFile := filepath.Join(tmp, "loop.lisp")
	if err := os.WriteFile(loopFile, []byte("(def lp (fn [n] (lp (+ n 1))))\n(lp 0)\n"), 0o644); err != nil {
		panic(err)
	}
	for round := 0; round < nB; round++ {
		for si, sh := range c07TimedShapes {
			w, _ := NewWorld()
			if round%2 == 1 {
				// the environment is not fresh: an earlier evaluation under a context that is still alive used the same builtins
				rep.Histogram["timed:environment-used-before-under-a-live-context"]++
				if o := w.EvalText(context.Background(), "(do (sleep 1) @(future 1) (map (fn [x] x) [1]) (apply + [1 2]) (swap! (atom 1) (fn [x] x)) (update {:a 1} :a (fn [x] x)) (update-in {:a 1} [:a] (fn [x] x)) (try (sleep 1) (catch e e)))"); o.Err != nil || o.Panic != nil {
					panic(fmt.Sprint("harness: warm-up failed: ", o.Err, o.Panic))
				}
			}
			src := strings.ReplaceAll(sh.src, "@LOOPFILE@", loopFile)
			if strings.Contains(src, "earlier") {
				// an evaluation under context.Background() leaves a sleeping future behind
				if o := w.EvalText(context.Background(), "(def earlier (future (sleep 100000)))"); o.Err != nil || o.Panic != nil {
					panic(fmt.Sprint("harness: ", o.Err, o.Panic))
				}
				defer w.EvalText(context.Background(), "(future-cancel earlier)")
			}
			ast, err := lisp.READ(src, nil, w.Env)
			if err != nil {
				panic("harness: " + src + ": " + err.Error())
			}
			d := time.Duration(40+r.Intn(120)) * time.Millisecond
			// how the context ends: its own deadline; an outside cancel with no deadline at all; an outside cancel
			// while a far-away deadline is also set; the cancellation of a parent context
			mode := []string{"deadline", "outside cancel", "outside cancel under a far deadline", "parent cancelled"}[(si+round)%4] // every shape meets every mode within four rounds
			byDeadline := mode == "deadline"
			var ctx context.Context
			var cancel context.CancelFunc
			switch mode {
			case "deadline":
				ctx, cancel = context.WithTimeout(context.Background(), d)
			case "outside cancel":
				ctx, cancel = context.WithCancel(context.Background())
				time.AfterFunc(d, cancel)
			case "outside cancel under a far deadline":
				ctx, cancel = context.WithTimeout(context.Background(), time.Hour)
				time.AfterFunc(d, cancel)
			default:
				parent, pcancel := context.WithCancel(context.Background())
				child, ccancel := context.WithTimeout(parent, time.Hour)
				ctx, cancel = child, func() { pcancel(); ccancel() }
				time.AfterFunc(d, pcancel)
			}
			start := time.Now()
			done := make(chan Outcome, 1)
			go func() { done <- w.Eval(ctx, ast) }()
			desc := fmt.Sprintf("%s  under %s after %v", sh.src, mode, d)
			rep.Histogram[sh.tag]++
			rep.Histogram["timed:"+mode]++
			var o Outcome
			select {
			case o = <-done:
			case <-time.After(d + 3*time.Second):
				cancel()
				idx := rep.Add("C n", "V n | l 0 ", desc, true)
				rep.Violate(idx, fmt.Sprintf("lisp.EVAL was still running 3s after its context ended (%s after %v)", mode, d), desc)
				emergencyFlush(rep)
			}
			took := time.Since(start)
			cancel()
			idx := rep.Add("C n", "V n | l 0 ", desc, true)
			over := took - d
			if over > bound {
				rep.Violate(idx, fmt.Sprintf("lisp.EVAL returned %v after its context ended (bound %v)", over, bound), desc)
			}
			if over > time.Duration(rep.extraDur("max_overrun_ns")) {
				rep.Extra["max_overrun_ns"] = int64(over)
			}
			if sh.wantTimeoutError {
				if o.Err == nil || !strings.Contains(o.Err.Error(), "timeout") {
					rep.Violate(idx, fmt.Sprintf("lisp.EVAL returned %s instead of a timeout error after its context ended", d2o(o)), desc)
				}
			}
			if sh.handlerMustRun && byDeadline {
				ran := false
				for _, v := range w.TraceSnapshot() {
					if s, ok := v.(string); ok && s == Kw("handler") {
						ran = true
					}
				}
				if !ran {
					// the handler has 20% of the budget to START: with the short deadlines used above that is a few
					// milliseconds, which a loaded machine can eat. The verdict is taken on a second run with a 3 s deadline
					// (600 ms for the handler to start)
					w2, _ := NewWorld()
					src2 := strings.ReplaceAll(sh.src, "@LOOPFILE@", loopFile)
					if strings.Contains(src2, "earlier") {
						w2.EvalText(context.Background(), "(def earlier (future (sleep 100000)))")
						defer w2.EvalText(context.Background(), "(future-cancel earlier)")
					}
					ctx2, cancel2 := context.WithTimeout(context.Background(), 3*time.Second)
					w2.EvalText(ctx2, src2)
					cancel2()
					ran2 := false
					for _, v := range w2.TraceSnapshot() {
						if s, ok := v.(string); ok && s == Kw("handler") {
							ran2 = true
						}
					}
					rep.Histogram["timed:handler-verdict-retried"]++
					if !ran2 {
						rep.Violate(idx, "the timeout raised inside the try body (80% of the budget) was not handed to the catch handler before the deadline (also with a 3 s deadline)", desc)
					}
				}
			}
		}
		// a future started by the program is cancelled with its creator
		{
			w, _ := NewWorld()
			src := "(do (def lp (fn [n] (do (trace! n) (lp (+ n 1))))) (def f (future (lp 0))) (sleep 100000))"
			ctx, cancel := context.WithTimeout(context.Background(), 60*time.Millisecond)
			w.EvalText(ctx, src)
			cancel()
			time.Sleep(100 * time.Millisecond)
			n1 := len(w.TraceSnapshot())
			time.Sleep(100 * time.Millisecond)
			n2 := len(w.TraceSnapshot())
			rep.Histogram["timed:future-stops-with-creator"]++
			idx := rep.Add("C n", "V n | l 0 ", src, true)
			if n2 != n1 {
				rep.Violate(idx, fmt.Sprintf("a future started by the program was still evaluating its body (%d more iterations in 100ms) after the creator's context had ended", n2-n1), src+"  under a 60ms deadline")
			}
		}
	}
}

func (r *Report) extraDur(k string) int64 {
	if v, ok := r.Extra[k].(int64); ok {
		return v
	}
	return 0
}

func d2o(o Outcome) string {
	if o.Panic != nil {
		return fmt.Sprint("panic ", o.Panic)
	}
	if o.Err != nil {
		return "error " + o.Err.Error()
	}
	return Show(o.Val)
}
