(** Entry point of the extracted model driver: one case line in, one result line out.
    The first token selects the operation. *)
From Lisp Require Import Wire Equal Boot Binder Arena Scanner Reader Printer Preamble RunConc.


Definition run_equal (ts : list tok) : list N :=
  match parse_values 2 ts with
  | Some ([a; b], []) =>
      match equalI a b with
      | Some true => s_ "T"
      | Some false => s_ "F"
      | None => s_ "P"
      end
  | _ => bad
  end.

(** outcome line: "V <value>" | "E <error value>" | "P" | "O" (out of fuel) *)
Definition show_outcome (o : outcome val) : list N :=
  match o with
  | Ok v => s_ "V " ++ show_val v
  | Err e => s_ "E " ++ show_val e
  | Panic _ => s_ "P "
  | OutOfFuel => s_ "O "
  end.

Definition RUN_FUEL : nat := 20000.

(** P <ast>: evaluate a position-less AST in a fresh initial environment;
    output: outcome | trace (oldest first) *)
Definition observe (ast : val) : list N :=
  let '(o, st) := eval RUN_FUEL 1 ast ROOT init_state in
  show_outcome o ++ s_ "| " ++ show_val (VList (rev (trace st)) None).

(** C <ast>: the same with a context: the harness builtin (cancel!) cancels it from inside the program *)
Definition observe_c (ast : val) : list N :=
  let '(o, st) := eval_c RUN_FUEL 1 ast ROOT init_state in
  show_outcome o ++ s_ "| " ++ show_val (VList (rev (trace st)) None).

Definition run_program_c (ts : list tok) : list N :=
  match parse_value ts with
  | Some (ast, []) => observe_c ast
  | _ => bad
  end.

Definition run_program (ts : list tok) : list N :=
  match parse_value ts with
  | Some (ast, []) => observe ast
  | _ => bad
  end.

(** B <ctx> <nfixed> <ty..> <variadic> <nres> <ndecl> <decl..> <behaviour> <nargs> <args..>:
    one call through the reflective binder.  Output: R (registration panics) | A (count error)
    | T (type error) | C <outcome> (function entered) *)
Definition ty_of_code (z : Z) : ty :=
  if Z.eqb z 1 then TAny else if Z.eqb z 2 then TInt else if Z.eqb z 3 then TString
  else if Z.eqb z 4 then TVector else if Z.eqb z 5 then TBool else TOtherTy.

Definition run_binder (ts : list tok) : list N :=
  match ts with
  | TNum ctx :: TNum nf :: r =>
      match take_zs (Z.to_nat nf) r with
      | Some (fx, TNum va :: TNum nres :: TNum nd :: r1) =>
          match take_zs (Z.to_nat nd) r1 with
          | Some (decl, TNum beh :: TNum na :: r2) =>
              match parse_values (Z.to_nat na) r2 with
              | Some (args, []) =>
                  let sg := mkSig (Z.eqb ctx 1) (map ty_of_code fx)
                                  (if Z.eqb va 0 then None else Some (ty_of_code va)) (Z.to_nat nres) in
                  match Binder.bind sg decl with
                  | RegPanic _ => s_ "R"
                  | Bound mn mx =>
                      match gate sg mn mx args with
                      | Err e => match e with VLispErr (VStr _) _ => s_ "T" | _ => s_ "A" end
                      | Ok _ =>
                          let f := fun a : list val =>
                            if Z.eqb beh 0 then Ok (VInt (Z.of_nat (length a)))
                            else if Z.eqb beh 1 then Err (VGoErr (s_ "c20 sentinel"))
                            else Panic (s_ "c20 sentinel") in
                          match invoke sg mn mx f args with
                          | Ok v => s_ "C V " ++ show_val v
                          | Err _ => s_ "C E"
                          | _ => s_ "P"
                          end
                      | _ => s_ "P"
                      end
                  end
              | _ => bad
              end
          | _ => bad
          end
      | _ => bad
      end
  | _ => bad
  end.

(** H <nops> <op>...: a history of collection operations run on the L1 arena machine
    (Arena.v) under Go's growth rule; output: the final reading of every register. *)
Definition go_grow_rule (cap need : nat) : nat := Nat.max need (2 * cap).

Definition parse_operand (ts : list tok) : option ((nat + val) * list tok) :=
  match ts with
  | TNum 0 :: TNum r :: rest => Some (inl (Z.to_nat r), rest)
  | TNum 1 :: rest => match parse_value rest with Some (v, rest') => Some (inr v, rest') | None => None end
  | _ => None
  end.

Fixpoint parse_operands (n : nat) (ts : list tok) : option (list (nat + val) * list tok) :=
  match n with
  | O => Some ([], ts)
  | S n' => match parse_operand ts with
            | Some (x, r) => match parse_operands n' r with Some (l, r') => Some (x :: l, r') | None => None end
            | None => None
            end
  end.

Fixpoint parse_kv_operands (n : nat) (ts : list tok) : option (list (str * (nat + val)) * list tok) :=
  match n with
  | O => Some ([], ts)
  | S n' => match parse_str ts with
            | Some (k, r) =>
                match parse_operand r with
                | Some (x, r1) => match parse_kv_operands n' r1 with Some (l, r') => Some ((k, x) :: l, r') | None => None end
                | None => None
                end
            | None => None
            end
  end.

Definition parse_op (ts : list tok) : option (op * list tok) :=
  match ts with
  | TNum 1 :: TNum n :: r => match parse_operands (Z.to_nat n) r with Some (l, r') => Some (OpLit l, r') | None => None end
  | TNum 2 :: TNum n :: r => match parse_kv_operands (Z.to_nat n) r with Some (l, r') => Some (OpLitMap l, r') | None => None end
  | TNum 3 :: TNum rg :: TNum n :: r => match parse_operands (Z.to_nat n) r with Some (l, r') => Some (OpConj (Z.to_nat rg) l, r') | None => None end
  | TNum 4 :: TNum rg :: TNum n :: r => match take_zs (Z.to_nat n) r with Some (l, r') => Some (OpConcat (Z.to_nat rg) (map Z.to_nat l), r') | None => None end
  | TNum 5 :: r => match parse_operand r with Some (x, TNum rg :: r') => Some (OpCons x (Z.to_nat rg), r') | _ => None end
  | TNum 6 :: TNum rg :: r => Some (OpRest (Z.to_nat rg), r)
  | TNum 7 :: TNum rg :: r => Some (OpVec (Z.to_nat rg), r)
  | TNum 8 :: TNum rg :: r => Some (OpSeq (Z.to_nat rg), r)
  | TNum 9 :: TNum rg :: r => Some (OpWithMeta (Z.to_nat rg), r)
  | TNum 10 :: TNum rg :: TNum a :: TNum b :: r => Some (OpSubvec (Z.to_nat rg) (Z.to_nat a) (Z.to_nat b), r)
  | TNum 11 :: TNum n :: TNum rg :: r => Some (OpTake (Z.to_nat n) (Z.to_nat rg), r)
  | TNum 12 :: TNum n :: TNum rg :: r => Some (OpDrop (Z.to_nat n) (Z.to_nat rg), r)
  | TNum 13 :: TNum rg :: r => match parse_str r with
                                | Some (k, r1) => match parse_operand r1 with Some (x, r') => Some (OpAssoc (Z.to_nat rg) k x, r') | None => None end
                                | None => None end
  | TNum 14 :: TNum rg :: TNum i :: r => match parse_operand r with Some (x, r') => Some (OpAssocVec (Z.to_nat rg) (Z.to_nat i) x, r') | None => None end
  | TNum 15 :: TNum rg :: TNum n :: r => match parse_strs (Z.to_nat n) r with Some (ks, r') => Some (OpDissoc (Z.to_nat rg) ks, r') | None => None end
  | TNum 16 :: TNum a :: TNum b :: r => Some (OpMerge (Z.to_nat a) (Z.to_nat b), r)
  | _ => None
  end.

Fixpoint parse_ops (n : nat) (ts : list tok) : option (list op * list tok) :=
  match n with
  | O => Some ([], ts)
  | S n' => match parse_op ts with
            | Some (o, r) => match parse_ops n' r with Some (l, r') => Some (o :: l, r') | None => None end
            | None => None
            end
  end.

Definition run_history_line (ts : list tok) : list N :=
  match ts with
  | TNum n :: r =>
      match parse_ops (Z.to_nat n) r with
      | Some (ops, []) =>
          let '(A, regs) := run_history go_grow_rule [] [] ops in
          s_ "V " ++ show_val (VList (map (abs 64 A) regs) None) ++ s_ "| l 0 "
      | _ => bad
      end
  | _ => bad
  end.

(** T <str>: tokenize; output X (invalid token) or, per token, "<kind> <text> <line>" *)
Definition kind_code (k : tkind) : Z :=
  match k with
  | KIdent => -2 | KInt => -3 | KFloat => -4 | KString => -5 | KKeyword => -6 | KRawString => -7
  | KChar c => Z.of_N c
  end.

Definition run_tokenize (ts : list tok) : list N :=
  match parse_str ts with
  | Some (src, []) =>
      match tokenize src with
      | None => s_ "X"
      | Some toks =>
          s_ "T " ++ concat (map (fun t => show_Z (kind_code (tkind_of t)) ++ sp ++ show_str (ttext t) ++ show_Z (tline t) ++ sp) toks)
      end
  | _ => bad
  end.

(** the REPL's continuation test looks for the exact message "expected 'X', got EOF" *)
Definition eof_closer (msg : str) : option N :=
  match msg with
  | 101 :: 120 :: 112 :: 101 :: 99 :: 116 :: 101 :: 100 :: 32 :: 39 :: c :: rest =>
      if str_eqb rest (s_ "', got EOF") then Some c else None
  | _ => None
  end%N.

Definition show_read_outcome (o : outcome val) : list N :=
  match o with
  | Ok v => s_ "V " ++ show_val v
  | Err e =>
      match e with
      | VLispErr (VGoErr msg) _ | VGoErr msg =>
          match eof_closer msg with Some c => s_ "Q " ++ show_Z (Z.of_N c) | None => s_ "E" end
      | _ => s_ "E"
      end
  | Panic _ => s_ "P"
  | OutOfFuel => s_ "O"
  end.

Fixpoint parse_phmap (n : nat) (ts : list tok) : option (list (str * val) * list tok) :=
  match n with
  | O => Some ([], ts)
  | S n' => match parse_str ts with
            | Some (k, r) =>
                match parse_value r with
                | Some (v, r1) => match parse_phmap n' r1 with Some (l, r') => Some ((k, v) :: l, r') | None => None end
                | None => None
                end
            | None => None
            end
  end.

(** R <module?> <ph: 0 | 1 n (name value)*> <env?> <str>: reader.Read_str *)
Definition std_ext : str -> list val -> outcome val :=
  fun _ _ => Err (VGoErr (s_ "constructor")).

Definition run_read (ts : list tok) : list N :=
  match ts with
  | TNum md :: TNum hasph :: r =>
      let ph_r := if Z.eqb hasph 0 then Some (None, r)
                  else match r with
                       | TNum n :: r' => match parse_phmap (Z.to_nat n) r' with Some (mp, r2) => Some (Some mp, r2) | None => None end
                       | _ => None
                       end in
      match ph_r with
      | Some (ph, TNum hasenv :: r3) =>
          match parse_str r3 with
          | Some (src, []) =>
              show_read_outcome (read_str (if Z.eqb md 0 then None else Some (s_ "mod")) ph
                                          (if Z.eqb hasenv 0 then None else Some std_ext) src)
          | _ => bad
          end
      | _ => bad
      end
  | _ => bad
  end.

(** W <val>: PRINT then READ.  Output: "<printed text as str> | <read outcome>"; the printed text
    is compared only when the harness says so (maps/sets of more than one entry print in Go's
    random order): flag 1 = compare text *)
Definition run_print_read (ts : list tok) : list N :=
  match ts with
  | TNum flag :: r =>
      match parse_value r with
      | Some (v, []) =>
          let txt := pr_str true v in
          (if Z.eqb flag 1 then show_str txt else s_ "- ") ++ s_ "| " ++ show_read_outcome (read_str None None None txt)
      | _ => bad
      end
  | _ => bad
  end.

(** X <str>: READ, PRINT, READ again.  Output: first outcome | second outcome *)
Definition run_read_print_read (ts : list tok) : list N :=
  match parse_str ts with
  | Some (src, []) =>
      let o1 := read_str None None None src in
      show_read_outcome o1 ++ s_ "| " ++
      match o1 with
      | Ok v => show_read_outcome (read_str None None None (pr_str true v))
      | _ => s_ "-"
      end
  | _ => bad
  end.

(** A <n> (name value)* <str>: AddPreamble then READWithPreamble; Y <module?> <env?> <str>: READWithPreamble *)
Definition run_add_preamble (ts : list tok) : list N :=
  match ts with
  | TNum n :: r =>
      match parse_phmap (Z.to_nat n) r with
      | Some (mp, r1) =>
          match parse_str r1 with
          | Some (src, []) => show_read_outcome (read_with_preamble None None (add_preamble src mp))
          | _ => bad
          end
      | None => bad
      end
  | _ => bad
  end.

Definition run_read_preamble (ts : list tok) : list N :=
  match ts with
  | TNum md :: TNum hasenv :: r =>
      match parse_str r with
      | Some (src, []) =>
          show_read_outcome (read_with_preamble (if Z.eqb md 0 then None else Some (s_ "mod"))
                                                (if Z.eqb hasenv 0 then None else Some std_ext) src)
      | _ => bad
      end
  | _ => bad
  end.

(** E <module?> <str>: READ (with or without module cursor) then EVAL in a fresh initial
    environment.  Output: outcome | trace | position of the error: "p <module?> <begin row> <end row>" or "p -" *)
Definition show_err_pos (o : outcome val) : list N :=
  match o with
  | Err (VLispErr _ (Some p)) =>
      s_ "p " ++ (match pmod p with Some _ => s_ "1 " | None => s_ "0 " end) ++ show_Z (brow p) ++ sp ++ show_Z (erow p) ++ sp
  | _ => s_ "p - "
  end.

Definition run_read_eval (ts : list tok) : list N :=
  match ts with
  | TNum md :: r =>
      match parse_str r with
      | Some (src, []) =>
          match read_str (if Z.eqb md 0 then None else Some (s_ "mod")) None None src with
          | Ok ast =>
              let '(o, st) := eval RUN_FUEL 1 ast ROOT init_state in
              show_outcome o ++ s_ "| " ++ show_val (VList (rev (trace st)) None) ++ s_ "| " ++ show_err_pos o
          | Err _ => s_ "READERR"
          | Panic _ => s_ "P"
          | OutOfFuel => s_ "O"
          end
      | _ => bad
      end
  | _ => bad
  end.

(** D <n> <cmd>* <ast>: evaluate with a Stepper whose callback returns the given commands in order
    (0 NoOp, 1 Next, 2 In, 3 Out; NoOp when exhausted).  Output: outcome | trace | forms handed to the callback *)
Definition cmd_of (z : Z) : dcmd :=
  if Z.eqb z 0 then CNoOp else if Z.eqb z 1 then CNext else if Z.eqb z 2 then CIn else if Z.eqb z 3 then COut else CBad.

Definition run_stepper (ts : list tok) : list N :=
  match ts with
  | TNum n :: r =>
      match take_zs (Z.to_nat n) r with
      | Some (cs, r1) =>
          match parse_value r1 with
          | Some (ast, []) =>
              let st0 := set_dbg init_state (Some (mkDbg false false false (map cmd_of cs) [])) in
              let '(o, st) := eval_dbg RUN_FUEL 1%nat ast ROOT st0 in
              show_outcome o ++ s_ "| " ++ show_val (VList (rev (trace st)) None) ++ s_ "| " ++
              match dbg st with
              | Some g => show_val (VList (map fst (rev (dlog g))) None)
              | None => s_ "-"
              end
          | _ => bad
          end
      | None => bad
      end
  | _ => bad
  end.

Definition run_tokens (ts : list tok) : list N :=
  match ts with
  | TTag c :: r =>
      if N.eqb c (tagc "Q") then run_equal r
      else if N.eqb c (tagc "P") then run_program r
      else if N.eqb c (tagc "B") then run_binder r
      else if N.eqb c (tagc "H") then run_history_line r
      else if N.eqb c (tagc "T") then run_tokenize r
      else if N.eqb c (tagc "R") then run_read r
      else if N.eqb c (tagc "W") then run_print_read r
      else if N.eqb c (tagc "A") then run_add_preamble r
      else if N.eqb c (tagc "E") then run_read_eval r
      else if N.eqb c (tagc "D") then run_stepper r
      else if N.eqb c (tagc "Y") then run_read_preamble r
      else if N.eqb c (tagc "X") then run_read_print_read r
      else if N.eqb c (tagc "C") then run_program_c r
      else if N.eqb c (tagc "N") then run_atoms_history r
      else if N.eqb c (tagc "F") then run_future_history r
      else bad
  | _ => bad
  end.

Definition run_line (bs : list N) : list N := run_tokens (lex_line bs).
