(** C17 — runtime errors point at the failing form. *)
From Lisp Require Import Base Value Core Binder Env Eval Interp EvalProofs Scanner Reader Run.

(** an error that already knows in which module it happened is never moved to the form that
    merely propagates it (fix 687c337): the position of a fault inside a function body survives
    the builtin (map, apply, swap!, eval ...) through which the function was called *)
Theorem C17_module_position_is_kept : forall payload c q,
  has_module c = true -> new_lisp_error (VLispErr payload c) q = VLispErr payload c.
Proof. exact new_lisp_error_keeps_module_position. Qed.

(** an error without a module position (a thrown value, a failed assert, a failing builtin, a
    reader error of read-string on anonymous text) is positioned at the call form *)
Theorem C17_anonymous_error_positioned_at_call : forall payload c q,
  has_module c = false -> new_lisp_error (VLispErr payload c) q = VLispErr payload q.
Proof. exact new_lisp_error_positions_anonymous. Qed.
Theorem C17_go_error_positioned_at_call : forall msg q, new_lisp_error (VGoErr msg) q = VLispErr (VGoErr msg) q.
Proof. exact new_lisp_error_wraps_go_error. Qed.

(** an undefined symbol is reported at the symbol's own token *)
Theorem C17_unbound_symbol_at_its_token : forall ev d s p env st,
  env_get st env s p = Err (not_found s p) ->
  eval_ast ev d (VSym s p) env st = (Err (VLispErr (VGoErr (s_ "symbol '" ++ s ++ s_ "' not found")) p), st).
Proof. exact eval_ast_unbound_symbol. Qed.

(** a node read from text starts on the line of its first token and ends on the line of its
    last: lists span opener..closer, symbols and reader-macro forms sit on their token's line *)
Theorem C17_token_positions : forall m t, tok_pos m t = Some (mkPos m (tline t) 0 (tline t) 0).
Proof. reflexivity. Qed.
Theorem C17_list_spans_opener_to_closer : forall m first last,
  span_pos m first last = Some (mkPos m (tline first) 0 (tline last) 0).
Proof. reflexivity. Qed.

(** computed instances: the lines reported for faults behind comments, blank lines, a multi-line
    raw string, inside a function defined earlier and called through map (module "mod"), and in a
    file loaded through load-file's wrapper (the header line is not counted, fix 1c03c0b) *)
Definition module_text : str :=
  s_ "(do" ++ [10%N] ++ s_ ";; comment (" ++ [10%N] ++ [10%N] ++
  s_ "(def raw " ++ [RAWQ] ++ s_ "multi" ++ [10%N] ++ s_ "line" ++ [RAWQ] ++ s_ ")" ++ [10%N] ++
  s_ "(def faulty (fn [x]" ++ [10%N] ++ s_ "  (undefined-sym x)))" ++ [10%N] ++
  s_ "(map faulty [1 2])" ++ [10%N] ++ s_ ")".

Definition position_part (l : list N) : list N := skipn (length l - 9) l.
Example C17_position_through_map :
  position_part (run_read_eval (TNum 1 :: TNum (Z.of_nat (length module_text)) :: map (fun c => TNum (Z.of_N c)) module_text)) = s_ " p 1 7 7 ".
Proof. vm_compute. reflexivity. Qed.

Example C17_load_file_lines :
  match read_str None None None (s_ ";; $MODULE f.lisp" ++ [10%N] ++ s_ "(do (a" ++ [10%N] ++ s_ " b)" ++ [10%N] ++ s_ "nil)") with
  | Ok (VList [_; VList [_; VSym _ (Some pb)] (Some pl); _] _) => (brow pl, erow pl, brow pb, pmod pb)
  | _ => (0, 0, 0, None)
  end = (1, 2, 2, Some (s_ "f.lisp")).
Proof. vm_compute. reflexivity. Qed.

Print Assumptions C17_module_position_is_kept.
Print Assumptions C17_anonymous_error_positioned_at_call.
Print Assumptions C17_unbound_symbol_at_its_token.
