(** C10 — futures run once, give every reader the same outcome, report status consistently. *)
From Lisp Require Import Base ConcFuture ConcFutureProofs Lockset LocksetProofs Paths PinsCommon PinsFuture.
From Lisp.Gen Require Import ConcActions.
Local Open Scope nat_scope.

(** the model interprets exactly the action sequences of today's source (regenerated each run) *)
Theorem C10_source_body : same_paths (fn_paths conc_NewFuture_go) future_go_paths = true. Proof. exact future_go_actions. Qed.
Theorem C10_source_deref : same_paths (fn_paths conc_Future_Deref) future_deref_paths = true. Proof. exact future_deref_actions. Qed.
Theorem C10_source_cancel : same_paths (fn_paths conc_Future_Cancel) future_cancel_paths = true. Proof. exact future_cancel_actions. Qed.
Theorem C10_source_is_done : same_paths (fn_paths conc_Future_IsDone) is_done_paths = true. Proof. exact is_done_actions. Qed.
Theorem C10_source_is_cancelled : same_paths (fn_paths conc_Future_IsCancelled) is_cancelled_paths = true. Proof. exact is_cancelled_actions. Qed.
Theorem C10_source_new_future : same_paths (fn_paths conc_NewFuture) new_future_paths = true. Proof. exact new_future_actions. Qed.
Theorem C10_source_builtins :
  same_paths (fn_paths conc_Load_lit4) is_cancelled_paths = true /\
  same_paths (fn_paths conc_Load_lit5) is_done_paths = true /\
  same_paths (fn_paths conc_future_cancel) [[own "Cancel"]] = true.
Proof. exact status_builtins_actions. Qed.

(** no data race on the flags: every access, on every path of every function, under f.mu *)
Theorem C10_lock_discipline : discipline flags_shared conc_all conc_entry_points = true.
Proof. exact future_discipline. Qed.
Theorem C10_flag_accesses_guarded : forall name code, In (name, code) conc_all ->
  exists m, forall tr r, LocksetProofs.run (parse code) tr r ->
    accesses_guarded flags_shared (final_table flags_shared conc_all) (mkL m None) tr.
Proof. exact (all_fn_ok_guarded flags_shared conc_all future_all_fn_ok). Qed.
Theorem C10_flag_access_exclusive : forall (Res : Type) (body : bool -> Res) progs sched t u ct cu,
  let s := frun Res body (finit Res progs) sched in
  nth_error (f_callers Res s) t = Some ct -> nth_error (f_callers Res s) u = Some cu ->
  locked_pc Res (cpc_of Res ct) = true -> locked_pc Res (cpc_of Res cu) = true ->
  t = u /\ body_locked Res (f_body Res s) = false.
Proof. exact future_flag_access_exclusive. Qed.

(** for every set of callers, every program of deref / future-done? / future-cancelled? /
    future-cancel each of them runs, every schedule and every resolution of select: *)
Theorem C10_body_once : forall (Res : Type) (body : bool -> Res) progs sched,
  let s := frun Res body (finit Res progs) sched in
  f_runs Res s <= 1 /\ (f_body Res s <> BRun Res -> f_runs Res s = 1).
Proof. exact future_body_once. Qed.

Theorem C10_same_outcome : forall (Res : Type) (body : bool -> Res) progs sched e1 e2 o1 o2,
  let s := frun Res body (finit Res progs) sched in
  In e1 (f_hist Res s) -> In e2 (f_hist Res s) -> fc_ret Res e1 = FOut Res o1 -> fc_ret Res e2 = FOut Res o2 ->
  o1 = o2 /\ f_outcome Res s = Some o1.
Proof. exact future_same_outcome. Qed.

Theorem C10_status_monotone : forall (Res : Type) (body : bool -> Res) progs sched e1 e2 d b,
  let s := frun Res body (finit Res progs) sched in
  In e1 (f_hist Res s) -> In e2 (f_hist Res s) ->
  fc_op Res e1 = FStat d -> fc_ret Res e1 = FBool Res true ->
  fc_op Res e2 = FStat d -> fc_ret Res e2 = FBool Res b ->
  fc_resp Res e1 < fc_inv Res e2 -> b = true.
Proof. exact future_status_monotone. Qed.

Theorem C10_done_after_deref : forall (Res : Type) (body : bool -> Res) progs sched e1 e2 o b,
  let s := frun Res body (finit Res progs) sched in
  In e1 (f_hist Res s) -> In e2 (f_hist Res s) ->
  fc_op Res e1 = FDeref false \/ fc_op Res e1 = FDeref true -> fc_ret Res e1 = FOut Res o ->
  fc_op Res e2 = FStat true -> fc_ret Res e2 = FBool Res b ->
  fc_resp Res e1 < fc_inv Res e2 -> b = true.
Proof. exact future_done_after_deref. Qed.

Theorem C10_cancel_true : forall (Res : Type) (body : bool -> Res) progs sched e1,
  let s := frun Res body (finit Res progs) sched in
  In e1 (f_hist Res s) -> fc_op Res e1 = FCancel -> fc_ret Res e1 = FBool Res true ->
  f_cancelled Res s = true /\ f_ctx Res s = true /\
  (forall e2 b, In e2 (f_hist Res s) -> fc_op Res e2 = FStat false -> fc_ret Res e2 = FBool Res b ->
                fc_resp Res e1 < fc_inv Res e2 -> b = true) /\
  (forall e2 b, In e2 (f_hist Res s) -> fc_op Res e2 = FCancel -> fc_ret Res e2 = FBool Res b -> b = true).
Proof. exact future_cancel_true. Qed.

Theorem C10_cancel_false : forall (Res : Type) (body : bool -> Res) progs sched e1,
  let s := frun Res body (finit Res progs) sched in
  In e1 (f_hist Res s) -> fc_op Res e1 = FCancel -> fc_ret Res e1 = FBool Res false ->
  f_done Res s = true /\ f_cancelled Res s = false /\ f_ctx Res s = false /\
  (forall e2 b, In e2 (f_hist Res s) -> fc_op Res e2 = FStat false -> fc_ret Res e2 = FBool Res b -> b = false) /\
  (forall e2 b, In e2 (f_hist Res s) -> fc_op Res e2 = FStat true -> fc_ret Res e2 = FBool Res b ->
                fc_resp Res e1 < fc_inv Res e2 -> b = true).
Proof. exact future_cancel_false. Qed.

(** no hang: in every reachable state in which the body has not delivered yet or some caller still has
    a call to make or to finish, some thread can move: nobody waits for ever for f.mu, and an
    outcome that was delivered is never lost (it is in the slot or with the one reader that is
    re-depositing it), so a patient deref is only ever waiting for the body *)
Theorem C10_never_stuck : forall (Res : Type) (body : bool -> Res) progs sched,
  let s := frun Res body (finit Res progs) sched in
  (f_body Res s <> BEnd Res \/ exists t c, nth_error (f_callers Res s) t = Some c /\ (cpc_of Res c <> CIdle Res \/ ctodo Res c <> [])) ->
  exists w s', fstep Res body s w = Some s'.
Proof. exact future_never_stuck. Qed.

(** the executable clause checker the harness runs on the recorded histories of the real futures
    accepts every history of the model *)
Theorem C10_checker_accepts_model : forall (Res : Type) (body : bool -> Res) (res_eqb : Res -> Res -> bool),
  (forall a, res_eqb a a = true) ->
  forall progs sched, fhist_ok Res res_eqb (f_hist Res (frun Res body (finit Res progs) sched)) = true.
Proof. exact fhist_ok_model. Qed.

(** non-vacuity (computed): two callers; the body completes after a cancel; deref, status and a
    second cancel follow *)
Example C10_example :
  let body := fun cancelled : bool => if cancelled then 13%Z else 7%Z in
  let progs := [[FCancel; FDeref false; FStat true]; [FStat false; FDeref true; FCancel]] in
  let sched := concat (repeat [(1, false); (2, true); (1, false); (0, false); (2, false)]%nat 12) in
  let s := frun Z body (finit Z progs) sched in
  f_runs Z s = 1 /\ f_outcome Z s = Some 7%Z /\ f_cancelled Z s = true /\ length (f_hist Z s) = 6 /\
  fhist_ok Z Z.eqb (f_hist Z s) = true.
Proof. vm_compute. repeat split. Qed.

Print Assumptions C10_source_body.
Print Assumptions C10_lock_discipline.
Print Assumptions C10_flag_accesses_guarded.
Print Assumptions C10_flag_access_exclusive.
Print Assumptions C10_body_once.
Print Assumptions C10_same_outcome.
Print Assumptions C10_status_monotone.
Print Assumptions C10_done_after_deref.
Print Assumptions C10_cancel_true.
Print Assumptions C10_cancel_false.
Print Assumptions C10_never_stuck.
Print Assumptions C10_checker_accepts_model.
