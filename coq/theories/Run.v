(** Entry point of the extracted model driver: one case line in, one result line out.
    The first token selects the operation. *)
From Lisp Require Import Wire Equal Boot.

Definition bad : list N := s_ "BADCASE".

Definition run_equal (ts : list tok) : list N :=
  match parse_values 2 ts with
  | Some ([a; b], []) =>
      match equalI a b with
      | Some true => s_ "T"
      | Some false => s_ "F"
      | None => s_ "P"
      end
  | _ => bad
  end.

(** outcome line: "V <value>" | "E <error value>" | "P" | "O" (out of fuel) *)
Definition show_outcome (o : outcome val) : list N :=
  match o with
  | Ok v => s_ "V " ++ show_val v
  | Err e => s_ "E " ++ show_val e
  | Panic _ => s_ "P "
  | OutOfFuel => s_ "O "
  end.

Definition RUN_FUEL : nat := 20000.

(** P <ast>: evaluate a position-less AST in a fresh initial environment;
    output: outcome | trace (oldest first) *)
Definition observe (ast : val) : list N :=
  let '(o, st) := eval RUN_FUEL 1 ast ROOT init_state in
  show_outcome o ++ s_ "| " ++ show_val (VList (rev (trace st)) None).

Definition run_program (ts : list tok) : list N :=
  match parse_value ts with
  | Some (ast, []) => observe ast
  | _ => bad
  end.

Definition run_tokens (ts : list tok) : list N :=
  match ts with
  | TTag c :: r =>
      if N.eqb c (tagc "Q") then run_equal r
      else if N.eqb c (tagc "P") then run_program r
      else bad
  | _ => bad
  end.

Definition run_line (bs : list N) : list N := run_tokens (lex_line bs).
