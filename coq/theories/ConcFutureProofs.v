(** C10: invariants of the future model under every schedule. *)
From Lisp Require Import Base ConcFuture.
Local Open Scope nat_scope.

Section Proofs.
  Variable Res : Type.
  Variable body : bool -> Res.
  Notation fstate := (fstate Res).
  Notation caller := (caller Res).
  Notation fstep := (fstep Res body).
  Notation frun := (frun Res body).
  Notation finit := (finit Res).

  (** ---- list plumbing ---- *)
  Lemma nth_set_same {A} (l : list A) n x : n < length l -> nth_error (set_nth l n x) n = Some x.
  Proof. revert n; induction l as [|y l IH]; intros [|n] H; simpl in *; try lia; auto. apply IH; lia. Qed.
  Lemma nth_set_other {A} (l : list A) n m x : n <> m -> nth_error (set_nth l n x) m = nth_error l m.
  Proof. revert n m; induction l as [|y l IH]; intros [|n] [|m] H; simpl; auto; try congruence. Qed.
  Lemma length_set_nth {A} (l : list A) n x : length (set_nth l n x) = length l.
  Proof. revert n; induction l as [|y l IH]; intros [|n]; simpl; auto. Qed.
  Lemma nth_some_lt {A} (l : list A) n x : nth_error l n = Some x -> n < length l.
  Proof. intros H. apply nth_error_Some. congruence. Qed.

  Definition locked_pc (p : cpc Res) : bool := match p with CIdle _ | CHold _ _ => false | _ => true end.
  Definition body_locked (b : bpc Res) : bool := match b with BSetDone _ _ | BUnlock _ _ => true | _ => false end.

  (** ---- the mutex ---- *)
  Record ILock (s : fstate) : Prop := {
    lk_body : body_locked (f_body Res s) = true <-> f_mu Res s = Some 0;
    lk_caller : forall t c, nth_error (f_callers Res s) t = Some c ->
                  (locked_pc (cpc_of Res c) = true <-> f_mu Res s = Some (S t));
    lk_dom : forall t, f_mu Res s = Some (S t) -> t < length (f_callers Res s);
  }.

  (** a step of caller t, seen from caller u *)
  Ltac split_caller t u Hu Hlt :=
    unfold with_caller in Hu;
    destruct (Nat.eq_dec t u) as [<-|Hneq];
    [ rewrite nth_set_same in Hu by exact Hlt; injection Hu as <-
    | rewrite nth_set_other in Hu by exact Hneq ].

  (** case analysis of one step; leaves the live cases with s' substituted *)
  Ltac step_cases s w Hs :=
    unfold ConcFuture.fstep in Hs; destruct w as [[|t] ch]; cbn [fst snd] in Hs;
    [ unfold body_step in Hs; destruct (f_body Res s) as [|o|o|o|o|] eqn:Hb;
      [ | destruct (f_mu Res s) eqn:Hmu; [discriminate|] | | | destruct (f_chan Res s) eqn:Hch; [discriminate|] | discriminate ];
      injection Hs as <-
    | unfold caller_step in Hs;
      destruct (nth_error (f_callers Res s) t) as [c|] eqn:Ht; [|discriminate];
      pose proof (nth_some_lt _ _ _ Ht) as Hlt;
      destruct (cpc_of Res c) as [|o|d|d b| |d| | | |b] eqn:Hpc;
      [ destruct (ctodo Res c) as [|[ex|d|] r] eqn:Htodo;
        [ discriminate
        | destruct (f_chan Res s) as [o|] eqn:Hch;
          [ destruct (ex && ch) eqn:Hexch | destruct ex eqn:Hex; [|discriminate] ]
        | destruct (f_mu Res s) eqn:Hmu; [discriminate|]
        | destruct (f_mu Res s) eqn:Hmu; [discriminate|] ]
      | destruct (f_chan Res s) eqn:Hch; [discriminate|]
      | | | | destruct d | | | | ];
      injection Hs as <- ].

  Lemma init_lock progs : ILock (finit progs).
  Proof.
    constructor; simpl.
    - split; discriminate.
    - intros t c H. rewrite nth_error_map in H. destruct (nth_error progs t); [|discriminate]. injection H as <-. simpl. split; discriminate.
    - discriminate.
  Qed.

  (** frame lemmas: ILock only looks at the mutex, the body pc and the lockedness of each caller *)
  Lemma lock_caller_same s s' t c c' :
    ILock s -> nth_error (f_callers Res s) t = Some c ->
    f_mu Res s' = f_mu Res s -> body_locked (f_body Res s') = body_locked (f_body Res s) ->
    f_callers Res s' = set_nth (f_callers Res s) t c' -> locked_pc (cpc_of Res c') = locked_pc (cpc_of Res c) ->
    ILock s'.
  Proof.
    intros [Lb Lc Ld] Ht Hmu Hbody Hcs Hl. pose proof (nth_some_lt _ _ _ Ht) as Hlt.
    constructor; rewrite ?Hmu, ?Hbody, ?Hcs.
    - exact Lb.
    - intros u cu Hu. destruct (Nat.eq_dec t u) as [<-|Hne].
      + rewrite nth_set_same in Hu by exact Hlt. injection Hu as <-. rewrite Hl. exact (Lc t c Ht).
      + rewrite nth_set_other in Hu by exact Hne. exact (Lc u cu Hu).
    - intros u E. rewrite length_set_nth. exact (Ld u E).
  Qed.

  Lemma lock_caller_acquire s s' t c c' :
    ILock s -> nth_error (f_callers Res s) t = Some c ->
    f_mu Res s = None -> f_mu Res s' = Some (S t) -> body_locked (f_body Res s') = body_locked (f_body Res s) ->
    f_callers Res s' = set_nth (f_callers Res s) t c' -> locked_pc (cpc_of Res c') = true ->
    ILock s'.
  Proof.
    intros [Lb Lc Ld] Ht Hmu Hmu' Hbody Hcs Hl. pose proof (nth_some_lt _ _ _ Ht) as Hlt.
    constructor; rewrite ?Hmu', ?Hbody, ?Hcs.
    - rewrite Hmu in Lb. split; [intros E; apply Lb in E; discriminate | discriminate].
    - intros u cu Hu. destruct (Nat.eq_dec t u) as [<-|Hne].
      + rewrite nth_set_same in Hu by exact Hlt. injection Hu as <-. rewrite Hl. tauto.
      + rewrite nth_set_other in Hu by exact Hne. pose proof (Lc u cu Hu) as L. rewrite Hmu in L.
        split; [intros E; apply L in E; discriminate | intros [= E]; congruence].
    - intros u [= <-]. rewrite length_set_nth. exact Hlt.
  Qed.

  Lemma lock_caller_release s s' t c c' :
    ILock s -> nth_error (f_callers Res s) t = Some c -> locked_pc (cpc_of Res c) = true ->
    f_mu Res s' = None -> body_locked (f_body Res s') = body_locked (f_body Res s) ->
    f_callers Res s' = set_nth (f_callers Res s) t c' -> locked_pc (cpc_of Res c') = false ->
    ILock s'.
  Proof.
    intros [Lb Lc Ld] Ht Hc Hmu' Hbody Hcs Hl. pose proof (nth_some_lt _ _ _ Ht) as Hlt.
    assert (f_mu Res s = Some (S t)) as Hmu by (apply (Lc t c Ht); exact Hc).
    constructor; rewrite ?Hmu', ?Hbody, ?Hcs.
    - rewrite Hmu in Lb. split; [intros E; apply Lb in E; discriminate | discriminate].
    - intros u cu Hu. destruct (Nat.eq_dec t u) as [<-|Hne].
      + rewrite nth_set_same in Hu by exact Hlt. injection Hu as <-. rewrite Hl. split; discriminate.
      + rewrite nth_set_other in Hu by exact Hne. pose proof (Lc u cu Hu) as L. rewrite Hmu in L.
        split; [intros E; apply L in E; congruence | discriminate].
    - discriminate.
  Qed.

  Lemma lock_body_same s s' :
    ILock s -> f_mu Res s' = f_mu Res s -> body_locked (f_body Res s') = body_locked (f_body Res s) ->
    f_callers Res s' = f_callers Res s -> ILock s'.
  Proof. intros [Lb Lc Ld] Hmu Hbody Hcs. constructor; rewrite ?Hmu, ?Hbody, ?Hcs; assumption. Qed.

  Lemma lock_body_acquire s s' :
    ILock s -> f_mu Res s = None -> f_mu Res s' = Some 0 -> body_locked (f_body Res s') = true ->
    f_callers Res s' = f_callers Res s -> ILock s'.
  Proof.
    intros [Lb Lc Ld] Hmu Hmu' Hbody Hcs. constructor; rewrite ?Hmu', ?Hbody, ?Hcs.
    - tauto.
    - intros u cu Hu. pose proof (Lc u cu Hu) as L. rewrite Hmu in L. split; [intros E; apply L in E; discriminate | discriminate].
    - discriminate.
  Qed.

  Lemma lock_body_release s s' :
    ILock s -> body_locked (f_body Res s) = true -> f_mu Res s' = None -> body_locked (f_body Res s') = false ->
    f_callers Res s' = f_callers Res s -> ILock s'.
  Proof.
    intros [Lb Lc Ld] Hb Hmu' Hbody Hcs. assert (f_mu Res s = Some 0) as Hmu by (apply Lb; exact Hb).
    constructor; rewrite ?Hmu', ?Hbody, ?Hcs.
    - split; discriminate.
    - intros u cu Hu. pose proof (Lc u cu Hu) as L. rewrite Hmu in L. split; [intros E; apply L in E; discriminate | discriminate].
    - discriminate.
  Qed.

  Lemma step_lock s w s' : ILock s -> fstep s w = Some s' -> ILock s'.
  Proof.
    intros I Hs.
    step_cases s w Hs.
    all: try solve [ eapply lock_body_same; [exact I | cbn; try rewrite Hb; reflexivity ..] ].
    all: try solve [ eapply lock_body_acquire; [exact I | cbn; try rewrite Hb; auto ..] ].
    all: try solve [ eapply lock_body_release; [exact I | cbn; try rewrite Hb; auto ..] ].
    all: try solve [ eapply lock_caller_same; [exact I | exact Ht | cbn; try rewrite Hpc; reflexivity ..] ].
    all: try solve [ eapply lock_caller_acquire; [exact I | exact Ht | cbn; try rewrite Hpc; first [assumption | reflexivity] ..] ].
    all: try solve [ eapply lock_caller_release; [exact I | exact Ht | cbn; try rewrite Hpc; first [assumption | reflexivity] ..] ].
  Qed.

  (** ---- ghost clock ---- *)
  Record ITime (s : fstate) : Prop := {
    tm_done : f_done Res s = true <-> f_tdone Res s <> None;
    tm_done_lt : forall td, f_tdone Res s = Some td -> td < f_time Res s;
    tm_canc : f_cancelled Res s = true <-> f_tcanc Res s <> None;
    tm_canc_lt : forall tc, f_tcanc Res s = Some tc -> tc < f_time Res s;
    tm_inv : forall t c, nth_error (f_callers Res s) t = Some c -> cpc_of Res c <> CIdle Res -> cinv Res c < f_time Res s;
    tm_hist : forall e, In e (f_hist Res s) -> fc_inv Res e <= fc_resp Res e /\ fc_resp Res e < f_time Res s;
  }.

  Lemma init_time progs : ITime (finit progs).
  Proof.
    constructor; simpl; try (split; [discriminate | congruence]); try discriminate; try contradiction.
    intros t c H. rewrite nth_error_map in H. destruct (nth_error progs t); [|discriminate]. injection H as <-. simpl. congruence.
  Qed.

  Lemma time_frame s s' :
    ITime s ->
    f_time Res s' = S (f_time Res s) ->
    (f_done Res s' = f_done Res s /\ f_tdone Res s' = f_tdone Res s \/
     f_done Res s' = true /\ f_tdone Res s' = first_time (f_tdone Res s) (f_time Res s)) ->
    (f_cancelled Res s' = f_cancelled Res s /\ f_tcanc Res s' = f_tcanc Res s \/
     f_cancelled Res s' = true /\ f_tcanc Res s' = first_time (f_tcanc Res s) (f_time Res s)) ->
    (forall t c', nth_error (f_callers Res s') t = Some c' -> cpc_of Res c' <> CIdle Res ->
       cinv Res c' <= f_time Res s \/
       exists c, nth_error (f_callers Res s) t = Some c /\ cpc_of Res c <> CIdle Res /\ cinv Res c' = cinv Res c) ->
    (forall e, In e (f_hist Res s') -> In e (f_hist Res s) \/ (fc_inv Res e <= fc_resp Res e /\ fc_resp Res e <= f_time Res s)) ->
    ITime s'.
  Proof.
    intros [D Dl C Cl Iv H] Ht Hd Hc Hcal Hh. constructor; rewrite ?Ht.
    - destruct Hd as [[-> ->]|[-> ->]]; [exact D|]. split; [intros _; destruct (f_tdone Res s); discriminate | reflexivity].
    - intros td E. destruct Hd as [[_ E']|[_ E']]; rewrite E' in E.
      + specialize (Dl td E). lia.
      + destruct (f_tdone Res s) as [x|] eqn:Ex; simpl in E; injection E as <-; [specialize (Dl x eq_refl); lia | lia].
    - destruct Hc as [[-> ->]|[-> ->]]; [exact C|]. split; [intros _; destruct (f_tcanc Res s); discriminate | reflexivity].
    - intros tc E. destruct Hc as [[_ E']|[_ E']]; rewrite E' in E.
      + specialize (Cl tc E). lia.
      + destruct (f_tcanc Res s) as [x|] eqn:Ex; simpl in E; injection E as <-; [specialize (Cl x eq_refl); lia | lia].
    - intros t c' Hn Hne. destruct (Hcal t c' Hn Hne) as [L|(c & Hc' & Hne' & ->)]; [lia|]. specialize (Iv t c Hc' Hne'). lia.
    - intros e He. destruct (Hh e He) as [Hin|[A B]]; [destruct (H e Hin); lia | lia].
  Qed.

  Lemma step_time s w s' : ITime s -> fstep s w = Some s' -> ITime s'.
  Proof.
    intros I Hs. pose proof (tm_inv _ I) as Iv.
    step_cases s w Hs.
    all: eapply time_frame; [exact I | reflexivity | cbn; first [left; split; reflexivity | right; split; reflexivity]
                            | cbn; first [left; split; reflexivity | right; split; reflexivity] | | ].
    all: try solve [ cbn; intros u cu Hu Hne; right; exists cu; auto ].
    all: try solve [ cbn; intros e He; left; exact He ].
    all: try solve [ cbn [f_callers]; intros u cu Hu Hne; split_caller t u Hu Hlt;
                     [ first [ left; cbn; lia | cbn in Hne; congruence
                             | right; exists c; split; [exact Ht | split; [rewrite Hpc; discriminate | reflexivity]] ]
                     | right; exists cu; auto ] ].
    all: try solve [ cbn [f_hist finish]; intros e [<-|He]; [right; cbn; split; [|lia];
                       first [lia | assert (cinv Res c < f_time Res s) by (apply (Iv t c Ht); rewrite Hpc; discriminate); lia] | left; exact He] ].
  Qed.

  (** ---- the outcome and its slot ---- *)
  Definition body_outcome_ok (s : fstate) : Prop :=
    match f_body Res s with
    | BRun _ => f_outcome Res s = None /\ f_runs Res s = 0
    | BLock _ o | BSetDone _ o | BUnlock _ o | BSend _ o => f_outcome Res s = Some o /\ f_runs Res s = 1
    | BEnd _ => f_outcome Res s <> None /\ f_runs Res s = 1
    end.
  Definition body_delivered (b : bpc Res) : bool := match b with BEnd _ => true | _ => false end.
  Definition body_past_done (b : bpc Res) : bool := match b with BUnlock _ _ | BSend _ _ | BEnd _ => true | _ => false end.

  Record IOut (s : fstate) : Prop := {
    out_body : body_outcome_ok s;
    out_chan : forall o, f_chan Res s = Some o -> body_delivered (f_body Res s) = true /\ f_outcome Res s = Some o;
    out_hold : forall t c o, nth_error (f_callers Res s) t = Some c -> cpc_of Res c = CHold Res o ->
                 body_delivered (f_body Res s) = true /\ f_outcome Res s = Some o /\ f_chan Res s = None;
    out_uniq : forall t1 c1 o1 t2 c2 o2,
                 nth_error (f_callers Res s) t1 = Some c1 -> cpc_of Res c1 = CHold Res o1 ->
                 nth_error (f_callers Res s) t2 = Some c2 -> cpc_of Res c2 = CHold Res o2 -> t1 = t2;
    out_done : body_past_done (f_body Res s) = true -> f_done Res s = true;
    out_hist : forall e o, In e (f_hist Res s) -> fc_ret Res e = FOut Res o -> f_outcome Res s = Some o /\ f_done Res s = true;
    (* once delivered the outcome is never lost: it sits in the slot or with the one reader who is re-depositing it *)
    out_live : body_delivered (f_body Res s) = true ->
               f_chan Res s <> None \/ exists t c o, nth_error (f_callers Res s) t = Some c /\ cpc_of Res c = CHold Res o;
  }.

  Lemma init_out progs : IOut (finit progs).
  Proof.
    constructor; simpl; try discriminate; try contradiction.
    - split; reflexivity.
    - intros t c o H. rewrite nth_error_map in H. destruct (nth_error progs t); [|discriminate]. injection H as <-. simpl. discriminate.
    - intros t1 c1 o1 t2 c2 o2 H. rewrite nth_error_map in H. destruct (nth_error progs t1); [|discriminate]. injection H as <-. simpl. discriminate.
  Qed.

  Lemma out_caller_plain s s' t c c' :
    IOut s -> nth_error (f_callers Res s) t = Some c ->
    f_body Res s' = f_body Res s -> f_outcome Res s' = f_outcome Res s -> f_runs Res s' = f_runs Res s ->
    f_chan Res s' = f_chan Res s -> (f_done Res s = true -> f_done Res s' = true) ->
    f_callers Res s' = set_nth (f_callers Res s) t c' ->
    (forall o, cpc_of Res c' = CHold Res o -> cpc_of Res c = CHold Res o) ->
    (forall o, cpc_of Res c = CHold Res o -> cpc_of Res c' = CHold Res o) ->
    (forall e, In e (f_hist Res s') -> In e (f_hist Res s) \/ forall o, fc_ret Res e <> FOut Res o) ->
    IOut s'.
  Proof.
    intros [Ob Oc Oh Ou Od Ohist Olive] Ht Hb Ho Hr Hch Hd Hcs Hc' Hkeep Hh. pose proof (nth_some_lt _ _ _ Ht) as Hlt.
    assert (forall u cu o, nth_error (f_callers Res s') u = Some cu -> cpc_of Res cu = CHold Res o ->
                           exists cu0, nth_error (f_callers Res s) u = Some cu0 /\ cpc_of Res cu0 = CHold Res o) as Back.
    { intros u cu o Hu Hp. rewrite Hcs in Hu. destruct (Nat.eq_dec t u) as [<-|Hne].
      - rewrite nth_set_same in Hu by exact Hlt. injection Hu as <-. exists c. split; [exact Ht | apply Hc'; exact Hp].
      - rewrite nth_set_other in Hu by exact Hne. exists cu. split; assumption. }
    constructor; unfold body_outcome_ok; rewrite ?Hb, ?Ho, ?Hr, ?Hch.
    - exact Ob.
    - exact Oc.
    - intros u cu o Hu Hp. destruct (Back u cu o Hu Hp) as (cu0 & H1 & H2). exact (Oh u cu0 o H1 H2).
    - intros t1 c1 o1 t2 c2 o2 H1 P1 H2 P2. destruct (Back _ _ _ H1 P1) as (d1 & A1 & B1). destruct (Back _ _ _ H2 P2) as (d2 & A2 & B2).
      exact (Ou _ _ _ _ _ _ A1 B1 A2 B2).
    - intros E. apply Hd, Od, E.
    - intros e o He Hre. destruct (Hh e He) as [Hin|Hno]; [|exfalso; exact (Hno o Hre)].
      destruct (Ohist e o Hin Hre) as [A B]. split; [exact A | apply Hd, B].
    - intros E. destruct (Olive E) as [Hne|(u & cu & o & Hu & Hp)]; [left; exact Hne|]. right.
      destruct (Nat.eq_dec t u) as [<-|Hne].
      + rewrite Ht in Hu. injection Hu as <-. exists t, c', o. split; [rewrite Hcs, nth_set_same by exact Hlt; reflexivity | apply Hkeep; exact Hp].
      + exists u, cu, o. split; [rewrite Hcs, nth_set_other by exact Hne; exact Hu | exact Hp].
  Qed.

  Lemma out_caller_take s s' t c c' o :
    IOut s -> nth_error (f_callers Res s) t = Some c ->
    f_body Res s' = f_body Res s -> f_outcome Res s' = f_outcome Res s -> f_runs Res s' = f_runs Res s ->
    f_chan Res s = Some o -> f_chan Res s' = None -> f_done Res s' = f_done Res s ->
    f_callers Res s' = set_nth (f_callers Res s) t c' -> cpc_of Res c' = CHold Res o ->
    f_hist Res s' = f_hist Res s ->
    IOut s'.
  Proof.
    intros [Ob Oc Oh Ou Od Ohist Olive] Ht Hb Ho Hr Hch Hch' Hd Hcs Hc' Hh. pose proof (nth_some_lt _ _ _ Ht) as Hlt.
    destruct (Oc o Hch) as [Bd Oo].
    assert (forall u cu o', nth_error (f_callers Res s') u = Some cu -> cpc_of Res cu = CHold Res o' -> u = t /\ o' = o) as Only.
    { intros u cu o' Hu Hp. rewrite Hcs in Hu. destruct (Nat.eq_dec t u) as [<-|Hne].
      - rewrite nth_set_same in Hu by exact Hlt. injection Hu as <-. rewrite Hc' in Hp. injection Hp as <-. auto.
      - rewrite nth_set_other in Hu by exact Hne. destruct (Oh u cu o' Hu Hp) as (_ & _ & E). congruence. }
    constructor; unfold body_outcome_ok; rewrite ?Hb, ?Ho, ?Hr, ?Hch', ?Hd, ?Hh.
    - exact Ob.
    - discriminate.
    - intros u cu o' Hu Hp. destruct (Only u cu o' Hu Hp) as [-> ->]. auto.
    - intros t1 c1 o1 t2 c2 o2 H1 P1 H2 P2. destruct (Only _ _ _ H1 P1) as [-> _]. destruct (Only _ _ _ H2 P2) as [-> _]. reflexivity.
    - exact Od.
    - exact Ohist.
    - intros _. right. exists t, c', o. split; [rewrite Hcs, nth_set_same by exact Hlt; reflexivity | exact Hc'].
  Qed.

  Lemma out_caller_put s s' t c c' o e :
    IOut s -> nth_error (f_callers Res s) t = Some c -> cpc_of Res c = CHold Res o ->
    f_body Res s' = f_body Res s -> f_outcome Res s' = f_outcome Res s -> f_runs Res s' = f_runs Res s ->
    f_chan Res s' = Some o -> f_done Res s' = f_done Res s ->
    f_callers Res s' = set_nth (f_callers Res s) t c' -> (forall o', cpc_of Res c' <> CHold Res o') ->
    f_hist Res s' = e :: f_hist Res s -> fc_ret Res e = FOut Res o ->
    IOut s'.
  Proof.
    intros [Ob Oc Oh Ou Od Ohist Olive] Ht Hp Hb Ho Hr Hch' Hd Hcs Hc' Hh He. pose proof (nth_some_lt _ _ _ Ht) as Hlt.
    destruct (Oh t c o Ht Hp) as (Bd & Oo & Cn).
    assert (forall u cu o', nth_error (f_callers Res s') u = Some cu -> cpc_of Res cu = CHold Res o' -> False) as Nobody.
    { intros u cu o' Hu Hq. rewrite Hcs in Hu. destruct (Nat.eq_dec t u) as [<-|Hne].
      - rewrite nth_set_same in Hu by exact Hlt. injection Hu as <-. exact (Hc' o' Hq).
      - rewrite nth_set_other in Hu by exact Hne. apply Hne. exact (Ou _ _ _ _ _ _ Ht Hp Hu Hq). }
    constructor; unfold body_outcome_ok; rewrite ?Hb, ?Ho, ?Hr, ?Hch', ?Hd, ?Hh.
    - exact Ob.
    - intros o' [= <-]. auto.
    - intros u cu o' Hu Hq. exfalso. exact (Nobody u cu o' Hu Hq).
    - intros t1 c1 o1 t2 c2 o2 H1 P1. exfalso. exact (Nobody _ _ _ H1 P1).
    - exact Od.
    - intros e' o' [<-|Hin] Hre.
      + rewrite He in Hre. injection Hre as <-. split; [exact Oo | apply Od]. destruct (f_body Res s); try discriminate; reflexivity.
      + exact (Ohist e' o' Hin Hre).
    - intros _. left. discriminate.
  Qed.

  Lemma step_out s w s' : IOut s -> fstep s w = Some s' -> IOut s'.
  Proof.
    intros I Hs.
    step_cases s w Hs.
    (* the caller steps *)
    all: try solve [ eapply out_caller_plain; [exact I | exact Ht | try reflexivity ..];
                     [ cbn; intros; first [assumption | reflexivity | symmetry; assumption] ..
                     | cbn [cpc_of]; intros o' E; first [discriminate | rewrite Hpc; exact E]
                     | rewrite Hpc; intros o' E; discriminate
                     | cbn [f_hist finish]; first [ intros e He; left; exact He
                                                   | intros e [<-|He]; [right; cbn; discriminate | left; exact He] ] ] ].
    all: try solve [ eapply out_caller_take; [exact I | exact Ht | try reflexivity ..]; first [exact Hch | reflexivity] ].
    all: try solve [ eapply out_caller_put; [exact I | exact Ht | exact Hpc | try reflexivity ..]; cbn; first [discriminate | reflexivity] ].
    (* the body steps *)
    all: destruct I as [Ob Oc Oh Ou Od Ohist Olive]; unfold body_outcome_ok in Ob; rewrite Hb in *; cbn [body_delivered body_past_done] in *.
    all: constructor; unfold body_outcome_ok; cbn [f_body f_outcome f_runs f_chan f_callers f_done f_hist body_delivered body_past_done].
    all: try exact Ou; try exact Ohist; try exact Od; try exact Ob.
    all: try solve [ destruct Ob as [A B]; split; [congruence | first [rewrite B; reflexivity | exact B]] ].
    all: try solve [ intros o' E; destruct (Oc o' E) as [F _]; discriminate ].
    all: try solve [ intros u cu o' Hu Hq; destruct (Oh u cu o' Hu Hq) as [F _]; discriminate ].
    all: try solve [ discriminate ]; try solve [ reflexivity ]; try solve [ auto ].
    all: try solve [ intros e o' He Hr; destruct (Ohist e o' He Hr) as [A B]; destruct Ob as [Ob1 _]; first [congruence | split; [exact A | reflexivity]] ].
    all: try solve [ intros o0 [= <-]; split; [reflexivity | apply Ob] ].
    all: try solve [ intros _; left; discriminate ].
  Qed.

  (** ---- the critical sections of Cancel and of the status predicates ---- *)
  Definition pc_ok (s : fstate) (c : caller) : Prop :=
    match cpc_of Res c with
    | CCanSeen _ d => f_done Res s = d
    | CCanW1 _ => f_cancelled Res s = true
    | CCanW2 _ => f_cancelled Res s = true /\ f_done Res s = true
    | CCanCalled _ => f_done Res s = true /\ (f_cancelled Res s = true -> f_ctx Res s = true)
    | CCanRet _ b => b = f_cancelled Res s /\ f_done Res s = true /\ (b = true -> f_ctx Res s = true)
    | CStatRead _ true b =>
        if b then f_done Res s = true
        else f_tdone Res s = None \/ exists td, f_tdone Res s = Some td /\ cinv Res c < td
    | CStatRead _ false b =>
        if b then f_cancelled Res s = true
        else f_tcanc Res s = None \/ exists tc, f_tcanc Res s = Some tc /\ cinv Res c < tc
    | _ => True
    end.

  Definition writing (p : cpc Res) : bool := match p with CCanW1 _ | CCanW2 _ => true | _ => false end.

  Record ICan (s : fstate) : Prop := {
    can_pc : forall t c, nth_error (f_callers Res s) t = Some c -> pc_ok s c;
    can_ctx : f_cancelled Res s = true ->
              f_ctx Res s = true \/ exists t c, nth_error (f_callers Res s) t = Some c /\ writing (cpc_of Res c) = true;
    can_ctx_rev : f_ctx Res s = true -> f_cancelled Res s = true;
  }.

  Lemma pc_ok_unlocked s c : locked_pc (cpc_of Res c) = false -> pc_ok s c.
  Proof. unfold pc_ok. destruct (cpc_of Res c); simpl; try discriminate; auto. Qed.

  Lemma pc_ok_same_flags s s' c :
    f_done Res s' = f_done Res s -> f_cancelled Res s' = f_cancelled Res s -> f_ctx Res s' = f_ctx Res s ->
    f_tdone Res s' = f_tdone Res s -> f_tcanc Res s' = f_tcanc Res s -> pc_ok s c -> pc_ok s' c.
  Proof. unfold pc_ok. intros -> -> -> -> ->. auto. Qed.

  Lemma others_unlocked s t u cu :
    ILock s -> f_mu Res s = Some (S t) -> u <> t -> nth_error (f_callers Res s) u = Some cu ->
    locked_pc (cpc_of Res cu) = false.
  Proof.
    intros I Hmu Hne Hu. destruct (locked_pc (cpc_of Res cu)) eqn:E; [|reflexivity].
    apply (lk_caller _ I u cu Hu) in E. congruence.
  Qed.
  Lemma all_unlocked_body s u cu :
    ILock s -> f_mu Res s = Some 0 -> nth_error (f_callers Res s) u = Some cu -> locked_pc (cpc_of Res cu) = false.
  Proof.
    intros I Hmu Hu. destruct (locked_pc (cpc_of Res cu)) eqn:E; [|reflexivity].
    apply (lk_caller _ I u cu Hu) in E. congruence.
  Qed.

  Lemma init_can progs : ICan (finit progs).
  Proof.
    constructor; simpl; [|discriminate|discriminate].
    intros t c H. rewrite nth_error_map in H. destruct (nth_error progs t); [|discriminate]. injection H as <-. exact Logic.I.
  Qed.

  Lemma ctx_transfer s t c c' (ctx' : bool) :
    nth_error (f_callers Res s) t = Some c ->
    (f_ctx Res s = true -> ctx' = true) ->
    (writing (cpc_of Res c) = true -> writing (cpc_of Res c') = true \/ ctx' = true) ->
    (f_ctx Res s = true \/ exists u cu, nth_error (f_callers Res s) u = Some cu /\ writing (cpc_of Res cu) = true) ->
    ctx' = true \/ exists u cu, nth_error (set_nth (f_callers Res s) t c') u = Some cu /\ writing (cpc_of Res cu) = true.
  Proof.
    intros Ht Hctx Hw [H|(u & cu & Hu & Hwu)]; [left; auto|]. pose proof (nth_some_lt _ _ _ Ht) as Hlt.
    destruct (Nat.eq_dec t u) as [<-|Hne].
    - rewrite Ht in Hu. injection Hu as <-. destruct (Hw Hwu) as [H|H]; [|left; exact H].
      right. exists t, c'. split; [apply nth_set_same; exact Hlt | exact H].
    - right. exists u, cu. split; [rewrite nth_set_other by exact Hne; exact Hu | exact Hwu].
  Qed.

  Lemma step_can s w s' : ILock s -> ITime s -> ICan s -> fstep s w = Some s' -> ICan s'.
  Proof.
    intros L T I Hs. destruct I as [Cp Cc Cr].
    step_cases s w Hs.
    all: try (pose proof (Cp t c Ht) as Pt; unfold pc_ok in Pt; rewrite Hpc in Pt).
    all: try (assert (f_mu Res s = Some (S t)) as Hheld by (apply (lk_caller _ L t c Ht); rewrite Hpc; reflexivity)).
    all: constructor; cbn [f_callers f_cancelled f_ctx].
    (* body steps *)
    all: try exact Cc; try exact Cr; try solve [ intros _; reflexivity ]; try solve [ intros _; apply Pt ].
    all: try solve [ intros u cu Hu; eapply pc_ok_same_flags; [reflexivity .. | exact (Cp u cu Hu)] ].
    all: try solve [ intros u cu Hu; apply pc_ok_unlocked; eapply all_unlocked_body; [exact L | apply (lk_body _ L); rewrite Hb; reflexivity | exact Hu] ].
    (* caller steps: the context clause *)
    all: try solve [ intros E; right; exists t; eexists; split; [unfold with_caller; apply nth_set_same; exact Hlt | reflexivity] ].
    all: try solve [ intros E; unfold with_caller; eapply ctx_transfer; [exact Ht | auto | rewrite Hpc; cbn; first [discriminate | auto] | exact (Cc E)] ].
    (* caller steps: the pcs *)
    all: try solve [ intros u cu Hu; split_caller t u Hu Hlt;
                     [ unfold pc_ok; cbn; auto | eapply pc_ok_same_flags; [reflexivity .. | exact (Cp u cu Hu)] ] ].
    all: try solve [ intros u cu Hu; split_caller t u Hu Hlt;
                     [ unfold pc_ok; cbn; intuition congruence
                     | first [ eapply pc_ok_same_flags; [reflexivity .. | exact (Cp u cu Hu)]
                             | apply pc_ok_unlocked; apply (others_unlocked s t u cu); [exact L | exact Hheld | congruence | exact Hu] ] ] ].
    all: try solve [ intros u cu Hu; split_caller t u Hu Hlt;
                     [ unfold pc_ok; cbn; intuition congruence
                     | apply pc_ok_unlocked; apply (others_unlocked s t u cu); [exact L | exact Hheld | intros ->; apply Hneq; reflexivity | exact Hu] ] ].
    (* the status read *)
    intros u cu Hu; split_caller t u Hu Hlt; [| eapply pc_ok_same_flags; [reflexivity .. | exact (Cp u cu Hu)] ].
    unfold pc_ok; cbn. destruct d.
    - destruct (f_done Res s) eqn:E; [reflexivity|]. left. destruct (f_tdone Res s) eqn:E2; [|reflexivity].
      assert (f_done Res s = true) by (apply (tm_done _ T); congruence). congruence.
    - destruct (f_cancelled Res s) eqn:E; [reflexivity|]. left. destruct (f_tcanc Res s) eqn:E2; [|reflexivity].
      assert (f_cancelled Res s = true) by (apply (tm_canc _ T); congruence). congruence.
    - (* Cancel found the future done: nobody else can be writing the flags *)
      intros u cu Hu; split_caller t u Hu Hlt; [| eapply pc_ok_same_flags; [reflexivity .. | exact (Cp u cu Hu)] ].
      unfold pc_ok; cbn. split; [exact Pt|]. intros E. destruct (Cc E) as [H|(v & cv & Hv & Hw)]; [exact H|].
      assert (locked_pc (cpc_of Res cv) = true) as Hl by (destruct (cpc_of Res cv); simpl in *; congruence).
      apply (lk_caller _ L v cv Hv) in Hl. assert (v = t) by congruence. subst v.
      rewrite Ht in Hv. injection Hv as <-. rewrite Hpc in Hw. discriminate.
  Qed.

  (** ---- what every completed call in the history witnesses ---- *)
  Definition ev_ok (s : fstate) (e : fcall Res) : Prop :=
    match fc_op Res e, fc_ret Res e with
    | FDeref _, FOut _ _ => exists td, f_tdone Res s = Some td /\ td < fc_resp Res e
    | FStat true, FBool _ true => exists td, f_tdone Res s = Some td /\ td < fc_resp Res e
    | FStat true, FBool _ false => f_tdone Res s = None \/ exists td, f_tdone Res s = Some td /\ fc_inv Res e < td
    | FStat false, FBool _ true => exists tc, f_tcanc Res s = Some tc /\ tc < fc_resp Res e
    | FStat false, FBool _ false => f_tcanc Res s = None \/ exists tc, f_tcanc Res s = Some tc /\ fc_inv Res e < tc
    | FCancel, FBool _ true => f_cancelled Res s = true /\ f_ctx Res s = true /\
                               exists tc, f_tcanc Res s = Some tc /\ tc < fc_resp Res e
    | FCancel, FBool _ false => f_done Res s = true /\ f_cancelled Res s = false /\
                                exists td, f_tdone Res s = Some td /\ td < fc_resp Res e
    | _, _ => True
    end.

  Definition IHist (s : fstate) : Prop := forall e, In e (f_hist Res s) -> ev_ok s e.

  (** old events stay witnessed when the flags only move the way the code moves them *)
  Lemma ev_ok_mono s s' e :
    fc_inv Res e < f_time Res s ->
    (f_tdone Res s' = f_tdone Res s \/ f_tdone Res s = None /\ f_tdone Res s' = Some (f_time Res s)) ->
    (f_tcanc Res s' = f_tcanc Res s \/ f_tcanc Res s = None /\ f_tcanc Res s' = Some (f_time Res s)) ->
    (f_done Res s = true -> f_done Res s' = true) ->
    (f_cancelled Res s' = f_cancelled Res s \/ f_done Res s = false /\ f_cancelled Res s' = true) ->
    (f_ctx Res s = true -> f_ctx Res s' = true) ->
    ev_ok s e -> ev_ok s' e.
  Proof.
    intros Hinv Hd Hc Hdone Hcan Hctx. unfold ev_ok.
    destruct (fc_op Res e) as [ex|[|]|]; destruct (fc_ret Res e) as [o| |[|]]; auto.
    - intros (td & E & Hlt). exists td. destruct Hd as [->|[E' _]]; [auto | congruence].
    - intros (td & E & Hlt). exists td. destruct Hd as [->|[E' _]]; [auto | congruence].
    - intros [E|(td & E & Hlt)].
      + destruct Hd as [->|[_ ->]]; [left; exact E | right; eexists; split; [reflexivity | exact Hinv]].
      + right. exists td. destruct Hd as [->|[E' _]]; [auto | congruence].
    - intros (tc & E & Hlt). exists tc. destruct Hc as [->|[E' _]]; [auto | congruence].
    - intros [E|(tc & E & Hlt)].
      + destruct Hc as [->|[_ ->]]; [left; exact E | right; eexists; split; [reflexivity | exact Hinv]].
      + right. exists tc. destruct Hc as [->|[E' _]]; [auto | congruence].
    - intros (A & B & tc & E & Hlt). split; [|split; [auto|]].
      + destruct Hcan as [->|[_ ->]]; auto.
      + exists tc. destruct Hc as [->|[E' _]]; [auto | congruence].
    - intros (A & B & td & E & Hlt). split; [auto|]. split; [destruct Hcan as [->|[E' _]]; [exact B | congruence]|].
      exists td. destruct Hd as [->|[E' _]]; [auto | congruence].
  Qed.

  Lemma first_time_cases o t : first_time o t = o \/ o = None /\ first_time o t = Some t.
  Proof. destruct o; simpl; auto. Qed.
  Lemma done_time s : ITime s -> f_done Res s = true -> exists td, f_tdone Res s = Some td /\ td < f_time Res s.
  Proof.
    intros T E. apply (tm_done _ T) in E. destruct (f_tdone Res s) as [td|] eqn:E2; [|congruence].
    exists td. split; [reflexivity | exact (tm_done_lt _ T td E2)].
  Qed.
  Lemma canc_time s : ITime s -> f_cancelled Res s = true -> exists tc, f_tcanc Res s = Some tc /\ tc < f_time Res s.
  Proof.
    intros T E. apply (tm_canc _ T) in E. destruct (f_tcanc Res s) as [tc|] eqn:E2; [|congruence].
    exists tc. split; [reflexivity | exact (tm_canc_lt _ T tc E2)].
  Qed.

  Lemma init_hist progs : IHist (finit progs).
  Proof. intros e []. Qed.

  Lemma step_hist s w s' : ILock s -> ITime s -> IOut s -> ICan s -> IHist s -> fstep s w = Some s' -> IHist s'.
  Proof.
    intros L T O C H Hs.
    assert (forall e, In e (f_hist Res s) -> fc_inv Res e < f_time Res s) as Hinv
      by (intros e He; destruct (tm_hist _ T e He); lia).
    step_cases s w Hs.
    all: try (pose proof (can_pc _ C t c Ht) as Pt; unfold pc_ok in Pt; rewrite Hpc in Pt).
    all: intros e He; cbn [f_hist finish] in He.
    (* no new event *)
    all: try solve [ eapply ev_ok_mono; [exact (Hinv e He) | cbn; first [left; reflexivity | apply first_time_cases] | cbn; first [left; reflexivity | apply first_time_cases]
                                        | cbn; auto | cbn; first [left; reflexivity | right; split; [exact Pt | reflexivity]] | cbn; auto | exact (H e He)] ].
    all: destruct He as [<-|He];
      [| eapply ev_ok_mono; [exact (Hinv e He) | cbn; left; reflexivity | cbn; left; reflexivity | cbn; auto | cbn; left; reflexivity | cbn; auto | exact (H e He)] ].
    all: unfold ev_ok; cbn.
    all: try exact Logic.I.
    - (* the re-deposit: the body had marked the future done before delivering *)
      assert (f_done Res s = true) as Hd.
      { destruct (out_hold _ O t c o Ht Hpc) as (Bd & _). apply (out_done _ O).
        destruct (f_body Res s); simpl in *; congruence. }
      destruct (ctodo Res c) as [|[ex| |] r]; apply done_time; assumption.
    - destruct d, b; try exact Pt; [apply done_time | apply canc_time]; assumption.
    - destruct b.
      + destruct Pt as (A & B & Cx). split; [auto|]. split; [auto|]. apply canc_time; auto.
      + destruct Pt as (A & B & _). split; [auto|]. split; [auto|]. apply done_time; auto.
  Qed.

  (** ---- all together ---- *)
  Record Inv (s : fstate) : Prop := {
    i_lock : ILock s; i_time : ITime s; i_out : IOut s; i_can : ICan s; i_hist : IHist s }.

  Lemma init_inv progs : Inv (finit progs).
  Proof. constructor; [apply init_lock | apply init_time | apply init_out | apply init_can | apply init_hist]. Qed.

  Lemma step_inv s w s' : Inv s -> fstep s w = Some s' -> Inv s'.
  Proof.
    intros [L T O C H] Hs. constructor.
    - eapply step_lock; eauto.
    - eapply step_time; eauto.
    - eapply step_out; eauto.
    - eapply step_can; eauto.
    - eapply step_hist; eauto.
  Qed.

  Theorem run_inv sched : forall s, Inv s -> Inv (frun s sched).
  Proof.
    induction sched as [|w r IH]; intros s I; simpl; [exact I|].
    destruct (fstep s w) as [s'|] eqn:E; [apply IH; eapply step_inv; eauto | apply IH; exact I].
  Qed.


  (** ---- no hang: whatever the state reached, as long as the body has not delivered or some caller
      still has a call to make or to finish, SOME thread can move — nobody waits for ever for the
      mutex or for an outcome that was delivered (a patient deref before delivery waits for the
      body, which can always move) ---- *)
  Lemma holder_or_idle (l : list caller) :
    (exists t c o, nth_error l t = Some c /\ cpc_of Res c = CHold Res o) \/
    (forall t c o, nth_error l t = Some c -> cpc_of Res c <> CHold Res o).
  Proof.
    induction l as [|c l IH].
    - right. intros [|t] c o H; discriminate.
    - destruct (cpc_of Res c) eqn:Hp;
        try (destruct IH as [(t & c' & o' & Ht & Hc')|Hno];
             [ left; exists (S t), c', o'; split; assumption
             | right; intros [|t] c' o' H; simpl in H; [injection H as <-; rewrite Hp; discriminate | eapply Hno; eauto] ]).
      left. exists 0, c, o. split; [reflexivity | exact Hp].
  Qed.

  Theorem future_deadlock_free s :
    Inv s ->
    (f_body Res s <> BEnd Res \/ exists t c, nth_error (f_callers Res s) t = Some c /\ (cpc_of Res c <> CIdle Res \/ ctodo Res c <> [])) ->
    exists w s', fstep s w = Some s'.
  Proof.
    intros [L T O C H] Hwork.
    destruct (f_mu Res s) as [[|h]|] eqn:Hmu.
    - (* the body holds f.mu *)
      apply (lk_body _ L) in Hmu. exists (0, false). unfold ConcFuture.fstep, body_step. cbn [fst].
      destruct (f_body Res s); simpl in Hmu; try discriminate; eexists; reflexivity.
    - (* caller h holds f.mu: all its steps are unconditional *)
      pose proof (lk_dom _ L h Hmu) as Hlt. destruct (nth_error (f_callers Res s) h) as [c|] eqn:Hc; [|apply nth_error_None in Hc; lia].
      apply (lk_caller _ L h c Hc) in Hmu. exists (S h, false). unfold ConcFuture.fstep, caller_step. cbn [fst snd]. rewrite Hc.
      destruct (cpc_of Res c) as [|o|d|d b| |d| | | |b]; simpl in Hmu; try discriminate; try (eexists; reflexivity).
      destruct d; eexists; reflexivity.
    - (* f.mu is free *)
      pose proof (out_chan _ O) as Oc. pose proof (out_live _ O) as Ol.
      destruct (f_body Res s) as [|o|o|o|o|] eqn:Hb.
      + exists (0, false). unfold ConcFuture.fstep, body_step. cbn [fst]. rewrite Hb. eexists; reflexivity.
      + exists (0, false). unfold ConcFuture.fstep, body_step. cbn [fst]. rewrite Hb, Hmu. eexists; reflexivity.
      + exfalso. assert (f_mu Res s = Some 0) by (apply (lk_body _ L); rewrite Hb; reflexivity). congruence.
      + exfalso. assert (f_mu Res s = Some 0) by (apply (lk_body _ L); rewrite Hb; reflexivity). congruence.
      + exists (0, false). unfold ConcFuture.fstep, body_step. cbn [fst]. rewrite Hb.
        destruct (f_chan Res s) as [x|] eqn:Hch; [destruct (Oc x eq_refl) as [F _]; discriminate | eexists; reflexivity].
      + (* delivered *)
        destruct Hwork as [Hne|(t & c & Ht & Hc)]; [congruence|].
        destruct (holder_or_idle (f_callers Res s)) as [(u & cu & o & Hu & Hp)|Hno].
        * (* the reader who took the outcome can re-deposit it *)
          destruct (out_hold _ O u cu o Hu Hp) as (_ & _ & Hch).
          exists (S u, false). unfold ConcFuture.fstep, caller_step. cbn [fst snd]. rewrite Hu, Hp, Hch. eexists; reflexivity.
        * destruct (Ol eq_refl) as [Hch|(u & cu & o & Hu & Hp)]; [|exfalso; exact (Hno u cu o Hu Hp)].
          destruct (f_chan Res s) as [x|] eqn:Ech; [|congruence].
          assert (cpc_of Res c = CIdle Res) as Hidle.
          { destruct (locked_pc (cpc_of Res c)) eqn:El.
            - apply (lk_caller _ L t c Ht) in El. congruence.
            - destruct (cpc_of Res c) eqn:Ep; simpl in El; try discriminate; [reflexivity | exfalso; eapply Hno; eauto]. }
          destruct Hc as [Hc|Hc]; [congruence|].
          exists (S t, false). unfold ConcFuture.fstep, caller_step. cbn [fst snd]. rewrite Ht, Hidle.
          destruct (ctodo Res c) as [|[ex|d|] r]; [congruence| | |].
          -- rewrite Ech. destruct (ex && false); eexists; reflexivity.
          -- rewrite Hmu. eexists; reflexivity.
          -- rewrite Hmu. eexists; reflexivity.
  Qed.

  Corollary future_never_stuck progs sched :
    let s := frun (finit progs) sched in
    (f_body Res s <> BEnd Res \/ exists t c, nth_error (f_callers Res s) t = Some c /\ (cpc_of Res c <> CIdle Res \/ ctodo Res c <> [])) ->
    exists w s', fstep s w = Some s'.
  Proof. intros s. apply future_deadlock_free. apply run_inv. apply init_inv. Qed.

  (** ---- THE STATEMENTS OF C10, for every program of every caller and every schedule ---- *)
  Section Statements.
    Variable progs : list (list (fop)).
    Variable sched : list (nat * bool).
    Let s := frun (finit progs) sched.
    Let I : Inv s := run_inv sched _ (init_inv progs).

    (** the body is evaluated at most once, exactly once as soon as it has finished *)
    Theorem future_body_once : f_runs Res s <= 1 /\ (f_body Res s <> BRun Res -> f_runs Res s = 1).
    Proof.
      pose proof (out_body _ (i_out _ I)) as B. unfold body_outcome_ok in B.
      destruct (f_body Res s); destruct B as [_ ->]; split; try lia; congruence.
    Qed.

    (** every deref that returns an outcome returns THE outcome the body produced *)
    Theorem future_same_outcome e1 e2 o1 o2 :
      In e1 (f_hist Res s) -> In e2 (f_hist Res s) -> fc_ret Res e1 = FOut Res o1 -> fc_ret Res e2 = FOut Res o2 ->
      o1 = o2 /\ f_outcome Res s = Some o1.
    Proof.
      intros H1 H2 R1 R2. destruct (out_hist _ (i_out _ I) e1 o1 H1 R1) as [A _]. destruct (out_hist _ (i_out _ I) e2 o2 H2 R2) as [B _].
      split; [congruence | exact A].
    Qed.

    (** future-done? / future-cancelled? never go back from true to false *)
    Theorem future_status_monotone e1 e2 d b :
      In e1 (f_hist Res s) -> In e2 (f_hist Res s) ->
      fc_op Res e1 = FStat d -> fc_ret Res e1 = FBool Res true ->
      fc_op Res e2 = FStat d -> fc_ret Res e2 = FBool Res b ->
      fc_resp Res e1 < fc_inv Res e2 -> b = true.
    Proof.
      intros H1 H2 O1 R1 O2 R2 Hlt. destruct b; [reflexivity|]. exfalso.
      pose proof (i_hist _ I e1 H1) as E1. pose proof (i_hist _ I e2 H2) as E2. unfold ev_ok in E1, E2.
      rewrite O1, R1 in E1. rewrite O2, R2 in E2. destruct d.
      - destruct E1 as (td & A & B). destruct E2 as [C|(td' & C & D)]; [congruence|]. assert (td = td') by congruence. lia.
      - destruct E1 as (td & A & B). destruct E2 as [C|(td' & C & D)]; [congruence|]. assert (td = td') by congruence. lia.
    Qed.

    (** future-done? is true as soon as any deref of the future has returned *)
    Theorem future_done_after_deref e1 e2 o b :
      In e1 (f_hist Res s) -> In e2 (f_hist Res s) ->
      fc_op Res e1 = FDeref false \/ fc_op Res e1 = FDeref true -> fc_ret Res e1 = FOut Res o ->
      fc_op Res e2 = FStat true -> fc_ret Res e2 = FBool Res b ->
      fc_resp Res e1 < fc_inv Res e2 -> b = true.
    Proof.
      intros H1 H2 O1 R1 O2 R2 Hlt. destruct b; [reflexivity|]. exfalso.
      pose proof (i_hist _ I e1 H1) as E1. pose proof (i_hist _ I e2 H2) as E2. unfold ev_ok in E1, E2.
      rewrite R1 in E1. rewrite O2, R2 in E2.
      assert (exists td, f_tdone Res s = Some td /\ td < fc_resp Res e1) as (td & A & B) by (destruct O1 as [O1|O1]; rewrite O1 in E1; exact E1).
      destruct E2 as [C|(td' & C & D)]; [congruence|]. assert (td = td') by congruence. lia.
    Qed.

    (** a cancel that returned true: the future is cancelled for good, its body's context is
        cancelled, every later future-cancelled? and future-cancel says so *)
    Theorem future_cancel_true e1 :
      In e1 (f_hist Res s) -> fc_op Res e1 = FCancel -> fc_ret Res e1 = FBool Res true ->
      f_cancelled Res s = true /\ f_ctx Res s = true /\
      (forall e2 b, In e2 (f_hist Res s) -> fc_op Res e2 = FStat false -> fc_ret Res e2 = FBool Res b ->
                    fc_resp Res e1 < fc_inv Res e2 -> b = true) /\
      (forall e2 b, In e2 (f_hist Res s) -> fc_op Res e2 = FCancel -> fc_ret Res e2 = FBool Res b -> b = true).
    Proof.
      intros H1 O1 R1. pose proof (i_hist _ I e1 H1) as E1. unfold ev_ok in E1. rewrite O1, R1 in E1.
      destruct E1 as (A & B & tc & C & D). split; [exact A|]. split; [exact B|]. split.
      - intros e2 b H2 O2 R2 Hlt. destruct b; [reflexivity|]. exfalso.
        pose proof (i_hist _ I e2 H2) as E2. unfold ev_ok in E2. rewrite O2, R2 in E2.
        destruct E2 as [F|(tc' & F & G)]; [congruence|]. assert (tc = tc') by congruence. lia.
      - intros e2 b H2 O2 R2. destruct b; [reflexivity|]. exfalso.
        pose proof (i_hist _ I e2 H2) as E2. unfold ev_ok in E2. rewrite O2, R2 in E2. destruct E2 as (_ & F & _). congruence.
    Qed.

    (** a cancel that returned false: the future was done and not cancelled, and nothing changed:
        it is never cancelled, its body's context is never cancelled by future-cancel *)
    Theorem future_cancel_false e1 :
      In e1 (f_hist Res s) -> fc_op Res e1 = FCancel -> fc_ret Res e1 = FBool Res false ->
      f_done Res s = true /\ f_cancelled Res s = false /\ f_ctx Res s = false /\
      (forall e2 b, In e2 (f_hist Res s) -> fc_op Res e2 = FStat false -> fc_ret Res e2 = FBool Res b -> b = false) /\
      (forall e2 b, In e2 (f_hist Res s) -> fc_op Res e2 = FStat true -> fc_ret Res e2 = FBool Res b ->
                    fc_resp Res e1 < fc_inv Res e2 -> b = true).
    Proof.
      intros H1 O1 R1. pose proof (i_hist _ I e1 H1) as E1. unfold ev_ok in E1. rewrite O1, R1 in E1.
      destruct E1 as (A & B & td & C & D). split; [exact A|]. split; [exact B|]. split; [|split].
      - destruct (f_ctx Res s) eqn:E; [|reflexivity]. pose proof (can_ctx_rev _ (i_can _ I) E). congruence.
      - intros e2 b H2 O2 R2. destruct b; [|reflexivity]. exfalso.
        pose proof (i_hist _ I e2 H2) as E2. unfold ev_ok in E2. rewrite O2, R2 in E2. destruct E2 as (tc & F & _).
        assert (f_cancelled Res s = true) by (apply (tm_canc _ (i_time _ I)); congruence). congruence.
      - intros e2 b H2 O2 R2 Hlt. destruct b; [reflexivity|]. exfalso.
        pose proof (i_hist _ I e2 H2) as E2. unfold ev_ok in E2. rewrite O2, R2 in E2.
        destruct E2 as [F|(td' & F & G)]; [congruence|]. assert (td = td') by congruence. lia.
    Qed.

    (** the status flags are only ever read or written by the holder of f.mu: no data race *)
    Theorem future_flag_access_exclusive t u ct cu :
      nth_error (f_callers Res s) t = Some ct -> nth_error (f_callers Res s) u = Some cu ->
      locked_pc (cpc_of Res ct) = true -> locked_pc (cpc_of Res cu) = true ->
      t = u /\ body_locked (f_body Res s) = false.
    Proof.
      intros Ht Hu Lt Lu. pose proof (i_lock _ I) as L.
      apply (lk_caller _ L t ct Ht) in Lt. apply (lk_caller _ L u cu Hu) in Lu. split; [congruence|].
      destruct (body_locked (f_body Res s)) eqn:E; [|reflexivity]. apply (lk_body _ L) in E. congruence.
    Qed.
  End Statements.

  (** ---- typing of the recorded calls ---- *)
  Definition IType (s : fstate) : Prop := forall e, In e (f_hist Res s) -> well_typed Res e = true.

  Lemma step_type s w s' : IType s -> fstep s w = Some s' -> IType s'.
  Proof.
    intros H Hs. step_cases s w Hs; intros e He; cbn [f_hist finish] in He; try exact (H e He).
    all: destruct He as [<-|He]; [|exact (H e He)]; unfold well_typed; cbn; try reflexivity.
    - apply andb_true_iff in Hexch. destruct Hexch as [-> _]. reflexivity.
    - destruct (ctodo Res c) as [|[[|]| |] r]; reflexivity.
  Qed.

  Lemma run_type sched : forall s, IType s -> IType (frun s sched).
  Proof.
    induction sched as [|w r IH]; intros s I; simpl; [exact I|].
    destruct (fstep s w) as [s'|] eqn:E; [apply IH; eapply step_type; eauto | apply IH; exact I].
  Qed.

  (** THE EXECUTABLE CLAUSE CHECKER ACCEPTS EVERY HISTORY OF THE MODEL *)
  Variable res_eqb : Res -> Res -> bool.
  Hypothesis res_eqb_refl : forall a, res_eqb a a = true.

  Theorem fhist_ok_model progs sched : fhist_ok Res res_eqb (f_hist Res (frun (finit progs) sched)) = true.
  Proof.
    set (s := frun (finit progs) sched). unfold fhist_ok. apply andb_true_iff. split.
    - apply forallb_forall. intros e He. apply (run_type sched (finit progs)); [intros x []| exact He].
    - apply forallb_forall. intros e1 H1. apply forallb_forall. intros e2 H2.
      unfold pair_ok. repeat (apply andb_true_iff; split).
      + destruct (fc_ret Res e1) as [o1| |b1] eqn:R1; auto. destruct (fc_ret Res e2) as [o2| |b2] eqn:R2; auto.
        destruct (future_same_outcome progs sched e1 e2 o1 o2 H1 H2 R1 R2) as [-> _]. apply res_eqb_refl.
      + destruct (fc_op Res e1) as [x1|d1|] eqn:O1; auto. destruct (fc_ret Res e1) as [o1| |[|]] eqn:R1; auto.
        destruct (fc_op Res e2) as [x2|d2|] eqn:O2; auto. destruct (fc_ret Res e2) as [o2| |[|]] eqn:R2; auto.
        apply negb_true_iff. destruct (Bool.eqb d1 d2) eqn:Ed; [|reflexivity]. apply eqb_prop in Ed. subst d2. simpl.
        destruct (fbefore Res e1 e2) eqn:Eb; [|reflexivity]. apply Nat.ltb_lt in Eb.
        pose proof (future_status_monotone progs sched e1 e2 d1 false H1 H2 O1 R1 O2 R2 Eb). discriminate.
      + destruct (fc_ret Res e1) as [o1| |b1] eqn:R1; auto. destruct (fc_op Res e2) as [x2|[|]|] eqn:O2; auto.
        destruct (fc_ret Res e2) as [o2| |[|]] eqn:R2; auto.
        apply negb_true_iff. destruct (fbefore Res e1 e2) eqn:Eb; [|reflexivity]. apply Nat.ltb_lt in Eb.
        assert (fc_op Res e1 = FDeref false \/ fc_op Res e1 = FDeref true) as O1.
        { pose proof (run_type sched (finit progs) (fun x (F : In x []) => match F with end) e1 H1) as W. fold s in W.
          unfold well_typed in W. rewrite R1 in W. destruct (fc_op Res e1) as [[|]| |]; auto; discriminate. }
        pose proof (future_done_after_deref progs sched e1 e2 o1 false H1 H2 O1 R1 O2 R2 Eb). discriminate.
      + destruct (fc_op Res e1) as [x1|d1|] eqn:O1; auto. destruct (fc_ret Res e1) as [o1| |[|]] eqn:R1; auto.
        * destruct (future_cancel_true progs sched e1 H1 O1 R1) as (_ & _ & A & B).
          destruct (fc_op Res e2) as [x2|[|]|] eqn:O2; auto.
          -- destruct (fc_ret Res e2) as [o2| |[|]] eqn:R2; auto.
             apply negb_true_iff. destruct (fbefore Res e1 e2) eqn:Eb; [|reflexivity]. apply Nat.ltb_lt in Eb.
             pose proof (A e2 false H2 O2 R2 Eb). discriminate.
          -- destruct (fc_ret Res e2) as [o2| |[|]] eqn:R2; auto. pose proof (B e2 false H2 O2 R2). discriminate.
        * destruct (future_cancel_false progs sched e1 H1 O1 R1) as (_ & _ & _ & A & B).
          destruct (fc_op Res e2) as [x2|[|]|] eqn:O2; auto.
          -- destruct (fc_ret Res e2) as [o2| |[|]] eqn:R2; auto.
             apply negb_true_iff. destruct (fbefore Res e1 e2) eqn:Eb; [|reflexivity]. apply Nat.ltb_lt in Eb.
             pose proof (B e2 false H2 O2 R2 Eb). discriminate.
          -- destruct (fc_ret Res e2) as [o2| |[|]] eqn:R2; auto. pose proof (A e2 true H2 O2 R2). discriminate.
  Qed.
End Proofs.
