(** Layer L1: Go slices and maps with aliasing made explicit.
    An arena is the list of all backing objects ever allocated (arrays with their spare
    capacity, Go maps, Go sets), in allocation order; a sequence value is a slice header
    (array id, offset, length; its capacity is what is left of the array), a map value is a
    pointer.  The collection builtins of core.go are re-transcribed over append/reslice/
    map-copy primitives exactly as the Go code performs them, so that "no builtin changes an
    existing value" becomes a frame property of the arena.  Definitions only. *)
From Lisp Require Export Value Core.
Local Open Scope nat_scope.

Inductive hval :=
| HAtomic (v : val)                          (* nil, bool, int, string, symbol, functions...: no slice or map inside *)
| HSeq (isvec : bool) (id off len : nat)     (* types.List / types.Vector {Val: slice header} *)
| HMap (id : nat)                            (* types.HashMap {Val: map pointer} *)
| HSet (id : nat).

Inductive obj :=
| OArr (cells : list hval)                   (* a backing array; its length is its capacity *)
| OMap (kvs : list (str * hval))
| OSet (ks : list str).

Definition arena := list obj.

Definition NILCELL : hval := HAtomic VNil.

(** everything a value refers to was allocated before [i] *)
Definition older (i : nat) (h : hval) : Prop :=
  match h with
  | HAtomic _ => True
  | HSeq _ id _ _ | HMap id | HSet id => id < i
  end.

Definition obj_older (i : nat) (o : obj) : Prop :=
  match o with
  | OArr cells => Forall (older i) cells
  | OMap kvs => Forall (fun kv => older i (snd kv)) kvs
  | OSet _ => True
  end.

(** monotone history: object i only refers to objects allocated before it *)
Definition arena_ok (A : arena) : Prop :=
  forall i o, nth_error A i = Some o -> obj_older i o.

(** reading a header back into an immutable L0 value; fuel bounds the nesting *)
Fixpoint abs (f : nat) (A : arena) (h : hval) : val :=
  match f with
  | O => VNil
  | S f' =>
      match h with
      | HAtomic v => v
      | HSeq isvec id off len =>
          match nth_error A id with
          | Some (OArr cells) =>
              let l := map (abs f' A) (firstn len (skipn off cells)) in
              if isvec then VVec l None else VList l None
          | _ => VNil
          end
      | HMap id =>
          match nth_error A id with
          | Some (OMap kvs) => VMap (map (fun kv => (fst kv, abs f' A (snd kv))) kvs)
          | _ => VNil
          end
      | HSet id =>
          match nth_error A id with
          | Some (OSet ks) => VSet ks
          | _ => VNil
          end
      end
  end.

(** ---- primitives ---- *)
Definition alloc (A : arena) (o : obj) : arena * nat := (A ++ [o], length A).

Definition pad (cells : list hval) (cap : nat) : list hval :=
  cells ++ repeat NILCELL (cap - length cells).

Fixpoint write_at (cells : list hval) (pos : nat) (xs : list hval) {struct pos} : list hval :=
  match pos, cells with
  | O, _ => xs ++ skipn (length xs) cells
  | S p, c :: r => c :: write_at r p xs
  | S _, [] => []
  end.

Fixpoint set_obj (A : arena) (i : nat) (o : obj) : arena :=
  match A, i with
  | [], _ => []
  | _ :: r, O => o :: r
  | x :: r, S i' => x :: set_obj r i' o
  end.

Definition window (A : arena) (id off len : nat) : list hval :=
  match nth_error A id with
  | Some (OArr cells) => firstn len (skipn off cells)
  | _ => []
  end.

(** Go's append(s, xs...): in place when the capacity allows, else a new array whose capacity
    is chosen by the runtime ([grow cap needed], only required to be at least what is needed) *)
Definition go_append (grow : nat -> nat -> nat) (A : arena) (id off len : nat) (xs : list hval)
  : arena * (nat * nat * nat) :=
  match nth_error A id with
  | Some (OArr cells) =>
      let cap := length cells - off in
      if Nat.leb (len + length xs) cap
      then (set_obj A id (OArr (write_at cells (off + len) xs)), (id, off, len + length xs))
      else
        let need := len + length xs in
        let newcap := Nat.max need (grow cap need) in
        let '(A', nid) := alloc A (OArr (pad (firstn len (skipn off cells) ++ xs) newcap)) in
        (A', (nid, 0, need))
  | _ => (A, (id, off, len))
  end.

(** append to the nil / empty slice: always a fresh array *)
Definition append_fresh (grow : nat -> nat -> nat) (A : arena) (xs : list hval) : arena * (nat * nat * nat) :=
  let need := length xs in
  let '(A', nid) := alloc A (OArr (pad xs (Nat.max need (grow 0 need)))) in
  (A', (nid, 0, need)).

Section Builtins.
  Variable grow : nat -> nat -> nat.

  (** conj on a vector after fix 7925729: append(append([]MalType{}, seq.Val...), a[1:]...) *)
  Definition conj_vec (A : arena) (id off len : nat) (xs : list hval) : arena * hval :=
    let '(A1, (i1, o1, l1)) := append_fresh grow A (window A id off len) in
    let '(A2, (i2, o2, l2)) := go_append grow A1 i1 o1 l1 xs in
    (A2, HSeq true i2 o2 l2).

  (** the code before the fix: append(seq.Val, a[1:]...) *)
  Definition conj_vec_buggy (A : arena) (id off len : nat) (xs : list hval) : arena * hval :=
    let '(A2, (i2, o2, l2)) := go_append grow A id off len xs in
    (A2, HSeq true i2 o2 l2).

  (** conj on a list: new_slc := reversed args appended one by one to []; append(new_slc, seq.Val...) *)
  Definition conj_list (A : arena) (id off len : nat) (xs : list hval) : arena * hval :=
    let '(A1, (i1, o1, l1)) := append_fresh grow A (rev xs) in
    let '(A2, (i2, o2, l2)) := go_append grow A1 i1 o1 l1 (window A id off len) in
    (A2, HSeq false i2 o2 l2).

  (** concat after the fix: copy of the first argument, then appends *)
  Fixpoint concat_more (A : arena) (i o l : nat) (rest : list (nat * nat * nat)) : arena * (nat * nat * nat) :=
    match rest with
    | [] => (A, (i, o, l))
    | (id, off, len) :: r =>
        let '(A', (i', o', l')) := go_append grow A i o l (window A id off len) in
        concat_more A' i' o' l' r
    end.

  Definition concat_seqs (A : arena) (first : nat * nat * nat) (rest : list (nat * nat * nat)) : arena * hval :=
    let '(id, off, len) := first in
    let '(A1, (i1, o1, l1)) := append_fresh grow A (window A id off len) in
    let '(A2, (i2, o2, l2)) := concat_more A1 i1 o1 l1 rest in
    (A2, HSeq false i2 o2 l2).

  (** cons: append([]MalType{x}, lst...) *)
  Definition cons_seq (A : arena) (x : hval) (id off len : nat) : arena * hval :=
    let '(A1, (i1, o1, l1)) := append_fresh (fun _ n => n) A [x] in
    let '(A2, (i2, o2, l2)) := go_append grow A1 i1 o1 l1 (window A id off len) in
    (A2, HSeq false i2 o2 l2).

  (** windows: no allocation, no write *)
  Definition rest_seq (A : arena) (id off len : nat) : arena * hval :=
    (A, if Nat.eqb len 0 then HSeq false id off 0 else HSeq false id (S off) (len - 1)).
  Definition subvec_seq (A : arena) (id off len from to : nat) : arena * hval :=
    (A, if Nat.leb from to && Nat.leb to len then HSeq true id (off + from) (to - from) else NILCELL).
  Definition vec_seq (A : arena) (id off len : nat) : arena * hval := (A, HSeq true id off len).
  Definition seq_seq (A : arena) (id off len : nat) : arena * hval := (A, HSeq false id off len).
  Definition with_meta_h (A : arena) (h : hval) : arena * hval := (A, h).

  (** take / drop families: a fresh list built by appending the selected elements *)
  Definition fresh_list (A : arena) (cells : list hval) : arena * hval :=
    let '(A1, (i1, o1, l1)) := append_fresh grow A cells in (A1, HSeq false i1 o1 l1).

  (** assoc on a vector: copy_vector, then index writes into the copy *)
  Definition assoc_vec (A : arena) (id off len : nat) (idx : nat) (v : hval) : arena * hval :=
    if Nat.ltb idx len then
      let '(A1, (i1, o1, l1)) := append_fresh grow A (window A id off len) in
      match nth_error A1 i1 with
      | Some (OArr cells) => (set_obj A1 i1 (OArr (write_at cells (o1 + idx) [v])), HSeq true i1 o1 l1)
      | _ => (A1, NILCELL)
      end
    else (A, NILCELL).

  (** maps: copy_hash_map into a new Go map, writes and deletes go to the copy *)
  Definition map_of (A : arena) (id : nat) : list (str * hval) :=
    match nth_error A id with Some (OMap kvs) => kvs | _ => [] end.
  Definition assoc_map (A : arena) (id : nat) (k : str) (v : hval) : arena * hval :=
    let '(A1, nid) := alloc A (OMap (aset k v (map_of A id))) in (A1, HMap nid).
  Definition dissoc_map (A : arena) (id : nat) (ks : list str) : arena * hval :=
    let '(A1, nid) := alloc A (OMap (fold_left (fun m k => adel k m) ks (map_of A id))) in (A1, HMap nid).
  Definition merge_maps (A : arena) (id0 id1 : nat) : arena * hval :=
    let '(A1, nid) := alloc A (OMap (fold_left (fun acc kv => aset (fst kv) (snd kv) acc) (map_of A id1) (map_of A id0))) in
    (A1, HMap nid).

  (** the seeded defect C02-m2, kept as a refuted variant: delete in the caller's own map *)
  Definition dissoc_map_in_place (A : arena) (id : nat) (ks : list str) : arena * hval :=
    (set_obj A id (OMap (fold_left (fun m k => adel k m) ks (map_of A id))), HMap id).
End Builtins.

(** ---- histories ---- *)
Inductive op :=
| OpLit (cells : list (nat + val))                 (* literal vector of registers / atomic values *)
| OpLitMap (kvs : list (str * (nat + val)))
| OpConj (r : nat) (xs : list (nat + val))
| OpConcat (r : nat) (rs : list nat)
| OpCons (x : nat + val) (r : nat)
| OpRest (r : nat) | OpVec (r : nat) | OpSeq (r : nat) | OpWithMeta (r : nat)
| OpSubvec (r from to : nat)
| OpTake (n : nat) (r : nat) | OpDrop (n : nat) (r : nat)
| OpAssoc (r : nat) (k : str) (v : nat + val)
| OpAssocVec (r : nat) (i : nat) (v : nat + val)
| OpDissoc (r : nat) (ks : list str)
| OpMerge (r1 r2 : nat).

Definition operand (regs : list hval) (x : nat + val) : hval :=
  match x with
  | inl r => nth r regs NILCELL
  | inr v => HAtomic v
  end.

Definition seq_of (h : hval) : option (nat * nat * nat) :=
  match h with HSeq _ id off len => Some (id, off, len) | _ => None end.

Definition run_op (grow : nat -> nat -> nat) (A : arena) (regs : list hval) (o : op) : arena * hval :=
  let R r := nth r regs NILCELL in
  match o with
  | OpLit cells => let '(A1, (i, off, l)) := append_fresh grow A (map (operand regs) cells) in (A1, HSeq true i off l)
  | OpLitMap kvs => let '(A1, nid) := alloc A (OMap (map (fun kv => (fst kv, operand regs (snd kv))) kvs)) in (A1, HMap nid)
  | OpConj r xs =>
      match R r with
      | HSeq true id off len => conj_vec grow A id off len (map (operand regs) xs)
      | HSeq false id off len => conj_list grow A id off len (map (operand regs) xs)
      | _ => (A, NILCELL)
      end
  | OpConcat r rs =>
      match seq_of (R r) with
      | Some first =>
          concat_seqs grow A first (fold_right (fun r acc => match seq_of (R r) with Some s => s :: acc | None => acc end) [] rs)
      | None => (A, NILCELL)
      end
  | OpCons x r => match seq_of (R r) with Some (id, off, len) => cons_seq grow A (operand regs x) id off len | None => (A, NILCELL) end
  | OpRest r => match seq_of (R r) with Some (id, off, len) => rest_seq A id off len | None => (A, NILCELL) end
  | OpVec r => match seq_of (R r) with Some (id, off, len) => vec_seq A id off len | None => (A, NILCELL) end
  | OpSeq r => match seq_of (R r) with Some (id, off, len) => seq_seq A id off len | None => (A, NILCELL) end
  | OpWithMeta r => with_meta_h A (R r)
  | OpSubvec r from to => match R r with HSeq true id off len => subvec_seq A id off len from to | _ => (A, NILCELL) end
  | OpTake n r => match seq_of (R r) with Some (id, off, len) => fresh_list grow A (firstn n (window A id off len)) | None => (A, NILCELL) end
  | OpDrop n r => match seq_of (R r) with Some (id, off, len) => fresh_list grow A (skipn n (window A id off len)) | None => (A, NILCELL) end
  | OpAssoc r k v => match R r with HMap id => assoc_map A id k (operand regs v) | _ => (A, NILCELL) end
  | OpAssocVec r i v => match R r with HSeq true id off len => assoc_vec grow A id off len i (operand regs v) | _ => (A, NILCELL) end
  | OpDissoc r ks => match R r with HMap id => dissoc_map A id ks | _ => (A, NILCELL) end
  | OpMerge r1 r2 => match R r1, R r2 with HMap a, HMap b => merge_maps A a b | _, _ => (A, NILCELL) end
  end.

(** a history: every step binds a new register *)
Fixpoint run_history (grow : nat -> nat -> nat) (A : arena) (regs : list hval) (ops : list op) : arena * list hval :=
  match ops with
  | [] => (A, regs)
  | o :: r => let '(A', h) := run_op grow A regs o in run_history grow A' (regs ++ [h]) r
  end.
