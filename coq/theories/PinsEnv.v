(** C11: the lock discipline of env/env.go on the regenerated action lists. *)
From Lisp Require Import Base Lockset LocksetProofs PinsCommon Gen.ConcActions.
Local Open Scope nat_scope.

Definition env_shared (f : str) : bool := str_eqb f (s_ "data") || str_eqb f (s_ "outer").
Definition env_entry_points := toks ["Find"; "Set"; "Remove"; "Get"; "Update"; "Symbols";
                                     "NewEnv"; "NewSubordinateEnv"; "NewSubordinateEnvWithBinds"]%string.

Lemma env_discipline : discipline env_shared env_all env_entry_points = true.
Proof. vm_compute. reflexivity. Qed.
Lemma env_all_fn_ok : all_fn_ok env_shared env_all = true.
Proof. vm_compute. reflexivity. Qed.
