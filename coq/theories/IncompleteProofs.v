(** C16: incomplete input is told apart from malformed input — token level.
    [Complete ts v]: the token list reads as exactly one form v, whatever follows it.
    [Incomplete c ts]: ts is a text that runs out inside a bracket whose closer is c, all
    enclosed items before the end being complete (so that appending closers can finish it).
    Theorem: an Incomplete text is rejected with "expected 'c', got EOF", c being the closer of
    the INNERMOST open bracket; a Complete one is never reported as incomplete; a Complete one
    followed by anything (surplus closer, second expression) is rejected with another error. *)
From Lisp Require Import Base Value Core Scanner Reader BaseProofs ReaderProofs.
Local Open Scope nat_scope.

Section Incomplete.
  Variable m : option str.
  Variable ph : option (list (str * val)).
  Variable ext : option (str -> list val -> outcome val).

  Notation rf := (read_form m ph ext).

  Definition Complete (ts : list token) (v : val) : Prop :=
    ts <> [] /\ forall rest fuel, length (ts ++ rest) <= fuel -> rf (S fuel) (ts ++ rest) = Ok (v, rest).

  Definition eof_error (c : str) (o : outcome (val * list token)) : Prop :=
    exists p, o = Err (VLispErr (VGoErr (s_ "expected '" ++ c ++ s_ "', got EOF")) p).

  Definition head_text_not (c : str) (ts : list token) : Prop :=
    match ts with t :: _ => str_eqb (ttext t) c = false | [] => True end.

  (** a run of complete items, none of which starts with the closer *)
  Inductive Items (closer : str) : list token -> Prop :=
  | Items_nil : Items closer []
  | Items_cons : forall it v rest,
      Complete it v -> head_text_not closer it -> Items closer rest -> Items closer (it ++ rest).

  Inductive Incomplete : str -> list token -> Prop :=
  | Inc_open : forall t c kind its,
      closer_of t = Some (c, kind) -> Items c its -> Incomplete c (t :: its)
  | Inc_nest : forall t c kind its c' inner,
      closer_of t = Some (c, kind) -> Items c its -> Incomplete c' inner -> head_text_not c inner ->
      Incomplete c' (t :: its ++ inner)
  | Inc_macro : forall t name c ts,
      macro_name t = Some name -> Incomplete c ts -> Incomplete c (t :: ts)
  | Inc_meta1 : forall t c ts,
      macro_name t = None -> text_is t "^" = true -> Incomplete c ts -> Incomplete c (t :: ts)
  | Inc_meta2 : forall t c mt v ts,
      macro_name t = None -> text_is t "^" = true -> Complete mt v -> Incomplete c ts -> Incomplete c (t :: mt ++ ts).

  Lemma text_is_eq t s : text_is t s = true -> ttext t = s_ s.
  Proof. unfold text_is. apply str_eqb_eq. Qed.

  (** an opening bracket is none of the other dispatch cases of read_form *)
  Lemma opener_dispatch t c kind : closer_of t = Some (c, kind) ->
    macro_name t = None /\ text_is t "^" = false /\ text_is t ")" = false /\ text_is t "]" = false /\ text_is t "}" = false.
  Proof.
    unfold closer_of, macro_name, text_is.
    destruct (str_eqb_spec (ttext t) (s_ "(")) as [->|_]; [intros _; repeat split; reflexivity|].
    destruct (str_eqb_spec (ttext t) (s_ "[")) as [->|_]; [intros _; repeat split; reflexivity|].
    destruct (str_eqb_spec (ttext t) (s_ "{")) as [->|_]; [intros _; repeat split; reflexivity|].
    destruct (str_eqb_spec (ttext t) (s_ "#{")) as [->|_]; [intros _; repeat split; reflexivity|].
    destruct (str_eqb_spec (ttext t) [171%N]) as [->|_]; [intros _; repeat split; reflexivity|].
    discriminate.
  Qed.

  Lemma read_form_open fuel t c kind rest :
    closer_of t = Some (c, kind) ->
    rf (S fuel) (t :: rest) =
    read_items m (rf fuel) (fun items cl => finish_coll ext kind items (span_pos m t cl)) c fuel rest [] t.
  Proof.
    intros H. destruct (opener_dispatch t c kind H) as (H1 & H2 & H3 & H4 & H5).
    rewrite read_form_S, H1, H2, H3, H4, H5, H. reflexivity.
  Qed.

  (** the item loop walks over complete items *)
  Lemma read_items_skip fin closer f : forall its, Items closer its ->
    forall tail k acc last, length (its ++ tail) <= f -> length (its ++ tail) < k ->
    exists k' acc' last', length tail < k' /\
      read_items m (rf (S f)) fin closer k (its ++ tail) acc last =
      read_items m (rf (S f)) fin closer k' tail acc' last'.
  Proof.
    induction 1 as [|it v rest Hc Hh Hits IH]; intros tail k acc last Hf Hk.
    - exists k, acc, last. split; auto.
    - rewrite <- app_assoc in *. destruct Hc as [Hne Hread].
      destruct it as [|t0 it']; [congruence|]. simpl in Hh.
      destruct k as [|k]; [lia|]. cbn [read_items app].
      rewrite Hh. change (t0 :: it' ++ rest ++ tail) with ((t0 :: it') ++ (rest ++ tail)).
      rewrite Hread by exact Hf. cbn [bind].
      rewrite app_length in Hf, Hk. simpl in Hf, Hk.
      destruct (IH tail k (v :: acc) t0) as (k' & acc' & last' & Hk' & Heq); try lia.
      exists k', acc', last'. split; auto.
  Qed.

  Lemma incomplete_head c ts : Incomplete c ts ->
    match ts with
    | t :: _ => (exists x, closer_of t = Some x) \/ (exists n, macro_name t = Some n) \/ text_is t "^" = true
    | [] => False
    end.
  Proof. destruct 1; eauto. Qed.

  (** THE THEOREM *)
  Theorem incomplete_reads_eof : forall c ts, Incomplete c ts ->
    forall fuel, length ts <= fuel -> eof_error c (rf (S fuel) ts).
  Proof.
    induction 1 as [t c kind its Hcl Hits | t c kind its c' inner Hcl Hits Hinner IH Hhead
                   | t name c ts Hm Hinc IH | t c ts Hm Hmeta Hinc IH | t c mt v ts Hm Hmeta Hc Hinc IH];
      intros fuel Hf; simpl in Hf.
    - (* the text ends right inside this bracket *)
      rewrite (read_form_open fuel t c kind its Hcl).
      destruct fuel as [|f]; [lia|].
      destruct (read_items_skip (fun items cl => finish_coll ext kind items (span_pos m t cl)) c f its Hits [] (S f) [] t)
        as (k' & acc' & last' & Hk' & Heq); rewrite ?app_nil_r; try lia.
      rewrite app_nil_r in Heq. rewrite Heq. destruct k'; [simpl in Hk'; lia|].
      cbn [read_items]. unfold expected_eof, eof_error. eauto.
    - (* an inner bracket is still open: its closer is the one reported *)
      rewrite (read_form_open fuel t c kind (its ++ inner) Hcl).
      destruct fuel as [|f]; [lia|]. rewrite app_length in Hf.
      destruct (read_items_skip (fun items cl => finish_coll ext kind items (span_pos m t cl)) c f its Hits inner (S f) [] t)
        as (k' & acc' & last' & Hk' & Heq); rewrite ?app_length; try lia.
      rewrite Heq. destruct k'; [lia|].
      pose proof (incomplete_head _ _ Hinner) as Hd. destruct inner as [|t0 inner']; [contradiction|].
      simpl in Hhead. cbn [read_items]. rewrite Hhead.
      destruct (IH f) as [p Hp]; [lia|]. rewrite Hp. cbn [bind]. unfold eof_error; eauto.
    - (* reader macro *)
      rewrite read_form_S, Hm. destruct fuel as [|f]; [lia|].
      destruct (IH f) as [p Hp]; [lia|]. rewrite Hp. cbn [bind]. unfold eof_error; eauto.
    - (* ^ with an incomplete meta *)
      rewrite read_form_S, Hm, Hmeta. destruct fuel as [|f]; [lia|].
      destruct (IH f) as [p Hp]; [lia|]. rewrite Hp. cbn [bind]. unfold eof_error; eauto.
    - (* ^ meta and an incomplete form *)
      rewrite read_form_S, Hm, Hmeta. destruct fuel as [|f]; [lia|]. rewrite app_length in Hf.
      destruct Hc as [_ Hread]. rewrite Hread by (rewrite app_length; lia). cbn [bind].
      destruct (IH f) as [p Hp]; [lia|]. rewrite Hp. cbn [bind]. unfold eof_error; eauto.
  Qed.

  (** ---- complete expressions ---- *)
  Lemma complete_never_incomplete ts v c fuel :
    Complete ts v -> length ts <= fuel -> ~ eof_error c (rf (S fuel) ts).
  Proof.
    intros [_ H] Hf [p Hp]. specialize (H [] fuel). rewrite app_nil_r in H. rewrite H in Hp by exact Hf. discriminate.
  Qed.

  (** a complete expression followed by anything — a surplus closing bracket, a second
      expression — is rejected, with an error that is not the incomplete-input one *)
  Theorem complete_then_more_rejected ts v extra :
    Complete ts v -> extra <> [] ->
    read_all m ph ext (ts ++ extra) = Err (VLispErr (VGoErr (s_ "not all tokens where parsed")) None).
  Proof.
    intros [Hne H] He. unfold read_all. destruct (ts ++ extra) as [|t0 l0] eqn:E.
    - destruct ts; [congruence | discriminate].
    - rewrite <- E. rewrite (H extra (length (ts ++ extra)) (le_n _)). cbn [bind].
      destruct extra; [congruence | reflexivity].
  Qed.

  Theorem complete_accepted ts v : Complete ts v -> read_all m ph ext ts = Ok v.
  Proof.
    intros [Hne H]. unfold read_all. destruct ts as [|t0 l0]; [congruence|].
    specialize (H [] (length (t0 :: l0))). rewrite app_nil_r in H. rewrite (H (le_n _)). reflexivity.
  Qed.

  (** an unmatched closing bracket where a form is expected is an error of its own *)
  Lemma unexpected_closer t rest fuel :
    text_is t ")" = true \/ text_is t "]" = true \/ text_is t "}" = true ->
    exists msg p, rf (S fuel) (t :: rest) = Err (VLispErr (VGoErr msg) p) /\
                  (msg = s_ "unexpected ')'" \/ msg = s_ "unexpected ']'" \/ msg = s_ "unexpected '}'").
  Proof.
    intros H. rewrite read_form_S. unfold macro_name, text_is in *.
    destruct H as [H|[H|H]]; apply str_eqb_eq in H; rewrite H; cbn.
    - exists (s_ "unexpected ')'"), (tok_pos m t). split; [reflexivity | auto].
    - exists (s_ "unexpected ']'"), (tok_pos m t). split; [reflexivity | auto].
    - exists (s_ "unexpected '}'"), (tok_pos m t). split; [reflexivity | auto].
  Qed.
End Incomplete.

(** atoms are complete forms (non-vacuity of [Complete]); brackets of complete items are complete *)
Lemma complete_symbol m ph ext t :
  tkind_of t = KIdent -> macro_name t = None -> closer_of t = None ->
  text_is t "^" = false -> text_is t ")" = false -> text_is t "]" = false -> text_is t "}" = false ->
  head_is (ttext t) 36 = false ->
  exists v, Complete m ph ext [t] v.
Proof.
  intros Hk H1 H2 H3 H4 H5 H6 H7. unfold Complete.
  destruct (read_atom m t) as [v| | |] eqn:E.
  - exists v. split; [discriminate|]. intros rest fuel _. simpl app. rewrite read_form_S, H1, H3, H4, H5, H6, H2, H7, E. reflexivity.
  - unfold read_atom in E. rewrite Hk in E. repeat match type of E with context [if ?c then _ else _] => destruct c end; discriminate.
  - unfold read_atom in E. rewrite Hk in E. repeat match type of E with context [if ?c then _ else _] => destruct c end; discriminate.
  - unfold read_atom in E. rewrite Hk in E. repeat match type of E with context [if ?c then _ else _] => destruct c end; discriminate.
Qed.
