// Package h is the shared part of the Go-side harness: wire encoding of lisp
// values (the format parsed by coq/theories/Wire.v), deterministic PRNG,
// environment construction, generators, an independent structural comparison.
package h

import (
	"fmt"
	"sort"
	"strconv"
	"strings"
	"unicode/utf8"

	"github.com/jig/lisp/types"
)

// CodePoints decodes a Go string into code points; an invalid byte b becomes 1114112+b.
func CodePoints(s string) []int {
	out := make([]int, 0, len(s))
	for i := 0; i < len(s); {
		r, w := utf8.DecodeRuneInString(s[i:])
		if r == utf8.RuneError && w == 1 {
			out = append(out, 1114112+int(s[i]))
			i++
			continue
		}
		out = append(out, int(r))
		i += w
	}
	return out
}

func encStr(b *strings.Builder, s string) {
	cps := CodePoints(s)
	b.WriteString(strconv.Itoa(len(cps)))
	b.WriteByte(' ')
	for _, c := range cps {
		b.WriteString(strconv.Itoa(c))
		b.WriteByte(' ')
	}
}

// cpLess orders strings as Wire.str_ltb does: lexicographically by code point.
func cpLess(a, b string) bool {
	x, y := CodePoints(a), CodePoints(b)
	for i := 0; i < len(x) && i < len(y); i++ {
		if x[i] != y[i] {
			return x[i] < y[i]
		}
	}
	return len(x) < len(y)
}

func SortedKeys(m map[string]types.MalType) []string {
	ks := make([]string, 0, len(m))
	for k := range m {
		ks = append(ks, k)
	}
	sort.Slice(ks, func(i, j int) bool { return cpLess(ks[i], ks[j]) })
	return ks
}

func SortedSet(m map[string]struct{}) []string {
	ks := make([]string, 0, len(m))
	for k := range m {
		ks = append(ks, k)
	}
	sort.Slice(ks, func(i, j int) bool { return cpLess(ks[i], ks[j]) })
	return ks
}

// DeepValues counts values nested deeper than MaxDepth met by the encoder or the printer: lisp values are
// immutable trees, so such a value can only come from an in-place mutation that made a value contain itself.
var DeepValues int

const MaxDepth = 300

// Enc writes the canonical wire form of v (maps and sets sorted by key).
func Enc(b *strings.Builder, v types.MalType) { encD(b, v, 0) }

func encD(b *strings.Builder, v types.MalType, depth int) {
	if depth > MaxDepth {
		DeepValues++
		b.WriteString("O ")
		return
	}
	Enc := func(b *strings.Builder, v types.MalType) { encD(b, v, depth+1) }
	switch x := v.(type) {
	case nil:
		b.WriteString("n ")
	case bool:
		if x {
			b.WriteString("t ")
		} else {
			b.WriteString("f ")
		}
	case int:
		b.WriteString("i " + strconv.Itoa(x) + " ")
	case string:
		b.WriteString("s ")
		encStr(b, x)
	case types.Symbol:
		b.WriteString("y ")
		encStr(b, x.Val)
	case types.List:
		b.WriteString("l " + strconv.Itoa(len(x.Val)) + " ")
		for _, e := range x.Val {
			Enc(b, e)
		}
	case types.Vector:
		b.WriteString("v " + strconv.Itoa(len(x.Val)) + " ")
		for _, e := range x.Val {
			Enc(b, e)
		}
	case types.HashMap:
		b.WriteString("m " + strconv.Itoa(len(x.Val)) + " ")
		for _, k := range SortedKeys(x.Val) {
			encStr(b, k)
			Enc(b, x.Val[k])
		}
	case types.Set:
		b.WriteString("e " + strconv.Itoa(len(x.Val)) + " ")
		for _, k := range SortedSet(x.Val) {
			encStr(b, k)
		}
	case types.MalFunc:
		b.WriteString("F ")
	case types.Func:
		b.WriteString("B ")
	case interface{ ErrorValue() types.MalType }:
		b.WriteString("x ")
		Enc(b, x.ErrorValue())
	case error:
		b.WriteString("G ")
	default:
		if t, ok := v.(types.Typed); ok && t.Type() == "atom" {
			b.WriteString("A ")
			return
		}
		b.WriteString("O ")
	}
}

func EncS(v types.MalType) string {
	var b strings.Builder
	Enc(&b, v)
	return b.String()
}

// Show renders a value as deterministic lisp-like text for humans (replay files).
func Show(v types.MalType) string { return showD(v, 0) }

func showD(v types.MalType, depth int) string {
	if depth > MaxDepth {
		DeepValues++
		return "#<too-deep>"
	}
	Show := func(v types.MalType) string { return showD(v, depth+1) }
	showAll := func(l []types.MalType) string {
		parts := make([]string, len(l))
		for i, e := range l {
			parts[i] = Show(e)
		}
		return strings.Join(parts, " ")
	}
	switch x := v.(type) {
	case nil:
		return "nil"
	case bool, int:
		return fmt.Sprint(x)
	case string:
		if strings.HasPrefix(x, "ʞ") {
			return ":" + x[2:]
		}
		return strconv.Quote(x)
	case types.Symbol:
		return x.Val
	case types.List:
		return "(" + showAll(x.Val) + ")"
	case types.Vector:
		return "[" + showAll(x.Val) + "]"
	case types.HashMap:
		var parts []string
		for _, k := range SortedKeys(x.Val) {
			parts = append(parts, Show(k)+" "+Show(x.Val[k]))
		}
		return "{" + strings.Join(parts, " ") + "}"
	case types.Set:
		var parts []string
		for _, k := range SortedSet(x.Val) {
			parts = append(parts, Show(k))
		}
		return "#{" + strings.Join(parts, " ") + "}"
	case types.MalFunc:
		return "#<fn>"
	case types.Func:
		return "#<builtin>"
	case interface{ ErrorValue() types.MalType }:
		return "#<lisp-error " + Show(x.ErrorValue()) + ">"
	case error:
		return "#<go-error " + strconv.Quote(x.Error()) + ">"
	default:
		return fmt.Sprintf("#<%T>", v)
	}
}

func showAll(l []types.MalType) string {
	parts := make([]string, len(l))
	for i, e := range l {
		parts[i] = Show(e)
	}
	return strings.Join(parts, " ")
}

// StructEq is an independent structural comparison of data values (the oracle for
// C06/C14/C15...): it never calls types.Equal_Q.
func StructEq(a, b types.MalType) bool {
	switch x := a.(type) {
	case nil:
		return b == nil
	case bool:
		y, ok := b.(bool)
		return ok && x == y
	case int:
		y, ok := b.(int)
		return ok && x == y
	case string:
		y, ok := b.(string)
		return ok && x == y
	case types.Symbol:
		y, ok := b.(types.Symbol)
		return ok && x.Val == y.Val
	case types.List, types.Vector:
		xs, _ := types.GetSlice(a)
		ys, err := types.GetSlice(b)
		if err != nil || len(xs) != len(ys) {
			return false
		}
		for i := range xs {
			if !StructEq(xs[i], ys[i]) {
				return false
			}
		}
		return true
	case types.HashMap:
		y, ok := b.(types.HashMap)
		if !ok || len(x.Val) != len(y.Val) {
			return false
		}
		for k, v := range x.Val {
			w, present := y.Val[k]
			if !present || !StructEq(v, w) {
				return false
			}
		}
		return true
	case types.Set:
		y, ok := b.(types.Set)
		if !ok || len(x.Val) != len(y.Val) {
			return false
		}
		for k := range x.Val {
			if _, present := y.Val[k]; !present {
				return false
			}
		}
		return true
	default:
		return false
	}
}

// StrictEq is StructEq but list and vector are different kinds (for read/print round trips).
func StrictEq(a, b types.MalType) bool {
	switch x := a.(type) {
	case types.List:
		y, ok := b.(types.List)
		return ok && seqStrict(x.Val, y.Val)
	case types.Vector:
		y, ok := b.(types.Vector)
		return ok && seqStrict(x.Val, y.Val)
	case types.HashMap:
		y, ok := b.(types.HashMap)
		if !ok || len(x.Val) != len(y.Val) {
			return false
		}
		for k, v := range x.Val {
			w, present := y.Val[k]
			if !present || !StrictEq(v, w) {
				return false
			}
		}
		return true
	default:
		return StructEq(a, b)
	}
}

func seqStrict(xs, ys []types.MalType) bool {
	if len(xs) != len(ys) {
		return false
	}
	for i := range xs {
		if !StrictEq(xs[i], ys[i]) {
			return false
		}
	}
	return true
}

// HasMultiMap reports whether v contains a map or set with more than one entry (printed in
// Go's random order).
func HasMultiMap(v types.MalType) bool {
	switch x := v.(type) {
	case types.List:
		for _, e := range x.Val {
			if HasMultiMap(e) {
				return true
			}
		}
	case types.Vector:
		for _, e := range x.Val {
			if HasMultiMap(e) {
				return true
			}
		}
	case types.HashMap:
		if len(x.Val) > 1 {
			return true
		}
		for _, e := range x.Val {
			if HasMultiMap(e) {
				return true
			}
		}
	case types.Set:
		return len(x.Val) > 1
	}
	return false
}
