(** C04 — evaluation never panics into the host. *)
From Lisp Require Import Base Value Core Binder Env Eval Interp EvalProofs Run.
From Lisp.Gen Require Import Examples.

(** the reflective binder converts every panic of the bound function, of the arity check and
    of reflect's assignability check into an error value: a bound builtin never panics *)
Theorem C04_bound_builtin_never_panics : forall sg mn mx f args s, invoke sg mn mx f args <> Panic s.
Proof. exact invoke_no_panic. Qed.

Theorem C04_gate_never_panics : forall sg mn mx args s, gate sg mn mx args <> Panic s.
Proof. exact gate_no_panic. Qed.

(** the same for the builtins that call back into the evaluator (apply, map, swap!, update...):
    whatever the callback does, the recover of the binder turns a panic into an error *)
Theorem C04_higher_order_builtin_never_panics : forall A (m : M A) st s st', finishM m st <> (Panic s, st').
Proof. exact (@finishM_no_panic). Qed.

(** the formerly panicking malformed special forms are errors a try can catch (computed) *)
Example C04_malformed_forms_are_catchable :
  observe ex_c04_malformed = s_ "V l 6 s 3 670 101 49 s 3 670 101 50 s 3 670 101 51 s 3 670 101 52 n s 3 670 101 54 | l 0 ".
Proof. vm_compute. reflexivity. Qed.

Print Assumptions C04_bound_builtin_never_panics.
Print Assumptions C04_gate_never_panics.
Print Assumptions C04_higher_order_builtin_never_panics.
