(** lib/concurrent/concurrent.go, atoms: deref / reset! / swap! as interleaved small steps over
    one RWMutex-protected cell.  The per-function action sequences are the ones the translator
    extracts from the Go source (Gen/ConcActions.v); Props/C09.v pins them.
    Executions are schedules (lists of thread ids); theorems quantify over all schedules. *)
From Lisp Require Export Base.
Local Open Scope nat_scope.

Section Atom.
  Variable V : Type.                       (* the values an atom holds *)

  (** an update function applied to the current value: a new value, or failure (throw / error) *)
  Inductive aop :=
  | OpDeref
  | OpReset (v : V)
  | OpSwap (f : V -> option V)
  | OpSwapSelfDeref (f : V -> V -> option V).   (* the update function derefs the very atom being swapped *)

  Inductive ret := RVal (v : V) | RErr.

  (** where a thread is inside an operation (the program counter along the generated action list) *)
  Inductive pc :=
  | Idle
  | DerefLocked                    (* RLock taken *)
  | DerefRead (v : V)              (* Read:Val done, RUnlock (deferred) pending *)
  | ResetLocked (v : V)            (* Lock taken *)
  | ResetWritten (v : V)           (* WriteVal done, Unlock (deferred) pending *)
  | SwapLocked (f : V -> option V)
  | SwapRead (f : V -> option V) (x : V)    (* Read:Val done, Apply pending *)
  | SwapWritten (r : V)
  | SwapFailed                     (* Apply failed: early Return, deferred Unlock pending *)
  | SelfLocked (f : V -> V -> option V)
  | SelfRead (f : V -> V -> option V) (x : V)   (* inside Apply, about to RLock the same atom *)
  .

  Record thread := mkThread { tpc : pc; todo : list aop; results : list ret }.

  (** linearisation events, in the order of their linearisation points *)
  Inductive event := EDeref (t : nat) (v : V) | EReset (t : nat) (v : V) | ESwap (t : nat) (f : V -> option V) (r : ret).

  Record cstate := mkC {
    cell : V;
    wlock : option nat;            (* sync.RWMutex: the writer, if any *)
    rlocks : list nat;             (* the readers *)
    threads : list thread;
    hist : list event;             (* ghost: most recent first *)
  }.

  Fixpoint set_nth {A} (l : list A) (n : nat) (x : A) : list A :=
    match l, n with
    | [], _ => []
    | _ :: r, O => x :: r
    | y :: r, S n' => y :: set_nth r n' x
    end.

  Fixpoint remove_one (t : nat) (l : list nat) : list nat :=
    match l with [] => [] | x :: r => if Nat.eqb x t then r else x :: remove_one t r end.

  Definition upd (s : cstate) (t : nat) (th : thread) : list thread := set_nth (threads s) t th.

  (** one step of thread t; None: t cannot move (blocked on the mutex, or finished) *)
  Definition step (s : cstate) (t : nat) : option cstate :=
    match nth_error (threads s) t with
    | None => None
    | Some th =>
        match tpc th with
        | Idle =>
            match todo th with
            | [] => None
            | OpDeref :: r =>          (* RLock: blocked while a writer holds the mutex *)
                match wlock s with
                | None => Some (mkC (cell s) None (t :: rlocks s) (upd s t (mkThread DerefLocked r (results th))) (hist s))
                | Some _ => None
                end
            | OpReset v :: r =>        (* Lock: blocked while anybody holds it *)
                match wlock s, rlocks s with
                | None, [] => Some (mkC (cell s) (Some t) [] (upd s t (mkThread (ResetLocked v) r (results th))) (hist s))
                | _, _ => None
                end
            | OpSwap f :: r =>
                match wlock s, rlocks s with
                | None, [] => Some (mkC (cell s) (Some t) [] (upd s t (mkThread (SwapLocked f) r (results th))) (hist s))
                | _, _ => None
                end
            | OpSwapSelfDeref f :: r =>
                match wlock s, rlocks s with
                | None, [] => Some (mkC (cell s) (Some t) [] (upd s t (mkThread (SelfLocked f) r (results th))) (hist s))
                | _, _ => None
                end
            end
        | DerefLocked =>               (* Read:Val — linearisation point of deref *)
            Some (mkC (cell s) (wlock s) (rlocks s) (upd s t (mkThread (DerefRead (cell s)) (todo th) (results th)))
                      (EDeref t (cell s) :: hist s))
        | DerefRead v =>               (* deferred RUnlock, Return *)
            Some (mkC (cell s) (wlock s) (remove_one t (rlocks s)) (upd s t (mkThread Idle (todo th) (RVal v :: results th))) (hist s))
        | ResetLocked v =>             (* WriteVal — linearisation point of reset! *)
            Some (mkC v (wlock s) (rlocks s) (upd s t (mkThread (ResetWritten v) (todo th) (results th))) (EReset t v :: hist s))
        | ResetWritten v =>            (* deferred Unlock, Return *)
            Some (mkC (cell s) None (rlocks s) (upd s t (mkThread Idle (todo th) (RVal v :: results th))) (hist s))
        | SwapLocked f =>              (* Read:Val *)
            Some (mkC (cell s) (wlock s) (rlocks s) (upd s t (mkThread (SwapRead f (cell s)) (todo th) (results th))) (hist s))
        | SwapRead f x =>              (* Apply, then WriteVal (linearisation point) or the early Return *)
            match f x with
            | Some r => Some (mkC r (wlock s) (rlocks s) (upd s t (mkThread (SwapWritten r) (todo th) (results th)))
                                  (ESwap t f (RVal r) :: hist s))
            | None => Some (mkC (cell s) (wlock s) (rlocks s) (upd s t (mkThread SwapFailed (todo th) (results th)))
                                (ESwap t f RErr :: hist s))
            end
        | SwapWritten r =>             (* deferred Unlock *)
            Some (mkC (cell s) None (rlocks s) (upd s t (mkThread Idle (todo th) (RVal r :: results th))) (hist s))
        | SwapFailed =>                (* deferred Unlock after the failed update: the atom is unchanged and usable *)
            Some (mkC (cell s) None (rlocks s) (upd s t (mkThread Idle (todo th) (RErr :: results th))) (hist s))
        | SelfLocked f =>
            Some (mkC (cell s) (wlock s) (rlocks s) (upd s t (mkThread (SelfRead f (cell s)) (todo th) (results th))) (hist s))
        | SelfRead f x =>              (* the update function calls deref on the same atom: RLock while t itself
                                          holds the write lock — sync.RWMutex is not reentrant: blocked for ever *)
            match wlock s with
            | None => Some s           (* cannot happen: t holds the lock *)
            | Some _ => None
            end
        end
    end.

  Fixpoint run (s : cstate) (sched : list nat) : cstate :=
    match sched with
    | [] => s
    | t :: r => match step s t with Some s' => run s' r | None => run s r end
    end.

  (** the sequential specification *)
  Definition spec_event (v : V) (e : event) : V * bool :=      (* new value, does the recorded result fit? *)
    match e with
    | EDeref _ x => (v, true)     (* checked separately: x must be v *)
    | EReset _ x => (x, true)
    | ESwap _ f r => match f v with Some y => (y, true) | None => (v, true) end
    end.

  (** replay the history (oldest first) from the initial value *)
  Fixpoint replay (v0 : V) (h : list event) : V :=     (* h most recent first *)
    match h with
    | [] => v0
    | e :: older => fst (spec_event (replay v0 older) e)
    end.

  Definition init (v0 : V) (progs : list (list aop)) : cstate :=
    mkC v0 None [] (map (fun p => mkThread Idle p []) progs) [].
End Atom.
