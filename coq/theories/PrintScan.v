(** C06, layer B: the scanner cuts the printed form of a value into exactly the tokens the printer
    wrote — for every printable value, every nesting depth.  (Layer A, PrintParse.v: the reader
    rebuilds the value from those tokens.) *)
From Lisp Require Import Base Value Core Scanner Reader Printer BaseProofs ReaderProofs PrintReadProofs.
Local Open Scope N_scope.

Definition tt (t : token) : tkind * str := (tkind_of t, ttext t).

Definition cok (c : N) : bool := negb (rune_error c).
Definition clean (l : str) : bool := forallb cok l.

Lemma clean_app a b : clean (a ++ b) = (clean a && clean b)%bool.
Proof. apply forallb_app. Qed.

(** what may follow a printed value: end of text, a blank, a closing bracket *)
Definition delim (rest : str) : bool :=
  match rest with [] => true | c :: _ => N.eqb c 32 || N.eqb c 41 || N.eqb c 93 || N.eqb c 125 end.

(** first character of a token: neither blank nor comment *)
Definition starts_tok (l : str) : bool :=
  match l with c :: _ => negb (is_ws c) && negb (N.eqb c 59) | [] => false end.

Lemma skip_blank_id n l : starts_tok l = true -> skip_blank (S n) l = l.
Proof.
  destruct l as [|c r]; [discriminate|]. cbn [starts_tok skip_blank]. rewrite andb_true_iff, !negb_true_iff.
  intros [H1 H2]. now rewrite H1, H2.
Qed.

Lemma skip_blank_space n l : starts_tok l = true -> skip_blank (S (S n)) (32 :: l) = l.
Proof. intros H. cbn [skip_blank]. change (is_ws 32) with true. cbn iota. apply skip_blank_id, H. Qed.

(** skip_blank returns a suffix *)
Lemma drop_while_suffix p l : exists pre, l = pre ++ drop_while p l.
Proof.
  induction l as [|c r [pre IH]]; [exists []; reflexivity|]. simpl. destruct (p c).
  - exists (c :: pre). simpl. now rewrite <- IH.
  - exists []. reflexivity.
Qed.

Lemma skip_blank_suffix : forall n l, exists pre, l = pre ++ skip_blank n l.
Proof.
  induction n as [|n IH]; intros l; [exists []; reflexivity|]. destruct l as [|c r]; [exists []; reflexivity|].
  cbn [skip_blank]. destruct (is_ws c).
  - destruct (IH r) as [pre E]. exists (c :: pre). simpl. now rewrite <- E.
  - destruct (N.eqb c 59).
    + destruct (drop_while_suffix (fun x => negb (N.eqb x 10)) r) as [p1 E1].
      destruct (IH (drop_while (fun x => negb (N.eqb x 10)) r)) as [p2 E2].
      exists (c :: p1 ++ p2). simpl. rewrite <- app_assoc, <- E2, <- E1. reflexivity.
    + exists []. reflexivity.
Qed.

Lemma consumed_app a b : consumed (a ++ b) b = a.
Proof.
  unfold consumed. rewrite app_length. replace (length a + length b - length b)%nat with (length a) by lia.
  rewrite firstn_app, Nat.sub_diag, firstn_all. simpl. apply app_nil_r.
Qed.

Lemma clean_no_error l : clean l = true -> existsb rune_error l = false.
Proof.
  induction l as [|c r IH]; [reflexivity|]. simpl. rewrite andb_true_iff. intros [H1 H2].
  unfold cok in H1. apply negb_true_iff in H1. rewrite H1. simpl. auto.
Qed.

(** continuation: what the scanner makes of the text after the current token *)
Definition cont (whole rest : str) (K : list (tkind * str)) : Prop :=
  forall fuel, (length rest < fuel)%nat -> exists ts, tokenize_n fuel whole rest false = Some ts /\ map tt ts = K.

(** one token *)
Lemma tok_step fuel whole l A rest k K :
  skip_blank (S (length l)) l = A ++ rest -> A <> [] -> scan_token (A ++ rest) = (k, rest, false) ->
  clean l = true -> (length l < fuel)%nat -> cont whole rest K ->
  exists ts, tokenize_n fuel whole l false = Some ts /\ map tt ts = (k, A) :: K.
Proof.
  intros Hs Hne Hscan Hc Hf Hk. destruct fuel as [|fuel]; [lia|]. cbn [tokenize_n]. rewrite Hs.
  destruct A as [|a A']; [congruence|]. set (A := a :: A') in *.
  change (A ++ rest) with (a :: (A' ++ rest)) at 1. cbv iota. rewrite Hscan.
  rewrite consumed_app.
  destruct (skip_blank_suffix (S (length l)) l) as [pre Epre]. rewrite Hs in Epre.
  assert (Hcl : clean pre = true /\ clean A = true /\ clean rest = true).
  { rewrite Epre, !clean_app, !andb_true_iff in Hc. tauto. }
  destruct Hcl as [Hc1 [Hc2 Hc3]].
  assert (Hsk : consumed l (A ++ rest) = pre).
  { rewrite Epre at 1. apply consumed_app. }
  rewrite Hsk, (clean_no_error _ Hc1), (clean_no_error _ Hc2).
  assert (Hlook : match rest with c :: _ => rune_error c | [] => false end = false).
  { destruct rest as [|c r]; [reflexivity|]. simpl in Hc3. rewrite andb_true_iff in Hc3. destruct Hc3 as [H _].
    unfold cok in H. now apply negb_true_iff in H. }
  rewrite Hlook. cbn [orb].
  assert (Hlen : (length rest < fuel)%nat).
  { rewrite Epre in Hf. rewrite !app_length in Hf. destruct A; [congruence|]. simpl in Hf. lia. }
  destruct (Hk fuel Hlen) as [ts [Et Em]]. rewrite Et. eexists; split; [reflexivity|].
  simpl. unfold tt at 1. simpl. now rewrite Em.
Qed.

(** ---- printed units: a text and the tokens it must scan to ---- *)
Record unit := mkU { utext : str; utoks : list (tkind * str) }.

Definition pre_ok (pre : str) : Prop := pre = [] \/ pre = [32].

Definition UP (u : unit) : Prop :=
  forall fuel whole pre rest K, pre_ok pre -> delim rest = true -> clean (pre ++ utext u ++ rest) = true ->
    (length (pre ++ utext u ++ rest) < fuel)%nat -> cont whole rest K ->
    exists ts, tokenize_n fuel whole (pre ++ utext u ++ rest) false = Some ts /\ map tt ts = utoks u ++ K.

Lemma skip_pre pre l : pre_ok pre -> starts_tok l = true -> skip_blank (S (length (pre ++ l))) (pre ++ l) = l.
Proof.
  intros [->| ->] H; simpl app.
  - apply skip_blank_id, H.
  - destruct l as [|c r]; [discriminate|]. simpl length. apply skip_blank_space, H.
Qed.

(** an atom: one token, whatever delimiter follows *)
Lemma atom_UP A k :
  A <> [] -> starts_tok A = true ->
  (forall rest, delim rest = true -> scan_token (A ++ rest) = (k, rest, false)) ->
  UP (mkU A [(k, A)]).
Proof.
  intros Hne Hst Hscan fuel whole pre rest K Hpre Hd Hc Hf Hk. simpl in *.
  eapply tok_step; eauto.
  - apply skip_pre; auto. destruct A; [congruence|]. exact Hst.
Qed.

(** delimiters are not identifier characters *)
Lemma delim_stops_ident rest : delim rest = true -> drop_while (isIdentRune true) rest = rest.
Proof.
  destruct rest as [|c r]; [reflexivity|]. simpl delim. rewrite !orb_true_iff, !N.eqb_eq.
  intros [[[->| ->]| ->]| ->]; reflexivity.
Qed.

Lemma drop_while_app_all p a b : forallb p a = true -> drop_while p (a ++ b) = drop_while p b.
Proof. induction a as [|c r IH]; simpl; auto. rewrite andb_true_iff. intros [H1 H2]. rewrite H1. auto. Qed.

(** identifiers: symbols, nil, true, false *)
Definition ident_ok (s : str) : bool :=
  match s with c :: r => isIdentRune false c && forallb (isIdentRune true) r | [] => false end.

Lemma ident_first_not_blank c : isIdentRune false c = true -> (negb (is_ws c) && negb (N.eqb c 59))%bool = true.
Proof.
  intros H. destruct (is_ws c) eqn:E1.
  - unfold is_ws in E1. rewrite !orb_true_iff, !N.eqb_eq in E1. destruct E1 as [[[->| ->]| ->]| ->]; discriminate.
  - destruct (N.eqb_spec c 59) as [->|]; [discriminate | reflexivity].
Qed.

Lemma ident_UP s : ident_ok s = true -> UP (mkU s [(KIdent, s)]).
Proof.
  intros H. destruct s as [|c r]; [discriminate|]. simpl in H. rewrite andb_true_iff in H. destruct H as [H1 H2].
  apply atom_UP; [discriminate | apply ident_first_not_blank, H1|].
  intros rest Hd. simpl app. unfold scan_token. rewrite H1. f_equal. f_equal.
  unfold scan_identifier. rewrite drop_while_app_all by exact H2. apply delim_stops_ident, Hd.
Qed.

(** keywords *)
Lemma keyword_UP name : forallb (isIdentRune true) name = true -> UP (mkU (58 :: name) [(KKeyword, 58 :: name)]).
Proof.
  intros H. apply atom_UP; [discriminate | reflexivity|].
  intros rest Hd. simpl app. unfold scan_token. cbn. f_equal. f_equal.
  rewrite drop_while_app_all by exact H. apply delim_stops_ident, Hd.
Qed.

(** quoted strings *)
Lemma scan_string_escaped : forall s fuel rest err, (length (escape_str s) < fuel)%nat ->
  scan_string fuel (escape_str s ++ 34 :: rest) err = (rest, err).
Proof.
  induction s as [|c s IH]; intros fuel rest err Hf.
  - destruct fuel; [simpl in Hf; lia|]. reflexivity.
  - rewrite escape_str_cons in *. rewrite app_length in Hf. unfold esc1 in *.
    destruct (N.eqb_spec c 92) as [->|H1].
    { destruct fuel as [|fuel]; [simpl in Hf; lia|]. simpl in Hf. simpl app. cbn [scan_string]. cbn.
      rewrite IH by lia. now rewrite orb_false_r. }
    destruct (N.eqb_spec c 34) as [->|H2].
    { destruct fuel as [|fuel]; [simpl in Hf; lia|]. simpl in Hf. simpl app. cbn [scan_string]. cbn.
      rewrite IH by lia. now rewrite orb_false_r. }
    destruct (N.eqb_spec c 10) as [->|H3].
    { destruct fuel as [|fuel]; [simpl in Hf; lia|]. simpl in Hf. simpl app. cbn [scan_string]. cbn.
      rewrite IH by lia. now rewrite orb_false_r. }
    destruct fuel as [|fuel]; [simpl in Hf; lia|]. simpl in Hf. simpl app. cbn [scan_string].
    destruct (N.eqb_spec c 34); [congruence|]. destruct (N.eqb_spec c 10); [congruence|]. destruct (N.eqb_spec c 92); [congruence|].
    apply IH. lia.
Qed.

Lemma rawq_not_ident : isIdentRune false RAWQ = false.
Proof. vm_compute. reflexivity. Qed.

Lemma scan_token_quote r : scan_token (34 :: r) = (let '(r', e) := scan_string (S (length r)) r false in (KString, r', e)).
Proof. reflexivity. Qed.
Lemma scan_token_rawq r : scan_token (RAWQ :: r) = (let '(r', e) := scan_raw r in (KRawString, r', e)).
Proof. unfold scan_token. rewrite rawq_not_ident. reflexivity. Qed.

Lemma string_UP s : UP (mkU (34 :: escape_str s ++ [34]) [(KString, 34 :: escape_str s ++ [34])]).
Proof.
  apply atom_UP; [discriminate | reflexivity|].
  intros rest Hd. simpl app. rewrite <- app_assoc. simpl app. rewrite scan_token_quote.
  rewrite scan_string_escaped; [reflexivity|]. rewrite app_length. simpl. lia.
Qed.

(** raw strings *)
Lemma scan_raw_doubled : forall s rest, match rest with c :: _ => N.eqb c RAWQ = false | [] => True end ->
  scan_raw (replace1 RAWQ [RAWQ; RAWQ] s ++ RAWQ :: rest) = (rest, false).
Proof.
  induction s as [|c s IH]; intros rest Hr.
  - simpl. destruct rest as [|c2 r2]; [reflexivity|]. change (N.eqb RAWQ RAWQ) with true. cbn iota. now rewrite Hr.
  - rewrite replace_rawq_cons. unfold dbl. destruct (N.eqb_spec c RAWQ) as [->|Hne].
    + simpl app. cbn [scan_raw]. change (N.eqb RAWQ RAWQ) with true. cbn iota. apply IH, Hr.
    + simpl app. cbn [scan_raw]. destruct (N.eqb_spec c RAWQ); [congruence|]. apply IH, Hr.
Qed.

Lemma delim_not_rawq rest : delim rest = true -> match rest with c :: _ => N.eqb c RAWQ = false | [] => True end.
Proof.
  destruct rest as [|c r]; [auto|]. simpl. rewrite !orb_true_iff, !N.eqb_eq. intros [[[->| ->]| ->]| ->]; reflexivity.
Qed.


Lemma raw_UP s : UP (mkU (RAWQ :: replace1 RAWQ [RAWQ; RAWQ] s ++ [RAWQ]) [(KRawString, RAWQ :: replace1 RAWQ [RAWQ; RAWQ] s ++ [RAWQ])]).
Proof.
  apply atom_UP; [discriminate | reflexivity|].
  intros rest Hd. simpl app. rewrite <- app_assoc. simpl app. rewrite scan_token_rawq.
  rewrite scan_raw_doubled; [reflexivity | apply delim_not_rawq, Hd].
Qed.

(** brackets *)
Lemma closer_step fuel whole pre c rest K :
  (c = 41 \/ c = 93 \/ c = 125) -> pre_ok pre -> clean (pre ++ c :: rest) = true ->
  (length (pre ++ c :: rest) < fuel)%nat -> cont whole rest K ->
  exists ts, tokenize_n fuel whole (pre ++ c :: rest) false = Some ts /\ map tt ts = (KChar c, [c]) :: K.
Proof.
  intros Hc Hpre Hcl Hf Hk. change (c :: rest) with ([c] ++ rest) in *.
  eapply tok_step; eauto; try discriminate.
  - apply (skip_pre pre ([c] ++ rest) Hpre). destruct Hc as [->|[->| ->]]; reflexivity.
  - destruct Hc as [->|[->| ->]]; reflexivity.
Qed.

Definition sp_unit (u : unit) : str := 32 :: utext u.

(** a sequence of units, each preceded by a blank, then the closing bracket *)
Lemma units_then_closer whole c K : (c = 41 \/ c = 93 \/ c = 125) ->
  forall us, Forall UP us -> forall fuel rest,
  clean (concat (map sp_unit us) ++ c :: rest) = true ->
  (length (concat (map sp_unit us) ++ c :: rest) < fuel)%nat -> cont whole rest K ->
  exists ts, tokenize_n fuel whole (concat (map sp_unit us) ++ c :: rest) false = Some ts /\
             map tt ts = concat (map utoks us) ++ (KChar c, [c]) :: K.
Proof.
  intros Hc. induction us as [|u us IH]; intros HF fuel rest Hcl Hf Hk.
  - simpl in *. apply (closer_step fuel whole [] c rest K Hc); auto. left; reflexivity.
  - inversion HF as [|? ? Hu Hus]; subst.
    assert (E : concat (map sp_unit (u :: us)) ++ c :: rest = [32] ++ utext u ++ (concat (map sp_unit us) ++ c :: rest)).
    { simpl. unfold sp_unit at 1. simpl. now rewrite <- app_assoc. }
    rewrite E in *. clear E.
    replace (concat (map utoks (u :: us)) ++ (KChar c, [c]) :: K)
       with (utoks u ++ (concat (map utoks us) ++ (KChar c, [c]) :: K)) by (simpl; now rewrite <- app_assoc).
    set (tail := concat (map sp_unit us) ++ c :: rest) in *.
    apply (Hu fuel whole [32] tail); auto.
    + right; reflexivity.
    + subst tail. destruct us as [|u2 us']; simpl.
      * destruct Hc as [->|[->| ->]]; reflexivity.
      * reflexivity.
    + intros fuel' Hf'. apply IH; auto.
      subst tail. rewrite !clean_app, !andb_true_iff in Hcl. rewrite clean_app, andb_true_iff. tauto.
Qed.

Lemma join_units u us :
  join (s_ " ") (map utext (u :: us)) = utext u ++ concat (map sp_unit us).
Proof.
  revert u; induction us as [|u2 us IH]; intros u; simpl; [now rewrite app_nil_r|].
  f_equal. specialize (IH u2). simpl in IH. rewrite IH. reflexivity.
Qed.

(** a bracketed collection of units *)
Lemma coll_UP O ko c us :
  O <> [] -> starts_tok O = true -> (forall rest, scan_token (O ++ rest) = (ko, rest, false)) ->
  (c = 41 \/ c = 93 \/ c = 125) -> Forall UP us ->
  UP (mkU (O ++ join (s_ " ") (map utext us) ++ [c]) ((ko, O) :: concat (map utoks us) ++ [(KChar c, [c])])).
Proof.
  intros HO Hst Hscan Hc HF fuel whole pre rest K Hpre Hd Hcl Hf Hk. cbn [utext utoks] in *.
  rewrite <- !app_assoc in *. simpl app in *.
  pose proof Hcl as Hcl'. pose proof Hf as Hf'.
  set (body := join (s_ " ") (map utext us) ++ c :: rest) in *.
  replace ((concat (map utoks us) ++ [(KChar c, [c])]) ++ K)
     with (concat (map utoks us) ++ (KChar c, [c]) :: K) by (now rewrite <- app_assoc).
  eapply tok_step with (rest := body); eauto.
  - replace (pre ++ O ++ body) with (pre ++ (O ++ body)) by reflexivity. apply skip_pre; auto.
    destruct O; [congruence|]. exact Hst.
  - (* the body: first unit without blank, the others with *)
    intros fuel' Hfuel'. subst body. destruct us as [|u us'].
    + simpl. apply (closer_step fuel' whole [] c rest K Hc); auto; [left; reflexivity|].
      simpl in Hcl'. rewrite !clean_app, !andb_true_iff in Hcl'. tauto.
    + rewrite join_units in *. rewrite <- app_assoc in *. inversion HF as [|? ? Hu Hus]; subst.
      set (tail := concat (map sp_unit us') ++ c :: rest) in *.
      replace (concat (map utoks (u :: us')) ++ (KChar c, [c]) :: K)
         with (utoks u ++ (concat (map utoks us') ++ (KChar c, [c]) :: K)) by (simpl; now rewrite <- app_assoc).
      apply (Hu fuel' whole [] tail); auto.
      * left; reflexivity.
      * subst tail. destruct us'; simpl; [destruct Hc as [->|[->| ->]]; reflexivity | reflexivity].
      * simpl. rewrite !clean_app, !andb_true_iff in Hcl'. rewrite clean_app, andb_true_iff. tauto.
      * intros f2 Hf2. apply units_then_closer; auto.
        subst tail. rewrite !clean_app, !andb_true_iff in Hcl'. rewrite clean_app, andb_true_iff. tauto.
Qed.

(** ---- integers ---- *)
Fixpoint all_dec (l : str) : bool := match l with [] => true | c :: r => isDecimal c && all_dec r end.

Lemma digits10_all : forall ds rest dsep inv, all_dec ds = true ->
  match rest with c :: _ => isDecimal c = false /\ N.eqb c 95 = false | [] => True end ->
  digits 10 (ds ++ rest) dsep inv = (rest, if ds then dsep else N.lor dsep 1, inv).
Proof.
  induction ds as [|c r IH]; intros rest dsep inv Ha Hr.
  - simpl. destruct rest as [|c2 r2]; [reflexivity|]. destruct Hr as [H1 H2]. cbn [digits]. change (N.leb 10 10) with true.
    cbn iota. rewrite H1, H2. reflexivity.
  - simpl in Ha. rewrite andb_true_iff in Ha. destruct Ha as [Hc Hr'].
    simpl app. cbn [digits]. change (N.leb 10 10) with true. cbn iota. rewrite Hc. cbn [orb].
    assert (H95 : N.eqb c 95 = false).
    { unfold isDecimal in Hc. rewrite andb_true_iff, !N.leb_le in Hc. apply N.eqb_neq. lia. }
    rewrite H95. cbn [negb andb].
    assert (H58 : N.leb (48 + 10) c = false).
    { unfold isDecimal in Hc. rewrite andb_true_iff, !N.leb_le in Hc. apply N.leb_gt. lia. }
    rewrite H58. cbn [andb]. rewrite IH by auto.
    destruct r; f_equal; f_equal; rewrite <- N.lor_assoc; reflexivity.
Qed.

Lemma delim_not_dec rest : delim rest = true ->
  match rest with c :: _ => isDecimal c = false /\ N.eqb c 95 = false | [] => True end.
Proof.
  destruct rest as [|c r]; [auto|]. simpl. rewrite !orb_true_iff, !N.eqb_eq. intros [[[->| ->]| ->]| ->]; split; reflexivity.
Qed.

(** a decimal numeral without leading zero, or "0" *)
Definition numeral_ok (ds : str) : bool :=
  match ds with
  | [] => false
  | c :: r => if N.eqb c 48 then match r with [] => true | _ :: _ => false end else isDecimal c && all_dec r
  end.

Lemma numeral_cases c r : numeral_ok (c :: r) = true ->
  (c = 48 /\ r = []) \/ (isDecimal c = true /\ N.eqb c 48 = false /\ all_dec r = true).
Proof.
  simpl. destruct (N.eqb_spec c 48) as [->|Hne].
  - destruct r; [left; auto | discriminate].
  - rewrite andb_true_iff. intros [H1 H2]. right. repeat split; auto.
Qed.

Lemma numeral_head_dec c r : numeral_ok (c :: r) = true -> isDecimal c = true.
Proof. intros H. destruct (numeral_cases c r H) as [[-> _]|[H1 _]]; [reflexivity | exact H1]. Qed.

Lemma scan_number_numeral tok0 ds rest neg : numeral_ok ds = true -> delim rest = true ->
  scan_number tok0 (ds ++ rest) false neg = (KInt, rest, false).
Proof.
  intros Hn Hd. destruct ds as [|c r]; [discriminate|].
  destruct (numeral_cases c r Hn) as [[-> ->]|[Hc [H48 Hr]]].
  - (* "0" *) simpl app. destruct rest as [|d rest']; [reflexivity|].
    simpl in Hd. rewrite !orb_true_iff, !N.eqb_eq in Hd. destruct Hd as [[[->| ->]| ->]| ->]; reflexivity.
  - unfold scan_number, num_prefix. cbn [head_is app]. rewrite H48.
    unfold num_int.
    change (c :: r ++ rest) with ((c :: r) ++ rest).
    rewrite (digits10_all (c :: r) rest 0 0); [|simpl; now rewrite Hc, Hr | apply delim_not_dec, Hd].
    cbn iota.
    destruct rest as [|d rest']; [reflexivity|].
    simpl in Hd. rewrite !orb_true_iff, !N.eqb_eq in Hd. destruct Hd as [[[->| ->]| ->]| ->]; reflexivity.
Qed.

Lemma decimal_not_ident c : isDecimal c = true -> isIdentRune false c = false /\ norm c = c.
Proof.
  unfold isDecimal. rewrite andb_true_iff, !N.leb_le. intros [H1 H2].
  assert (H : c = 48 \/ c = 49 \/ c = 50 \/ c = 51 \/ c = 52 \/ c = 53 \/ c = 54 \/ c = 55 \/ c = 56 \/ c = 57) by lia.
  repeat (destruct H as [->|H]; [split; reflexivity|]). subst. split; reflexivity.
Qed.

Lemma numeral_UP ds : numeral_ok ds = true -> UP (mkU ds [(KInt, ds)]).
Proof.
  intros Hn. destruct ds as [|c r] eqn:E; [discriminate|]. rewrite <- E in *.
  assert (Hc : isDecimal c = true) by (subst ds; eapply numeral_head_dec; eauto).
  destruct (decimal_not_ident c Hc) as [Hni Hnorm].
  apply atom_UP; [subst; discriminate | |].
  - subst ds. simpl. unfold isDecimal in Hc. rewrite andb_true_iff, !N.leb_le in Hc.
    assert (H : is_ws c = false) by (unfold is_ws; rewrite !orb_false_iff, !N.eqb_neq; lia).
    assert (H0 : N.eqb c 59 = false) by (apply N.eqb_neq; lia). now rewrite H, H0.
  - intros rest Hd. rewrite E at 1. simpl app. unfold scan_token. rewrite Hni, Hnorm, Hc.
    change (c :: r ++ rest) with ((c :: r) ++ rest). rewrite <- E. apply scan_number_numeral; auto.
Qed.

Lemma neg_numeral_UP ds : numeral_ok ds = true -> UP (mkU (45 :: ds) [(KInt, 45 :: ds)]).
Proof.
  intros Hn. apply atom_UP; [discriminate | reflexivity|].
  intros rest Hd. destruct ds as [|c r] eqn:E; [discriminate|]. rewrite <- E in *.
  assert (Hc : isDecimal c = true) by (subst ds; eapply numeral_head_dec; eauto).
  destruct (decimal_not_ident c Hc) as [Hni Hnorm].
  simpl app. unfold scan_token. change (isIdentRune false 45) with false. change (norm 45) with 45.
  change (isDecimal 45) with false. change (N.eqb 45 45) with true. cbn iota.
  rewrite E at 1. simpl app. cbv iota. rewrite Hni, Hnorm, Hc.
  apply scan_number_numeral; auto.
Qed.
