package main

import (
	"context"
	"fmt"
	"strings"

	lisp "github.com/jig/lisp"
	"github.com/jig/lisp/types"
	. "verif.local/harness/h"
)

func init() { runners["C02"] = runC02 }

type c02gen struct {
	r    *Rng
	hist map[string]int
}

func reg(i int) types.MalType { return S(fmt.Sprintf("r%d", i)) }

// step builds the expression for register k from earlier registers (biased to early ones
// and to vectors whose arrays have spare capacity)
func (g *c02gen) step(k int) types.MalType {
	pick := func() types.MalType {
		if k == 0 {
			return V(1, 2, 3)
		}
		if g.r.Intn(3) == 0 {
			return reg(g.r.Intn((k + 1) / 2)) // early registers are re-used most
		}
		return reg(g.r.Intn(k))
	}
	K := Kw
	lit := []types.MalType{1, 2, "s", K("k"), nil}[g.r.Intn(5)]
	key := g.r.Pick([]string{K("a"), K("b"), K("c")})
	switch g.r.Intn(40) {
	case 37: // code is data: a quoted program (its last forms are macro calls) held in a register
		g.hist["quoted-code-literal"]++
		return []types.MalType{
			Q(Call("do", 1, Call("cond", false, K("no"), true, K("yes")))),
			Q(Call("let", V(S("q"), 1), Call("or", nil, S("q")))),
			Q(L(Call("fn", V(S("a")), Call("and", S("a"), 2)), 1)),
			Q(Call("try", Call("throw", 1), Call("catch", S("e"), Call("->", S("e"), Call("list"))))),
		}[g.r.Intn(4)]
	case 38, 39: // evaluating a quoted program (or a part of one) leaves the program as it was written
		g.hist["eval-register"]++
		if g.r.Bool() {
			return Call("eval", pick())
		}
		return Call("list", Call("eval", pick()), Call("eval", pick()))
	case 30:
		g.hist["literal-nested-vector"]++
		return V(V(1, 2), V(3, 4), types.HashMap{Val: map[string]types.MalType{K("a"): V(5, 6)}})
	case 31, 32: // paths of two and three steps through vectors and maps: only the RESULT has the new leaf
		g.hist["update-in/assoc-in-deep-path"]++
		path := []types.MalType{V(g.r.Intn(2), g.r.Intn(2)), V(2, K("a"), g.r.Intn(2)), V(key, g.r.Intn(2)), V(g.r.Intn(3), key)}[g.r.Intn(4)]
		if g.r.Bool() {
			return Call("update-in", pick(), path, Call("fn", V(S("x")), lit))
		}
		return Call("assoc-in", pick(), path, lit)
	case 33: // the EMPTY set, built every way: extending it must leave it empty
		g.hist["empty-set"]++
		return []types.MalType{Call("hash-set"), types.Set{Val: map[string]struct{}{}}, Call("set", V()), Call("dissoc", types.Set{Val: map[string]struct{}{K("a"): {}}}, K("a")), Call("set", nil)}[g.r.Intn(5)]
	case 34, 35:
		g.hist["set-extend"]++
		return Call(g.r.Pick([]string{"conj", "assoc", "dissoc"}), pick(), key)
	case 36: // a set literal in FUNCTION CODE is a value too: every call sees it as written
		g.hist["set-literal-in-function-body"]++
		return Call("let", V(S("tag"), Call("fn", V(S("x")), Call("conj", types.Set{Val: map[string]struct{}{}}, S("x")))), Call("list", Call("tag", K("first")), Call("tag", K("second")), Call("tag", key)))
	case 0:
		g.hist["literal-vector"]++
		n := []int{3, 5, 9}[g.r.Intn(3)]
		xs := make([]types.MalType, n)
		for i := range xs {
			xs[i] = i
		}
		return V(xs...)
	case 1:
		g.hist["literal-map"]++
		return types.HashMap{Val: map[string]types.MalType{K("a"): 1, K("b"): V(1, 2)}}
	case 2:
		g.hist["range"]++
		return Call("vec", Call("range", 0, 3+g.r.Intn(5)))
	case 3, 4, 5:
		g.hist["conj"]++
		return Call("conj", pick(), lit)
	case 6, 7:
		g.hist["concat"]++
		return Call("concat", pick(), pick())
	case 8:
		g.hist["cons"]++
		return Call("cons", lit, pick())
	case 9, 10:
		g.hist["assoc"]++
		if g.r.Bool() {
			return Call("assoc", pick(), key, lit)
		}
		return Call("assoc", pick(), g.r.Intn(3), lit)
	case 11:
		g.hist["dissoc"]++
		return Call("dissoc", pick(), g.r.Pick([]string{K("zz"), key}), key)
	case 12, 13:
		g.hist["subvec"]++
		return Call("subvec", pick(), g.r.Intn(2), 1+g.r.Intn(3))
	case 14:
		g.hist["rest"]++
		return Call("rest", pick())
	case 15:
		g.hist["vec"]++
		return Call("vec", pick())
	case 16:
		g.hist["seq"]++
		return Call("seq", pick())
	case 17:
		g.hist["take-drop"]++
		return Call(g.r.Pick([]string{"take", "drop", "take-last", "drop-last"}), g.r.Intn(3), pick())
	case 18:
		g.hist["merge"]++
		return Call("merge", pick(), types.HashMap{Val: map[string]types.MalType{key: lit}})
	case 19:
		g.hist["rename-keys"]++
		return Call("rename-keys", pick(), types.HashMap{Val: map[string]types.MalType{K("a"): K("c")}})
	case 20:
		g.hist["with-meta"]++
		return Call("with-meta", pick(), types.HashMap{Val: map[string]types.MalType{K("m"): 1}})
	case 21:
		g.hist["assoc-in/update"]++
		switch g.r.Intn(4) {
		case 3:
			// the intermediate key is absent: the path is created in the RESULT, the argument keeps its keys
			g.hist["assoc-in-missing-intermediate-key"]++
			return Call("assoc-in", pick(), V(K("zz"), K("x")), lit)
		case 0:
			return Call("assoc-in", pick(), V(key, K("x")), lit)
		case 1:
			return Call("update", pick(), key, Call("fn", V(S("x")), Call("conj", V(), S("x"))))
		default:
			return Call("update-in", pick(), V(key), Call("fn", V(S("x")), lit))
		}
	case 22:
		g.hist["apply"]++
		return Call("apply", g.r.Pick([]string{"conj", "concat", "vector", "list"}), pick(), Call("list", pick()))
	case 23:
		if g.r.Bool() {
			// a function that KEEPS its rest-parameter list: each call's list is a value of its own
			g.hist["map-keeping-rest-params"]++
			return Call("map", Call("fn", V(S("&"), S("xs")), S("xs")), pick())
		}
		g.hist["map"]++
		return Call("map", Call("fn", V(S("x")), Call("conj", pick(), S("x"))), V(1, 2))
	case 24, 25:
		g.hist["quasiquote-splice"]++
		if g.r.Bool() {
			return L(S("quasiquote"), L(L(S("splice-unquote"), pick()), lit))
		}
		return L(S("quasiquote"), V(0, L(S("splice-unquote"), pick())))
	case 26:
		g.hist["rest-params"]++
		return Call("apply", Call("fn", V(S("a"), S("&"), S("r")), Call("conj", Call("vec", S("r")), 7)), pick())
	case 27:
		g.hist["closure-capture"]++
		return Call("let", V(S("c"), pick()), L(Call("fn", V(), Call("conj", S("c"), lit))))
	default:
		g.hist["nested-store"]++
		return Call("vector", pick(), Call("conj", pick(), lit))
	}
}

func runC02(tier string, seed uint64, rep *Report) {
	rep.Rule = "histories r0, r1, ... of collection-producing operations (conj, concat, cons, assoc, dissoc, subvec, rest, vec, seq, take/drop " +
		"families, merge, rename-keys, with-meta, assoc-in/update/update-in, apply, map, quasiquote splices, & rest parameters, closure capture) " +
		"each applied to registers produced earlier in the same history (biased to early registers and to vectors with spare capacity: literals " +
		"of length 3/5/9, ranges, subvecs); each step is (def rK expr) through EVAL in one environment, steps that fail bind nil. After EVERY step " +
		"every earlier register is re-read with env.Get and its canonical encoding compared with the one taken when it was bound (direct oracle). " +
		"The model runs the whole history once; its final values are what every snapshot must equal. A second stream of histories restricted to the operations of the slice-level arena machine (Arena.v: literals, conj, concat, cons, rest, vec, seq, subvec, take, drop, assoc on maps and vectors, dissoc, merge, with-meta) runs on that machine under Go's growth rule (op H) and must read back the same values. Non-trivial: some register is used at least twice."
	n, maxLen := 700, 12
	if tier == "thorough" {
		n, maxLen = 20000, 40
	}
	g := &c02gen{r: NewRng(seed), hist: map[string]int{}}
	ctx := context.Background()
	// fixed histories that run first: one per mechanism a seeded change has used so far (kept so that a change of the random
	// stream cannot lose them)
	K := Kw
	hmap := func(kv ...types.MalType) types.MalType {
		m := map[string]types.MalType{}
		for i := 0; i+1 < len(kv); i += 2 {
			m[kv[i].(string)] = kv[i+1]
		}
		return types.HashMap{Val: m}
	}
	fn1 := func(body types.MalType) types.MalType { return Call("fn", V(S("x")), body) }
	corpus := [][]types.MalType{
		{V(0, 1, 2), Call("conj", reg(0), 3), Call("conj", reg(0), 4), Call("conj", reg(1), 5), Call("concat", reg(0), reg(1))},
		{Call("vec", Call("range", 0, 5)), Call("subvec", reg(0), 1, 3), Call("conj", reg(1), 9), Call("conj", reg(1), 8)},
		{hmap(K("a"), 1), hmap(K("a"), 2, K("b"), 3, K("c"), 4), Call("merge", reg(0), reg(1)), Call("merge", reg(1), reg(0))},
		{hmap(K("a"), 1, K("b"), V(1, 2)), Call("assoc-in", reg(0), V(K("zz"), K("x")), 1), Call("assoc-in", reg(0), V(K("zz"), K("y")), 2), Call("assoc-in", reg(0), V(K("b"), 0), 7)},
		{V(1, 2, 3), Call("map", Call("fn", V(S("&"), S("xs")), S("xs")), reg(0))},
		{V(V(1, 2), V(3, 4)), Call("update-in", reg(0), V(0, 1), fn1(9)), Call("update-in", reg(0), V(1, 0), fn1(8))},
		{Call("hash-set"), Call("conj", reg(0), K("a")), Call("conj", reg(0), K("b")), types.Set{Val: map[string]struct{}{}}, Call("conj", reg(3), K("c"))},
		{hmap(K("a"), 1, K("b"), 2), Call("rename-keys", reg(0), hmap(K("a"), K("c"))), Call("vector", reg(0), reg(1))},
		{Q(Call("do", 1, Call("cond", false, K("no"), true, K("yes")))), Call("eval", reg(0)), Call("eval", reg(0))},
		{hmap(K("a"), 1), Call("dissoc", reg(0), K("zz"), K("a")), Call("assoc", reg(0), K("b"), 2), Call("dissoc", reg(2), K("a"))},
	}
	for i := 0; i < n+len(corpus); i++ {
		w, _ := NewWorld()
		steps := 3 + g.r.Intn(maxLen-2)
		if i < len(corpus) {
			steps = len(corpus[i])
			g.hist["corpus-history"]++
		}
		var forms []types.MalType
		var snaps []string
		uses := map[string]int{}
		violated := false
		for k := 0; k < steps; k++ {
			var e types.MalType
			if i < len(corpus) {
				e = corpus[i][k]
			} else {
				e = g.step(k)
			}
			for _, m := range strings.Fields(Show(e)) {
				m = strings.Trim(m, "()[]{}")
				if strings.HasPrefix(m, "r") && len(m) <= 3 {
					uses[m]++
				}
			}
			// a failing step binds nil (so that the history goes on); the model does the same
			form := Call("def", reg(k), Call("try", e, Call("catch", S("e"), nil)))
			forms = append(forms, form)
			o := Guard(func() (types.MalType, error) { return lisp.EVAL(ctx, form, w.Env) })
			if o.Panic != nil {
				rep.Violate(-1, fmt.Sprintf("a Go panic escaped: %v", o.Panic), Show(types.List{Val: append([]types.MalType{S("do")}, forms...)}))
			}
			// re-inspect every register
			for j := 0; j <= k; j++ {
				v, err := w.Env.Get(types.Symbol{Val: fmt.Sprintf("r%d", j)})
				enc := "unbound"
				if err == nil {
					enc = EncS(v)
				}
				if j == k {
					snaps = append(snaps, enc)
				} else if enc != snaps[j] && !violated {
					violated = true
					prog := types.List{Val: append(append([]types.MalType{S("do")}, forms...), reg(j))}
					rep.Violate(len(rep.cases), fmt.Sprintf("register r%d changed after step %d: an existing value was modified (was %q, now %q)", j, k, snaps[j], enc), Show(prog))
				}
			}
		}
		regs := []types.MalType{S("list")}
		for k := 0; k < steps; k++ {
			regs = append(regs, reg(k))
		}
		prog := types.List{Val: append(append([]types.MalType{S("do")}, forms...), types.List{Val: regs})}
		// implementation line: the values as they were when bound (what immutability promises)
		final := "V l " + fmt.Sprint(steps) + " " + strings.Join(snaps, "") + "| l 0 "
		reused := false
		for _, c := range uses {
			if c >= 2 {
				reused = true
			}
		}
		rep.Add("P "+EncS(prog), final, Show(prog), reused, "history", fmt.Sprintf("len:%d", steps/5*5))
	}
	mergeHist(rep, g.hist)
	runC02L1(tier, seed, rep)
}
