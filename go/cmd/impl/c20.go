package main

import (
	"context"
	"errors"
	"fmt"
	"reflect"
	"strings"

	"github.com/jig/lisp/env"
	"github.com/jig/lisp/lib/call"
	"github.com/jig/lisp/types"
	. "verif.local/harness/h"
)

func init() { runners["C20"] = runC20 }

// named functions, for the name-derivation rule of call.Call (lower case, _ -> -)
func Plain_Named_Fn(a types.MalType) (types.MalType, error)            { return a, nil }
func with_CTX_arg(ctx context.Context, a int) (types.MalType, error)   { return a, nil }
func variadic_one(a ...types.MalType) (types.MalType, error)           { return len(a), nil }

var c20Sentinel = errors.New("c20 sentinel")

var (
	tCtx    = reflect.TypeOf((*context.Context)(nil)).Elem()
	tAny    = reflect.TypeOf((*types.MalType)(nil)).Elem()
	tErr    = reflect.TypeOf((*error)(nil)).Elem()
	tyCodes = []reflect.Type{nil, tAny, reflect.TypeOf(0), reflect.TypeOf(""), reflect.TypeOf(types.Vector{}), reflect.TypeOf(false)}
)

type c20sig struct {
	ctx      bool
	fixed    []int // type codes
	variadic int   // 0 none, else element type code
	nres     int
}

func (s c20sig) String() string {
	return fmt.Sprintf("ctx=%v fixed=%v variadic=%d results=%d", s.ctx, s.fixed, s.variadic, s.nres)
}

type c20probe struct {
	entered bool
	args    []types.MalType
	gotCtx  bool
}

// build makes a Go function of the given signature with reflect.MakeFunc; behaviour: 0 ok, 1 error return, 2 panic(error)
func (s c20sig) build(p *c20probe, behaviour int) interface{} {
	var in []reflect.Type
	if s.ctx {
		in = append(in, tCtx)
	}
	for _, c := range s.fixed {
		in = append(in, tyCodes[c])
	}
	if s.variadic != 0 {
		in = append(in, reflect.SliceOf(tyCodes[s.variadic]))
	}
	var out []reflect.Type
	switch s.nres {
	case 1:
		out = []reflect.Type{tErr}
	case 2:
		out = []reflect.Type{tAny, tErr}
	case 3:
		out = []reflect.Type{tAny, tAny, tErr}
	}
	ft := reflect.FuncOf(in, out, s.variadic != 0)
	fn := reflect.MakeFunc(ft, func(args []reflect.Value) []reflect.Value {
		p.entered = true
		p.args = nil
		for i, a := range args {
			if s.ctx && i == 0 {
				_, p.gotCtx = a.Interface().(context.Context)
				continue
			}
			if s.variadic != 0 && i == len(args)-1 {
				for j := 0; j < a.Len(); j++ {
					p.args = append(p.args, a.Index(j).Interface())
				}
				continue
			}
			p.args = append(p.args, a.Interface())
		}
		if behaviour == 2 {
			panic(c20Sentinel)
		}
		var errv reflect.Value
		if behaviour == 1 {
			errv = reflect.ValueOf(&c20Sentinel).Elem()
		} else {
			errv = reflect.Zero(tErr)
		}
		n := reflect.ValueOf(&[]types.MalType{len(p.args)}[0]).Elem()
		switch s.nres {
		case 0:
			return nil
		case 1:
			return []reflect.Value{errv}
		case 2:
			return []reflect.Value{n, errv}
		default:
			return []reflect.Value{n, n, errv}
		}
	})
	return fn.Interface()
}

func c20Encode(s c20sig, decl []int, behaviour int, args []types.MalType) string {
	var b strings.Builder
	b.WriteString("B ")
	if s.ctx {
		b.WriteString("1 ")
	} else {
		b.WriteString("0 ")
	}
	fmt.Fprintf(&b, "%d ", len(s.fixed))
	for _, c := range s.fixed {
		fmt.Fprintf(&b, "%d ", c)
	}
	fmt.Fprintf(&b, "%d %d %d ", s.variadic, s.nres, len(decl))
	for _, d := range decl {
		fmt.Fprintf(&b, "%d ", d)
	}
	fmt.Fprintf(&b, "%d %d ", behaviour, len(args))
	for _, a := range args {
		b.WriteString(EncS(a))
	}
	return b.String()
}

func runC20(tier string, seed uint64, rep *Report) {
	rep.Rule = "finite grid, enumerated completely: signatures (context yes/no x 0..3 fixed parameters over interface/int/string/Vector/bool x " +
		"variadic none/interface/int x 0,1,2,3 results) x declared bounds {none,(m),(m,M) | -1<=m,M<=3} x behaviour (ok, error result, panic) x " +
		"argument lists of length 0..max+2 over one value of every kind incl. nil; functions built with reflect.MakeFunc and registered through " +
		"call.CallOverrideFN (their runtime package path 'reflect' has no dot), named functions through call.Call. Each function records whether " +
		"it was entered and with what. Direct oracle: entered iff count within the lisp-visible bounds and all arguments assignable; arguments " +
		"received are exactly the arguments given; a panic becomes an error wrapping the sentinel. Non-trivial: every case."
	rep.Exhaustive = true
	vals := []types.MalType{nil, 7, "s", types.Vector{Val: []types.MalType{1}}, true, types.List{}, Kw("k")}
	fixedSets := [][]int{{}, {1}, {2}, {3}, {1, 2}, {4, 1}, {2, 2, 1}, {1, 1, 1}, {5}}
	if tier != "thorough" {
		fixedSets = [][]int{{}, {1}, {2}, {1, 2}, {4, 1}, {1, 1, 1}}
	}
	declSets := [][]int{nil}
	for m := -1; m <= 3; m++ {
		declSets = append(declSets, []int{m})
		for M := -1; M <= 3; M++ {
			if tier == "thorough" || (m+M)%2 == 0 || m > M {
				declSets = append(declSets, []int{m, M})
			}
		}
	}
	assignable := func(v types.MalType, code int) bool {
		if code == 1 {
			return true
		}
		if v == nil {
			return false
		}
		return reflect.TypeOf(v) == tyCodes[code]
	}
	caseNo := 0
	for _, ctx := range []bool{false, true} {
		for _, fixed := range fixedSets {
			for _, variadic := range []int{0, 1, 2} {
				for _, nres := range []int{0, 1, 2, 3} {
					sig := c20sig{ctx, fixed, variadic, nres}
					for _, decl := range declSets {
						// registration
						var probe c20probe
						e := env.NewEnv()
						regPanic := func(behaviour int) (panicked bool) {
							defer func() {
								if r := recover(); r != nil {
									panicked = true
								}
							}()
							call.CallOverrideFN(e, "probe", sig.build(&probe, behaviour), decl...)
							return false
						}
						if regPanic(0) {
							idx := rep.Add(c20Encode(sig, decl, 0, nil), "R", fmt.Sprintf("register %s bounds=%v", sig, decl), true, "registration-panics")
							// documented misuse only: bounds on non-variadic, min>max, negative, >2 results
							documented := (len(decl) == 1 || len(decl) == 2) && variadic == 0 || nres > 2
							if len(decl) == 2 && decl[0] > decl[1] {
								documented = true
							}
							for _, d := range decl {
								if d < 0 && (len(decl) == 1 || len(decl) == 2) {
									documented = true
								}
							}
							if !documented {
								rep.Violate(idx, "registration panicked for a use that is not a documented misuse", fmt.Sprintf("%s bounds=%v", sig, decl))
							}
							continue
						}
						// effective lisp-visible bounds
						lo, hi := len(fixed), len(fixed)
						if variadic != 0 {
							lo, hi = 0, 999
							if ctx {
								hi = 999
							} else {
								hi = 1000
							}
						}
						if len(decl) == 1 && variadic != 0 {
							lo = decl[0]
						}
						if len(decl) == 2 && variadic != 0 {
							lo, hi = decl[0], decl[1]
						}
						maxLen := len(fixed) + 2
						if hi < 900 && hi+2 > maxLen {
							maxLen = hi + 2
						}
						for behaviour := 0; behaviour <= 2; behaviour++ {
							if behaviour != 0 && nres == 0 && behaviour == 1 {
								continue
							}
							probe = c20probe{}
							e = env.NewEnv()
							call.CallOverrideFN(e, "probe", sig.build(&probe, behaviour), decl...)
							f, _ := e.Get(types.Symbol{Val: "probe"})
							for n := 0; n <= maxLen; n++ {
								// argument lists: all-assignable one, plus one with a wrong kind at each position, plus nil variants
								lists := [][]types.MalType{}
								base := make([]types.MalType, n)
								for i := range base {
									code := variadic
									if i < len(fixed) {
										code = fixed[i]
									}
									switch code {
									case 2:
										base[i] = 7
									case 3:
										base[i] = "s"
									case 4:
										base[i] = vals[3]
									case 5:
										base[i] = true
									default:
										base[i] = vals[(caseNo+i)%len(vals)]
									}
								}
								lists = append(lists, base)
								for i := 0; i < n; i++ {
									for _, w := range []types.MalType{nil, "s", 7} {
										l := append([]types.MalType{}, base...)
										l[i] = w
										lists = append(lists, l)
									}
								}
								for _, args := range lists {
									caseNo++
									probe.entered, probe.args, probe.gotCtx = false, nil, false
									o := Guard(func() (types.MalType, error) { return f.(types.Func).Fn(context.Background(), args) })
									line := ""
									switch {
									case o.Panic != nil:
										line = "P"
									case !probe.entered && o.Err != nil && (strings.Contains(fmt.Sprint(o.Err), "reflect: Call using") || strings.Contains(fmt.Sprint(o.Err), "reflect: cannot use")):
										line = "T"
									case !probe.entered && o.Err != nil:
										line = "A"
									case probe.entered && o.Err != nil:
										line = "C E"
									case probe.entered:
										line = "C V " + EncS(o.Val)
									default:
										line = "?"
									}
									pretty := fmt.Sprintf("%s bounds=%v behaviour=%d args=%s", sig, decl, behaviour, Show(types.List{Val: args}))
									idx := rep.Add(c20Encode(sig, decl, behaviour, args), line, pretty, true, "call", "class:"+line[:1])
									// ---- direct oracle: the contract, computed here
									okCount := n >= lo && n <= hi && (variadic != 0 || n == len(fixed)) && n >= len(fixed)
									okTypes := true
									for i, a := range args {
										code := variadic
										if i < len(fixed) {
											code = fixed[i]
										}
										if code == 0 || !assignable(a, code) {
											okTypes = false
										}
									}
									want := okCount && okTypes
									if probe.entered != want {
										rep.Violate(idx, fmt.Sprintf("function entered=%v but the contract says %v (count ok=%v, types ok=%v, lisp bounds %d..%d)", probe.entered, want, okCount, okTypes, lo, hi), pretty)
									}
									if o.Panic != nil {
										rep.Violate(idx, "a panic escaped the binder", pretty)
									}
									if probe.entered {
										if ctx && !probe.gotCtx {
											rep.Violate(idx, "context was not injected", pretty)
										}
										same := len(probe.args) == len(args)
										for i := 0; same && i < len(args); i++ {
											same = reflect.DeepEqual(probe.args[i], args[i])
										}
										if !same {
											rep.Violate(idx, "the function did not receive exactly the arguments given: got "+Show(types.List{Val: probe.args}), pretty)
										}
										if behaviour != 0 && nres > 0 || behaviour == 2 {
											if o.Err == nil || !errors.Is(o.Err, c20Sentinel) {
												rep.Violate(idx, "the error / panic of the function did not arrive as an error wrapping the original", pretty)
											}
										}
										if behaviour == 0 && nres < 2 && (o.Val != nil || o.Err != nil) {
											rep.Violate(idx, "a function without value result must map to nil", pretty)
										}
									}
								}
							}
						}
					}
				}
			}
		}
	}
	// names
	e := env.NewEnv()
	call.Call(e, Plain_Named_Fn)
	call.Call(e, with_CTX_arg)
	call.Call(e, variadic_one)
	call.CallOverrideFN(e, "over-ride!", Plain_Named_Fn)
	for _, name := range []string{"plain-named-fn", "with-ctx-arg", "variadic-one", "over-ride!"} {
		if e.Find(types.Symbol{Val: name}) == nil {
			rep.Violate(-1, "a function registered from a dotted package path is not bound under its hyphenated lower-case name", name)
		}
		rep.Histogram["names"]++
	}
	// a name given explicitly is used as given (only derived names are hyphenated), and nothing else gets bound
	e2 := env.NewEnv()
	call.CallOverrideFN(e2, "str_len", Plain_Named_Fn)
	call.CallOverrideFN(e2, "Mixed_Case?", func(a types.MalType) (types.MalType, error) { return a, nil })
	for name, want := range map[string]bool{"str_len": true, "str-len": false, "Mixed_Case?": true, "mixed-case?": false, "Mixed-Case?": false, "plain-named-fn": false} {
		if (e2.Find(types.Symbol{Val: name}) != nil) != want {
			rep.Violate(-1, fmt.Sprintf("after CallOverrideFN(env, \"str_len\", f) and CallOverrideFN(env, \"Mixed_Case?\", g): is %q bound? expected %v", name, want), name)
		}
		rep.Histogram["names"]++
	}
}
