package main

import (
	"context"
	"fmt"

	lisp "github.com/jig/lisp"
	"github.com/jig/lisp/debuggertypes"

	"github.com/jig/lisp/types"
	. "verif.local/harness/h"
)

func init() { runners["C08"] = runC08 }

type c08gen struct {
	r         *Rng
	hist      map[string]int
	entryCall func(n int) types.MalType
}

// tail wraps e into a random tail context: the hole stays in tail position.
func (g *c08gen) tail(e types.MalType, depth int) types.MalType {
	if depth == 0 {
		return e
	}
	inner := g.tail(e, depth-1)
	switch g.r.Intn(10) {
	case 9:
		g.hist["if-without-else"]++
		return Call("if", true, inner)
	case 0:
		g.hist["do"]++
		return Call("do", 1, inner)
	case 1:
		g.hist["let-multi-body"]++
		return Call("let", V(S("t"), 1), S("t"), inner)
	case 2:
		g.hist["let-single-body"]++
		return Call("let", V(), inner)
	case 3:
		g.hist["if-then"]++
		return Call("if", true, inner, 0)
	case 4:
		g.hist["if-else"]++
		return Call("if", nil, 0, inner)
	case 5:
		g.hist["cond"]++
		return Call("cond", false, 0, Kw("else"), inner)
	case 6:
		g.hist["and"]++
		return Call("and", true, 1, inner)
	case 7:
		g.hist["or"]++
		return Call("or", nil, false, inner)
	default:
		g.hist["fn-body"]++
		return L(Call("fn", V(), 1, inner))
	}
}

// loop builds m mutually recursive functions counting n down to 0 and returning (depth!)
func (g *c08gen) loop(m, nest int) (defs []types.MalType, entry string) {
	names := make([]string, m)
	styles := make([]int, m) // parameter list of each function: [n], [n & more], [n acc]
	for i := range names {
		names[i] = fmt.Sprintf("loop%d", i)
		styles[i] = g.r.Intn(3)
	}
	params := func(i int) types.MalType {
		switch styles[i] {
		case 1:
			g.hist["params:variadic"]++
			return V(S("n"), S("&"), S("more"))
		case 2:
			g.hist["params:two"]++
			return V(S("n"), S("acc"))
		}
		g.hist["params:one"]++
		return V(S("n"))
	}
	callFn := func(i int, n types.MalType) types.MalType {
		switch styles[i] {
		case 1:
			if g.r.Bool() {
				return Call(names[i], n, 7, 8)
			}
			return Call(names[i], n)
		case 2:
			return Call(names[i], n, 0)
		}
		return Call(names[i], n)
	}
	g.entryCall = func(n int) types.MalType { return callFn(0, n) }
	for i := range names {
		rec := g.tail(callFn((i+1)%m, Call("-", S("n"), 1)), g.r.Intn(nest+1))
		body := Call("if", Call("=", S("n"), 0), Call("depth!"), rec)
		if g.r.Bool() {
			body = Call("cond", Call("=", S("n"), 0), Call("depth!"), true, rec)
		}
		defs = append(defs, Call("def", S(names[i]), Call("fn", params(i), g.tail(body, g.r.Intn(2)))))
	}
	return defs, names[0]
}

func runC08(tier string, seed uint64, rep *Report) {
	rep.Rule = "loop shapes: 1..3 mutually recursive functions whose recursive call sits in a random nesting (<=3 quick, <=5 thorough) of tail " +
		"contexts do/let(single and multi-form body)/if (two-armed, then or else branch, and one-armed)/cond/and/or/fn-body, with parameter lists [n], [n & more] (called with one or three arguments) and [n acc]; each shape is run for n in {0,1,2,10,120} and returns the number of " +
		"lisp.EVAL frames on the Go stack at the base case (harness builtin depth!, runtime.Callers). The model predicts the same numbers. " +
		"Direct oracle: depth at n=120 equals depth at n=10 and n=2."
	g := &c08gen{r: NewRng(seed), hist: map[string]int{}}
	shapes, nest := 160, 3
	if tier == "thorough" {
		shapes, nest = 2500, 5
	}
	for i := 0; i < shapes; i++ {
		defs, _ := g.loop(1+g.r.Intn(3), nest)
		ns := []int{0, 1, 2, 10, 120}
		calls := []types.MalType{S("list")}
		for _, n := range ns {
			calls = append(calls, g.entryCall(n))
		}
		prog := L(append(append([]types.MalType{S("do")}, defs...), L(calls...))...)
		idx, _, o := addProgram(rep, prog, true, "shape")
		if l, ok := o.Val.(types.List); ok && len(l.Val) == len(ns) {
			if l.Val[2] != l.Val[3] || l.Val[3] != l.Val[4] {
				rep.Violate(idx, fmt.Sprintf("host stack depth grows with the iteration count: depths for n=%v are %s", ns, Show(l)), Show(prog))
			}
		} else {
			rep.Violate(idx, "loop did not complete: "+outcomeLine(o), Show(prog))
		}
	}
	// ---- a debugger stepper was attached for a while and then DETACHED (lisp.Stepper = nil): loops evaluated afterwards are flat
	// again, in the environment the stepper saw and in a fresh one
	{
		w0, _ := NewWorld()
		lisp.ResetStepperForVerif()
		lisp.Stepper = func(a types.MalType, ns types.EnvType) debuggertypes.Command { return debuggertypes.NoOp }
		w0.EvalText(context.Background(), "(do (def warm (fn [n] (if (= n 0) 0 (warm (- n 1))))) (warm 5))")
		lisp.Stepper = nil
		lisp.ResetStepperForVerif()
		for i := 0; i < 40; i++ {
			defs, _ := g.loop(1+g.r.Intn(3), nest)
			ns := []int{2, 10, 120}
			calls := []types.MalType{S("list")}
			for _, n := range ns {
				calls = append(calls, g.entryCall(n))
			}
			prog := L(append(append([]types.MalType{S("do")}, defs...), L(calls...))...)
			idx, _, o := addProgram(rep, prog, true, "shape-after-stepper-detached")
			if l, ok := o.Val.(types.List); ok && len(l.Val) == len(ns) {
				if l.Val[0] != l.Val[1] || l.Val[1] != l.Val[2] {
					rep.Violate(idx, fmt.Sprintf("after a stepper was attached and detached, host stack depth grows with the iteration count: depths for n=%v are %s", ns, Show(l)), "lisp.Stepper = f; EVAL anything; lisp.Stepper = nil; then: "+Show(prog))
				}
			} else {
				rep.Violate(idx, "loop did not complete: "+outcomeLine(o), Show(prog))
			}
			if i < 5 { // the environment that was stepped
				o2 := w0.Eval(context.Background(), prog)
				if l, ok := o2.Val.(types.List); !ok || len(l.Val) != 3 || l.Val[0] != l.Val[2] {
					rep.Violate(idx, "after a stepper was attached and detached, in the environment it saw: "+outcomeLine(o2), Show(prog))
				}
			}
		}
	}
	if tier == "thorough" { // long loops complete
		for _, n := range []int{100000} {
			prog := Call("do", Call("def", S("lp"), Call("fn", V(S("n")), Call("cond", Call("=", S("n"), 0), Call("depth!"), true, Call("lp", Call("-", S("n"), 1))))), Call("lp", n))
			w, _ := NewWorld()
			o := w.Eval(nil, prog)
			rep.Histogram["long-loop"]++
			if o.Err != nil || o.Panic != nil {
				rep.Violate(-1, "a tail-recursive loop of 100000 iterations did not complete", Show(prog))
			}
		}
	}
	mergeHist(rep, g.hist)
}
