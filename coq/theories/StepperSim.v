(** C18, for EVERY program and EVERY script of the four debugger commands: evaluating with a
    Stepper installed ([eval_dbg]) gives the outcome of evaluating without one ([eval]), and leaves
    the same interpreter state (scopes, atoms, ordered trace) — the two final states differ in the
    debugger's own flags only.  Simulation between the two evaluators, by induction on the fuel; the
    relation is "equal up to the dbg field", and the only premise is that the callback never returns a
    command outside NoOp/Next/In/Out (the documented limit: [C18_bad_command_panics]). *)
From Lisp Require Import Base Value Core Binder Env Eval Interp EvalProofs.

Definition strip (st : state) : state := set_dbg st None.
Definition okcmd (c : dcmd) : bool := match c with CBad => false | _ => true end.
Definition nobad (st : state) : Prop :=
  match dbg st with Some g => forallb okcmd (dcmds g) = true | None => True end.

Definition sim {A} (m m0 : M A) : Prop :=
  forall st, nobad st ->
    fst (m st) = fst (m0 (strip st)) /\ snd (m0 (strip st)) = strip (snd (m st)) /\ nobad (snd (m st)).

(** operations that neither read nor write the debugger state *)
Definition oblivious {A} (m : M A) : Prop :=
  forall st, (forall g, m (set_dbg st g) = (fst (m st), set_dbg (snd (m st)) g)) /\ dbg (snd (m st)) = dbg st.

Lemma sim_oblivious {A} (m : M A) : oblivious m -> sim m m.
Proof.
  intros H st Hn. destruct (H st) as [H1 H2]. unfold strip. rewrite H1. simpl.
  split; [reflexivity|]. split; [reflexivity|]. unfold nobad. rewrite H2. exact Hn.
Qed.

Lemma sim_ret {A} (a : A) : sim (ret a) (ret a).
Proof. intros st Hn. simpl. auto. Qed.
Lemma sim_fail {A} e : sim (@fail A e) (fail e).
Proof. intros st Hn. simpl. auto. Qed.
Lemma sim_lift {A} (o : outcome A) : sim (lift o) (lift o).
Proof. intros st Hn. simpl. auto. Qed.
Lemma sim_oof {A} : sim (fun st => (@OutOfFuel A, st)) (fun st => (OutOfFuel, st)).
Proof. intros st Hn. simpl. auto. Qed.

Lemma sim_bind {A B} (m m0 : M A) (f f0 : A -> M B) :
  sim m m0 -> (forall a, sim (f a) (f0 a)) -> sim (bindM m f) (bindM m0 f0).
Proof.
  intros Hm Hf st Hn. unfold bindM. destruct (Hm st Hn) as [H1 [H2 H3]].
  destruct (m st) as [o st1]. destruct (m0 (strip st)) as [o0 st0]. simpl in *. subst o0 st0.
  destruct o; simpl; auto. apply Hf. exact H3.
Qed.

Lemma obl_env_set env k v : oblivious (env_set env k v).
Proof. intros st. unfold env_set. change (get_frame (set_dbg st _) env) with (get_frame st env). split; [intros g|]; destruct (get_frame st env); reflexivity. Qed.
Lemma obl_new_env o : oblivious (new_env o).
Proof. intros st. split; reflexivity. Qed.
Lemma obl_atom_get id : oblivious (atom_get id).
Proof. intros st. unfold atom_get. split; [intros g|]; simpl; destruct (nth_opt (atoms st) id); reflexivity. Qed.
Lemma obl_atom_set id v : oblivious (atom_set id v).
Proof. intros st. split; reflexivity. Qed.
Lemma obl_new_atom v : oblivious (new_atom v).
Proof. intros st. split; reflexivity. Qed.
Lemma obl_trace_push v : oblivious (trace_push v).
Proof. intros st. split; reflexivity. Qed.

Lemma sim_new_env_binds o ps es : sim (new_env_binds o ps es) (new_env_binds o ps es).
Proof.
  unfold new_env_binds. apply sim_bind; [apply sim_oblivious, obl_new_env|]. intros id.
  assert (G : sim (let+ bs := lift (get_slice ps) in let+ es0 := lift (get_slice es) in
                   let+ acc := lift (bind_params bs (length bs) es0 (length es0) 0 []) in
                   fun st => (Ok id, put_frame st id (mkFrame acc (Some o))))
                  (let+ bs := lift (get_slice ps) in let+ es0 := lift (get_slice es) in
                   let+ acc := lift (bind_params bs (length bs) es0 (length es0) 0 []) in
                   fun st => (Ok id, put_frame st id (mkFrame acc (Some o))))).
  { apply sim_bind; [apply sim_lift|]. intros bs. apply sim_bind; [apply sim_lift|]. intros es0.
    apply sim_bind; [apply sim_lift|]. intros acc. apply sim_oblivious. intros st. split; reflexivity. }
  destruct ps; destruct es; try apply sim_ret; exact G.
Qed.

(** lookups do not read the debugger state *)
Lemma env_get_n_strip g n : forall st env key p, env_get_n n (set_dbg st g) env key p = env_get_n n st env key p.
Proof.
  induction n as [|n IH]; intros; [reflexivity|]. cbn [env_get_n].
  change (get_frame (set_dbg st g) env) with (get_frame st env).
  destruct (get_frame st env) as [f|]; [|reflexivity]. destruct (alookup key (binds f)); [reflexivity|].
  destruct (outer f); [apply IH | reflexivity].
Qed.
Lemma env_get_strip st env key p : env_get (strip st) env key p = env_get st env key p.
Proof. unfold env_get, strip. apply env_get_n_strip. Qed.
Lemma env_find_n_strip g n : forall st env key, env_find_n n (set_dbg st g) env key = env_find_n n st env key.
Proof.
  induction n as [|n IH]; intros; [reflexivity|]. cbn [env_find_n].
  change (get_frame (set_dbg st g) env) with (get_frame st env).
  destruct (get_frame st env) as [f|]; [|reflexivity]. destruct (alookup key (binds f)); [reflexivity|].
  destruct (outer f); [apply IH | reflexivity].
Qed.
Lemma env_find_strip st env key : env_find (strip st) env key = env_find st env key.
Proof. unfold env_find, strip. apply env_find_n_strip. Qed.
Lemma macro_of_strip st ast env : macro_of (strip st) ast env = macro_of st ast env.
Proof.
  unfold macro_of. destruct ast; try reflexivity. destruct l as [|h r]; try reflexivity. destruct h; try reflexivity.
  rewrite env_find_strip, env_get_strip. reflexivity.
Qed.

(** the two debugger hooks *)
Lemma sim_outing_hook (m m0 : M val) : sim m m0 -> sim (outing_hook m) m0.
Proof.
  intros H st Hn. unfold outing_hook. destruct (dbg st) as [g|] eqn:Eg; [|apply H, Hn].
  destruct (douting1 g); [|apply H, Hn].
  destruct (H st Hn) as [H1 [H2 H3]]. destruct (m st) as [r st1]. simpl in *.
  split; [exact H1|]. split; [rewrite H2; reflexivity|].
  unfold nobad in *. simpl. destruct (dbg st1); simpl; auto.
Qed.

Lemma nobad_tl g : forallb okcmd (dcmds g) = true -> forallb okcmd (tl (dcmds g)) = true.
Proof. destruct (dcmds g); simpl; auto. rewrite andb_true_iff. tauto. Qed.

Lemma sim_dbg_entry ast env (body body0 : M val) : sim body body0 -> sim (dbg_entry ast env body) body0.
Proof.
  intros H st Hn. unfold dbg_entry. destruct (dbg st) as [g|] eqn:Eg; [|apply H, Hn].
  unfold nobad in Hn. rewrite Eg in Hn.
  destruct (dbg_decide g ast env) as [[g1 nd] bad] eqn:Ed.
  assert (Hg1 : forallb okcmd (dcmds g1) = true /\ bad = false).
  { unfold dbg_decide in Ed. destruct (dskip g); [inversion Ed; subst; auto|].
    destruct (dcmds g) as [|c cs] eqn:Ec; simpl in Ed.
    - inversion Ed; subst; simpl; auto.
    - simpl in Hn. rewrite andb_true_iff in Hn. destruct Hn as [Hc Hcs].
      destruct c; inversion Ed; subst; simpl; auto; discriminate. }
  destruct Hg1 as [Hg1 ->].
  assert (Hn1 : nobad (set_dbg st (Some g1))) by (unfold nobad; simpl; exact Hg1).
  destruct (H _ Hn1) as [H1 [H2 H3]].
  change (strip (set_dbg st (Some g1))) with (strip st) in *.
  destruct (body (set_dbg st (Some g1))) as [r st1]. simpl in *.
  split; [exact H1|]. split; [rewrite H2; reflexivity|].
  unfold nobad in *. simpl. destruct (dbg st1) as [g2|]; simpl; auto.
  unfold dbg_after. destruct (douting2 g1); destruct nd; simpl; exact H3.
Qed.

(** ---- one evaluator step over simulating evaluators ---- *)
Section Step.
  Variable ev ev_cont ev0 ev_cont0 : nat -> val -> positive -> M val.
  Variable cb cb0 : nat -> str -> list val -> M val.
  Hypothesis Hev : forall d ast env, sim (ev d ast env) (ev0 d ast env).
  Hypothesis Hevc : forall d ast env, sim (ev_cont d ast env) (ev_cont0 d ast env).
  Hypothesis Hcb : forall d name args, sim (cb d name args) (cb0 d name args).

  Lemma sim_eval_list d env : forall l, sim (eval_list ev d l env) (eval_list ev0 d l env).
  Proof.
    induction l as [|a r IH]; cbn [eval_list]; [apply sim_ret|].
    apply sim_bind; [apply Hev|]. intros v. apply sim_bind; [apply IH|]. intros vs. apply sim_ret.
  Qed.

  Lemma sim_eval_map d env : forall m, sim (eval_map ev d m env) (eval_map ev0 d m env).
  Proof.
    induction m as [|[k a] r IH]; cbn [eval_map]; [apply sim_ret|].
    apply sim_bind; [apply Hev|]. intros v. apply sim_bind; [apply IH|]. intros vs. apply sim_ret.
  Qed.

  Lemma sim_eval_ast d ast env : sim (eval_ast ev d ast env) (eval_ast ev0 d ast env).
  Proof.
    destruct ast; cbn [eval_ast]; try apply sim_ret.
    - intros st Hn. rewrite env_get_strip.
      destruct (env_get st env s p); simpl; auto.
    - apply sim_bind; [apply sim_eval_list|]. intros; apply sim_ret.
    - apply sim_bind; [apply sim_eval_list|]. intros; apply sim_ret.
    - apply sim_bind; [apply sim_eval_map|]. intros; apply sim_ret.
  Qed.

  Lemma sim_do_forms d lst from keep env : sim (do_forms ev d lst from keep env) (do_forms ev0 d lst from keep env).
  Proof.
    unfold do_forms.
    (* on the right the hook is the identity: no stepper *)
    set (inner := fun (e : nat -> val -> positive -> M val) =>
      if Nat.eqb (length lst) from then ret VNil else
      let upto := if keep then Z.of_nat (length lst) - 1 else Z.of_nat (length lst) in
      let+ forms := lift (slice lst (Z.of_nat from) upto) in
      let+ vs := eval_list e d forms env in
      if keep then match nth_opt lst (length lst - 1) with Some x => ret x | None => lift (Panic (s_ "index out of range")) end
      else match nth_opt vs (length vs - 1) with Some x => ret x | None => lift (Panic (s_ "index out of range")) end).
    assert (G : sim (inner ev) (inner ev0)).
    { unfold inner. destruct (Nat.eqb (length lst) from); [apply sim_ret|].
      apply sim_bind; [apply sim_lift|]. intros forms. apply sim_bind; [apply sim_eval_list|]. intros vs.
      destruct keep; [destruct (nth_opt lst _) | destruct (nth_opt vs _)]; first [apply sim_ret | apply sim_lift]. }
    change (sim (outing_hook (inner ev)) (outing_hook (inner ev0))).
    intros st Hn. destruct (sim_outing_hook _ _ G st Hn) as [H1 [H2 H3]].
    unfold outing_hook at 2 3. change (dbg (strip st)) with (@None dbgst). auto.
  Qed.

  Lemma sim_apply_fn d f args : sim (apply_fn ev cb d f args) (apply_fn ev0 cb0 d f args).
  Proof.
    destruct f; cbn [apply_fn]; try apply sim_fail.
    - apply sim_bind; [apply sim_new_env_binds|]. intros env'. apply Hev.
    - apply Hcb.
  Qed.

  Lemma sim_macroexpand d env : forall k ast, sim (macroexpand ev cb k d ast env) (macroexpand ev0 cb0 k d ast env).
  Proof.
    induction k as [|k IH]; intros ast st Hn; cbn [macroexpand];
      rewrite macro_of_strip;
      destruct (macro_of st ast env) as [mac|]; simpl; auto.
    refine (sim_bind _ _ _ _ (sim_apply_fn d mac _) _ st Hn). intros ast'. apply IH.
  Qed.

  Lemma sim_with_finally d fin env (rest rest0 : M val) :
    sim rest rest0 -> sim (with_finally ev d fin env rest) (with_finally ev0 d fin env rest0).
  Proof.
    intros Hr st Hn. unfold with_finally. destruct (Hr st Hn) as [H1 [H2 H3]].
    destruct (rest st) as [r st1]. destruct (rest0 (strip st)) as [r0 st10]. simpl in *. subst r0 st10.
    assert (Hfin : forall forms,
      fst (do_forms ev d forms 0 false env st1) = fst (do_forms ev0 d forms 0 false env (strip st1)) /\
      snd (do_forms ev0 d forms 0 false env (strip st1)) = strip (snd (do_forms ev d forms 0 false env st1)) /\
      nobad (snd (do_forms ev d forms 0 false env st1))) by (intros; apply sim_do_forms; exact H3).
    assert (Hnone : snd (outing_hook (ret VNil) (strip st1)) = strip (snd (outing_hook (ret VNil) st1)) /\
                    nobad (snd (outing_hook (ret VNil) st1))).
    { destruct (sim_outing_hook (ret VNil) (ret VNil) (sim_ret VNil) st1 H3) as [_ [G2 G3]]. simpl in G2.
      split; [|exact G3]. unfold outing_hook at 1. change (dbg (strip st1)) with (@None dbgst). simpl. exact G2. }
    destruct r; simpl; auto.
    - destruct fin as [forms|]; simpl.
      + destruct (Hfin forms) as [G1 [G2 G3]].
        destruct (do_forms ev d forms 0 false env st1) as [rf st2].
        destruct (do_forms ev0 d forms 0 false env (strip st1)) as [rf0 st20]. simpl in *. subst rf0 st20.
        destruct rf; simpl; auto.
      + destruct Hnone as [G2 G3]. auto.
    - destruct fin as [forms|]; simpl.
      + destruct (Hfin forms) as [G1 [G2 G3]].
        destruct (do_forms ev d forms 0 false env st1) as [rf st2].
        destruct (do_forms ev0 d forms 0 false env (strip st1)) as [rf0 st20]. simpl in *. subst rf0 st20.
        destruct rf; simpl; auto.
      + destruct Hnone as [G2 G3]. auto.
    - destruct fin as [forms|]; simpl.
      + destruct (Hfin forms) as [G1 [G2 G3]].
        destruct (do_forms ev d forms 0 false env st1) as [rf st2].
        destruct (do_forms ev0 d forms 0 false env (strip st1)) as [rf0 st20]. simpl in *. subst rf0 st20.
        destruct rf; simpl; auto.
      + destruct Hnone as [G2 G3]. auto.
  Qed.

  Lemma sim_recover_try (m m0 : M val) : sim m m0 -> sim (recover_try m) (recover_try m0).
  Proof.
    intros H st Hn. unfold recover_try. destruct (H st Hn) as [H1 [H2 H3]].
    destruct (m st) as [r st1]. destruct (m0 (strip st)) as [r0 st10]. simpl in *. subst r0 st10.
    destruct r; simpl; auto.
  Qed.

  Lemma sim_catch_errors (m m0 : M val) h h0 : sim m m0 -> (forall e, sim (h e) (h0 e)) -> sim (catch_errors m h) (catch_errors m0 h0).
  Proof.
    intros H Hh st Hn. unfold catch_errors. destruct (H st Hn) as [H1 [H2 H3]].
    destruct (m st) as [r st1]. destruct (m0 (strip st)) as [r0 st10]. simpl in *. subst r0 st10.
    destruct r; simpl; auto. apply Hh, H3.
  Qed.

  Lemma sim_let_binds d let_env p1 : forall arr,
    sim ((fix go (arr : list val) : M unit :=
            match arr with
            | VSym name _ :: e :: r => let+ v := ev (S d) e let_env in let+ _ := env_set let_env name v in go r
            | [] => ret tt
            | _ => fail (lisp_goerr (s_ "non-symbol bind value") p1)
            end) arr)
        ((fix go (arr : list val) : M unit :=
            match arr with
            | VSym name _ :: e :: r => let+ v := ev0 (S d) e let_env in let+ _ := env_set let_env name v in go r
            | [] => ret tt
            | _ => fail (lisp_goerr (s_ "non-symbol bind value") p1)
            end) arr).
  Proof.
    fix IH 1. intros [|x [|e r]].
    - apply sim_ret.
    - destruct x; apply sim_fail.
    - destruct x; try apply sim_fail.
      apply sim_bind; [apply Hev|]. intros v. apply sim_bind; [apply sim_oblivious, obl_env_set|]. intros _. apply IH.
  Qed.

  Theorem sim_eval_step k d ast env :
    sim (eval_step ev ev_cont cb k d ast env) (eval_step ev0 ev_cont0 cb0 k d ast env).
  Proof.
    unfold eval_step. destruct ast; try apply sim_eval_ast.
    apply sim_bind; [apply sim_macroexpand|]. intros ast1.
    destruct ast1 as [| | | | |lst cur| | | | | | | | |]; try apply sim_eval_ast.
    destruct lst as [|a0 rest]; [apply sim_ret|].
    set (head := match a0 with VSym s _ => s | _ => s_ "__<*fn>__" end).
    destruct (str_eqb head (s_ "def")).
    { apply sim_bind; [apply Hev|]. intros res.
      destruct (match rest with x :: _ => x | [] => VNil end); try apply sim_fail. apply sim_oblivious, obl_env_set. }
    destruct (str_eqb head (s_ "let")).
    { apply sim_bind; [apply sim_oblivious, obl_new_env|]. intros let_env.
      apply sim_bind; [apply sim_lift|]. intros arr.
      destruct (Nat.odd (length arr)); [apply sim_fail|].
      apply sim_bind; [apply sim_let_binds|]. intros _.
      apply sim_bind; [apply sim_do_forms|]. intros ast'. apply Hev. }
    destruct (str_eqb head (s_ "quote")); [apply sim_ret|].
    destruct (str_eqb head (s_ "quasiquoteexpand")); [apply sim_ret|].
    destruct (str_eqb head (s_ "quasiquote")); [apply Hev|].
    destruct (str_eqb head (s_ "defmacro")).
    { apply sim_bind; [apply Hev|]. intros fn. destruct fn; try apply sim_fail.
      destruct (match rest with x :: _ => x | [] => VNil end); try apply sim_fail. apply sim_oblivious, obl_env_set. }
    destruct (str_eqb head (s_ "macroexpand")); [apply sim_macroexpand|].
    destruct (str_eqb head (s_ "try")).
    { destruct rest as [|r0 rest']; [apply sim_ret|].
      apply sim_bind; [apply sim_lift|]. intros parts.
      apply sim_with_finally. apply sim_catch_errors; [apply sim_recover_try, sim_do_forms|].
      intros e. destruct (t_catch parts) as [[cbind cdo]|]; [|apply sim_fail].
      apply sim_bind; [apply sim_new_env_binds|]. intros new_env.
      apply sim_bind; [apply sim_do_forms|]. intros ast'. apply Hevc. }
    destruct (str_eqb head (s_ "do")).
    { apply sim_bind; [apply sim_do_forms|]. intros ast'. apply Hev. }
    destruct (str_eqb head (s_ "if")).
    { apply sim_bind; [apply Hev|]. intros c. destruct (truthy c); [apply Hev|].
      destruct rest as [|x [|y [|z r]]]; try apply sim_ret. apply Hev. }
    destruct (str_eqb head (s_ "fn")).
    { destruct rest; [apply sim_fail | apply sim_ret]. }
    apply sim_bind; [apply sim_eval_list|]. intros el.
    destruct el as [|f args]; [apply sim_lift|].
    destruct f; try apply sim_fail.
    - intros st Hn. destruct (sim_new_env_binds env0 f1 (VList args None) st Hn) as [H1 [H2 H3]].
      destruct (new_env_binds env0 f1 (VList args None) st) as [r st1].
      destruct (new_env_binds env0 f1 (VList args None) (strip st)) as [r0 st10]. simpl in *. subst r0 st10.
      destruct r; simpl; auto. apply Hev, H3.
    - apply sim_catch_errors; [apply Hcb|]. intros e. apply sim_fail.
  Qed.
End Step.

(** ---- builtins ---- *)
Section Kinds.
  Variable app app0 : val -> list val -> M val.
  Hypothesis Happ : forall f args, sim (app f args) (app0 f args).

  Lemma sim_run_update hm idx f : sim (run_update app hm idx f) (run_update app0 hm idx f).
  Proof.
    destruct hm; cbn [run_update]; try apply sim_fail.
    - apply sim_bind; [apply sim_lift|]. intros i. apply sim_bind; [apply sim_lift|]. intros old.
      apply sim_bind; [apply Happ|]. intros res. apply sim_lift.
    - apply sim_bind; [apply sim_lift|]. intros k. apply sim_bind; [apply Happ|]. intros res. apply sim_lift.
  Qed.

  Lemma sim_run_update_in f : forall path sq, sim (run_update_in app sq path f) (run_update_in app0 sq path f).
  Proof.
    induction path as [|idx rest IH]; intros sq; [apply sim_ret|].
    destruct rest as [|i2 rest']; [apply sim_run_update|].
    cbn [run_update_in]. destruct sq; try apply sim_fail.
    - apply sim_bind; [apply sim_lift|]. intros i. apply sim_bind; [apply sim_lift|]. intros br.
      destruct (match br with VNil => vvec [] | x => x end); try apply sim_lift.
      apply sim_bind; [apply IH|]. intros inner. apply sim_lift.
    - apply sim_bind; [apply sim_lift|]. intros k.
      destruct (match lookup_or_nil k m with VNil => VMap [] | x => x end); try apply sim_lift.
      apply sim_bind; [apply IH|]. intros inner. apply sim_lift.
  Qed.

  Lemma sim_map_loop f : forall l,
    sim ((fix go (l : list val) : M (list val) :=
            match l with [] => ret [] | x :: r => let+ y := app f [x] in let+ ys := go r in ret (y :: ys) end) l)
        ((fix go (l : list val) : M (list val) :=
            match l with [] => ret [] | x :: r => let+ y := app0 f [x] in let+ ys := go r in ret (y :: ys) end) l).
  Proof.
    induction l as [|x r IH]; [apply sim_ret|].
    apply sim_bind; [apply Happ|]. intros y. apply sim_bind; [apply IH|]. intros ys. apply sim_ret.
  Qed.

  Lemma sim_run_kind k args : sim (run_kind app k args) (run_kind app0 k args).
  Proof.
    destruct k; cbn [run_kind].
    - apply sim_lift.
    - destruct args as [|f r]; [apply sim_fail|]. destruct (rev r) as [|last mid]; [apply sim_fail|].
      apply sim_bind; [apply sim_lift|]. intros l. apply Happ.
    - destruct args as [|f [|sq [|? ?]]]; try apply sim_lift.
      apply sim_bind; [apply sim_lift|]. intros l. apply sim_bind; [apply sim_map_loop|]. intros rs. apply sim_ret.
    - destruct args as [|hm [|idx [|f [|? ?]]]]; try apply sim_lift; try (destruct hm; apply sim_lift).
      destruct hm; first [apply sim_ret | apply sim_run_update].
    - destruct args as [|sq [|p [|f [|? ?]]]]; try apply sim_lift; try (destruct sq; apply sim_lift);
        try (destruct sq; try apply sim_lift; destruct p; apply sim_lift).
      destruct sq; destruct p; first [apply sim_ret | apply sim_lift | apply sim_run_update_in].
    - destruct args as [|a r]; [apply sim_lift|]. destruct a; try apply sim_fail.
      destruct r as [|f extra]; [apply sim_lift|].
      apply sim_bind; [apply sim_oblivious, obl_atom_get|]. intros cur.
      apply sim_bind; [apply Happ|]. intros res.
      apply sim_bind; [apply sim_oblivious, obl_atom_set|]. intros _. apply sim_ret.
    - destruct args as [|a [|v [|? ?]]]; try apply sim_lift; try (destruct a; apply sim_lift).
      destruct a; try apply sim_fail.
      apply sim_bind; [apply sim_oblivious, obl_atom_set|]. intros _. apply sim_ret.
    - destruct args as [|a [|? ?]]; try apply sim_lift; try (destruct a; apply sim_lift).
      destruct a; try apply sim_lift. apply sim_oblivious, obl_atom_get.
    - destruct args as [|a [|? ?]]; try apply sim_lift. apply sim_oblivious, obl_new_atom.
  Qed.
End Kinds.

Lemma sim_finishM (m m0 : M val) : sim m m0 -> sim (finishM m) (finishM m0).
Proof.
  intros H st Hn. unfold finishM. destruct (H st Hn) as [H1 [H2 H3]].
  destruct (m st) as [r st1]. destruct (m0 (strip st)) as [r0 st10]. simpl in *. subst r0 st10.
  destruct r; simpl; auto.
Qed.

Lemma sim_call_builtin ev ev0 : (forall d ast env, sim (ev d ast env) (ev0 d ast env)) ->
  forall k d name args, sim (call_builtin k ev d name args) (call_builtin k ev0 d name args).
Proof.
  intros Hev. induction k as [|k IH]; intros d name args; cbn [call_builtin]; [apply sim_oof|].
  destruct (str_eqb name (s_ "eval")).
  { destruct args as [|a [|? ?]]; try apply sim_fail. apply Hev. }
  destruct (str_eqb name (s_ "trace!")).
  { destruct args as [|a [|? ?]]; try apply sim_fail.
    apply sim_bind; [apply sim_oblivious, obl_trace_push|]. intros _. apply sim_ret. }
  destruct (str_eqb name (s_ "depth!")); [apply sim_ret|].
  destruct (str_eqb name (s_ "cancel!")); [apply sim_oblivious; intros st; split; reflexivity|].
  destruct (alookup name builtin_table) as [be|]; [|apply sim_lift].
  destruct (bind (b_sig be) (b_decl be)) as [mn mx|why]; [|apply sim_lift].
  destruct (gate (b_sig be) mn mx args); first [apply sim_fail | apply sim_lift | apply sim_oof | idtac].
  apply sim_finishM, sim_run_kind. intros f args'. apply sim_apply_fn; auto.
Qed.

(** ---- the two evaluators ---- *)
Theorem sim_dbg_pair : forall n d ast env,
  sim (fst (dbg_pair n) d ast env) (eval n d ast env) /\ sim (snd (dbg_pair n) d ast env) (eval n d ast env).
Proof.
  induction n as [|n IH]; intros d ast env.
  - split; apply sim_oof.
  - cbn [dbg_pair eval]. destruct (dbg_pair n) as [e l] eqn:Ep. cbn [fst snd].
    assert (He : forall d ast env, sim (e d ast env) (eval n d ast env)) by (intros; apply (IH _ _ _)).
    assert (Hl : forall d ast env, sim (l d ast env) (eval n d ast env)) by (intros; apply (IH _ _ _)).
    assert (Hbody : sim (eval_step e l (call_builtin n e) n d ast env)
                        (eval_step (eval n) (eval n) (call_builtin n (eval n)) n d ast env)).
    { apply sim_eval_step; auto. intros. apply sim_call_builtin; auto. }
    split; [apply sim_dbg_entry, Hbody | exact Hbody].
Qed.

(** with a Stepper whose callback answers with the four commands only, for every program, scope, state and fuel:
    same outcome; same scopes, atoms and ordered trace afterwards *)
Theorem stepper_does_not_change_evaluation n d ast env st :
  nobad st ->
  fst (eval_dbg n d ast env st) = fst (eval n d ast env (strip st)) /\
  snd (eval n d ast env (strip st)) = strip (snd (eval_dbg n d ast env st)).
Proof. intros Hn. destruct (proj1 (sim_dbg_pair n d ast env) st Hn) as [H1 [H2 _]]. auto. Qed.

Corollary stepper_same_trace n d ast env st :
  nobad st -> trace (snd (eval_dbg n d ast env st)) = trace (snd (eval n d ast env (strip st))) /\
              atoms (snd (eval_dbg n d ast env st)) = atoms (snd (eval n d ast env (strip st))) /\
              heap (snd (eval_dbg n d ast env st)) = heap (snd (eval n d ast env (strip st))).
Proof. intros Hn. destruct (stepper_does_not_change_evaluation n d ast env st Hn) as [_ H]. rewrite H. auto. Qed.

(** the premise holds for every script over the four commands *)
Lemma nobad_script st cs : forallb okcmd cs = true -> nobad (set_dbg st (Some (mkDbg false false false cs []))).
Proof. intros H. exact H. Qed.

(** and C04 carries over: with a stepper answering the four commands, no program makes the evaluator panic *)
From Lisp Require Import WfVal NoPanic.
Corollary eval_dbg_never_panics n d ast env st s :
  nobad st -> WF st -> wfb (nx st) ast = true -> (env < nx st)%positive -> fst (eval_dbg n d ast env st) <> Panic s.
Proof.
  intros Hn W Ha He E. destruct (stepper_does_not_change_evaluation n d ast env st Hn) as [H1 _].
  rewrite E in H1. destruct (eval n d ast env (strip st)) as [r st'] eqn:Ee. simpl in H1. subst r.
  eapply (eval_never_panics n d ast env (strip st)); [apply WF_set_dbg, W | exact Ha | exact He | exact Ee].
Qed.
