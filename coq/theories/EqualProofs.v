(** C14: Equal_Q (equalI) coincides with structural equality (eqS) on data values,
    and eqS is an equivalence relation. *)
From Lisp Require Import Base Value Equal BaseProofs.

(** named versions of the local fixpoints *)
Fixpoint eqS_list (la lb : list val) : bool :=
  match la, lb with
  | [], [] => true
  | x :: la', y :: lb' => eqS x y && eqS_list la' lb'
  | _, _ => false
  end.

Fixpoint eqS_fwd (mb ma : list (str * val)) : bool :=
  match ma with
  | [] => true
  | (k, v) :: ma' => match alookup k mb with Some bv => eqS v bv | None => false end && eqS_fwd mb ma'
  end.

Definition keys_in (ma mb : list (str * val)) : bool :=
  forallb (fun kv => match alookup (fst kv) ma with Some _ => true | None => false end) mb.

Lemma eqS_seq_unfold la (b : val) :
  (match seq_items b with
   | Some lb =>
       (fix go (la lb : list val) {struct la} : bool :=
          match la, lb with
          | [], [] => true
          | x :: la', y :: lb' => eqS x y && go la' lb'
          | _, _ => false
          end) la lb
   | None => false
   end) = match seq_items b with Some lb => eqS_list la lb | None => false end.
Proof.
  destruct (seq_items b) as [lb|]; auto.
Qed.

Lemma eqS_list_eq la p b : eqS (VList la p) b = match seq_items b with Some lb => eqS_list la lb | None => false end.
Proof. simpl. apply eqS_seq_unfold. Qed.
Lemma eqS_vec_eq la p b : eqS (VVec la p) b = match seq_items b with Some lb => eqS_list la lb | None => false end.
Proof. simpl. apply eqS_seq_unfold. Qed.

Lemma eqS_map_eq ma b : eqS (VMap ma) b = match b with VMap mb => eqS_fwd mb ma && keys_in ma mb | _ => false end.
Proof.
  destruct b; simpl; auto. f_equal.
  induction ma as [|[k v] ma IH]; simpl; auto. now rewrite IH.
Qed.

Lemma eqS_list_length la lb : eqS_list la lb = true -> length la = length lb.
Proof.
  revert lb; induction la as [|x la IH]; intros [|y lb]; simpl; try discriminate; auto.
  rewrite andb_true_iff; intros [_ H]; f_equal; auto.
Qed.

(** pigeonhole: distinct keys, mutual inclusion <-> equal length + one inclusion *)
Lemma keys_in_incl ma mb : keys_in ma mb = true <-> incl (map fst mb) (map fst ma).
Proof.
  unfold keys_in, incl. rewrite forallb_forall. split.
  - intros H k Hin. apply in_map_iff in Hin as [[k' v] [<- Hin]]. specialize (H _ Hin). simpl in *.
    destruct (alookup k' ma) eqn:E; [|discriminate]. apply alookup_In_fst; eauto.
  - intros H [k v] Hin; simpl. assert (Hk : In k (map fst mb)) by (apply in_map_iff; exists (k, v); auto).
    apply H, alookup_In_fst in Hk as [v' ->]; auto.
Qed.

Lemma eqS_fwd_incl mb ma : eqS_fwd mb ma = true -> incl (map fst ma) (map fst mb).
Proof.
  induction ma as [|[k v] ma IH]; simpl; [intros _ x []|].
  rewrite andb_true_iff; intros [H1 H2] x [<-|Hin]; [|apply IH; auto].
  destruct (alookup k mb) eqn:E; [|discriminate]. apply alookup_In_fst; eauto.
Qed.

Lemma eqS_map_length ma mb :
  nodup_keys ma = true -> nodup_keys mb = true ->
  eqS_fwd mb ma = true -> keys_in ma mb = true -> length ma = length mb.
Proof.
  intros Ha Hb H1 H2. apply nodup_keys_NoDup in Ha, Hb.
  apply eqS_fwd_incl in H1. apply keys_in_incl in H2.
  rewrite <- (map_length fst ma), <- (map_length fst mb).
  apply Nat.le_antisymm; apply NoDup_incl_length; auto.
Qed.

Lemma eqS_fwd_keys_in ma mb :
  nodup_keys ma = true -> length ma = length mb ->
  eqS_fwd mb ma = true -> keys_in ma mb = true.
Proof.
  intros Ha Hl H1. apply nodup_keys_NoDup in Ha. apply eqS_fwd_incl in H1.
  apply keys_in_incl. apply NoDup_length_incl; auto. rewrite !map_length; lia.
Qed.

Lemma set_incl_length sa sb :
  nodup_strs sa = true -> nodup_strs sb = true -> length sa = length sb ->
  forallb (fun k => smem k sb) sa = true -> forallb (fun k => smem k sa) sb = true.
Proof.
  intros Ha Hb Hl H. apply nodup_strs_NoDup in Ha, Hb.
  rewrite forallb_forall in *. intros k Hk. apply smem_In.
  assert (Hincl : incl sa sb) by (intros x Hx; apply smem_In, H, Hx).
  apply (NoDup_length_incl Ha) in Hincl; [|lia]. apply Hincl, Hk.
Qed.

Lemma set_eq_length sa sb :
  nodup_strs sa = true -> nodup_strs sb = true ->
  forallb (fun k => smem k sb) sa = true -> forallb (fun k => smem k sa) sb = true -> length sa = length sb.
Proof.
  intros Ha Hb H1 H2. apply nodup_strs_NoDup in Ha, Hb. rewrite forallb_forall in *.
  apply Nat.le_antisymm; apply NoDup_incl_length; auto; intros x Hx; apply smem_In; auto.
Qed.

Definition agrees (x : val) : Prop :=
  forall y, data x = true -> data y = true -> equalI x y = Some (eqS x y).

Lemma equalI_list_go la lb :
  Forall agrees la -> forallb data la = true -> forallb data lb = true -> length la = length lb ->
  (fix go (la lb : list val) {struct la} : option bool :=
     match la, lb with
     | x :: la', y :: lb' => match equalI x y with Some true => go la' lb' | r => r end
     | _, _ => Some true
     end) la lb = Some (eqS_list la lb).
Proof.
  revert lb; induction la as [|x la IH]; intros [|y lb] HF Ha Hb Hl; simpl in *; try discriminate; auto.
  apply andb_true_iff in Ha as [Hx Ha]. apply andb_true_iff in Hb as [Hy Hb].
  inversion HF as [|? ? Hx' HF']; subst. rewrite (Hx' y Hx Hy).
  destruct (eqS x y); simpl; auto.
Qed.

Lemma equalI_map_go mb ma :
  Forall (fun kv => agrees (snd kv)) ma ->
  forallb (fun kv => data (snd kv)) ma = true -> forallb (fun kv => data (snd kv)) mb = true ->
  (fix go (ma : list (str * val)) {struct ma} : option bool :=
     match ma with
     | [] => Some true
     | (k, v) :: ma' =>
         match alookup k mb with
         | None => Some false
         | Some bv => match equalI v bv with Some true => go ma' | r => r end
         end
     end) ma = Some (eqS_fwd mb ma).
Proof.
  induction ma as [|[k v] ma IH]; intros HF Ha Hb; simpl in *; auto.
  apply andb_true_iff in Ha as [Hv Ha]. inversion HF as [|? ? Hv' HF']; subst; simpl in *.
  destruct (alookup k mb) as [bv|] eqn:E; simpl; auto.
  assert (Hbv : data bv = true).
  { apply alookup_In in E. rewrite forallb_forall in Hb. apply (Hb (k, bv) E). }
  rewrite (Hv' bv Hv Hbv). destruct (eqS v bv); simpl; auto.
Qed.

Lemma length_eqb_false la lb : (length la =? length lb)%nat = false -> @eqS_list la lb = false.
Proof.
  intros H. destruct (eqS_list la lb) eqn:E; auto. apply eqS_list_length in E.
  apply Nat.eqb_neq in H. contradiction.
Qed.

Theorem equalI_eqS : forall a b, data a = true -> data b = true -> equalI a b = Some (eqS a b).
Proof.
  intros a. change (agrees a). induction a using val_ind'; intros y Ha Hy; try discriminate Ha;
    try (destruct y; reflexivity).
  - (* list *)
    rewrite eqS_list_eq. simpl in Ha.
    destruct y; try reflexivity; simpl in Hy |- *;
      (destruct (length l =? length l0)%nat eqn:El; simpl;
       [ apply Nat.eqb_eq in El; apply equalI_list_go; auto
       | now rewrite length_eqb_false ]).
  - (* vector *)
    rewrite eqS_vec_eq. simpl in Ha.
    destruct y; try reflexivity; simpl in Hy |- *;
      (destruct (length l =? length l0)%nat eqn:El; simpl;
       [ apply Nat.eqb_eq in El; apply equalI_list_go; auto
       | now rewrite length_eqb_false ]).
  - (* map *)
    rewrite eqS_map_eq. simpl in Ha. apply andb_true_iff in Ha as [Hnd Ha].
    destruct y; try reflexivity. simpl in Hy. apply andb_true_iff in Hy as [Hnd' Hy].
    cbn [equalI type_tag sequential Nat.eqb negb orb andb].
    destruct (length m =? length m0)%nat eqn:El; cbn [negb].
    + apply Nat.eqb_eq in El. rewrite equalI_map_go; auto. f_equal.
      destruct (eqS_fwd m0 m) eqn:E; simpl; auto. symmetry. apply eqS_fwd_keys_in; auto.
    + f_equal. apply Nat.eqb_neq in El.
      destruct (eqS_fwd m0 m && keys_in m m0) eqn:E; auto.
      apply andb_true_iff in E as [E1 E2]. exfalso; apply El. apply eqS_map_length; auto.
  - (* set *)
    simpl in Ha. destruct y; try reflexivity. simpl in Hy.
    cbn [equalI type_tag sequential Nat.eqb negb orb andb eqS].
    destruct (length ks =? length ks0)%nat eqn:El; cbn [negb]; f_equal.
    + apply Nat.eqb_eq in El. destruct (forallb (fun k => smem k ks0) ks) eqn:E; simpl; auto.
      symmetry. apply set_incl_length; auto.
    + apply Nat.eqb_neq in El.
      destruct (forallb (fun k => smem k ks0) ks && forallb (fun k => smem k ks) ks0) eqn:E; auto.
      apply andb_true_iff in E as [E1 E2]. exfalso; apply El. apply set_eq_length; auto.
Qed.

(** ---- eqS is an equivalence on data ---- *)

Lemma eqS_fwd_In mb ma k v :
  eqS_fwd mb ma = true -> In (k, v) ma -> exists bv, alookup k mb = Some bv /\ eqS v bv = true.
Proof.
  induction ma as [|[k' v'] ma IH]; simpl; [tauto|].
  rewrite andb_true_iff; intros [H1 H2] [Heq|Hin]; [|auto].
  inversion Heq; subst. destruct (alookup k mb) as [bv|]; [eauto|discriminate].
Qed.

Lemma eqS_fwd_intro mb ma :
  (forall k v, In (k, v) ma -> exists bv, alookup k mb = Some bv /\ eqS v bv = true) -> eqS_fwd mb ma = true.
Proof.
  induction ma as [|[k v] ma IH]; simpl; auto. intros H.
  destruct (H k v (or_introl eq_refl)) as [bv [-> ->]]. simpl. apply IH. intros; apply H; auto.
Qed.

Lemma alookup_nodup {A} k (v : A) m : nodup_keys m = true -> In (k, v) m -> alookup k m = Some v.
Proof.
  induction m as [|[k' v'] m IH]; simpl; [tauto|].
  rewrite andb_true_iff, negb_true_iff. intros [Hn Hd] [Heq|Hin].
  - inversion Heq; subst. now rewrite str_eqb_refl.
  - destruct (str_eqb_spec k k') as [->|Hne]; [|auto].
    exfalso. assert (existsb (fun kv => str_eqb k' (fst kv)) m = true); [|congruence].
    apply existsb_exists. exists (k', v); split; auto. apply str_eqb_refl.
Qed.

Lemma eqS_list_refl l : Forall (fun x => data x = true -> eqS x x = true) l -> forallb data l = true -> eqS_list l l = true.
Proof.
  induction l as [|x l IH]; simpl; auto. intros HF Hd. apply andb_true_iff in Hd as [Hx Hd].
  inversion HF as [|? ? Hx' HF']; subst. rewrite Hx', IH; auto.
Qed.

Theorem eqS_refl a : data a = true -> eqS a a = true.
Proof.
  induction a using val_ind'; intros Hd; try discriminate Hd; try reflexivity.
  - simpl. apply Bool.eqb_reflx.
  - simpl. apply Z.eqb_refl.
  - simpl. apply str_eqb_refl.
  - simpl. apply str_eqb_refl.
  - rewrite eqS_list_eq. simpl in *. apply eqS_list_refl; auto.
  - rewrite eqS_vec_eq. simpl in *. apply eqS_list_refl; auto.
  - rewrite eqS_map_eq. simpl in Hd. apply andb_true_iff in Hd as [Hnd Hd].
    apply andb_true_iff; split.
    + apply eqS_fwd_intro. intros k v Hin. exists v; split; [apply alookup_nodup; auto|].
      rewrite Forall_forall in H. rewrite forallb_forall in Hd. apply (H (k, v) Hin). apply (Hd (k, v) Hin).
    + apply keys_in_incl. apply incl_refl.
  - simpl. assert (forallb (fun k => smem k ks) ks = true) as ->; auto.
    apply forallb_forall. intros k Hk. now apply smem_In.
Qed.

Lemma eqS_list_sym la lb :
  Forall (fun x => forall y, data x = true -> data y = true -> eqS x y = true -> eqS y x = true) la ->
  forallb data la = true -> forallb data lb = true ->
  eqS_list la lb = true -> eqS_list lb la = true.
Proof.
  revert lb; induction la as [|x la IH]; intros [|y lb] HF Ha Hb; simpl in *; auto.
  apply andb_true_iff in Ha as [Hx Ha]. apply andb_true_iff in Hb as [Hy Hb].
  inversion HF as [|? ? Hx' HF']; subst. rewrite !andb_true_iff. intros [E1 E2]; split; auto.
Qed.

Lemma eqS_sym_imp a : forall b, data a = true -> data b = true -> eqS a b = true -> eqS b a = true.
Proof.
  induction a using val_ind'; intros y Ha Hy; try discriminate Ha.
  - destruct y; simpl; auto.
  - destruct y; simpl; auto. rewrite !eqb_true_iff; auto.
  - destruct y; simpl; auto. rewrite Z.eqb_sym; auto.
  - destruct y; simpl; auto. rewrite str_eqb_sym; auto.
  - destruct y; simpl; auto. rewrite str_eqb_sym; auto.
  - rewrite eqS_list_eq. destruct y; try discriminate; simpl seq_items; intros E;
      [rewrite eqS_list_eq | rewrite eqS_vec_eq]; simpl in *; apply eqS_list_sym; auto.
  - rewrite eqS_vec_eq. destruct y; try discriminate; simpl seq_items; intros E;
      [rewrite eqS_list_eq | rewrite eqS_vec_eq]; simpl in *; apply eqS_list_sym; auto.
  - rewrite eqS_map_eq. destruct y; try discriminate. rewrite eqS_map_eq.
    simpl in Ha, Hy. apply andb_true_iff in Ha as [Hnd Ha]. apply andb_true_iff in Hy as [Hnd' Hy].
    rewrite !andb_true_iff. intros [H1 H2]. split.
    + apply eqS_fwd_intro. intros k v' Hin.
      assert (Hk : In k (map fst m0)) by (apply in_map_iff; exists (k, v'); auto).
      apply keys_in_incl in H2. apply H2, alookup_In_fst in Hk as [v Hv].
      exists v; split; auto. pose proof (alookup_In _ _ _ Hv) as Hin'.
      destruct (eqS_fwd_In _ _ _ _ H1 Hin') as [bv [Hbv Hs]].
      rewrite (alookup_nodup _ _ _ Hnd' Hin) in Hbv. inversion Hbv; subst bv.
      rewrite Forall_forall in H. rewrite forallb_forall in Ha, Hy.
      apply (H (k, v) Hin' v'); auto; first [apply (Ha (k, v) Hin') | apply (Hy (k, v') Hin)].
    + apply keys_in_incl. apply eqS_fwd_incl; auto.
  - destruct y; try discriminate. simpl. rewrite !andb_true_iff. tauto.
Qed.

Theorem eqS_sym a b : data a = true -> data b = true -> eqS a b = eqS b a.
Proof.
  intros Ha Hb. destruct (eqS a b) eqn:E1, (eqS b a) eqn:E2; auto.
  - apply eqS_sym_imp in E1; auto; congruence.
  - apply eqS_sym_imp in E2; auto; congruence.
Qed.

Lemma eqS_list_trans la : forall lb lc,
  Forall (fun x => forall y z, eqS x y = true -> eqS y z = true -> eqS x z = true) la ->
  eqS_list la lb = true -> eqS_list lb lc = true -> eqS_list la lc = true.
Proof.
  induction la as [|x la IH]; intros [|y lb] [|z lc] HF; simpl; try discriminate; auto.
  inversion HF as [|? ? Hx' HF']; subst. rewrite !andb_true_iff. intros [? ?] [? ?]; split; eauto.
Qed.

Theorem eqS_trans a : forall b c, eqS a b = true -> eqS b c = true -> eqS a c = true.
Proof.
  induction a using val_ind'; intros yy zz.
  - destruct yy; try discriminate; auto.
  - destruct yy; try discriminate; destruct zz; try discriminate; simpl. rewrite !eqb_true_iff; congruence.
  - destruct yy; try discriminate; destruct zz; try discriminate; simpl. rewrite !Z.eqb_eq; congruence.
  - destruct yy; try discriminate; destruct zz; try discriminate; simpl. rewrite !str_eqb_eq; congruence.
  - destruct yy; try discriminate; destruct zz; try discriminate; simpl. rewrite !str_eqb_eq; congruence.
  - rewrite !eqS_list_eq.
    destruct yy; try discriminate; simpl seq_items; [rewrite eqS_list_eq | rewrite eqS_vec_eq];
      (destruct zz; try discriminate; simpl seq_items; apply eqS_list_trans; auto).
  - rewrite !eqS_vec_eq.
    destruct yy; try discriminate; simpl seq_items; [rewrite eqS_list_eq | rewrite eqS_vec_eq];
      (destruct zz; try discriminate; simpl seq_items; apply eqS_list_trans; auto).
  - rewrite !eqS_map_eq. destruct yy; try discriminate. rewrite eqS_map_eq. destruct zz; try discriminate.
    rewrite !andb_true_iff. intros [A1 A2] [B1 B2]. split.
    + apply eqS_fwd_intro. intros k v Hin.
      destruct (eqS_fwd_In _ _ _ _ A1 Hin) as [bv [Hbv Hs]].
      destruct (eqS_fwd_In _ _ _ _ B1 (alookup_In _ _ _ Hbv)) as [cv [Hcv Hs']].
      exists cv; split; auto. rewrite Forall_forall in H. apply (H (k, v) Hin bv cv); auto.
    + apply keys_in_incl. apply keys_in_incl in A2, B2. eapply incl_tran; eauto.
  - destruct yy; try discriminate; destruct zz; try discriminate; simpl.
    rewrite !andb_true_iff, !forallb_forall. intros [A1 A2] [B1 B2]. split; intros k Hk.
    + apply B1, smem_In, A1, Hk.
    + apply A2, smem_In, B2, Hk.
  - destruct yy; discriminate.
  - destruct yy; discriminate.
  - destruct yy; discriminate.
  - destruct yy; discriminate.
  - destruct yy; discriminate.
  - destruct yy; discriminate.
Qed.

(** kinds are disjoint *)
Lemma eqS_kinds a b : eqS a b = true ->
  type_tag a = type_tag b \/ (sequential a = true /\ sequential b = true).
Proof. destruct a, b; simpl; try discriminate; auto. Qed.

Lemma eqS_list_vec l : forallb data l = true -> eqS (VList l None) (VVec l None) = true.
Proof.
  intros H. rewrite eqS_list_eq; simpl. pose proof (eqS_refl (VList l None) H) as R.
  now rewrite eqS_list_eq in R.
Qed.
