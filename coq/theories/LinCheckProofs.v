(** The linearizability checker decides linearizability: [search] answers true exactly when some
    ordering of the history respects real time and is a legal sequential history of the spec. *)
From Coq Require Import Permutation.
From Lisp Require Import Base LinCheck.
Local Open Scope nat_scope.

Section Proofs.
  Variables (St Op Rt : Type).
  Variable sstep : St -> Op -> St * Rt.
  Variable req : Rt -> Rt -> bool.
  Notation call := (@call Op Rt).
  Notation search := (search St Op Rt sstep req).
  Notation seq_ok := (seq_ok St Op Rt sstep req).
  Notation rt_ok := (rt_ok Op Rt).
  Notation minimal := (minimal Op Rt).

  Lemma picks_perm {A} (l : list A) x r : In (x, r) (picks l) -> Permutation (x :: r) l.
  Proof.
    revert x r; induction l as [|y l IH]; simpl; intros x r H; [contradiction|].
    destruct H as [H|H].
    - injection H as -> ->. apply Permutation_refl.
    - apply in_map_iff in H. destruct H as ([x' r'] & Heq & Hin). simpl in Heq. injection Heq as -> <-.
      apply IH in Hin. eapply Permutation_trans; [apply perm_swap|]. apply perm_skip. exact Hin.
  Qed.

  Lemma picks_split {A} (l1 l2 : list A) x : In (x, l1 ++ l2) (picks (l1 ++ x :: l2)).
  Proof.
    induction l1 as [|y l1 IH]; simpl; [left; reflexivity|].
    right. apply in_map_iff. exists (x, l1 ++ l2). split; [reflexivity | exact IH].
  Qed.

  Lemma picks_length {A} (l : list A) x r : In (x, r) (picks l) -> length l = S (length r).
  Proof. intros H. apply picks_perm, Permutation_length in H. simpl in H. auto. Qed.

  Lemma any_lazy_existsb {A} (f : A -> bool) l : any_lazy f l = existsb f l.
  Proof. induction l as [|a l IH]; simpl; [reflexivity|]. destruct (f a); simpl; auto. Qed.

  Lemma minimal_spec c l : minimal c l = true <-> (forall d, In d l -> ~ (c_resp d < c_inv c)).
  Proof.
    unfold minimal. rewrite forallb_forall. split; intros H d Hd; specialize (H d Hd).
    - apply negb_true_iff, Nat.ltb_ge in H. lia.
    - apply negb_true_iff, Nat.ltb_ge. lia.
  Qed.

  Theorem search_sound : forall f st l, search f st l = true ->
    exists w, Permutation w l /\ rt_ok w /\ seq_ok st w.
  Proof.
    induction f as [|f IH]; intros st l H.
    - destruct l; [exists []; simpl; auto | discriminate].
    - destruct l as [|c0 l0]; [exists []; simpl; auto|].
      cbn [LinCheck.search] in H. rewrite any_lazy_existsb in H. apply existsb_exists in H. destruct H as ([c r] & Hin & Hc). simpl in Hc.
      destruct (minimal c r) eqn:Hm; [|discriminate].
      destruct (req (snd (sstep st (c_op c))) (c_ret c)) eqn:Hr; [|discriminate]. rename Hc into Hs.
      destruct (IH _ _ Hs) as (w & Hp & Hrt & Hsq).
      exists (c :: w). split; [|split].
      + eapply Permutation_trans; [apply perm_skip; exact Hp | apply picks_perm; exact Hin].
      + simpl. split; [|exact Hrt]. intros d Hd. apply (proj1 (minimal_spec c r) Hm). eapply Permutation_in; eauto.
      + simpl. split; assumption.
  Qed.

  Lemma search_S f st l : l <> [] ->
    search (S f) st l =
    existsb (fun p => if minimal (fst p) (snd p) then
                        if req (snd (sstep st (c_op (fst p)))) (c_ret (fst p)) then search f (fst (sstep st (c_op (fst p)))) (snd p) else false
                      else false) (picks l).
  Proof. destruct l; [congruence|]. intros _. cbn [LinCheck.search]. apply any_lazy_existsb. Qed.

  Theorem search_complete : forall w st l f,
    Permutation w l -> rt_ok w -> seq_ok st w -> length l <= f -> search f st l = true.
  Proof.
    induction w as [|c w IH]; intros st l f Hp Hrt Hsq Hf.
    - apply Permutation_nil in Hp. subst. destruct f; reflexivity.
    - assert (In c l) as Hin by (eapply Permutation_in; [exact Hp | left; reflexivity]).
      apply in_split in Hin. destruct Hin as (l1 & l2 & ->).
      apply Permutation_cons_app_inv in Hp.
      destruct f as [|f]; [rewrite app_length in Hf; simpl in Hf; lia|].
      rewrite search_S by (destruct l1; discriminate).
      apply existsb_exists. exists (c, l1 ++ l2). split; [apply picks_split|]. simpl.
      simpl in Hrt, Hsq. destruct Hrt as [Hmin Hrt]. destruct Hsq as [Hr Hsq].
      assert (minimal c (l1 ++ l2) = true) as Hm.
      { apply minimal_spec. intros d Hd. apply Hmin. eapply Permutation_in; [apply Permutation_sym; exact Hp | exact Hd]. }
      rewrite Hm, Hr. apply IH; auto. rewrite app_length in *. simpl in Hf. lia.
  Qed.

  (** THE CHECKER DECIDES LINEARIZABILITY *)
  Theorem linearizable_b_spec st h :
    linearizable_b St Op Rt sstep req st h = true <->
    exists w, Permutation w h /\ rt_ok w /\ seq_ok st w.
  Proof.
    unfold linearizable_b. split.
    - apply search_sound.
    - intros (w & Hp & Hrt & Hsq). eapply search_complete; eauto.
  Qed.
End Proofs.
