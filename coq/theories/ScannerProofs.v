(** Facts about the scanner model. *)
From Lisp Require Import Base Scanner.
From Lisp.Gen Require Import Unicode.
Local Open Scope N_scope.

(** the ASCII fast paths of is_letter / is_udigit agree with Go's unicode tables *)
Lemma fast_path_agrees :
  forallb (fun c => Bool.eqb (is_letter c) (in_ranges c letter_ranges)) (map N.of_nat (seq 0 170)) = true /\
  forallb (fun c => Bool.eqb (is_udigit c) (in_ranges c digit_ranges)) (map N.of_nat (seq 0 1632)) = true.
Proof. split; vm_compute; reflexivity. Qed.
