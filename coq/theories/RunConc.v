(** Driver operations for the concurrency properties: the recorded histories of real atoms
    (op N) and real futures (op F) are judged by the very definitions the theorems are about. *)
From Lisp Require Import Wire LinCheck ConcFuture.

Fixpoint take_zs (n : nat) (ts : list tok) : option (list Z * list tok) :=
  match n with
  | O => Some ([], ts)
  | S n' => match ts with
            | TNum z :: r => match take_zs n' r with Some (l, r') => Some (z :: l, r') | None => None end
            | _ => None
            end
  end.

(** N <natoms> <init>* <ncalls> { <opc> <i> <j> <k1> <k2> <rk> <rv> <inv> <resp> }*
    opc: 0 deref, 1 reset k1, 2 swap-add k1, 3 swap-mul-add k1 k2, 4 swap-fail, 5 swap-add-from j, 6 swap-bump j k1
    rk: 0 value rv, 1 error.     Output: "lin" | "notlin" *)
Definition aop_of (opc i j k1 k2 : Z) : option aspec_op :=
  let i' := Z.to_nat i in let j' := Z.to_nat j in
  if Z.eqb opc 0 then Some (AoDeref i')
  else if Z.eqb opc 1 then Some (AoReset i' k1)
  else if Z.eqb opc 2 then Some (AoSwapAdd i' k1)
  else if Z.eqb opc 3 then Some (AoSwapMulAdd i' k1 k2)
  else if Z.eqb opc 4 then Some (AoSwapFail i')
  else if Z.eqb opc 5 then Some (AoSwapAddFrom i' j')
  else if Z.eqb opc 6 then Some (AoSwapBump i' j' k1)
  else None.

Fixpoint parse_acalls (n : nat) (ts : list tok) : option (list (@call aspec_op aspec_ret)) :=
  match n with
  | O => match ts with [] => Some [] | _ => None end
  | S n' =>
      match ts with
      | TNum opc :: TNum i :: TNum j :: TNum k1 :: TNum k2 :: TNum rk :: TNum rv :: TNum inv :: TNum resp :: r =>
          match aop_of opc i j k1 k2, parse_acalls n' r with
          | Some op, Some l =>
              Some (mkCall op (if Z.eqb rk 0 then ArVal rv else ArErr) (Z.to_nat inv) (Z.to_nat resp) :: l)
          | _, _ => None
          end
      | _ => None
      end
  end.

Definition bad : list N := s_ "BADCASE".

Definition run_atoms_history (ts : list tok) : list N :=
  match ts with
  | TNum na :: r =>
      match take_zs (Z.to_nat na) r with
      | Some (init, TNum nc :: r1) =>
          match parse_acalls (Z.to_nat nc) r1 with
          | Some h => if atoms_linearizable init h then s_ "lin" else s_ "notlin"
          | None => bad
          end
      | _ => bad
      end
  | _ => bad
  end.

(** F <ncalls> { <tid> <opc> <arg> <rk> <rv> <inv> <resp> }*
    opc: 0 deref (arg 1: the caller's context expires), 1 status (arg 1 done?, 0 cancelled?), 2 cancel
    rk: 0 outcome rv, 1 timeout, 2 boolean rv.     Output: "ok" | "bad" *)
Fixpoint parse_fcalls (n : nat) (ts : list tok) : option (list (fcall Z)) :=
  match n with
  | O => match ts with [] => Some [] | _ => None end
  | S n' =>
      match ts with
      | TNum tid :: TNum opc :: TNum arg :: TNum rk :: TNum rv :: TNum inv :: TNum resp :: r =>
          let op := if Z.eqb opc 0 then Some (FDeref (Z.eqb arg 1))
                    else if Z.eqb opc 1 then Some (FStat (Z.eqb arg 1))
                    else if Z.eqb opc 2 then Some FCancel else None in
          let ret := if Z.eqb rk 0 then Some (FOut Z rv) else if Z.eqb rk 1 then Some (FTimeout Z)
                     else if Z.eqb rk 2 then Some (FBool Z (Z.eqb rv 1)) else None in
          match op, ret, parse_fcalls n' r with
          | Some o, Some rt, Some l => Some (mkFCall Z (Z.to_nat tid) o rt (Z.to_nat inv) (Z.to_nat resp) :: l)
          | _, _, _ => None
          end
      | _ => None
      end
  end.

Definition run_future_history (ts : list tok) : list N :=
  match ts with
  | TNum nc :: r =>
      match parse_fcalls (Z.to_nat nc) r with
      | Some h => if fhist_ok Z Z.eqb h then s_ "ok" else s_ "bad"
      | None => bad
      end
  | _ => bad
  end.
