(** From lock discipline to race freedom.  Threads run traces that the discipline monitor accepts
    (what LocksetProofs.fn_ok_sound gives for every path of every accepted function) against ONE
    object guarded by a sync.RWMutex (writer exclusive, readers shared, acquisition blocks).
    Theorem: in every reachable state, no thread is about to write a shared field while another
    thread is about to read or write a shared field — the two accesses are never both enabled. *)
From Lisp Require Import Base Lockset LocksetProofs.
Local Open Scope nat_scope.

Section Mutex.
  Variable shared : str -> bool.
  Variable tbl : list summary.

  Record thr := mkThr { t_st : lst; t_tr : list ev }.

  Record gstate := mkG {
    g_writer : option nat;
    g_readers : list nat;
    g_threads : list thr;
  }.

  Fixpoint set_nth {A} (l : list A) (n : nat) (x : A) : list A :=
    match l, n with
    | [], _ => []
    | _ :: r, O => x :: r
    | y :: r, S n' => y :: set_nth r n' x
    end.
  Fixpoint remove_one (t : nat) (l : list nat) : list nat :=
    match l with [] => [] | x :: r => if Nat.eqb x t then r else x :: remove_one t r end.

  (** what the mutex itself does for an event of thread t; None: blocked *)
  Definition mutex_step (w : option nat) (rs : list nat) (t : nat) (e : ev) : option (option nat * list nat) :=
    match e with
    | EvLock => match w, rs with None, [] => Some (Some t, []) | _, _ => None end
    | EvRLock => match w with None => Some (None, t :: rs) | Some _ => None end
    | EvUnlock => Some (None, rs)
    | EvRUnlock => Some (w, remove_one t rs)
    | _ => Some (w, rs)
    end.

  (** a thread whose trace is over releases what a deferred unlock registered *)
  Definition finish_step (w : option nat) (rs : list nat) (t : nat) (st : lst) : option (lst * option nat * list nat) :=
    match dfr st with
    | Some MW => Some (mkL MFree None, None, rs)
    | Some MR => Some (mkL MFree None, w, remove_one t rs)
    | _ => None
    end.

  Definition gstep (s : gstate) (t : nat) : option gstate :=
    match nth_error (g_threads s) t with
    | None => None
    | Some th =>
        match t_tr th with
        | e :: rest =>
            match mon1 shared tbl (t_st th) e, mutex_step (g_writer s) (g_readers s) t e with
            | Some st', Some (w', rs') => Some (mkG w' rs' (set_nth (g_threads s) t (mkThr st' rest)))
            | _, _ => None
            end
        | [] =>
            match finish_step (g_writer s) (g_readers s) t (t_st th) with
            | Some (st', w', rs') => Some (mkG w' rs' (set_nth (g_threads s) t (mkThr st' [])))
            | None => None
            end
        end
    end.

  Fixpoint grun (s : gstate) (sched : list nat) : gstate :=
    match sched with
    | [] => s
    | t :: r => match gstep s t with Some s' => grun s' r | None => grun s r end
    end.

  (** every thread's remaining trace is accepted by the monitor from its current state, ending balanced *)
  Definition thr_safe (th : thr) : Prop :=
    exists st', mon shared tbl (t_st th) (t_tr th) = Some st' /\ ret_ok MFree st' = true.

  Record GInv (s : gstate) : Prop := {
    gi_w : forall t th, nth_error (g_threads s) t = Some th -> (held (t_st th) = MW <-> g_writer s = Some t);
    gi_w_dom : forall t, g_writer s = Some t -> t < length (g_threads s);
    gi_r : forall t th, nth_error (g_threads s) t = Some th -> (held (t_st th) = MR <-> In t (g_readers s));
    gi_r_dom : forall t, In t (g_readers s) -> t < length (g_threads s);
    gi_excl : g_writer s <> None -> g_readers s = [];
    gi_nodup : NoDup (g_readers s);
    gi_safe : forall t th, nth_error (g_threads s) t = Some th -> thr_safe th;
    gi_dfr : forall t th m, nth_error (g_threads s) t = Some th -> dfr (t_st th) = Some m -> held (t_st th) = m /\ m <> MFree;
  }.

  (** ---- list plumbing ---- *)
  Lemma nth_set_same {A} (l : list A) n x : n < length l -> nth_error (set_nth l n x) n = Some x.
  Proof. revert n; induction l as [|y l IH]; intros [|n] H; simpl in *; try lia; auto. apply IH; lia. Qed.
  Lemma nth_set_other {A} (l : list A) n m x : n <> m -> nth_error (set_nth l n x) m = nth_error l m.
  Proof. revert n m; induction l as [|y l IH]; intros [|n] [|m] H; simpl; auto; try congruence. Qed.
  Lemma length_set_nth {A} (l : list A) n x : length (set_nth l n x) = length l.
  Proof. revert n; induction l as [|y l IH]; intros [|n]; simpl; auto. Qed.
  Lemma nth_some_lt {A} (l : list A) n x : nth_error l n = Some x -> n < length l.
  Proof. intros H. apply nth_error_Some. congruence. Qed.
  Lemma in_remove_one t u l : NoDup l -> (In u (remove_one t l) <-> In u l /\ u <> t).
  Proof.
    induction l as [|x l IH]; simpl; intros Hn; [tauto|].
    inversion Hn as [|? ? Hx Hn']; subst.
    destruct (Nat.eqb_spec x t) as [->|Hne].
    - split; [intros Hu; split; [auto|]; intros ->; contradiction | intros [[->|Hu] Hd]; [congruence | auto]].
    - simpl. rewrite (IH Hn'). split.
      + intros [->|[Hu Hd]]; auto.
      + intros [[->|Hu] Hd]; auto.
  Qed.
  Lemma nodup_remove_one t l : NoDup l -> NoDup (remove_one t l).
  Proof.
    induction l as [|x l IH]; simpl; intros Hn; [constructor|].
    inversion Hn as [|? ? Hx Hn']; subst.
    destruct (Nat.eqb_spec x t); auto. constructor; auto.
    intros Hin. apply in_remove_one in Hin; tauto.
  Qed.

  (** frame lemmas: a step of thread t that leaves the mutex alone and keeps t's mode *)
  Lemma ginv_same_mode s t th st' tr' :
    GInv s -> nth_error (g_threads s) t = Some th ->
    held st' = held (t_st th) -> (forall m, dfr st' = Some m -> held st' = m /\ m <> MFree) ->
    thr_safe (mkThr st' tr') ->
    GInv (mkG (g_writer s) (g_readers s) (set_nth (g_threads s) t (mkThr st' tr'))).
  Proof.
    intros I Ht Hh Hd Hs. pose proof (nth_some_lt _ _ _ Ht) as Hlt. constructor; simpl.
    - intros u thu Hu. destruct (Nat.eq_dec t u) as [<-|Hne].
      + rewrite nth_set_same in Hu by exact Hlt. injection Hu as <-. simpl. rewrite Hh. exact (gi_w _ I t th Ht).
      + rewrite nth_set_other in Hu by exact Hne. exact (gi_w _ I u thu Hu).
    - intros u E. rewrite length_set_nth. exact (gi_w_dom _ I u E).
    - intros u thu Hu. destruct (Nat.eq_dec t u) as [<-|Hne].
      + rewrite nth_set_same in Hu by exact Hlt. injection Hu as <-. simpl. rewrite Hh. exact (gi_r _ I t th Ht).
      + rewrite nth_set_other in Hu by exact Hne. exact (gi_r _ I u thu Hu).
    - intros u E. rewrite length_set_nth. exact (gi_r_dom _ I u E).
    - exact (gi_excl _ I).
    - exact (gi_nodup _ I).
    - intros u thu Hu. destruct (Nat.eq_dec t u) as [<-|Hne].
      + rewrite nth_set_same in Hu by exact Hlt. injection Hu as <-. exact Hs.
      + rewrite nth_set_other in Hu by exact Hne. exact (gi_safe _ I u thu Hu).
    - intros u thu m Hu Hm. destruct (Nat.eq_dec t u) as [<-|Hne].
      + rewrite nth_set_same in Hu by exact Hlt. injection Hu as <-. simpl in *. exact (Hd m Hm).
      + rewrite nth_set_other in Hu by exact Hne. exact (gi_dfr _ I u thu m Hu Hm).
  Qed.

  Lemma thr_safe_tail st e rest st1 :
    thr_safe (mkThr st (e :: rest)) -> mon1 shared tbl st e = Some st1 -> thr_safe (mkThr st1 rest).
  Proof. intros (st' & Hm & Hr) H1. simpl in Hm. rewrite H1 in Hm. exists st'. auto. Qed.

  (** THE INVARIANT IS PRESERVED *)
  Lemma gstep_inv s t s' : GInv s -> gstep s t = Some s' -> GInv s'.
  Proof.
    intros I Hs. unfold gstep in Hs.
    destruct (nth_error (g_threads s) t) as [th|] eqn:Ht; [|discriminate].
    pose proof (nth_some_lt _ _ _ Ht) as Hlt.
    pose proof (gi_safe _ I t th Ht) as Hsafe. destruct th as [st tr]. simpl in *.
    pose proof (gi_w _ I t _ Ht) as Hw. pose proof (gi_r _ I t _ Ht) as Hr. simpl in Hw, Hr.
    pose proof (fun m => gi_dfr _ I t _ m Ht) as Hdf. simpl in Hdf.
    destruct tr as [|e rest].
    - (* the deferred unlock at the end of the function *)
      unfold finish_step in Hs. destruct (dfr st) as [[| |]|] eqn:Ed; try discriminate; injection Hs as <-.
      + (* read lock released *)
        destruct (Hdf MR eq_refl) as [Hh _].
        constructor; simpl.
        * intros u thu Hu. destruct (Nat.eq_dec t u) as [<-|Hne].
          -- rewrite nth_set_same in Hu by exact Hlt. injection Hu as <-. simpl. rewrite <- Hw, Hh. split; discriminate.
          -- rewrite nth_set_other in Hu by exact Hne. exact (gi_w _ I u thu Hu).
        * intros u E. rewrite length_set_nth. exact (gi_w_dom _ I u E).
        * intros u thu Hu. rewrite (in_remove_one _ _ _ (gi_nodup _ I)). destruct (Nat.eq_dec t u) as [<-|Hne].
          -- rewrite nth_set_same in Hu by exact Hlt. injection Hu as <-. simpl. split; [discriminate | tauto].
          -- rewrite nth_set_other in Hu by exact Hne. rewrite (gi_r _ I u thu Hu). split; [auto | tauto].
        * intros u E. rewrite length_set_nth. apply (in_remove_one _ _ _ (gi_nodup _ I)) in E. exact (gi_r_dom _ I u (proj1 E)).
        * intros Hne. rewrite (gi_excl _ I Hne). reflexivity.
        * apply nodup_remove_one. exact (gi_nodup _ I).
        * intros u thu Hu. destruct (Nat.eq_dec t u) as [<-|Hne].
          -- rewrite nth_set_same in Hu by exact Hlt. injection Hu as <-. exists (mkL MFree None). split; reflexivity.
          -- rewrite nth_set_other in Hu by exact Hne. exact (gi_safe _ I u thu Hu).
        * intros u thu m Hu Hm. destruct (Nat.eq_dec t u) as [<-|Hne].
          -- rewrite nth_set_same in Hu by exact Hlt. injection Hu as <-. discriminate.
          -- rewrite nth_set_other in Hu by exact Hne. exact (gi_dfr _ I u thu m Hu Hm).
      + (* write lock released *)
        destruct (Hdf MW eq_refl) as [Hh _]. assert (g_writer s = Some t) as Ew by (apply Hw; exact Hh).
        constructor; simpl.
        * intros u thu Hu. destruct (Nat.eq_dec t u) as [<-|Hne].
          -- rewrite nth_set_same in Hu by exact Hlt. injection Hu as <-. simpl. split; discriminate.
          -- rewrite nth_set_other in Hu by exact Hne. rewrite (gi_w _ I u thu Hu), Ew. split; [congruence | discriminate].
        * discriminate.
        * intros u thu Hu. destruct (Nat.eq_dec t u) as [<-|Hne].
          -- rewrite nth_set_same in Hu by exact Hlt. injection Hu as <-. simpl. rewrite <- Hr, Hh. split; discriminate.
          -- rewrite nth_set_other in Hu by exact Hne. exact (gi_r _ I u thu Hu).
        * intros u E. rewrite length_set_nth. exact (gi_r_dom _ I u E).
        * congruence.
        * exact (gi_nodup _ I).
        * intros u thu Hu. destruct (Nat.eq_dec t u) as [<-|Hne].
          -- rewrite nth_set_same in Hu by exact Hlt. injection Hu as <-. exists (mkL MFree None). split; reflexivity.
          -- rewrite nth_set_other in Hu by exact Hne. exact (gi_safe _ I u thu Hu).
        * intros u thu m Hu Hm. destruct (Nat.eq_dec t u) as [<-|Hne].
          -- rewrite nth_set_same in Hu by exact Hlt. injection Hu as <-. discriminate.
          -- rewrite nth_set_other in Hu by exact Hne. exact (gi_dfr _ I u thu m Hu Hm).
    - destruct (mon1 shared tbl st e) as [st1|] eqn:E1; [|discriminate].
      pose proof (thr_safe_tail _ _ _ _ Hsafe E1) as Hsafe1.
      destruct e; cbn [mutex_step] in Hs; cbn [mon1] in E1.
      + (* Lock *)
        destruct (mode_eqb (held st) MFree) eqn:Ef; [|discriminate]. injection E1 as <-.
        destruct (g_writer s) eqn:Ew; [discriminate|]. destruct (g_readers s) eqn:Er; [|discriminate]. injection Hs as <-.
        assert (held st = MFree) as Hfree by (destruct (held st); simpl in Ef; congruence).
        constructor; simpl.
        * intros u thu Hu. destruct (Nat.eq_dec t u) as [<-|Hne].
          -- rewrite nth_set_same in Hu by exact Hlt. injection Hu as <-. simpl. tauto.
          -- rewrite nth_set_other in Hu by exact Hne. rewrite (gi_w _ I u thu Hu), Ew. split; [discriminate | congruence].
        * intros u [= <-]. rewrite length_set_nth. exact Hlt.
        * intros u thu Hu. destruct (Nat.eq_dec t u) as [<-|Hne].
          -- rewrite nth_set_same in Hu by exact Hlt. injection Hu as <-. simpl. split; [discriminate | tauto].
          -- rewrite nth_set_other in Hu by exact Hne. rewrite (gi_r _ I u thu Hu), Er. tauto.
        * intros u [].
        * reflexivity.
        * constructor.
        * intros u thu Hu. destruct (Nat.eq_dec t u) as [<-|Hne].
          -- rewrite nth_set_same in Hu by exact Hlt. injection Hu as <-. exact Hsafe1.
          -- rewrite nth_set_other in Hu by exact Hne. exact (gi_safe _ I u thu Hu).
        * intros u thu m Hu Hm. destruct (Nat.eq_dec t u) as [<-|Hne].
          -- rewrite nth_set_same in Hu by exact Hlt. injection Hu as <-. simpl in *. destruct (Hdf m Hm) as [A B]. exfalso. congruence.
          -- rewrite nth_set_other in Hu by exact Hne. exact (gi_dfr _ I u thu m Hu Hm).
      + (* Unlock *)
        destruct (held st) eqn:Eh; try discriminate. destruct (dfr st) eqn:Ed; [discriminate|]. injection E1 as <-. injection Hs as <-.
        assert (g_writer s = Some t) as Ew by (apply Hw; reflexivity).
        constructor; simpl.
        * intros u thu Hu. destruct (Nat.eq_dec t u) as [<-|Hne].
          -- rewrite nth_set_same in Hu by exact Hlt. injection Hu as <-. simpl. split; discriminate.
          -- rewrite nth_set_other in Hu by exact Hne. rewrite (gi_w _ I u thu Hu), Ew. split; [congruence | discriminate].
        * discriminate.
        * intros u thu Hu. destruct (Nat.eq_dec t u) as [<-|Hne].
          -- rewrite nth_set_same in Hu by exact Hlt. injection Hu as <-. simpl. rewrite <- Hr. split; discriminate.
          -- rewrite nth_set_other in Hu by exact Hne. exact (gi_r _ I u thu Hu).
        * intros u E. rewrite length_set_nth. exact (gi_r_dom _ I u E).
        * congruence.
        * exact (gi_nodup _ I).
        * intros u thu Hu. destruct (Nat.eq_dec t u) as [<-|Hne].
          -- rewrite nth_set_same in Hu by exact Hlt. injection Hu as <-. exact Hsafe1.
          -- rewrite nth_set_other in Hu by exact Hne. exact (gi_safe _ I u thu Hu).
        * intros u thu m Hu Hm. destruct (Nat.eq_dec t u) as [<-|Hne].
          -- rewrite nth_set_same in Hu by exact Hlt. injection Hu as <-. discriminate.
          -- rewrite nth_set_other in Hu by exact Hne. exact (gi_dfr _ I u thu m Hu Hm).
      + (* RLock *)
        destruct (mode_eqb (held st) MFree) eqn:Ef; [|discriminate]. injection E1 as <-.
        destruct (g_writer s) eqn:Ew; [discriminate|]. injection Hs as <-.
        assert (held st = MFree) as Hfree by (destruct (held st); simpl in Ef; congruence).
        constructor; simpl.
        * intros u thu Hu. destruct (Nat.eq_dec t u) as [<-|Hne].
          -- rewrite nth_set_same in Hu by exact Hlt. injection Hu as <-. simpl. split; discriminate.
          -- rewrite nth_set_other in Hu by exact Hne. rewrite (gi_w _ I u thu Hu), Ew. tauto.
        * discriminate.
        * intros u thu Hu. destruct (Nat.eq_dec t u) as [<-|Hne].
          -- rewrite nth_set_same in Hu by exact Hlt. injection Hu as <-. simpl. tauto.
          -- rewrite nth_set_other in Hu by exact Hne. rewrite (gi_r _ I u thu Hu). split; [auto | intros [E|E]; [congruence | exact E]].
        * intros u [<-|E]; rewrite length_set_nth; [exact Hlt | exact (gi_r_dom _ I u E)].
        * congruence.
        * constructor; [|exact (gi_nodup _ I)]. intros Hin. apply Hr in Hin. congruence.
        * intros u thu Hu. destruct (Nat.eq_dec t u) as [<-|Hne].
          -- rewrite nth_set_same in Hu by exact Hlt. injection Hu as <-. exact Hsafe1.
          -- rewrite nth_set_other in Hu by exact Hne. exact (gi_safe _ I u thu Hu).
        * intros u thu m Hu Hm. destruct (Nat.eq_dec t u) as [<-|Hne].
          -- rewrite nth_set_same in Hu by exact Hlt. injection Hu as <-. simpl in *. destruct (Hdf m Hm) as [A B]. exfalso. congruence.
          -- rewrite nth_set_other in Hu by exact Hne. exact (gi_dfr _ I u thu m Hu Hm).
      + (* RUnlock *)
        destruct (held st) eqn:Eh; try discriminate. destruct (dfr st) eqn:Ed; [discriminate|]. injection E1 as <-. injection Hs as <-.
        constructor; simpl.
        * intros u thu Hu. destruct (Nat.eq_dec t u) as [<-|Hne].
          -- rewrite nth_set_same in Hu by exact Hlt. injection Hu as <-. simpl. rewrite <- Hw. split; discriminate.
          -- rewrite nth_set_other in Hu by exact Hne. exact (gi_w _ I u thu Hu).
        * intros u E. rewrite length_set_nth. exact (gi_w_dom _ I u E).
        * intros u thu Hu. rewrite (in_remove_one _ _ _ (gi_nodup _ I)). destruct (Nat.eq_dec t u) as [<-|Hne].
          -- rewrite nth_set_same in Hu by exact Hlt. injection Hu as <-. simpl. split; [discriminate | tauto].
          -- rewrite nth_set_other in Hu by exact Hne. rewrite (gi_r _ I u thu Hu). split; [auto | tauto].
        * intros u E. rewrite length_set_nth. apply (in_remove_one _ _ _ (gi_nodup _ I)) in E. exact (gi_r_dom _ I u (proj1 E)).
        * intros Hne. rewrite (gi_excl _ I Hne). reflexivity.
        * apply nodup_remove_one. exact (gi_nodup _ I).
        * intros u thu Hu. destruct (Nat.eq_dec t u) as [<-|Hne].
          -- rewrite nth_set_same in Hu by exact Hlt. injection Hu as <-. exact Hsafe1.
          -- rewrite nth_set_other in Hu by exact Hne. exact (gi_safe _ I u thu Hu).
        * intros u thu m Hu Hm. destruct (Nat.eq_dec t u) as [<-|Hne].
          -- rewrite nth_set_same in Hu by exact Hlt. injection Hu as <-. discriminate.
          -- rewrite nth_set_other in Hu by exact Hne. exact (gi_dfr _ I u thu m Hu Hm).
      + (* DeferUnlock *)
        destruct (held st) eqn:Eh; try discriminate. destruct (dfr st) eqn:Ed; [discriminate|]. injection E1 as <-. injection Hs as <-.
        apply (ginv_same_mode s t (mkThr st (EvDeferUnlock :: rest))); [exact I | exact Ht | simpl; congruence | simpl; intros m [= <-]; split; [congruence | discriminate] | exact Hsafe1].
      + (* DeferRUnlock *)
        destruct (held st) eqn:Eh; try discriminate. destruct (dfr st) eqn:Ed; [discriminate|]. injection E1 as <-. injection Hs as <-.
        apply (ginv_same_mode s t (mkThr st (EvDeferRUnlock :: rest))); [exact I | exact Ht | simpl; congruence | simpl; intros m [= <-]; split; [congruence | discriminate] | exact Hsafe1].
      + (* Read *)
        destruct (negb (shared f) || mode_le MR (held st)); [|discriminate]. injection E1 as <-. injection Hs as <-.
        apply (ginv_same_mode s t (mkThr st (EvRead f :: rest))); auto.
      + (* Write *)
        destruct (negb (shared f) || mode_le MW (held st)); [|discriminate]. injection E1 as <-. injection Hs as <-.
        apply (ginv_same_mode s t (mkThr st (EvWrite f :: rest))); auto.
      + (* CallOwn *)
        destruct (find_sum tbl n); [|discriminate]. destruct (forallb _ tbl); [|discriminate]. injection E1 as <-. injection Hs as <-.
        apply (ginv_same_mode s t (mkThr st (EvCallOwn n :: rest))); auto.
      + (* Neutral *)
        injection E1 as <-. injection Hs as <-.
        apply (ginv_same_mode s t (mkThr st (EvNeutral :: rest))); auto.
  Qed.

  Theorem grun_inv sched : forall s, GInv s -> GInv (grun s sched).
  Proof.
    induction sched as [|t r IH]; intros s I; simpl; [exact I|].
    destruct (gstep s t) as [s'|] eqn:E; [apply IH; eapply gstep_inv; eauto | apply IH; exact I].
  Qed.

  (** the initial state: every thread about to run a whole function body entered with nothing held *)
  Definition ginit (traces : list (list ev)) : gstate := mkG None [] (map (fun tr => mkThr (mkL MFree None) tr) traces).

  Lemma ginit_inv traces :
    (forall tr, In tr traces -> exists st', mon shared tbl (mkL MFree None) tr = Some st' /\ ret_ok MFree st' = true) ->
    GInv (ginit traces).
  Proof.
    intros H. constructor; simpl.
    - intros t th Ht. rewrite nth_error_map in Ht. destruct (nth_error traces t); [|discriminate]. injection Ht as <-. simpl. split; discriminate.
    - discriminate.
    - intros t th Ht. rewrite nth_error_map in Ht. destruct (nth_error traces t); [|discriminate]. injection Ht as <-. simpl. split; [discriminate | tauto].
    - intros t [].
    - reflexivity.
    - constructor.
    - intros t th Ht. rewrite nth_error_map in Ht. destruct (nth_error traces t) as [tr|] eqn:E; [|discriminate]. injection Ht as <-.
      apply H. eapply nth_error_In; eauto.
    - intros t th m Ht. rewrite nth_error_map in Ht. destruct (nth_error traces t); [|discriminate]. injection Ht as <-. discriminate.
  Qed.

  (** RACE FREEDOM: under every schedule, a thread about to write a shared field and another thread
      about to access the same object's shared fields never coexist *)
  Definition next_is_write (th : thr) : Prop := exists f rest, t_tr th = EvWrite f :: rest /\ shared f = true.
  Definition next_is_access (th : thr) : Prop :=
    exists f rest, (t_tr th = EvWrite f :: rest \/ t_tr th = EvRead f :: rest) /\ shared f = true.

  Theorem discipline_implies_race_freedom traces sched t u tht thu :
    (forall tr, In tr traces -> exists st', mon shared tbl (mkL MFree None) tr = Some st' /\ ret_ok MFree st' = true) ->
    let s := grun (ginit traces) sched in
    nth_error (g_threads s) t = Some tht -> nth_error (g_threads s) u = Some thu ->
    next_is_write tht -> next_is_access thu -> t = u.
  Proof.
    intros H s Ht Hu (f & rest & Etr & Hsf) (f' & rest' & Eacc & Hsf').
    pose proof (grun_inv sched _ (ginit_inv traces H)) as I. fold s in I.
    (* t holds the write lock *)
    destruct (gi_safe _ I t tht Ht) as (st' & Hm & _). rewrite Etr in Hm. simpl in Hm. rewrite Hsf in Hm. simpl in Hm.
    assert (held (t_st tht) = MW) as Hw by (destruct (held (t_st tht)); simpl in Hm; congruence).
    pose proof (proj1 (gi_w _ I t tht Ht) Hw) as Ew.
    (* u holds it at least for reading *)
    destruct (gi_safe _ I u thu Hu) as (st'' & Hm' & _).
    assert (held (t_st thu) <> MFree) as Hnf.
    { destruct Eacc as [E|E]; rewrite E in Hm'; simpl in Hm'; rewrite Hsf' in Hm'; simpl in Hm';
        destruct (held (t_st thu)); simpl in Hm'; congruence. }
    destruct (held (t_st thu)) eqn:Eh; [congruence| |].
    - (* reader: excluded by the writer *)
      pose proof (proj1 (gi_r _ I u thu Hu) Eh) as Hin.
      assert (g_writer s <> None) as Hne by congruence. rewrite (gi_excl _ I Hne) in Hin. destruct Hin.
    - pose proof (proj1 (gi_w _ I u thu Hu) Eh) as Ew'. congruence.
  Qed.
End Mutex.
