package main

import (
	"fmt"
	"strings"

	lisp "github.com/jig/lisp"
	"github.com/jig/lisp/repl"
	"github.com/jig/lisp/types"
	. "verif.local/harness/h"
)

func init() { runners["C16"] = runC16 }

type c16gen struct {
	r    *Rng
	hist map[string]int
}

var c16Closer = map[string]string{"(": ")", "[": "]", "{": "}", "#{": "}"}

// expr returns the token list of one well-formed expression
func (g *c16gen) expr(depth int) []string {
	k := g.r.Intn(14)
	if depth <= 0 && k >= 6 {
		k = g.r.Intn(6)
	}
	switch k {
	case 0:
		return []string{g.r.Pick([]string{"a", "nil", "x-1", "+", "true"})}
	case 1:
		return []string{g.r.Pick([]string{"1", "-3", "0x1F", "1_000"})}
	case 2: // strings containing bracket characters
		g.hist["string-with-brackets"]++
		return []string{g.r.Pick([]string{`"("`, `")"`, `"[{"`, `"a ) b"`, `"\"("`, `"#{"`, `"»"`})}
	case 3: // raw strings containing bracket characters
		g.hist["rawstring-with-brackets"]++
		return []string{g.r.Pick([]string{"¬(¬", "¬)¬", "¬]¬", "¬{\"a\":[1]}¬", "¬}¬", "¬a¬¬(¬", "¬¬", "¬¬¬¬", "\"\""})}
	case 4:
		return []string{g.r.Pick([]string{":k", ":a", "\"s\""})}
	case 5: // reader macro
		g.hist["reader-macro"]++
		return append([]string{g.r.Pick([]string{"'", "`", "~", "~@", "@"})}, g.expr(depth-1)...)
	case 6, 7, 8: // list
		g.hist["list"]++
		ts := []string{"("}
		for i, n := 0, g.r.Intn(4); i < n; i++ {
			ts = append(ts, g.expr(depth-1)...)
		}
		return append(ts, ")")
	case 9, 10: // vector
		g.hist["vector"]++
		ts := []string{"["}
		for i, n := 0, g.r.Intn(4); i < n; i++ {
			ts = append(ts, g.expr(depth-1)...)
		}
		return append(ts, "]")
	case 11: // map: string/keyword keys, even count
		g.hist["map"]++
		ts := []string{"{"}
		for i, n := 0, g.r.Intn(3); i < n; i++ {
			ts = append(ts, fmt.Sprintf(":k%d", i))
			ts = append(ts, g.expr(depth-1)...)
		}
		return append(ts, "}")
	case 12: // set
		g.hist["set"]++
		ts := []string{"#{"}
		for i, n := 0, g.r.Intn(3); i < n; i++ {
			ts = append(ts, fmt.Sprintf("\"m%d\"", i))
		}
		return append(ts, "}")
	default: // ^meta form
		g.hist["with-meta"]++
		ts := append([]string{"^"}, g.expr(depth-1)...)
		return append(ts, g.expr(depth-1)...)
	}
}

// layout joins tokens with blanks, newlines and comments containing brackets
func (g *c16gen) layout(ts []string) string {
	var b strings.Builder
	for i, t := range ts {
		if i > 0 {
			switch g.r.Intn(9) {
			case 8: // a comment LINE that looks like the module header, or like a preamble definition, but is not on the first line
				b.WriteString(g.r.Pick([]string{"\n;; $MODULE m\n", "\n;; $MODULE other.lisp\r\n", "\n;; $A 5\n"}))
				g.hist["header-looking-comment-line"]++
			case 0:
				b.WriteString("\n")
			case 1:
				b.WriteString(" ; comment ( [ {\n")
				g.hist["comment-with-brackets"]++
			default:
				b.WriteString(" ")
			}
		}
		b.WriteString(t)
	}
	return b.String()
}

func runC16(tier string, seed uint64, rep *Report) {
	rep.Rule = "well-formed expressions generated as token lists over all bracket kinds (list, vector, map, set), reader macros, ^meta, strings and raw strings " +
		"containing bracket characters, laid out with newlines and comments containing brackets; each is (a) read whole, (b) cut after every token, " +
		"(c) extended by every closing bracket, (d) doubled (two expressions), (e) given one wrong closer. Observables: outcome class of READ " +
		"(value / 'expected X, got EOF' with X / other error) vs the model, and the REPL's multiLine verdict (exported under the verif tag). " +
		"Direct oracle: a cut that READ accepts once the open brackets are closed (innermost first) must be reported as 'expected <innermost closer>, got EOF' " +
		"and multiLine must be true; multiLine is true only for such errors; whole expressions are accepted; surplus closer / second expression / " +
		"wrong closer are rejected with another error. Non-trivial: the cut leaves at least one bracket open."
	g := &c16gen{r: NewRng(seed), hist: map[string]int{}}
	n, depth := 600, 3
	if tier == "thorough" {
		n, depth = 8000, 5
	}
	read := func(src string) Outcome {
		return Guard(func() (types.MalType, error) { return lisp.READ(src, nil, nil) })
	}
	one := func(src string, nontrivial bool, tag string) (int, string, Outcome) {
		o := read(src)
		cls := readClass(o)
		idx := rep.Add("R 0 0 0 "+encSrc(src), cls, fmt.Sprintf("READ %q", src), nontrivial, tag, "class:"+cls[:1])
		if o.Panic != nil {
			rep.Violate(idx, fmt.Sprintf("READ panicked: %v", o.Panic), fmt.Sprintf("%q", src))
		}
		ml := o.Err != nil && repl.MultiLineForVerif(o.Err)
		if ml != strings.HasPrefix(cls, "Q") {
			rep.Violate(idx, fmt.Sprintf("the REPL's multiLine verdict is %v but the error class is %s", ml, cls), fmt.Sprintf("%q", src))
		}
		return idx, cls, o
	}
	for i := 0; i < n; i++ {
		ts := g.expr(1 + g.r.Intn(depth))
		if len(ts) < 2 {
			continue
		}
		whole := g.layout(ts)
		idx, cls, _ := one(whole, false, "whole")
		if !strings.HasPrefix(cls, "V") {
			rep.Violate(idx, "a complete well-formed expression was rejected: "+cls, fmt.Sprintf("%q", whole))
			continue
		}
		// (b) cuts
		var stack []string
		for k := 1; k < len(ts); k++ {
			t := ts[k-1]
			if c, ok := c16Closer[t]; ok {
				stack = append(stack, c)
			} else if (t == ")" || t == "]" || t == "}") && len(stack) > 0 {
				stack = stack[:len(stack)-1]
			}
			cut := g.layout(ts[:k])
			idx, cls, _ := one(cut, len(stack) > 0, "cut")
			if strings.HasPrefix(cls, "V") {
				// a proper prefix may itself be complete only when the whole is a reader-macro / meta form: never for bracketed prefixes
				if len(stack) > 0 {
					rep.Violate(idx, "an incomplete text (open brackets) was accepted", fmt.Sprintf("%q", cut))
				}
				continue
			}
			if len(stack) == 0 {
				continue
			}
			// completable by closers?
			completion := cut
			for j := len(stack) - 1; j >= 0; j-- {
				completion += " " + stack[j]
			}
			if co := read(completion); co.Err == nil && co.Panic == nil {
				want := fmt.Sprintf("Q %d", CodePoints(stack[len(stack)-1])[0])
				rep.Histogram["completable-cuts"]++
				if cls != want {
					rep.Violate(idx, fmt.Sprintf("the text becomes well-formed by appending closers (innermost %q) but READ reports %s instead of the 'expected, got EOF' error naming it", stack[len(stack)-1], cls), fmt.Sprintf("%q", cut))
				}
			} else if strings.HasPrefix(cls, "Q") {
				rep.Histogram["incomplete-but-not-completable"]++
			}
		}
		// (c) surplus closers, (d) two expressions, (e) wrong closer
		for _, c := range []string{")", "]", "}", "»"} {
			idx, cls, _ := one(whole+" "+c, true, "surplus-closer")
			if strings.HasPrefix(cls, "V") || strings.HasPrefix(cls, "Q") {
				rep.Violate(idx, "a surplus closing bracket was accepted or reported as incomplete: "+cls, fmt.Sprintf("%q", whole+" "+c))
			}
		}
		idx2, cls2, _ := one(whole+"\n"+whole, true, "two-expressions")
		if strings.HasPrefix(cls2, "V") || strings.HasPrefix(cls2, "Q") {
			rep.Violate(idx2, "two expressions were accepted or reported as incomplete: "+cls2, fmt.Sprintf("%q", whole+"\n"+whole))
		}
		last := ts[len(ts)-1]
		if last == ")" || last == "]" || last == "}" {
			wrong := map[string]string{")": "]", "]": "}", "}": ")"}[last]
			bad := g.layout(append(append([]string{}, ts[:len(ts)-1]...), wrong))
			idx3, cls3, _ := one(bad, true, "wrong-closer")
			if strings.HasPrefix(cls3, "V") {
				rep.Violate(idx3, "an unmatched closing bracket was accepted", fmt.Sprintf("%q", bad))
			}
		}
	}
	mergeHist(rep, g.hist)
}
