package main

import (
	"context"
	"fmt"

	"github.com/jig/lisp/types"
	. "verif.local/harness/h"
)

func init() { runners["C13"] = runC13 }

func hmOf(kv ...types.MalType) types.MalType {
	m := map[string]types.MalType{}
	for i := 0; i+1 < len(kv); i += 2 {
		m[kv[i].(string)] = kv[i+1]
	}
	return types.HashMap{Val: m}
}
func setOf(ks ...string) types.MalType {
	m := map[string]struct{}{}
	for _, k := range ks {
		m[k] = struct{}{}
	}
	return types.Set{Val: m}
}

// quoted data operand: (quote v) so that lists and symbols are not evaluated
func qd(v types.MalType) types.MalType {
	switch v.(type) {
	case types.List, types.Symbol, types.Vector, types.HashMap:
		return Q(v)
	}
	return v
}

func c13Universe() []types.MalType {
	K := Kw
	return []types.MalType{
		nil, 0, 1, 2, 3, -1, "a", "", K("a"), K("b"), S("s"), true,
		L(), L(1), L(1, 2), L(1, 2, 3), L(nil), L(L(1), 2),
		V(), V(1), V(1, 2), V(1, 2, 3), V(V(1, 2), V(3)), V(K("a")), V(K("a"), K("b")), V(0), V(1, 0),
		hmOf(), hmOf(K("a"), 1), hmOf(K("a"), 1, K("b"), 2), hmOf("a", 1), hmOf(K("a"), hmOf(K("b"), 1)), hmOf(K("a"), nil), hmOf(K("a"), V(1, 2)), hmOf(K("a"), K("b")), hmOf(K("a"), K("b"), K("b"), K("a")), hmOf(K("a"), K("b"), K("b"), K("c")), hmOf(K("a"), K("b"), K("b"), K("c"), K("c"), K("a")), hmOf(K("a"), 1, K("b"), 2, K("c"), 3),
		setOf(), setOf("a"), setOf("a", K("b")),
	}
}

// builtins whose result order depends on Go map iteration: compared through (set ...)
var c13Unordered = map[string]bool{"keys": true, "vals": true}

func runC13(tier string, seed uint64, rep *Report) {
	rep.Rule = "calls (f 'a1 .. 'ak) of every modelled collection builtin through EVAL: (i) all argument tuples of length 0..2 (0..3 for a subset) over a " +
		"42-value universe (nil, empty/one/two-element lists, vectors, maps, sets, indices -1..3, keyword and string keys, nested, nil values), exhaustive; " +
		"(ii) seeded random compositions of builtins (length <= 6 quick, <= 8 thorough); (iii) abstract-datatype laws evaluated on the implementation " +
		"(direct oracle, model-free): get/assoc/dissoc/contains?/merge/conj/take+drop/cons+first+rest/count laws on random values. " +
		"Results that depend on map iteration order (keys, vals, seq/vec of a set with >1 member) are compared as sets. Non-trivial: a collection argument is non-empty."
	u := c13Universe()
	sharedWorld, _ = NewWorld() // the calls below define nothing: one environment serves them all
	defer func() { sharedWorld = nil }()
	fns := []string{"list", "vector", "cons", "concat", "vec", "nth", "first", "rest", "count", "empty?", "conj", "seq", "take", "take-last", "drop",
		"drop-last", "subvec", "range", "hash-map", "assoc", "dissoc", "get", "contains?", "keys", "vals", "merge", "rename-keys", "get-in", "assoc-in",
		"set", "hash-set", "list?", "vector?", "map?", "set?", "sequential?", "nil?", "keyword?", "string?", "symbol?", "number?"}
	three := map[string]bool{"assoc": true, "subvec": true, "assoc-in": true, "conj": true, "dissoc": true, "hash-map": true, "concat": true}
	multi := func(v types.MalType) bool {
		switch x := v.(type) {
		case types.HashMap:
			return len(x.Val) > 1
		case types.Set:
			return len(x.Val) > 1
		}
		return false
	}
	nonEmpty := func(args []types.MalType) bool {
		for _, a := range args {
			switch x := a.(type) {
			case types.List:
				if len(x.Val) > 0 {
					return true
				}
			case types.Vector:
				if len(x.Val) > 0 {
					return true
				}
			case types.HashMap:
				if len(x.Val) > 0 {
					return true
				}
			case types.Set:
				if len(x.Val) > 0 {
					return true
				}
			}
		}
		return false
	}
	callOf := func(f string, args []types.MalType) types.MalType {
		xs := []types.MalType{S(f)}
		for _, a := range args {
			xs = append(xs, qd(a))
		}
		var c types.MalType = types.List{Val: xs}
		orderDep := c13Unordered[f] && len(args) > 0 && multi(args[0])
		if (f == "seq" || f == "vec") && len(args) > 0 {
			if _, ok := args[0].(types.Set); ok && multi(args[0]) {
				orderDep = true
			}
		}
		if f == "rename-keys" && len(args) == 2 && multi(args[1]) {
			// several renamings at once are simultaneous (as in Clojure) and deterministic as long as no two of
			// them have the same target and every target is a key; otherwise the result depends on map order
			seen := map[string]bool{}
			alt, isMap := args[1].(types.HashMap)
			if !isMap {
				return nil
			}
			for _, t := range alt.Val {
				ts, ok := t.(string)
				if !ok || seen[ts] {
					return nil
				}
				seen[ts] = true
			}
		}
		if orderDep {
			if f == "vals" {
				return Call("count", c)
			}
			return Call("set", c)
		}
		return c
	}
	r := NewRng(seed)
	for _, f := range fns {
		addProgram(rep, Call(f), false, "arity-0")
		for _, a := range u {
			if c := callOf(f, []types.MalType{a}); c != nil {
				addProgram(rep, c, nonEmpty([]types.MalType{a}), "arity-1")
			}
			for _, b := range u {
				if c := callOf(f, []types.MalType{a, b}); c != nil {
					addProgram(rep, c, nonEmpty([]types.MalType{a, b}), "arity-2")
				}
				if three[f] {
					for _, c3 := range u {
						if tier == "thorough" || r.Intn(12) == 0 {
							if c := callOf(f, []types.MalType{a, b, c3}); c != nil {
								addProgram(rep, c, nonEmpty([]types.MalType{a, b, c3}), "arity-3")
							}
						}
					}
				}
			}
		}
	}
	// assoc with a trailing index / key that has no value is outside the domain, for vectors as for maps
	for _, coll := range []types.MalType{V(1, 2, 3), V(1), hmOf(Kw("a"), 1), hmOf()} {
		for _, k1 := range []types.MalType{0, 1, Kw("a")} {
			for _, k2 := range []types.MalType{0, 1, Kw("b")} {
				addProgram(rep, Call("assoc", qd(coll), k1, Kw("v"), k2), true, "assoc-4-arguments")
				addProgram(rep, Call("assoc", qd(coll), k1, Kw("v"), k2, Kw("w")), true, "assoc-5-arguments")
			}
		}
	}
	// higher-order ones with closures
	for _, a := range u {
		addProgram(rep, Call("map", Call("fn", V(S("x")), Call("list", S("x"))), qd(a)), true, "map")
		addProgram(rep, Call("apply", S("list"), 1, qd(a)), true, "apply")
		for _, k := range []types.MalType{Kw("a"), 0, 1, "a", nil} {
			addProgram(rep, Call("update", qd(a), k, Call("fn", V(S("x")), Call("list", S("x")))), true, "update")
			addProgram(rep, Call("update-in", qd(a), V(k), Call("fn", V(S("x")), Call("list", S("x")))), true, "update-in")
			addProgram(rep, Call("update-in", qd(a), V(k, Kw("b")), Call("fn", V(S("x")), 9)), true, "update-in")
		}
	}
	// (ii) random compositions
	n, depth := 1500, 4
	if tier == "thorough" {
		n, depth = 40000, 6
	}
	unary := []string{"vec", "rest", "seq", "count", "first", "empty?"}
	// leaves of the compositions: sets with more than one member are left out, (vec s) / (seq s) of such a set
	// follow Go's map iteration order
	var uc []types.MalType
	for _, v := range u {
		if _, isSet := v.(types.Set); !isSet || !multi(v) {
			uc = append(uc, v)
		}
	}
	var comp func(d int) types.MalType
	comp = func(d int) types.MalType {
		if d == 0 {
			return qd(uc[r.Intn(len(uc))])
		}
		switch r.Intn(10) {
		case 0:
			return Call(r.Pick(unary), comp(d-1))
		case 1:
			return Call("conj", comp(d-1), qd(u[r.Intn(12)]))
		case 2:
			return Call("concat", comp(d-1), comp(d-1))
		case 3:
			return Call("cons", qd(u[r.Intn(12)]), comp(d-1))
		case 4:
			return Call("assoc", comp(d-1), r.Pick([]string{Kw("a"), Kw("c"), "a"}), qd(u[r.Intn(len(u))]))
		case 5:
			return Call("dissoc", comp(d-1), Kw("a"))
		case 6:
			return Call(r.Pick([]string{"take", "drop", "take-last", "drop-last"}), r.Intn(4)-1, comp(d-1))
		case 7:
			return Call("merge", comp(d-1), comp(d-1))
		case 8:
			return Call("subvec", comp(d-1), r.Intn(3), r.Intn(4))
		default:
			return Call("get", comp(d-1), r.Pick([]string{Kw("a"), Kw("b")}))
		}
	}
	// a composition may BUILD a set of several members (assoc / conj on a set) and then hand it to vec / seq, whose result
	// follows Go's map iteration order: such compositions are left out (the sub-expression is evaluated to find out)
	var orderDependent func(v types.MalType) bool
	orderDependent = func(v types.MalType) bool {
		l, ok := v.(types.List)
		if !ok || len(l.Val) == 0 {
			return false
		}
		for _, e := range l.Val[1:] {
			if orderDependent(e) {
				return true
			}
		}
		if h, ok := l.Val[0].(types.Symbol); ok && (h.Val == "vec" || h.Val == "seq") && len(l.Val) == 2 {
			w, _ := NewWorld()
			if o := w.Eval(context.Background(), l.Val[1]); o.Err == nil && o.Panic == nil {
				if _, isSet := o.Val.(types.Set); isSet && multi(o.Val) {
					return true
				}
			}
		}
		return false
	}
	for i := 0; i < n; i++ {
		c := comp(1 + r.Intn(depth))
		if orderDependent(c) {
			rep.Histogram["composition-skipped:vec/seq-of-a-multi-member-set"]++
			continue
		}
		addProgram(rep, c, true, "composition")
	}
	// (iii) laws (direct oracle)
	law := func(name string, prog types.MalType) {
		expect(rep, "law "+name, prog, val(true), "law")
	}
	K := Kw
	nLaws := 150
	if tier == "thorough" {
		nLaws = 3000
	}
	for i := 0; i < nLaws; i++ {
		m := GenData(r, 2)
		hm, isMap := m.(types.HashMap)
		if !isMap {
			hm = types.HashMap{Val: map[string]types.MalType{K("a"): 1, "s": nil}}
		}
		k, k2 := GenKey(r), GenKey(r)
		v := GenData(r, 2)
		qm, qv := qd(hm), qd(v)
		law("get-assoc-same", Call("=", Call("get", Call("assoc", qm, k, qv), k), qv))
		if k != k2 {
			law("get-assoc-other", Call("=", Call("get", Call("assoc", qm, k, qv), k2), Call("get", qm, k2)))
			law("contains-dissoc-other", Call("=", Call("contains?", Call("dissoc", qm, k), k2), Call("contains?", qm, k2)))
		}
		law("contains-assoc", Call("contains?", Call("assoc", qm, k, qv), k))
		law("not-contains-dissoc", Call("=", false, Call("contains?", Call("dissoc", qm, k), k)))
		law("assoc-does-not-change-argument", Call("let", V(S("m"), qm, S("m2"), Call("assoc", S("m"), k, qv)), Call("=", S("m"), qm)))
		law("merge-right-wins", Call("=", Call("get", Call("merge", qm, Call("hash-map", k, qv)), k), qv))
		law("assoc-on-empty-hash-map", Call("=", Call("assoc", Call("hash-map"), k, qv), Call("hash-map", k, qv)))
		law("conj-on-empty-hash-map", Call("=", Call("conj", Call("hash-map"), k, qv), Call("hash-map", k, qv)))
		law("assoc-in-creates-path", Call("=", Call("get-in", Call("assoc-in", qm, V(K("zz"), k2), qv), V(K("zz"), k2)), qv))
		law("update-in-creates-path", Call("=", Call("get-in", Call("update-in", qm, V(K("zz"), k2), Call("fn", V(S("x")), qv)), V(K("zz"), k2)), qv))
		law("count-keys", Call("=", Call("count", Call("keys", qm)), Call("count", qm)))
		law("assoc-in-does-not-change-argument", Call("let", V(S("m"), qm, S("m2"), Call("assoc-in", S("m"), V(K("zq1"), K("zq2")), qv)), Call("=", S("m"), qm)))
		// renaming is simultaneous: a swap is an involution, a merge-preferring README example, sizes are kept
		swap := types.HashMap{Val: map[string]types.MalType{k: k2, k2: k}}
		if k != k2 {
			both := Call("assoc", Call("assoc", qm, k, 1), k2, 2)
			law("rename-keys-swap", Call("=", Call("rename-keys", both, swap), Call("assoc", Call("assoc", qm, k, 2), k2, 1)))
			law("rename-keys-swap-twice", Call("=", Call("rename-keys", Call("rename-keys", both, swap), swap), both))
			law("rename-keys-cycle-keeps-size", Call("=", Call("count", Call("rename-keys", Call("assoc", both, K("zq"), 3), types.HashMap{Val: map[string]types.MalType{k: k2, k2: K("zq"), K("zq"): k}})), Call("count", Call("assoc", both, K("zq"), 3))))
			law("merge-second-takes-precedence", Call("=", Call("merge", Call("hash-map", k, 1), Call("hash-map", k, 2, k2, 3)), Call("hash-map", k, 2, k2, 3)))
		}
		var seq []types.MalType
		for j, nn := 0, r.Intn(5); j < nn; j++ {
			seq = append(seq, GenScalar(r))
		}
		var qs types.MalType = qd(types.Vector{Val: seq})
		if r.Bool() {
			qs = qd(types.List{Val: seq})
		}
		nn := r.Intn(6) - 1
		law("take-drop-concat", Call("=", Call("concat", Call("take", nn, qs), Call("drop", nn, qs)), qs))
		if nn > 0 && len(seq) > 0 { // take-last yields nil, not (), when nothing is taken (tests/stepM_take_drop.mal)
			law("droplast-takelast-concat", Call("=", Call("concat", Call("drop-last", nn, qs), Call("take-last", nn, qs)), qs))
		} else {
			law("take-last-nothing-is-nil", Call("nil?", Call("take-last", nn, Call("take", 0, qs))))
		}
		law("map-with-rest-parameter-keeps-each-list", Call("=", Call("map", Call("fn", V(S("&"), S("xs")), S("xs")), qs), Call("map", S("list"), qs)))
		law("first-cons", Call("=", Call("first", Call("cons", qv, qs)), qv))
		law("rest-cons", Call("=", Call("rest", Call("cons", qv, qs)), qs))
		law("count-conj", Call("=", Call("count", Call("conj", qs, qv)), Call("+", 1, Call("count", qs))))
		law("conj-vector-appends", Call("=", Call("conj", Call("vec", qs), qv), Call("concat", qs, Call("list", qv))))
		law("conj-list-prepends", Call("=", Call("conj", Call("apply", S("list"), qs), qv), Call("cons", qv, qs)))
		// purity: a builtin never changes its arguments, whatever spare capacity their arrays have
		law("conj-twice-from-one-vector", Call("let", V(S("v"), Call("vec", qs), S("a"), Call("conj", S("v"), 1), S("b"), Call("conj", S("v"), 2)),
			Call("=", Call("list", S("a"), S("b"), S("v")), Call("list", Call("concat", qs, Q(L(1))), Call("concat", qs, Q(L(2))), qs))))
		law("conj-on-range-base", Call("let", V(S("v"), Call("range", 0, 5), S("a"), Call("conj", S("v"), K("a")), S("b"), Call("conj", S("v"), K("b"))),
			Call("=", Call("list", S("a"), S("b")), Q(L(V(0, 1, 2, 3, 4, K("a")), V(0, 1, 2, 3, 4, K("b")))))))
		law("conj-on-subvec-leaves-parent", Call("let", V(S("v"), V(1, 2, 3, 4), S("s"), Call("subvec", S("v"), 0, 2), S("c"), Call("conj", S("s"), 99)),
			Call("=", Call("list", S("v"), S("c")), Q(L(V(1, 2, 3, 4), V(1, 2, 99))))))
		law("concat-twice-from-one-vector", Call("let", V(S("v"), Call("vec", qs), S("a"), Call("concat", S("v"), V(1)), S("b"), Call("concat", S("v"), V(2))),
			Call("=", Call("list", S("a"), S("b"), S("v")), Call("list", Call("concat", qs, Q(L(1))), Call("concat", qs, Q(L(2))), qs))))
		law("result-kinds", Call("=", Call("list", true, true, true, true),
			Call("list", Call("list?", Call("take", 1, qs)), Call("list?", Call("rest", qs)), Call("vector?", Call("vec", qs)), Call("list?", Call("concat", qs)))))
		if len(seq) > 0 {
			i0 := r.Intn(len(seq))
			law("nth-in-range", Call("=", Call("nth", qs, i0), qd(seq[i0])))
			law("subvec-is-take-drop", Call("=", Call("subvec", Call("vec", qs), i0), Call("drop", i0, qs)))
		}
		for _, bad := range []types.MalType{Call("nth", qs, len(seq)), Call("subvec", Call("vec", qs), 0, len(seq)+1), Call("subvec", Call("vec", qs), -1), Call("hash-map", K("a")), Call("first", 5), Call("count", 5), Call("conj", 5, 1), Call("keys", qs)} {
			idx, line, _ := addProgram(rep, bad, true, "law-out-of-domain")
			if outcomeKind(line) != "E" {
				rep.Violate(idx, fmt.Sprintf("outside its domain the builtin must return an error, got %q", line), Show(bad))
			}
		}
	}
}
