(** C19 / C17, continued: the evaluator commutes with [erase] (see PosErase.v). *)
From Lisp Require Import Base Value Core Binder Env Eval Interp EvalProofs Equal Printer QuasiProofs PosErase PosErase2.

Ltac erc := rewrite ?erase_list, ?erase_vec, ?erase_map, ?erase_fn, ?erase_lisperr, ?erase_sym, ?erase_nil, ?erase_bool, ?erase_int,
  ?erase_str, ?erase_set, ?erase_builtin, ?erase_atom, ?erase_goerr, ?erase_other.

(** ---- states ---- *)
Definition erase_frame (f : frame) : frame := mkFrame (em (binds f)) (outer f).
Definition erase_dbg (g : dbgst) : dbgst :=
  mkDbg (dskip g) (douting1 g) (douting2 g) (dcmds g) (map (fun p => (erase (fst p), snd p)) (dlog g)).
Definition est (st : state) : state :=
  mkState (PositiveMap.map erase_frame (heap st)) (next_env st) (nframes st) (map erase (atoms st)) (map erase (trace st))
          (option_map erase_dbg (dbg st)) (cancelled st).

Lemma xmapi_add {A B} (f : A -> B) : forall i x m j,
  PositiveMap.xmapi (fun _ => f) (PositiveMap.add i x m) j = PositiveMap.add i (f x) (PositiveMap.xmapi (fun _ => f) m j).
Proof.
  induction i as [i IH|i IH|]; intros x m j; destruct m as [|l o r]; simpl; try reflexivity;
    try (rewrite IH; reflexivity).
Qed.
Lemma map_add {A B} (f : A -> B) i x m : PositiveMap.map f (PositiveMap.add i x m) = PositiveMap.add i (f x) (PositiveMap.map f m).
Proof. unfold PositiveMap.map, PositiveMap.mapi. apply xmapi_add. Qed.

Lemma get_frame_est st id : get_frame (est st) id = option_map erase_frame (get_frame st id).
Proof. unfold get_frame, est. simpl. unfold PositiveMap.map. rewrite PositiveMap.gmapi. reflexivity. Qed.

Lemma put_frame_est st id f : put_frame (est st) id (erase_frame f) = est (put_frame st id f).
Proof. unfold put_frame, est. simpl. now rewrite map_add. Qed.

(** outcomes of any type *)
Definition eoA {A} (eA : A -> A) (o : outcome A) : outcome A :=
  match o with Ok a => Ok (eA a) | Err e => Err (erase e) | Panic s => Panic s | OutOfFuel => OutOfFuel end.

Definition comm {A} (eA : A -> A) (m m' : M A) : Prop :=
  forall st, m' (est st) = (eoA eA (fst (m st)), est (snd (m st))).

Lemma comm_ret {A} (eA : A -> A) a : comm eA (ret a) (ret (eA a)). Proof. intros st. reflexivity. Qed.
Lemma comm_fail {A} (eA : A -> A) e : comm eA (fail e) (fail (erase e)). Proof. intros st. reflexivity. Qed.
Lemma comm_fail' {A} (eA : A -> A) e e' : e' = erase e -> comm eA (fail e) (fail e'). Proof. intros ->. apply comm_fail. Qed.
Lemma comm_lift {A} (eA : A -> A) o o' : o' = eoA eA o -> comm eA (lift o) (lift o'). Proof. intros -> st. reflexivity. Qed.
Lemma comm_oof {A} (eA : A -> A) : comm eA (fun st => (OutOfFuel, st)) (fun st => (OutOfFuel, st)). Proof. intros st. reflexivity. Qed.

Lemma comm_bind {A B} (eA : A -> A) (eB : B -> B) (m m' : M A) (f f' : A -> M B) :
  comm eA m m' -> (forall a, comm eB (f a) (f' (eA a))) -> comm eB (bindM m f) (bindM m' f').
Proof.
  intros Hm Hf st. unfold bindM. rewrite Hm. destruct (m st) as [[a|e|s|] st1]; simpl; auto. apply Hf.
Qed.

Definition id_unit (u : unit) : unit := u.
Definition id_pos (p : positive) : positive := p.

(** scopes *)
Lemma comm_env_set env k v : comm erase (env_set env k v) (env_set env k (erase v)).
Proof.
  intros st. unfold env_set. rewrite get_frame_est. destruct (get_frame st env) as [f|]; simpl; [|reflexivity].
  f_equal. rewrite <- put_frame_est. unfold erase_frame. simpl. now rewrite aset_em.
Qed.

Lemma comm_new_env o : comm id_pos (new_env o) (new_env o).
Proof. intros st. unfold new_env, est. simpl. f_equal. f_equal. now rewrite map_add. Qed.

Lemma bind_params_erase : forall bs nb exprs ne i acc,
  bind_params (map erase bs) nb (map erase exprs) ne i (em acc) = eom (bind_params bs nb exprs ne i acc).
Proof.
  induction bs as [|p bs IH]; intros nb exprs ne i acc; cbn [bind_params map].
  - destruct (Nat.eqb ne i); reflexivity.
  - destruct p; erc; try reflexivity. destruct (str_eqb s AMP).
    + destruct bs as [|q bs']; [reflexivity|]. simpl map. destruct q; erc; try reflexivity.
      simpl. rewrite ?skipn_map. rewrite <- (erase_list (skipn i exprs) None). now rewrite aset_em.
    + rewrite nth_opt_map. destruct (nth_opt exprs i); simpl; [|reflexivity]. rewrite aset_em. apply IH.
Qed.

Definition is_nil (v : val) : bool := match v with VNil => true | _ => false end.
Lemma is_nil_erase v : is_nil (erase v) = is_nil v. Proof. destruct v; reflexivity. Qed.

Lemma new_env_binds_alt o ps es :
  new_env_binds o ps es =
  (let+ id := new_env (Some o) in
   if (is_nil ps || is_nil es)%bool then ret id else
   let+ bs := lift (get_slice ps) in let+ es0 := lift (get_slice es) in
   let+ acc := lift (bind_params bs (length bs) es0 (length es0) 0 []) in
   fun st => (Ok id, put_frame st id (mkFrame acc (Some o)))).
Proof. unfold new_env_binds. destruct ps; destruct es; reflexivity. Qed.

Lemma comm_new_env_binds o ps es : comm id_pos (new_env_binds o ps es) (new_env_binds o (erase ps) (erase es)).
Proof.
  rewrite !new_env_binds_alt. apply (comm_bind id_pos id_pos); [apply comm_new_env|]. intros id. unfold id_pos.
  rewrite !is_nil_erase. destruct (is_nil ps || is_nil es)%bool; [apply (comm_ret id_pos)|].
  apply (comm_bind (map erase) id_pos); [apply comm_lift, get_slice_erase|]. intros bs.
  apply (comm_bind (map erase) id_pos); [apply comm_lift, get_slice_erase|]. intros es0.
  apply (comm_bind em id_pos).
  - apply comm_lift. rewrite !map_length. change (@nil (str * val)) with (em []) at 1. apply bind_params_erase.
  - intros acc st. simpl. f_equal. apply (put_frame_est st id (mkFrame acc (Some o))).
Qed.

(** lookups *)
Lemma env_get_n_est key p : forall n st env,
  env_get_n n (est st) env key None = eo (env_get_n n st env key p).
Proof.
  induction n as [|n IH]; intros st env; [reflexivity|]. cbn [env_get_n]. rewrite get_frame_est.
  destruct (get_frame st env) as [f|]; simpl; [|reflexivity]. rewrite alookup_em.
  destruct (alookup key (binds f)); simpl; [reflexivity|]. destruct (outer f); [apply IH | reflexivity].
Qed.
Lemma env_get_est st env key p : env_get (est st) env key None = eo (env_get st env key p).
Proof. unfold env_get. apply env_get_n_est. Qed.
Lemma env_find_n_est key : forall n st env, env_find_n n (est st) env key = env_find_n n st env key.
Proof.
  induction n as [|n IH]; intros st env; [reflexivity|]. cbn [env_find_n]. rewrite get_frame_est.
  destruct (get_frame st env) as [f|]; simpl; [|reflexivity]. rewrite alookup_em.
  destruct (alookup key (binds f)); simpl; [reflexivity|]. destruct (outer f); [apply IH | reflexivity].
Qed.
Lemma env_find_est st env key : env_find (est st) env key = env_find st env key.
Proof. unfold env_find. apply env_find_n_est. Qed.

Lemma macro_of_est st ast env : macro_of (est st) (erase ast) env = option_map erase (macro_of st ast env).
Proof.
  unfold macro_of. destruct ast; erc; try reflexivity. destruct l as [|h r]; try reflexivity. simpl map.
  destruct h; erc; try reflexivity. rewrite env_find_est. destruct (env_find st env s); [|reflexivity].
  rewrite (env_get_est st env s p0). destruct (env_get st env s p0) as [v| | |]; simpl; try reflexivity.
  destruct v; erc; try reflexivity. destruct macro; reflexivity.
Qed.

(** errors *)
Lemma new_lisp_error_erase e p : new_lisp_error (erase e) None = erase (new_lisp_error e p).
Proof. destruct e; erc; try reflexivity. simpl. destruct (has_module p0); er; reflexivity. Qed.
Lemma caught_value_erase e : caught_value (erase e) = erase (caught_value e).
Proof. destruct e; erc; reflexivity. Qed.
Lemma truthy_erase c : truthy (erase c) = truthy c. Proof. destruct c; reflexivity. Qed.
Lemma get_position_erase v : get_position (erase v) = None. Proof. destruct v; reflexivity. Qed.
Lemma clause_head_erase v : clause_head (erase v) = clause_head v.
Proof. destruct v; erc; try reflexivity. destruct l as [|h r]; [reflexivity|]. simpl map. destruct h; reflexivity. Qed.

(** quasiquote *)
Lemma starts_with_erase l name : starts_with (map erase l) name = starts_with l name.
Proof. destruct l as [|x r]; [reflexivity|]. simpl. destruct x; reflexivity. Qed.
Lemma second_erase l : second (map erase l) = erase (second l).
Proof. destruct l as [|x [|y r]]; reflexivity. Qed.
Lemma sy_erase s : erase (sy s) = sy s. Proof. reflexivity. Qed.

Lemma qq_loop_erase : forall l, Forall (fun x => quasiquote (erase x) = erase (quasiquote x)) l ->
  qq_loop (map erase l) = erase (qq_loop l).
Proof.
  induction l as [|elt r IH]; intros HF; [reflexivity|]. inversion HF as [|? ? Hx Hr]; subst. specialize (IH Hr).
  cbn [map qq_loop]. rewrite IH.
  assert (G : VList [sy "cons"; quasiquote (erase elt); erase (qq_loop r)] None = erase (VList [sy "cons"; quasiquote elt; qq_loop r] None)).
  { rewrite Hx. er. simpl. now rewrite sy_erase. }
  destruct elt as [| b | z | s | s p | l p | l p | m | ks | ps bd e mc | n | a | msg | pl p | t]; erc; try exact G.
  rewrite starts_with_erase. destruct (starts_with l (s_ "splice-unquote")).
  - er. simpl. rewrite sy_erase, second_erase. reflexivity.
  - exact G.
Qed.

Lemma quasiquote_erase : forall ast, quasiquote (erase ast) = erase (quasiquote ast).
Proof.
  induction ast using val_ind'; er; try reflexivity.
  - rewrite !quasiquote_list, starts_with_erase. destruct (starts_with l (s_ "unquote")); [apply second_erase | apply qq_loop_erase, H].
  - rewrite !quasiquote_vec, qq_loop_erase by exact H. er. simpl. reflexivity.
Qed.

(** the two debugger hooks (the debugger log holds forms: erased too) *)
Lemma comm_outing_hook (eA : val -> val) (m m' : M val) : comm eA m m' -> comm eA (outing_hook m) (outing_hook m').
Proof.
  intros H st. unfold outing_hook. change (dbg (est st)) with (option_map erase_dbg (dbg st)).
  destruct (dbg st) as [g|] eqn:Eg; simpl; [|apply H].
  destruct (douting1 g); [|apply H]. rewrite H. destruct (m st) as [r st1]. simpl. f_equal.
  unfold est, set_dbg. simpl. f_equal. destruct (dbg st1); reflexivity.
Qed.

(** try parts *)
Definition ep (p : try_parts) : try_parts :=
  mkTry (map erase (t_body p))
        (match t_catch p with Some (c, h) => Some (erase c, map erase h) | None => None end)
        (option_map (map erase) (t_finally p)).

Lemma items_erase v : match erase v with VList l _ => l | _ => [] end = map erase (match v with VList l _ => l | _ => [] end).
Proof. destruct v; erc; reflexivity. Qed.

Lemma split_try_erase ast lst :
  split_try (erase ast) (map erase lst) = eoA ep (split_try ast lst).
Proof.
  unfold split_try. rewrite !map_length, !nth_opt_map, !get_position_erase.
  set (n := length lst).
  assert (L : match option_map erase (nth_opt lst (n - 1)) with Some x => x | None => VNil end =
              erase (match nth_opt lst (n - 1) with Some x => x | None => VNil end)) by (destruct (nth_opt lst (n - 1)); reflexivity).
  assert (P : (if Nat.leb 3 n then match option_map erase (nth_opt lst (n - 2)) with Some x => x | None => VNil end else VNil) =
              erase (if Nat.leb 3 n then match nth_opt lst (n - 2) with Some x => x | None => VNil end else VNil)).
  { destruct (Nat.leb 3 n); [destruct (nth_opt lst (n - 2)); reflexivity | reflexivity]. }
  rewrite L, P. clear L P.
  set (last := match nth_opt lst (n - 1) with Some x => x | None => VNil end).
  set (prelast := if Nat.leb 3 n then match nth_opt lst (n - 2) with Some x => x | None => VNil end else VNil).
  rewrite !clause_head_erase, !items_erase, !map_length, !nth_opt_map, !slice_erase, !skipn_map, ?map_length.
  assert (N1 : forall l : list val, match option_map erase (nth_opt l 1) with Some x => x | None => VNil end =
                                    erase (match nth_opt l 1 with Some x => x | None => VNil end)).
  { intros l. destruct (nth_opt l 1); reflexivity. }
  rewrite !N1.
  destruct (str_eqb (clause_head last) (s_ "catch")).
  - destruct (Nat.ltb _ 2); [reflexivity|]. destruct (slice lst 1 (Z.of_nat n - 1)); cbn [bind eol eoA]; try reflexivity.
    destruct (Nat.eqb _ 0); reflexivity.
  - destruct (str_eqb (clause_head last) (s_ "finally")).
    + destruct (str_eqb (clause_head prelast) (s_ "catch")).
      * destruct (Nat.ltb _ 2); [reflexivity|]. destruct (slice lst 1 (Z.of_nat n - 2)); cbn [bind eol eoA]; reflexivity.
      * destruct (slice lst 1 (Z.of_nat n - 1)); cbn [bind eol eoA]; reflexivity.
    + destruct (slice lst 1 (Z.of_nat n)); cbn [bind eol eoA]; reflexivity.
Qed.

Lemma bind_error_erase e body : bind_error (erase e) (erase body) = eo (bind_error e body).
Proof.
  destruct body; erc; try reflexivity. destruct l as [|h r]; [reflexivity|]. simpl map.
  destruct h; erc; simpl; try (f_equal; apply new_lisp_error_erase); reflexivity.
Qed.

Definition ev_comm (ev ev' : nat -> val -> positive -> M val) : Prop :=
  forall d ast env, comm erase (ev d ast env) (ev' d (erase ast) env).
Definition cb_comm (cb cb' : nat -> str -> list val -> M val) : Prop :=
  forall d name args, comm erase (cb d name args) (cb' d name (map erase args)).

Section Step.
  Variable ev ev_cont ev' ev_cont' : nat -> val -> positive -> M val.
  Variable cb cb' : nat -> str -> list val -> M val.
  Hypothesis Hev : ev_comm ev ev'.
  Hypothesis Hevc : ev_comm ev_cont ev_cont'.
  Hypothesis Hcb : cb_comm cb cb'.

  Lemma comm_eval_list d env : forall l, comm (map erase) (eval_list ev d l env) (eval_list ev' d (map erase l) env).
  Proof.
    induction l as [|a r IH]; cbn [eval_list map]; [apply (comm_ret (map erase))|].
    apply (comm_bind erase (map erase)); [apply Hev|]. intros v.
    apply (comm_bind (map erase) (map erase)); [apply IH|]. intros vs. apply (comm_ret (map erase)).
  Qed.

  Lemma comm_eval_map d env : forall m, comm em (eval_map ev d m env) (eval_map ev' d (em m) env).
  Proof.
    induction m as [|[k a] r IH]; cbn [eval_map em map]; [apply (comm_ret em)|]. cbn [fst snd].
    apply (comm_bind erase em); [apply Hev|]. intros v.
    apply (comm_bind em em); [apply IH|]. intros vs. apply (comm_ret em).
  Qed.

  Lemma comm_eval_ast d ast env : comm erase (eval_ast ev d ast env) (eval_ast ev' d (erase ast) env).
  Proof.
    destruct ast; erc; cbn [eval_ast]; try apply (comm_ret erase).
    - intros st. rewrite (env_get_est st env s p). destruct (env_get st env s p); simpl; try reflexivity.
      now rewrite (new_lisp_error_erase e p).
    - apply (comm_bind (map erase) erase); [apply comm_eval_list|]. intros vs st. simpl. now er.
    - apply (comm_bind (map erase) erase); [apply comm_eval_list|]. intros vs st. simpl. now er.
    - apply (comm_bind em erase); [apply comm_eval_map|]. intros vs st. simpl. now er.
  Qed.

  Lemma comm_do_forms d lst from keep env :
    comm erase (do_forms ev d lst from keep env) (do_forms ev' d (map erase lst) from keep env).
  Proof.
    unfold do_forms. apply comm_outing_hook. rewrite map_length.
    destruct (Nat.eqb (length lst) from); [apply (comm_ret erase)|].
    apply (comm_bind (map erase) erase); [apply comm_lift, slice_erase|]. intros forms.
    apply (comm_bind (map erase) erase); [apply comm_eval_list|]. intros vs.
    destruct keep.
    - rewrite nth_opt_map. destruct (nth_opt lst _); simpl; [apply (comm_ret erase) | apply comm_lift; reflexivity].
    - rewrite map_length, nth_opt_map. destruct (nth_opt vs _); simpl; [apply (comm_ret erase) | apply comm_lift; reflexivity].
  Qed.

  Lemma comm_apply_fn d f args : comm erase (apply_fn ev cb d f args) (apply_fn ev' cb' d (erase f) (map erase args)).
  Proof.
    destruct f; erc; cbn [apply_fn]; try (apply comm_fail'; reflexivity).
    - apply (comm_bind id_pos erase).
      + rewrite <- (erase_list args None). apply comm_new_env_binds.
      + intros env'. apply Hev.
    - apply Hcb.
  Qed.

  Lemma comm_macroexpand d env : forall k ast, comm erase (macroexpand ev cb k d ast env) (macroexpand ev' cb' k d (erase ast) env).
  Proof.
    induction k as [|k IH]; intros ast st; cbn [macroexpand]; rewrite macro_of_est;
      destruct (macro_of st ast env) as [mac|]; simpl; try reflexivity.
    assert (Eargs : match erase ast with VList (_ :: r) _ => r | _ => [] end = map erase (match ast with VList (_ :: r) _ => r | _ => [] end)).
    { destruct ast; erc; try reflexivity. destruct l; reflexivity. }
    rewrite Eargs.
    apply (comm_bind erase erase _ _ _ _ (comm_apply_fn d mac _)). intros ast'. apply IH.
  Qed.

  Lemma comm_with_finally d fin env (rest rest' : M val) :
    comm erase rest rest' -> comm erase (with_finally ev d fin env rest) (with_finally ev' d (option_map (map erase) fin) env rest').
  Proof.
    intros Hr st. unfold with_finally. rewrite Hr. destruct (rest st) as [r st1]. simpl.
    assert (Hnone : snd (outing_hook (ret VNil) (est st1)) = est (snd (outing_hook (ret VNil) st1))).
    { pose proof (comm_outing_hook erase (ret VNil) (ret VNil) (comm_ret erase VNil) st1) as G. rewrite G. reflexivity. }
    destruct r; simpl; try reflexivity.
    - destruct fin as [forms|]; simpl; [|now rewrite Hnone].
      rewrite (comm_do_forms d forms 0 false env st1). destruct (do_forms ev d forms 0 false env st1) as [[| | |] st2]; reflexivity.
    - destruct fin as [forms|]; simpl; [|now rewrite Hnone].
      rewrite (comm_do_forms d forms 0 false env st1). destruct (do_forms ev d forms 0 false env st1) as [[| | |] st2]; reflexivity.
    - destruct fin as [forms|]; simpl; [|now rewrite Hnone].
      rewrite (comm_do_forms d forms 0 false env st1). destruct (do_forms ev d forms 0 false env st1) as [[| | |] st2]; reflexivity.
  Qed.

  Lemma comm_recover_try (m m' : M val) : comm erase m m' -> comm erase (recover_try m) (recover_try m').
  Proof. intros H st. unfold recover_try. rewrite H. destruct (m st) as [[| | |] st1]; reflexivity. Qed.

  Lemma comm_catch_errors (m m' : M val) h h' :
    comm erase m m' -> (forall e, comm erase (h e) (h' (erase e))) -> comm erase (catch_errors m h) (catch_errors m' h').
  Proof. intros H Hh st. unfold catch_errors. rewrite H. destruct (m st) as [[| | |] st1]; simpl; try reflexivity. apply Hh. Qed.

  Lemma comm_let_binds d let_env p1 : forall arr,
    comm id_unit
      ((fix go (arr : list val) : M unit :=
          match arr with
          | VSym name _ :: e :: r => let+ v := ev (S d) e let_env in let+ _ := env_set let_env name v in go r
          | [] => ret tt
          | _ => fail (lisp_goerr (s_ "non-symbol bind value") p1)
          end) arr)
      ((fix go (arr : list val) : M unit :=
          match arr with
          | VSym name _ :: e :: r => let+ v := ev' (S d) e let_env in let+ _ := env_set let_env name v in go r
          | [] => ret tt
          | _ => fail (lisp_goerr (s_ "non-symbol bind value") None)
          end) (map erase arr)).
  Proof.
    fix IH 1. intros [|x [|e r]].
    - apply (comm_ret id_unit).
    - simpl map. destruct x; erc; apply comm_fail'; reflexivity.
    - simpl map. destruct x; erc; try (apply comm_fail'; reflexivity).
      apply (comm_bind erase id_unit); [apply Hev|]. intros v.
      apply (comm_bind erase id_unit); [apply comm_env_set|]. intros _. apply IH.
  Qed.

  Lemma a1_erase (rest : list val) :
    match map erase rest with x :: _ => x | [] => VNil end = erase (match rest with x :: _ => x | [] => VNil end).
  Proof. destruct rest; reflexivity. Qed.
  Lemma a2_erase (rest : list val) :
    match map erase rest with _ :: x :: _ => x | _ => VNil end = erase (match rest with _ :: x :: _ => x | _ => VNil end).
  Proof. destruct rest as [|x [|y r]]; reflexivity. Qed.
  Lemma head_erase a0 : match erase a0 with VSym s _ => s | _ => s_ "__<*fn>__" end = match a0 with VSym s _ => s | _ => s_ "__<*fn>__" end.
  Proof. destruct a0; reflexivity. Qed.

  Definition is_listb (v : val) : bool := match v with VList _ _ => true | _ => false end.
  Lemma is_listb_erase v : is_listb (erase v) = is_listb v. Proof. destruct v; reflexivity. Qed.
  Lemma eval_step_nonlist (e ec : nat -> val -> positive -> M val) c k d ast env :
    is_listb ast = false -> eval_step e ec c k d ast env = eval_ast e d ast env.
  Proof. destruct ast; intros H; try discriminate; reflexivity. Qed.
  Lemma eval_step_after_macroexpand_nonlist (e : nat -> val -> positive -> M val) d ast env (K : list val -> opos -> M val) :
    is_listb ast = false ->
    match ast with VList l p => K l p | _ => eval_ast e d ast env end = eval_ast e d ast env.
  Proof. destruct ast; intros H; try discriminate; reflexivity. Qed.

  Theorem comm_eval_step k d ast env :
    comm erase (eval_step ev ev_cont cb k d ast env) (eval_step ev' ev_cont' cb' k d (erase ast) env).
  Proof.
    destruct (is_listb ast) eqn:East.
    2:{ rewrite !eval_step_nonlist by (rewrite ?is_listb_erase; exact East). apply comm_eval_ast. }
    destruct ast; try discriminate. unfold eval_step. rewrite erase_list. rewrite <- (erase_list l p).
    apply (comm_bind erase erase); [apply comm_macroexpand|]. intros ast1.
    destruct (is_listb ast1) eqn:E1.
    2:{ destruct ast1; try discriminate; er; try apply (comm_ret erase);
          first [ rewrite <- (erase_sym s p0); apply comm_eval_ast | rewrite <- (erase_vec l0 p0); apply comm_eval_ast
                | rewrite <- (erase_map m); apply comm_eval_ast | idtac ]. }
    destruct ast1 as [| | | | |lst cur| | | | | | | | |]; try discriminate.
    rewrite erase_list. destruct lst as [|a0 rest]; [apply (comm_ret erase)|].
    cbn [map]. change (erase a0 :: map erase rest) with (map erase (a0 :: rest)).
    cbv zeta. rewrite !a1_erase, !a2_erase, head_erase. cbn [map].
    set (a1 := match rest with x :: _ => x | [] => VNil end).
    set (a2 := match rest with _ :: x :: _ => x | _ => VNil end).
    set (head := match a0 with VSym s _ => s | _ => s_ "__<*fn>__" end).
    change (erase a0 :: map erase rest) with (map erase (a0 :: rest)).
    destruct (str_eqb head (s_ "def")).
    { apply (comm_bind erase erase); [apply Hev|]. intros res.
      destruct a1; erc; try (apply comm_fail'; reflexivity). apply comm_env_set. }
    destruct (str_eqb head (s_ "let")).
    { apply (comm_bind id_pos erase); [apply comm_new_env|]. intros let_env. unfold id_pos.
      apply (comm_bind (map erase) erase); [apply comm_lift, get_slice_erase|]. intros arr.
      rewrite map_length, get_position_erase. destruct (Nat.odd (length arr)); [apply comm_fail'; reflexivity|].
      apply (comm_bind id_unit erase); [apply comm_let_binds|]. intros _.
      apply (comm_bind erase erase); [apply comm_do_forms|]. intros ast'. apply Hev. }
    destruct (str_eqb head (s_ "quote")); [apply (comm_ret erase)|].
    destruct (str_eqb head (s_ "quasiquoteexpand")); [rewrite quasiquote_erase; apply (comm_ret erase)|].
    destruct (str_eqb head (s_ "quasiquote")); [rewrite quasiquote_erase; apply Hev|].
    destruct (str_eqb head (s_ "defmacro")).
    { apply (comm_bind erase erase); [apply Hev|]. intros fn. destruct fn; erc; try (apply comm_fail'; reflexivity).
      destruct a1; erc; try (apply comm_fail'; reflexivity).
      rewrite <- erase_fn. apply comm_env_set. }
    destruct (str_eqb head (s_ "macroexpand")); [apply comm_macroexpand|].
    destruct (str_eqb head (s_ "try")).
    { destruct rest as [|r0 rest']; [apply (comm_ret erase)|]. cbn [map].
      change (erase a0 :: erase r0 :: map erase rest') with (map erase (a0 :: r0 :: rest')).
      apply (comm_bind ep erase).
      { apply comm_lift. rewrite <- (erase_list (a0 :: r0 :: rest') cur). apply split_try_erase. }
      intros parts. unfold ep at 1 2 3. cbn [t_body t_catch t_finally].
      apply comm_with_finally. apply comm_catch_errors; [apply comm_recover_try, comm_do_forms|].
      intros e. destruct (t_catch parts) as [[cbind cdo]|]; [|apply comm_fail].
      apply (comm_bind id_pos erase).
      { rewrite caught_value_erase.
        change (VList [erase cbind] None) with (VList (map erase [cbind]) None).
        change (VList [erase (caught_value e)] None) with (VList (map erase [caught_value e]) None).
        rewrite <- !erase_list with (p := None). apply comm_new_env_binds. }
      intros new_env. apply (comm_bind erase erase); [apply comm_do_forms|]. intros ast'. apply Hevc. }
    destruct (str_eqb head (s_ "do")).
    { apply (comm_bind erase erase); [apply comm_do_forms|]. intros ast'. apply Hev. }
    destruct (str_eqb head (s_ "if")).
    { apply (comm_bind erase erase); [apply Hev|]. intros c. rewrite truthy_erase. destruct (truthy c); [apply Hev|].
      destruct rest as [|x [|y [|z r]]]; try apply (comm_ret erase). apply Hev. }
    destruct (str_eqb head (s_ "fn")).
    { destruct rest as [|ps body]; [apply comm_fail'; reflexivity|]. cbn [map].
      intros st. simpl. f_equal. f_equal. er. simpl. rewrite sy_erase. reflexivity. }
    apply (comm_bind (map erase) erase); [apply comm_eval_list|]. intros el.
    destruct el as [|f args]; [apply comm_lift; reflexivity|]. cbn [map].
    destruct f; erc; try (apply comm_fail'; reflexivity).
    - intros st. rewrite <- (erase_list args None). rewrite (comm_new_env_binds env0 f1 (VList args None) st).
      destruct (new_env_binds env0 f1 (VList args None) st) as [[env'|e|s|] st1]; simpl; try reflexivity.
      + apply Hev.
      + rewrite bind_error_erase. destruct (bind_error e f2); reflexivity.
    - apply comm_catch_errors; [apply Hcb|]. intros e. apply comm_fail'. apply new_lisp_error_erase.
  Qed.
End Step.

(** ---- builtins ---- *)
Lemma assignable_erase v t : assignable (erase v) t = assignable v t.
Proof. destruct v; destruct t; reflexivity. Qed.
Lemma go_type_name_erase v : go_type_name (erase v) = go_type_name v.
Proof. destruct v; reflexivity. Qed.

Lemma first_bad_erase fx va : forall args i,
  first_bad fx va i (map erase args) = option_map (fun p => (erase (fst p), snd p)) (first_bad fx va i args).
Proof.
  induction args as [|a r IH]; intros i; simpl; auto. destruct (param_ty fx va i); [|reflexivity].
  rewrite assignable_erase. destruct (assignable a t); [apply IH | reflexivity].
Qed.

Lemma gate_erase sg mn mx args : gate sg mn mx (map erase args) = eoA (fun u => u) (gate sg mn mx args).
Proof.
  unfold gate. destruct (lisp_bounds sg mn mx) as [lo hi]. rewrite !map_length.
  destruct (_ || _)%bool; [reflexivity|]. destruct (Nat.ltb _ _); [reflexivity|].
  destruct (match variadic sg with None => _ | Some _ => false end); [reflexivity|].
  rewrite first_bad_erase. destruct (first_bad (fixed sg) (variadic sg) 0 args) as [[v t]|]; simpl; [|reflexivity].
  unfold first_bad_fixed. rewrite firstn_map, first_bad_erase.
  destruct (first_bad (fixed sg) None 0 (firstn (length (fixed sg)) args)) as [[v' t']|]; simpl;
    unfold type_error, type_error_variadic; rewrite go_type_name_erase; reflexivity.
Qed.

Lemma comm_finishM (m m' : M val) : comm erase m m' -> comm erase (finishM m) (finishM m').
Proof. intros H st. unfold finishM. rewrite H. destruct (m st) as [[| | |] st1]; reflexivity. Qed.

Lemma comm_atom_get id : comm erase (atom_get id) (atom_get id).
Proof. intros st. unfold atom_get, est. simpl. rewrite nth_opt_map. destruct (nth_opt (atoms st) id); reflexivity. Qed.
Lemma update_nth_map {A B} (f : A -> B) l n x : update_nth (map f l) n (fun _ => f x) = map f (update_nth l n (fun _ => x)).
Proof. revert n; induction l as [|y r IH]; intros [|n]; simpl; auto. now rewrite IH. Qed.
Lemma comm_atom_set id v : comm id_unit (atom_set id v) (atom_set id (erase v)).
Proof. intros st. unfold atom_set, est. simpl. now rewrite update_nth_map. Qed.
Lemma comm_new_atom v : comm erase (new_atom v) (new_atom (erase v)).
Proof. intros st. unfold new_atom, est. simpl. rewrite map_length, map_app. reflexivity. Qed.

Lemma vec_default_erase br : (match erase br with VNil => vvec [] | _ => erase br end) = erase (match br with VNil => vvec [] | _ => br end).
Proof. destruct br; reflexivity. Qed.
Lemma map_default_erase br : (match erase br with VNil => VMap [] | _ => erase br end) = erase (match br with VNil => VMap [] | _ => br end).
Proof. destruct br; reflexivity. Qed.

Section Kinds.
  Variable app app' : val -> list val -> M val.
  Hypothesis Happ : forall f args, comm erase (app f args) (app' (erase f) (map erase args)).

  Lemma comm_run_update hm idx f : comm erase (run_update app hm idx f) (run_update app' (erase hm) (erase idx) (erase f)).
  Proof.
    destruct hm; erc; cbn [run_update]; try (apply comm_fail'; reflexivity).
    - apply (comm_bind (fun z : Z => z) erase); [apply comm_lift; rewrite as_int_erase; destruct idx; reflexivity|]. intros i.
      apply (comm_bind erase erase); [apply comm_lift, index_erase|]. intros old.
      apply (comm_bind erase erase); [apply (Happ f [old])|]. intros res.
      apply comm_lift. rewrite <- (erase_vec l p). apply (pc_assoc [VVec l p; idx; res]).
    - apply (comm_bind (fun z : str => z) erase); [apply comm_lift; rewrite as_str_erase; destruct idx; reflexivity|]. intros k.
      apply (comm_bind erase erase); [rewrite lookup_or_nil_em; apply (Happ f [lookup_or_nil k m])|]. intros res.
      apply comm_lift. rewrite <- (erase_map m). apply (pc_assoc [VMap m; idx; res]).
  Qed.

  Lemma run_update_in_unfold (ap : val -> list val -> M val) sq idx i2 rest f :
    run_update_in ap sq (idx :: i2 :: rest) f =
    match sq with
    | VMap m =>
        let+ k := lift (as_str idx) in
        let branch := match lookup_or_nil k m with VNil => VMap [] | b => b end in
        match branch with
        | VMap _ => let+ inner := run_update_in ap branch (i2 :: rest) f in lift (b_assoc [sq; idx; inner])
        | _ => lift (Panic (s_ "interface conversion: not HashMap"))
        end
    | VVec l _ =>
        let+ i := lift (as_int idx) in
        let+ b := lift (Core.index l i) in
        let branch := match b with VNil => vvec [] | b => b end in
        match branch with
        | VVec _ _ => let+ inner := run_update_in ap branch (i2 :: rest) f in lift (b_assoc [sq; idx; inner])
        | _ => lift (Panic (s_ "interface conversion: not Vector"))
        end
    | _ => fail (VGoErr (s_ "type not supported of index"))
    end.
  Proof. reflexivity. Qed.

  Lemma comm_run_update_in f : forall path sq,
    comm erase (run_update_in app sq path f) (run_update_in app' (erase sq) (map erase path) (erase f)).
  Proof.
    induction path as [|idx rest IH]; intros sq; [apply (comm_ret erase)|].
    destruct rest as [|i2 rest']; [apply comm_run_update|].
    change (map erase (idx :: i2 :: rest')) with (erase idx :: erase i2 :: map erase rest').
    rewrite !run_update_in_unfold. change (erase i2 :: map erase rest') with (map erase (i2 :: rest')).
    destruct sq as [| b | z | s | s p | l p | l p | m | ks | ps bd e mc | n | a | msg | pl p | t]; erc;
      try (apply comm_fail'; reflexivity).
    - apply (comm_bind (fun z : Z => z) erase); [apply comm_lift; rewrite as_int_erase; destruct idx; reflexivity|]. intros i.
      apply (comm_bind erase erase); [apply comm_lift, index_erase|]. intros br. cbv zeta.
      destruct br as [| b | z | s | s p0 | l0 p0 | l0 p0 | m | ks | ps bd e mc | n | a | msg | pl p0 | t]; erc;
        try (apply comm_lift; reflexivity).
      + apply (comm_bind erase erase); [apply (IH (vvec []))|]. intros inner.
        apply comm_lift. rewrite <- (erase_vec l p). apply (pc_assoc [VVec l p; idx; inner]).
      + apply (comm_bind erase erase); [rewrite <- (erase_vec l0 p0); apply IH|]. intros inner.
        apply comm_lift. rewrite <- (erase_vec l p). apply (pc_assoc [VVec l p; idx; inner]).
    - apply (comm_bind (fun z : str => z) erase); [apply comm_lift; rewrite as_str_erase; destruct idx; reflexivity|]. intros k.
      cbv zeta. rewrite lookup_or_nil_em.
      destruct (lookup_or_nil k m) as [| b | z | s | s p0 | l0 p0 | l0 p0 | m0 | ks | ps bd e mc | n | a | msg | pl p0 | t]; erc;
        try (apply comm_lift; reflexivity).
      + apply (comm_bind erase erase); [apply (IH (VMap []))|]. intros inner.
        apply comm_lift. rewrite <- (erase_map m). apply (pc_assoc [VMap m; idx; inner]).
      + apply (comm_bind erase erase); [rewrite <- (erase_map m0); apply IH|]. intros inner.
        apply comm_lift. rewrite <- (erase_map m). apply (pc_assoc [VMap m; idx; inner]).
  Qed.

  Lemma comm_map_loop f : forall l,
    comm (map erase)
      ((fix go (l : list val) : M (list val) :=
          match l with [] => ret [] | x :: r => let+ y := app f [x] in let+ ys := go r in ret (y :: ys) end) l)
      ((fix go (l : list val) : M (list val) :=
          match l with [] => ret [] | x :: r => let+ y := app' (erase f) [x] in let+ ys := go r in ret (y :: ys) end) (map erase l)).
  Proof.
    induction l as [|x r IH]; [apply (comm_ret (map erase))|]. cbn [map].
    apply (comm_bind erase (map erase)); [apply (Happ f [x])|]. intros y.
    apply (comm_bind (map erase) (map erase)); [apply IH|]. intros ys. apply (comm_ret (map erase)).
  Qed.

  Lemma update_spec (ap : val -> list val -> M val) hm idx f :
    run_kind ap BUpdate [hm; idx; f] = if is_nil hm then ret VNil else run_update ap hm idx f.
  Proof. destruct hm; reflexivity. Qed.
  Lemma update_in_spec (ap : val -> list val -> M val) sq p f :
    run_kind ap BUpdateIn [sq; p; f] =
    if is_nil sq then ret VNil else match p with VVec path _ => run_update_in ap sq path f | _ => lift (Panic (s_ "arity")) end.
  Proof. destruct sq; destruct p; reflexivity. Qed.

  Lemma comm_run_kind k args : (forall f, k = BPure f -> pc f) ->
    comm erase (run_kind app k args) (run_kind app' k (map erase args)).
  Proof.
    intros Hk. destruct k.
    - cbn [run_kind]. apply comm_lift. apply (Hk f eq_refl).
    - cbn [run_kind]. destruct args as [|f r]; [apply comm_fail'; reflexivity|]. cbn [map]. rewrite <- map_rev.
      destruct (rev r) as [|last mid]; [apply comm_fail'; reflexivity|]. cbn [map].
      apply (comm_bind (map erase) erase); [apply comm_lift, get_slice_erase|]. intros l.
      rewrite <- map_rev, <- map_app. apply Happ.
    - cbn [run_kind]. destruct args as [|f [|sq [|? ?]]]; try (apply comm_lift; reflexivity). cbn [map].
      apply (comm_bind (map erase) erase); [apply comm_lift, get_slice_erase|]. intros l.
      apply (comm_bind (map erase) erase); [apply comm_map_loop|]. intros rs st. simpl. now er.
    - destruct args as [|hm [|idx [|f [|? ?]]]]; try (apply comm_lift; reflexivity); try (destruct hm; apply comm_lift; reflexivity).
      cbn [map]. rewrite !update_spec, is_nil_erase. destruct (is_nil hm); [apply (comm_ret erase) | apply comm_run_update].
    - destruct args as [|sq [|p [|f [|? ?]]]]; try (apply comm_lift; reflexivity); try (destruct sq; apply comm_lift; reflexivity);
        try (destruct sq; try (apply comm_lift; reflexivity); destruct p; apply comm_lift; reflexivity).
      cbn [map]. rewrite !update_in_spec, is_nil_erase. destruct (is_nil sq); [apply (comm_ret erase)|].
      destruct p; erc; try (apply comm_lift; reflexivity). apply comm_run_update_in.
    - cbn [run_kind]. destruct args as [|a r]; [apply comm_lift; reflexivity|]. cbn [map]. destruct a; erc; try (apply comm_fail'; reflexivity).
      destruct r as [|f extra]; [apply comm_lift; reflexivity|]. cbn [map].
      apply (comm_bind erase erase); [apply comm_atom_get|]. intros cur.
      apply (comm_bind erase erase); [apply (Happ f (cur :: extra))|]. intros res.
      apply (comm_bind id_unit erase); [apply comm_atom_set|]. intros _. apply (comm_ret erase).
    - cbn [run_kind]. destruct args as [|a [|v [|? ?]]]; try (apply comm_lift; reflexivity); try (destruct a; apply comm_lift; reflexivity).
      cbn [map]. destruct a; erc; try (apply comm_fail'; reflexivity).
      apply (comm_bind id_unit erase); [apply comm_atom_set|]. intros _. apply (comm_ret erase).
    - cbn [run_kind]. destruct args as [|a [|? ?]]; try (apply comm_lift; reflexivity); try (destruct a; apply comm_lift; reflexivity).
      cbn [map]. destruct a; erc; try (apply comm_lift; reflexivity). apply comm_atom_get.
    - cbn [run_kind]. destruct args as [|a [|? ?]]; try (apply comm_lift; reflexivity). cbn [map]. apply comm_new_atom.
  Qed.
End Kinds.

Lemma lookup_pc name e f : alookup name builtin_table = Some e -> b_kind e = BPure f -> pc f.
Proof.
  intros Hl Hk. pose proof table_pc as T. rewrite Forall_forall in T.
  assert (Hin : exists n, In (n, e) builtin_table).
  { revert Hl. generalize builtin_table. induction l as [|[k v] r IH]; simpl; [discriminate|].
    destruct (str_eqb name k); [intros E; inversion E; subst; eexists; left; reflexivity|].
    intros E. destruct (IH E) as [n Hn]. eexists; right; eauto. }
  destruct Hin as [n Hn]. specialize (T _ Hn). unfold entry_pc in T. simpl in T. now rewrite Hk in T.
Qed.

Lemma comm_call_builtin ev ev' : ev_comm ev ev' -> forall k, cb_comm (call_builtin k ev) (call_builtin k ev').
Proof.
  intros Hev. induction k as [|k IH]; intros d name args; cbn [call_builtin]; [apply comm_oof|].
  destruct (str_eqb name (s_ "eval")).
  { destruct args as [|a [|? ?]]; try (apply comm_fail'; reflexivity). apply Hev. }
  destruct (str_eqb name (s_ "trace!")).
  { destruct args as [|a [|? ?]]; try (apply comm_fail'; reflexivity). cbn [map].
    apply (comm_bind id_unit erase); [intros st; reflexivity|]. intros _. apply (comm_ret erase). }
  destruct (str_eqb name (s_ "depth!")); [apply (comm_ret erase)|].
  destruct (str_eqb name (s_ "cancel!")); [intros st; reflexivity|].
  destruct (alookup name builtin_table) as [be|] eqn:El; [|apply comm_lift; reflexivity].
  destruct (Binder.bind (b_sig be) (b_decl be)) as [mn mx|why]; [|apply comm_lift; reflexivity].
  rewrite gate_erase. destruct (gate (b_sig be) mn mx args); cbn [eoA];
    first [apply comm_fail | apply comm_lift; reflexivity | apply comm_oof | idtac].
  apply comm_finishM, comm_run_kind; [|intros f Hf; eapply lookup_pc; eauto].
  intros f args'. apply comm_apply_fn; auto.
Qed.

(** ---- the theorem ---- *)
Theorem eval_commutes_with_erase : forall n, ev_comm (eval n) (eval n).
Proof.
  induction n as [|n IH]; intros d ast env; [apply comm_oof|].
  cbn [eval]. apply comm_eval_step; auto. apply comm_call_builtin, IH.
Qed.

(** read as: the outcome and the final state of the position-less run are the position-less images of
    the outcome and final state of the run with positions — for every program, scope, state and fuel *)
Corollary positions_do_not_matter n d ast env st :
  eval n d (erase ast) env (est st) = (eoA erase (fst (eval n d ast env st)), est (snd (eval n d ast env st))).
Proof. apply eval_commutes_with_erase. Qed.

(** two forms that differ in positions only (an AST built by the host, the same text read without a module name,
    under a module name, at another place of a file) evaluate, from states that differ in positions only, to
    outcomes and states that differ in positions only; in particular the same ordered trace up to positions *)
Corollary same_up_to_positions n d a1 a2 env s1 s2 :
  erase a1 = erase a2 -> est s1 = est s2 ->
  eoA erase (fst (eval n d a1 env s1)) = eoA erase (fst (eval n d a2 env s2)) /\
  est (snd (eval n d a1 env s1)) = est (snd (eval n d a2 env s2)).
Proof.
  intros Ha Hs. pose proof (positions_do_not_matter n d a1 env s1) as H1. pose proof (positions_do_not_matter n d a2 env s2) as H2.
  rewrite <- Ha, <- Hs in H2. rewrite H1 in H2.
  split; [exact (f_equal fst H2) | exact (f_equal snd H2)].
Qed.

(** what the reader attaches is erased by [erase]: the C06 theorem speaks about [unpos], which agrees with [erase] on data *)
