(** Interpreter state and env/env.go.  Scopes live in a heap of frames that only grows
    (frames are never freed: closures may capture them); a scope is a frame id.
    Definitions only. *)
From Lisp Require Export Value Core.
From Coq Require Export FMapPositive.

Record frame := mkFrame { binds : list (str * val); outer : option positive }.

(** The heap is a finite map from frame ids to frames (a positive trie: O(log n) access, so
    that the extracted model runs long loops); ids are allocated consecutively from 0. *)
(** the debugger: mal.go's package variables Stepper / skip / outing1 / outing2.  [dbg = None]
    means no Stepper is installed.  The callback is an oracle: the commands it will return, in
    order; [dlog] records what it was handed (most recent first). *)
Inductive dcmd := CNoOp | CNext | CIn | COut | CBad.
Record dbgst := mkDbg {
  dskip : bool; douting1 : bool; douting2 : bool;
  dcmds : list dcmd;
  dlog : list (val * positive);
}.

Record state := mkState {
  heap : PositiveMap.t frame; (* env.Env objects *)
  next_env : positive;        (* next free frame id (ids are allocated consecutively from 1) *)
  nframes : nat;              (* number of frames allocated so far (fuel for walking outer chains) *)
  atoms : list val;           (* concurrent.Atom objects, id = index *)
  trace : list val;           (* arguments of the harness builtin trace!, most recent first *)
  dbg : option dbgst;         (* debugger state, None when no Stepper is installed *)
  cancelled : bool;           (* the context given to EVAL has been cancelled / its deadline has passed *)
}.

Definition set_dbg (st : state) (g : option dbgst) : state :=
  mkState (heap st) (next_env st) (nframes st) (atoms st) (trace st) g (cancelled st).

Definition set_cancelled (st : state) : state :=
  mkState (heap st) (next_env st) (nframes st) (atoms st) (trace st) (dbg st) true.

(** state-and-outcome monad: on an error the state changes made so far persist, as in Go *)
Definition M (A : Type) := state -> outcome A * state.
Definition ret {A} (a : A) : M A := fun st => (Ok a, st).
Definition fail {A} (e : val) : M A := fun st => (Err e, st).
Definition lift {A} (o : outcome A) : M A := fun st => (o, st).
Definition bindM {A B} (m : M A) (f : A -> M B) : M B :=
  fun st => match m st with
            | (Ok a, st') => f a st'
            | (Err e, st') => (Err e, st')
            | (Panic s, st') => (Panic s, st')
            | (OutOfFuel, st') => (OutOfFuel, st')
            end.
Notation "'let+' x ':=' c1 'in' c2" := (bindM c1 (fun x => c2))
  (at level 61, x pattern, c1 at next level, right associativity).

Definition get_frame (st : state) (id : positive) : option frame := PositiveMap.find id (heap st).
Definition put_frame (st : state) (id : positive) (f : frame) : state :=
  mkState (PositiveMap.add id f (heap st)) (next_env st) (nframes st) (atoms st) (trace st) (dbg st) (cancelled st).

Fixpoint update_nth {A} (l : list A) (n : nat) (f : A -> A) : list A :=
  match l, n with
  | [], _ => []
  | x :: r, O => f x :: r
  | x :: r, S n' => x :: update_nth r n' f
  end.

(** lisperror.GetPosition (total since fix 8796b40: nodes without a cursor have none) *)
Definition get_position (ast : val) : opos :=
  match ast with
  | VList _ p | VVec _ p | VSym _ p => p
  | _ => None
  end.

Definition has_module (p : opos) : bool :=
  match p with Some q => match pmod q with Some _ => true | None => false end | None => false end.

(** lisperror.NewLispError(err, ast) (after fix 687c337: a cursor that names a module is kept) *)
Definition new_lisp_error (err : val) (p : opos) : val :=
  match err with
  | VLispErr payload c => if has_module c then err else VLispErr payload p
  | _ => VLispErr err p
  end.

Definition lisp_goerr (msg : str) (p : opos) : val := VLispErr (VGoErr msg) p.

(** Env.Find / Env.Get: walk the outer chain.  Fuel = number of frames (outer ids are older). *)
Fixpoint env_find_n (n : nat) (st : state) (env : positive) (key : str) : option positive :=
  match n with
  | O => None
  | S n' =>
      match get_frame st env with
      | None => None
      | Some f =>
          match alookup key (binds f) with
          | Some _ => Some env
          | None => match outer f with Some o => env_find_n n' st o key | None => None end
          end
      end
  end.
Definition env_find (st : state) (env : positive) (key : str) : option positive :=
  env_find_n (S (nframes st)) st env key.

Definition not_found (key : str) (p : opos) : val :=
  lisp_goerr (s_ "symbol '" ++ key ++ s_ "' not found") p.

Fixpoint env_get_n (n : nat) (st : state) (env : positive) (key : str) (p : opos) : outcome val :=
  match n with
  | O => Panic (s_ "env chain longer than heap")
  | S n' =>
      match get_frame st env with
      | None => Panic (s_ "nil env")
      | Some f =>
          match alookup key (binds f) with
          | Some v => Ok v
          | None => match outer f with
                    | Some o => env_get_n n' st o key p
                    | None => Err (not_found key p)
                    end
          end
      end
  end.
Definition env_get (st : state) (env : positive) (key : str) (p : opos) : outcome val :=
  env_get_n (S (nframes st)) st env key p.

Definition env_set (env : positive) (key : str) (v : val) : M val :=
  fun st =>
    match get_frame st env with
    | Some f => (Ok v, put_frame st env (mkFrame (aset key v (binds f)) (outer f)))
    | None => (Panic (s_ "nil env"), st)
    end.

Definition new_env (outer_id : option positive) : M positive :=
  fun st => (Ok (next_env st),
             mkState (PositiveMap.add (next_env st) (mkFrame [] outer_id) (heap st))
                     (Pos.succ (next_env st)) (S (nframes st)) (atoms st) (trace st) (dbg st) (cancelled st)).

(** env._newSubordinateEnvWithBinds (after fix: non-symbol binds and a dangling & are errors).
    The new scope is allocated first (as in Go) even when binding then fails. *)
Definition AMP : str := s_ "&".

Fixpoint bind_params (bs : list val) (nb : nat) (exprs : list val) (ne : nat) (i : nat)
         (acc : list (str * val)) : outcome (list (str * val)) :=
  match bs with
  | [] => if Nat.eqb ne i then Ok acc
          else Err (lisp_goerr (s_ "too many arguments passed") None)
  | b :: bs' =>
      match b with
      | VSym name _ =>
          if str_eqb name AMP then
            match bs' with
            | [] => Err (lisp_goerr (s_ "missing parameter name after '&'") None)
            | VSym rest _ :: _ => Ok (aset rest (VList (skipn i exprs) None) acc)
            | _ :: _ => Err (lisp_goerr (s_ "cannot use as parameter name") None)
            end
          else
            match nth_opt exprs i with
            | None => Err (lisp_goerr (s_ "too few arguments passed") None)
            | Some e => bind_params bs' nb exprs ne (S i) (aset name e acc)
            end
      | _ => Err (lisp_goerr (s_ "cannot use as parameter name") None)
      end
  end.

Definition new_env_binds (outer_id : positive) (binds_mt exprs_mt : val) : M positive :=
  let+ id := new_env (Some outer_id) in
  match binds_mt, exprs_mt with
  | VNil, _ | _, VNil => ret id
  | _, _ =>
      let+ bs := lift (get_slice binds_mt) in
      let+ es := lift (get_slice exprs_mt) in
      let+ acc := lift (bind_params bs (length bs) es (length es) 0 []) in
      fun st => (Ok id, put_frame st id (mkFrame acc (Some outer_id)))
  end.

(** atoms *)
Definition new_atom (v : val) : M val :=
  fun st => (Ok (VAtom (length (atoms st))), mkState (heap st) (next_env st) (nframes st) (atoms st ++ [v]) (trace st) (dbg st) (cancelled st)).
Definition atom_get (id : nat) : M val :=
  fun st => match nth_opt (atoms st) id with
            | Some v => (Ok v, st)
            | None => (Panic (s_ "nil atom"), st)
            end.
Definition atom_set (id : nat) (v : val) : M unit :=
  fun st => (Ok tt, mkState (heap st) (next_env st) (nframes st) (update_nth (atoms st) id (fun _ => v)) (trace st) (dbg st) (cancelled st)).

Definition trace_push (v : val) : M unit :=
  fun st => (Ok tt, mkState (heap st) (next_env st) (nframes st) (atoms st) (v :: trace st) (dbg st) (cancelled st)).
