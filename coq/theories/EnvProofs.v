(** C11, model side: scopes are private.  A write goes to exactly one frame; a fresh scope gets an
    identifier no existing scope or closure can name; a lookup from scope e reads only the frames on
    e's outer chain.  Hence what another evaluation binds in ITS let / call / catch scopes can never
    be seen from a scope of this evaluation, and only definitions into a shared ancestor (the root)
    are visible to both. *)
From Coq Require Import FMapPositive.
From Lisp Require Import Base Value Env.

Lemma get_put_same st id f : get_frame (put_frame st id f) id = Some f.
Proof. unfold get_frame, put_frame. simpl. apply PositiveMap.gss. Qed.
Lemma get_put_other st id id' f : id' <> id -> get_frame (put_frame st id f) id' = get_frame st id'.
Proof. intros H. unfold get_frame, put_frame. simpl. apply PositiveMap.gso. exact H. Qed.

(** a write (def!, set, let binding, parameter binding) changes one frame only *)
Theorem env_set_frame_local env key v st o st' :
  env_set env key v st = (o, st') -> forall e', e' <> env -> get_frame st' e' = get_frame st e'.
Proof.
  unfold env_set. destruct (get_frame st env) as [f|]; intros H e' Hne; injection H as <- <-; [|reflexivity].
  apply get_put_other. exact Hne.
Qed.

(** allocated identifiers stay below the allocation pointer *)
Definition heap_wf (st : state) : Prop := forall id, get_frame st id <> None -> (id < next_env st)%positive.

(** a new scope: fresh identifier, nothing else touched *)
Theorem new_env_fresh outer_id st id st' :
  heap_wf st -> new_env outer_id st = (Ok id, st') ->
  get_frame st id = None /\ (forall e', e' <> id -> get_frame st' e' = get_frame st e') /\ heap_wf st'.
Proof.
  intros W H. unfold new_env in H. injection H as <- <-. split; [|split].
  - destruct (get_frame st (next_env st)) eqn:E; [|reflexivity]. exfalso.
    assert (next_env st < next_env st)%positive by (apply W; congruence). lia.
  - intros e' Hne. unfold get_frame. simpl. apply PositiveMap.gso. exact Hne.
  - intros e' He. unfold get_frame in He. simpl in *. destruct (Pos.eq_dec e' (next_env st)) as [->|Hne]; [lia|].
    rewrite PositiveMap.gso in He by exact Hne. specialize (W e' He). lia.
Qed.

(** the frames a lookup from env can read: its outer chain *)
Fixpoint chain_n (n : nat) (st : state) (env : positive) : list positive :=
  match n with
  | O => []
  | S n' =>
      env :: match get_frame st env with
             | Some f => match outer f with Some o => chain_n n' st o | None => [] end
             | None => []
             end
  end.

(** a lookup depends on the frames of the chain only *)
Theorem env_get_chain_only n : forall st st' env key p,
  (forall id, In id (chain_n n st env) -> get_frame st' id = get_frame st id) ->
  env_get_n n st' env key p = env_get_n n st env key p.
Proof.
  induction n as [|n IH]; intros st st' env key p H; [reflexivity|].
  simpl. simpl in H. rewrite (H env (or_introl eq_refl)).
  destruct (get_frame st env) as [f|]; [|reflexivity].
  destruct (alookup key (binds f)); [reflexivity|].
  destruct (outer f) as [o|]; [|reflexivity].
  apply IH. intros id Hin. apply H. right. exact Hin.
Qed.

Theorem env_find_chain_only n : forall st st' env key,
  (forall id, In id (chain_n n st env) -> get_frame st' id = get_frame st id) ->
  env_find_n n st' env key = env_find_n n st env key.
Proof.
  induction n as [|n IH]; intros st st' env key H; [reflexivity|].
  simpl. simpl in H. rewrite (H env (or_introl eq_refl)).
  destruct (get_frame st env) as [f|]; [|reflexivity].
  destruct (alookup key (binds f)); [reflexivity|].
  destruct (outer f) as [o|]; [|reflexivity].
  apply IH. intros id Hin. apply H. right. exact Hin.
Qed.

(** every frame of a chain exists, so a scope allocated later is on no existing chain *)
Lemma chain_allocated n : forall st env id,
  heap_wf st -> get_frame st env <> None -> In id (chain_n n st env) ->
  (forall e f o, get_frame st e = Some f -> outer f = Some o -> get_frame st o <> None) ->
  (id < next_env st)%positive.
Proof.
  induction n as [|n IH]; intros st env id W He Hin Hclosed; [contradiction|].
  simpl in Hin. destruct Hin as [<-|Hin]; [apply W; exact He|].
  destruct (get_frame st env) as [f|] eqn:E; [|contradiction].
  destruct (outer f) as [o|] eqn:Eo; [|contradiction].
  eapply IH; eauto.
Qed.

(** ISOLATION: another evaluation that allocates a scope and binds in it leaves every lookup from
    the existing scopes of this evaluation unchanged *)
Theorem foreign_scope_invisible n st env key p outer_id id st1 k v o st2 :
  heap_wf st -> get_frame st env <> None ->
  (forall e f o, get_frame st e = Some f -> outer f = Some o -> get_frame st o <> None) ->
  new_env outer_id st = (Ok id, st1) -> env_set id k v st1 = (o, st2) ->
  env_get_n n st2 env key p = env_get_n n st env key p.
Proof.
  intros W He Hclosed Hnew Hset.
  destruct (new_env_fresh _ _ _ _ W Hnew) as (Hfresh & Hsame & _).
  apply env_get_chain_only. intros e Hin.
  assert (e < next_env st)%positive as Hlt by (eapply chain_allocated; eauto).
  assert (id = next_env st) as Hid by (unfold new_env in Hnew; injection Hnew as <- _; reflexivity).
  assert (e <> id) as Hne by (rewrite Hid; lia).
  rewrite (env_set_frame_local _ _ _ _ _ _ Hset e Hne). apply Hsame. exact Hne.
Qed.
