(** lib/call/call.go: the reflective binder.  A Go function is described by its signature
    (context first?, fixed parameter types, variadic element type, number of results) and
    the optional declared argument bounds; [bind] computes what `call` computes at
    registration time (effective bounds, registration panics), [gate] is `_args`/`_args_ctx`
    plus reflect.Value.Call's assignability check, [finish] maps panics like `_recover`.
    Definitions only. *)
From Lisp Require Export Value Core.

(** the slice of Go's type universe the value universe can exercise *)
Inductive ty :=
| TAny        (* interface{} / MalType *)
| TInt | TBool | TString
| TList | TVector | THashMap | TSet | TSymbol
| TMalFunc
| TError      (* the error interface *)
| TDeref      (* types.Dereferable: *Atom, *Future *)
| TAtomPtr
| TOtherTy.   (* a type no lisp value is assignable to: *Future, *Position, []byte, marshaler interfaces *)

(** reflect: is the dynamic value assignable to a parameter of type t?  nil is passed as the
    zero value of interface type MalType, assignable to interface{}-typed parameters only. *)
Definition assignable (v : val) (t : ty) : bool :=
  match t with
  | TAny => true
  | TInt => match v with VInt _ => true | _ => false end
  | TBool => match v with VBool _ => true | _ => false end
  | TString => match v with VStr _ => true | _ => false end
  | TList => match v with VList _ _ => true | _ => false end
  | TVector => match v with VVec _ _ => true | _ => false end
  | THashMap => match v with VMap _ => true | _ => false end
  | TSet => match v with VSet _ => true | _ => false end
  | TSymbol => match v with VSym _ _ => true | _ => false end
  | TMalFunc => match v with VFn _ _ _ _ => true | _ => false end
  | TError => match v with VGoErr _ | VLispErr _ _ => true | _ => false end
  | TDeref => match v with VAtom _ => true | _ => false end
  | TAtomPtr => match v with VAtom _ => true | _ => false end
  | TOtherTy => false
  end.

Record bsig := mkSig {
  has_ctx : bool;              (* first Go parameter implements context.Context *)
  fixed : list ty;             (* lisp-visible fixed parameters (context excluded) *)
  variadic : option ty;        (* element type of a final ...T *)
  nresults : nat;              (* 0, 1 (error) or 2 (value, error) *)
}.

Definition UNLIMITED : Z := 1000.

(** number of Go input parameters: context + fixed + (1 if variadic) *)
Definition num_in (s : bsig) : Z :=
  (if has_ctx s then 1 else 0) + Z.of_nat (length (fixed s)) + (match variadic s with Some _ => 1 | None => 0 end).

Inductive bound_result :=
| Bound (minArgs maxArgs : Z)       (* as stored in the closure: Go argument counts, context included *)
| RegPanic (why : str).             (* `call` panics at registration time *)

(** what `call` computes from the signature and the declared bounds (after fix 84c9fff:
    declared bounds count lisp arguments also for context-taking functions) *)
Definition bind (s : bsig) (declared : list Z) : bound_result :=
  let is_var := match variadic s with Some _ => true | None => false end in
  let step2 (mn mx : Z) (explicit : bool) :=
    if Z.ltb mx mn then RegPanic (s_ "maximum arguments is lower than minimum arguments")
    else if (Z.ltb mn 0 || Z.ltb mx 0)%bool then RegPanic (s_ "argument count bounds cannot be negative")
    else if Nat.ltb 2 (nresults s) then RegPanic (s_ "wrong number of results")
    else if (has_ctx s && explicit)%bool
         then Bound (mn + 1) (if Z.eqb mx UNLIMITED then mx else mx + 1)
         else Bound mn mx in
  match declared with
  | [mn] => if is_var then step2 mn UNLIMITED true
            else RegPanic (s_ "argument count defined but implementation is not variadic")
  | [mn; mx] => if is_var then step2 mn mx true
                else RegPanic (s_ "argument count defined but implementation is not variadic")
  | _ => if is_var then step2 0 UNLIMITED false else step2 (num_in s) (num_in s) false
  end.

(** the lisp-argument bounds a caller observes: `_args_ctx` subtracts the context *)
Definition lisp_bounds (s : bsig) (mn mx : Z) : Z * Z :=
  if has_ctx s then (mn - 1, mx - 1) else (mn, mx).

(** parameter type of the i-th lisp argument (None: beyond the signature) *)
Fixpoint param_ty (fx : list ty) (va : option ty) (i : nat) : option ty :=
  match fx, i with
  | t :: _, O => Some t
  | _ :: r, S i' => param_ty r va i'
  | [], _ => va
  end.

Fixpoint all_assignable (fx : list ty) (va : option ty) (i : nat) (args : list val) : bool :=
  match args with
  | [] => true
  | a :: r => match param_ty fx va i with
              | Some t => assignable a t && all_assignable fx va (S i) r
              | None => false
              end
  end.

Definition arity_error : val := VLispErr (VGoErr (s_ "wrong number of arguments")) None.

(** reflect panics with a STRING ("reflect: Call using T as type U"), so `_recover` takes its
    non-error branch and the message becomes the payload of the lisp error *)
Definition go_type_name (v : val) : str :=
  match v with
  | VNil => s_ "types.MalType"          (* the zero Value of interface type MalType *)
  | VBool _ => s_ "bool" | VInt _ => s_ "int" | VStr _ => s_ "string"
  | VSym _ _ => s_ "types.Symbol" | VList _ _ => s_ "types.List" | VVec _ _ => s_ "types.Vector"
  | VMap _ => s_ "types.HashMap" | VSet _ => s_ "types.Set"
  | VFn _ _ _ _ => s_ "types.MalFunc" | VBuiltin _ => s_ "types.Func"
  | VAtom _ => s_ "*concurrent.Atom"
  | VGoErr _ => s_ "*errors.errorString" | VLispErr _ _ => s_ "lisperror.LispError"
  | VOther t => t
  end.
Definition ty_name (t : ty) : str :=
  match t with
  | TAny => s_ "types.MalType" | TInt => s_ "int" | TBool => s_ "bool" | TString => s_ "string"
  | TList => s_ "types.List" | TVector => s_ "types.Vector" | THashMap => s_ "types.HashMap"
  | TSet => s_ "types.Set" | TSymbol => s_ "types.Symbol" | TMalFunc => s_ "types.MalFunc"
  | TError => s_ "error" | TDeref => s_ "types.Dereferable" | TAtomPtr => s_ "*concurrent.Atom"
  | TOtherTy => s_ "?"
  end.
Definition type_error (v : val) (t : ty) : val :=
  VLispErr (VStr (s_ "reflect: Call using " ++ go_type_name v ++ s_ " as type " ++ ty_name t)) None.
(** for an argument that lands in the variadic slice reflect words it differently *)
Definition type_error_variadic (v : val) (t : ty) : val :=
  VLispErr (VStr (s_ "reflect: cannot use " ++ go_type_name v ++ s_ " as type " ++ ty_name t ++ s_ " in Call")) None.

(** the first argument reflect rejects *)
Fixpoint first_bad (fx : list ty) (va : option ty) (i : nat) (args : list val) : option (val * ty) :=
  match args with
  | [] => None
  | a :: r => match param_ty fx va i with
              | Some t => if assignable a t then first_bad fx va (S i) r else Some (a, t)
              | None => None
              end
  end.

(** reflect checks the fixed parameters first, then the elements of the variadic slice *)
Definition first_bad_fixed (fx : list ty) (args : list val) : option (val * ty) :=
  first_bad fx None 0 (firstn (length fx) args).

(** `_args`/`_args_ctx` then reflect.Value.Call's own checks: is the Go function entered? *)
Definition gate (s : bsig) (mn mx : Z) (args : list val) : outcome unit :=
  let '(lo, hi) := lisp_bounds s mn mx in
  let n := Z.of_nat (length args) in
  if (Z.ltb n lo || Z.ltb hi n)%bool then Err arity_error
  else if Nat.ltb (length args) (length (fixed s)) then Err arity_error          (* reflect: too few input arguments *)
  else if (match variadic s with None => Nat.ltb (length (fixed s)) (length args) | Some _ => false end)
       then Err arity_error                                                        (* reflect: too many input arguments *)
  else match first_bad (fixed s) (variadic s) 0 args with
       | None => Ok tt
       | Some (v, t) =>
           match first_bad_fixed (fixed s) args with
           | Some (v', t') => Err (type_error v' t')
           | None => Err (type_error_variadic v t)
           end
       end.

(** `_recover`: a panic inside the bound function becomes a catchable error; an error panic
    value stays reachable with errors.Is (the chain keeps it), any other value is the payload *)
Definition recover_panic (site : str) : val := VLispErr (VGoErr (s_ "panic: " ++ site)) None.

Definition finish {A} (o : outcome A) : outcome A :=
  match o with
  | Panic site => Err (recover_panic site)
  | x => x
  end.

(** result mapping `_nil_nil` / `_nil_error` / `_result_error` *)
Definition map_result (s : bsig) (o : outcome val) : outcome val :=
  match nresults s, o with
  | 0%nat, Ok _ => Ok VNil
  | 1%nat, Ok _ => Ok VNil
  | _, x => x
  end.

(** a complete call of a bound first-order function *)
Definition invoke (s : bsig) (mn mx : Z) (f : list val -> outcome val) (args : list val) : outcome val :=
  match gate s mn mx args with
  | Ok _ => finish (map_result s (f args))
  | Err e => Err e
  | Panic x => Panic x
  | OutOfFuel => OutOfFuel
  end.
