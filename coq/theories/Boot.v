(** The initial environment: the root scope with every modelled builtin, then the
    repository's own lisp headers (Gen/Headers.v, regenerated from /repo on every run)
    evaluated BY THE MODEL, in the order the ns* loaders evaluate them.  cond, and, or, ->,
    gensym, memoize, reduce, future ... are therefore the repository's lisp text, not a
    re-implementation. *)
From Lisp Require Export Interp.
From Lisp.Gen Require Import Headers.

Definition BOOT_FUEL : nat := 5000.

Definition load_header (h : val) (acc : list (outcome val) * state) : list (outcome val) * state :=
  let '(rs, st) := acc in
  let '(r, st') := eval BOOT_FUEL 1 h ROOT st in
  (rs ++ [r], st').

Definition boot : list (outcome val) * state :=
  load_header header_coreextended
    (load_header header_concurrent
       (load_header header_load_file
          (load_header header_basic ([], state0)))).

Definition is_ok {A} (o : outcome A) : bool := match o with Ok _ => true | _ => false end.

Definition boot_ok : bool := Eval vm_compute in forallb is_ok (fst boot).
Definition init_state : state := Eval vm_compute in snd boot.

(** generated-source obligation: the repository's headers load without error in the model *)
Lemma Gen_headers_boot : boot_ok = true.
Proof. reflexivity. Qed.
