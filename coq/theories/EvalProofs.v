(** Lemmas about the evaluator model used by Props/C01, C03, C04, C08, C12. *)
From Lisp Require Import Base Value Core Binder Env Eval Interp.

(** ---------- C03: payloads ---------- *)
Definition payload (e : val) : val :=
  match e with VLispErr p _ => p | _ => e end.

Lemma new_lisp_error_payload e p : payload (new_lisp_error e p) = payload e.
Proof. destruct e; simpl; auto. destruct (has_module p0); reflexivity. Qed.

(** what a catch clause binds is the payload (for a raw Go error: its message) *)
Lemma caught_value_lisp v p : caught_value (VLispErr v p) = v.
Proof. reflexivity. Qed.

(** throw delivers a lisp value as the payload of the error it returns, a Go error as itself *)
Lemma throw_payload v : is_error v = false -> b_throw [v] = Err (VLispErr v None).
Proof. intros H; simpl; now rewrite H. Qed.
Lemma throw_error_itself v : is_error v = true -> b_throw [v] = Err v.
Proof. intros H; simpl; now rewrite H. Qed.

(** ---------- C03: finally ---------- *)
Section WithEv.
  Variable ev : nat -> val -> positive -> M val.
  Variable cb : nat -> str -> list val -> M val.

  (** the finally forms run exactly once, after everything else of the try, in the try's own
      scope [env]; neither their value nor their error changes the outcome *)
  Lemma with_finally_once d forms env (rest : M val) st r st1 rf st2 :
    rest st = (r, st1) -> r <> OutOfFuel ->
    do_forms ev d forms 0 false env st1 = (rf, st2) ->
    (forall s, rf <> Panic s) -> rf <> OutOfFuel ->
    with_finally ev d (Some forms) env rest st = (r, st2).
  Proof.
    intros Hr Hne Hf Hnp Hnf. unfold with_finally. rewrite Hr.
    destruct r; try congruence; rewrite Hf; destruct rf; try reflexivity; try congruence;
      exfalso; eapply Hnp; reflexivity.
  Qed.

  (** without a finally clause (and without a Stepper: the deferred do(nil) only touches the
      debugger flags) the try form adds nothing *)
  Lemma with_finally_none d env (rest : M val) st :
    dbg (snd (rest st)) = None -> with_finally ev d None env rest st = rest st.
  Proof.
    unfold with_finally. destruct (rest st) as [r st1]. simpl. intros H.
    unfold outing_hook. rewrite H. destruct r; reflexivity.
  Qed.

  (** errors raised in the handler are not caught by the same try; errors of the body are
      handed to the handler with the state the body left *)
  Lemma catch_errors_ok (m : M val) h st v st' : m st = (Ok v, st') -> catch_errors m h st = (Ok v, st').
  Proof. intros H; unfold catch_errors; now rewrite H. Qed.
  Lemma catch_errors_err (m : M val) h st e st' : m st = (Err e, st') -> catch_errors m h st = h e st'.
  Proof. intros H; unfold catch_errors; now rewrite H. Qed.

  (** ---------- C12: macroexpand ---------- *)
  Lemma macroexpand_head_not_macro k : forall d ast env st ast' st',
    macroexpand ev cb k d ast env st = (Ok ast', st') -> macro_of st' ast' env = None.
  Proof.
    induction k as [|k IH]; intros d ast env st ast' st'; simpl.
    - destruct (macro_of st ast env) eqn:E; intros H; inversion H; subst; auto.
    - destruct (macro_of st ast env) eqn:E.
      + unfold bindM. destruct (apply_fn ev cb d v _ st) as [[a| | |] st1] eqn:Ea; try discriminate.
        apply IH.
      + intros H; inversion H; subst; auto.
  Qed.

  (** a macro call is its expansion: one step of the expansion loop applies the macro closure to
      the UNEVALUATED operands and goes on with the result *)
  Lemma macroexpand_step k d head p rest cur env st mac :
    macro_of st (VList (VSym head p :: rest) cur) env = Some mac ->
    macroexpand ev cb (S k) d (VList (VSym head p :: rest) cur) env st =
    bindM (apply_fn ev cb d mac rest) (fun ast' => macroexpand ev cb k d ast' env) st.
  Proof. intros H; cbn [macroexpand]; now rewrite H. Qed.

  Lemma macroexpand_not_macro k d ast env st :
    macro_of st ast env = None -> macroexpand ev cb k d ast env st = (Ok ast, st).
  Proof. intros H; destruct k; cbn [macroexpand]; now rewrite H. Qed.
End WithEv.

(** ---------- C04: the binder never lets a panic out ---------- *)
Lemma finish_no_panic {A} (o : outcome A) s : finish o <> Panic s.
Proof. destruct o; simpl; congruence. Qed.

Lemma gate_no_panic sg mn mx args s : gate sg mn mx args <> Panic s.
Proof.
  unfold gate. destruct (lisp_bounds sg mn mx) as [lo hi].
  repeat match goal with |- context [if ?c then _ else _] => destruct c end; try congruence.
  destruct (first_bad _ _ _ _) as [[v t]|]; try congruence.
  destruct (first_bad_fixed _ _) as [[? ?]|]; congruence.
Qed.

Lemma invoke_no_panic sg mn mx f args s : invoke sg mn mx f args <> Panic s.
Proof.
  unfold invoke. destruct (gate sg mn mx args) eqn:E; try congruence.
  - apply finish_no_panic.
  - exfalso; eapply gate_no_panic; eauto.
Qed.

Lemma finishM_no_panic {A} (m : M A) st s st' : finishM m st <> (Panic s, st').
Proof. unfold finishM. destruct (m st) as [[| | |] ?]; congruence. Qed.

(** ---------- C08 / C01: one-iteration equations of the evaluation loop ---------- *)
(** In every equation the continuation is evaluated at the SAME depth [d] (the TCO loop),
    sub-expressions at depth [S d]. [macro_of ... = None] says the form is not a macro call
    (in particular the special-form name is not bound to a macro). *)

Definition prop {A B} (r : outcome A * state) (k : A -> state -> outcome B * state) : outcome B * state :=
  match r with
  | (Ok a, st') => k a st'
  | (Err e, st') => (Err e, st')
  | (Panic s, st') => (Panic s, st')
  | (OutOfFuel, st') => (OutOfFuel, st')
  end.

Lemma bindM_prop {A B} (m : M A) (f : A -> M B) st : bindM m f st = prop (m st) f.
Proof. unfold bindM, prop. destruct (m st) as [[| | |] ?]; reflexivity. Qed.

Ltac step_eval H :=
  cbn [eval]; unfold eval_step; rewrite bindM_prop, (macroexpand_not_macro _ _ _ _ _ _ _ H); cbn [prop].

Lemma eval_if n d c a b cur env st :
  macro_of st (VList [sy "if"; c; a; b] cur) env = None ->
  eval (S n) d (VList [sy "if"; c; a; b] cur) env st =
  prop (eval n (S d) c env st) (fun cv st' => if truthy cv then eval n d a env st' else eval n d b env st').
Proof.
  intros H. step_eval H. cbn. rewrite bindM_prop. destruct (eval n (S d) c env st) as [[cv| | |] st']; cbn; auto.
  destruct (truthy cv); reflexivity.
Qed.

Lemma eval_if_no_else n d c a cur env st :
  macro_of st (VList [sy "if"; c; a] cur) env = None ->
  eval (S n) d (VList [sy "if"; c; a] cur) env st =
  prop (eval n (S d) c env st) (fun cv st' => if truthy cv then eval n d a env st' else (Ok VNil, st')).
Proof.
  intros H. step_eval H. cbn. rewrite bindM_prop. destruct (eval n (S d) c env st) as [[cv| | |] st']; cbn; auto.
  destruct (truthy cv); reflexivity.
Qed.

Lemma eval_do n d forms cur env st :
  macro_of st (VList (sy "do" :: forms) cur) env = None ->
  eval (S n) d (VList (sy "do" :: forms) cur) env st =
  prop (do_forms (eval n) d (sy "do" :: forms) 1 true env st) (fun last st' => eval n d last env st').
Proof. intros H. step_eval H. cbn. rewrite bindM_prop. reflexivity. Qed.

Lemma eval_quote n d x cur env st :
  macro_of st (VList [sy "quote"; x] cur) env = None ->
  eval (S n) d (VList [sy "quote"; x] cur) env st = (Ok x, st).
Proof. intros H. step_eval H. reflexivity. Qed.

Lemma eval_quasiquote n d x cur env st :
  macro_of st (VList [sy "quasiquote"; x] cur) env = None ->
  eval (S n) d (VList [sy "quasiquote"; x] cur) env st = eval n d (quasiquote x) env st.
Proof. intros H. step_eval H. reflexivity. Qed.

Lemma eval_fn n d params body cur env st :
  macro_of st (VList (sy "fn" :: params :: body) cur) env = None ->
  eval (S n) d (VList (sy "fn" :: params :: body) cur) env st =
  (Ok (VFn params (VList (sy "do" :: body) None) env false), st).
Proof. intros H. step_eval H. reflexivity. Qed.

Lemma eval_def n d name p e cur env st :
  macro_of st (VList [sy "def"; VSym name p; e] cur) env = None ->
  eval (S n) d (VList [sy "def"; VSym name p; e] cur) env st =
  prop (eval n (S d) e env st) (fun v st' => env_set env name v st').
Proof. intros H. step_eval H. cbn. rewrite bindM_prop. reflexivity. Qed.

(** a macro call: the expansion (computed at depth S d) is evaluated by the same loop, at depth d *)
Lemma eval_macro_call n d head p rest cur env st mac :
  macro_of st (VList (VSym head p :: rest) cur) env = Some mac ->
  eval (S n) d (VList (VSym head p :: rest) cur) env st =
  prop (macroexpand (eval n) (call_builtin n (eval n)) n d (VList (VSym head p :: rest) cur) env st)
       (fun ast' st' => eval_step (eval n) (eval n) (call_builtin n (eval n)) n d ast' env st').
Proof.
  intros H. cbn [eval]. unfold eval_step at 1. rewrite bindM_prop.
  destruct (macroexpand _ _ n d _ env st) as [[ast'| | |] st'] eqn:E; cbn [prop]; auto.
  pose proof (macroexpand_head_not_macro _ _ _ _ _ _ _ _ _ E) as Hn.
  unfold eval_step. destruct ast'; try reflexivity.
  rewrite bindM_prop, (macroexpand_not_macro _ _ n _ _ _ _ Hn). reflexivity.
Qed.

(** calling a closure: the body is evaluated by the same loop at depth d, in the new scope *)
Definition is_special (s : str) : bool :=
  str_eqb s (s_ "def") || str_eqb s (s_ "let") || str_eqb s (s_ "quote") || str_eqb s (s_ "quasiquoteexpand")
  || str_eqb s (s_ "quasiquote") || str_eqb s (s_ "defmacro") || str_eqb s (s_ "macroexpand")
  || str_eqb s (s_ "try") || str_eqb s (s_ "do") || str_eqb s (s_ "if") || str_eqb s (s_ "fn").

Lemma eval_call_closure n d s p args cur env st params body fenv vs st1 :
  macro_of st (VList (VSym s p :: args) cur) env = None ->
  is_special s = false ->
  eval_list (eval n) d (VSym s p :: args) env st = (Ok (VFn params body fenv false :: vs), st1) ->
  eval (S n) d (VList (VSym s p :: args) cur) env st =
  match new_env_binds fenv params (VList vs None) st1 with
  | (Ok env', st2) => eval n d body env' st2
  | (Err e, st2) => (bind_error e body, st2)
  | (Panic x, st2) => (Panic x, st2)
  | (OutOfFuel, st2) => (OutOfFuel, st2)
  end.
Proof.
  intros H Hs Hel. unfold is_special in Hs.
  repeat (apply orb_false_iff in Hs as [Hs ?]).
  step_eval H. cbn -[str_eqb s_ eval_list new_env_binds].
  repeat match goal with Hx : str_eqb s ?b = false |- _ => rewrite Hx; clear Hx end.
  rewrite bindM_prop, Hel. cbn [prop]. reflexivity.
Qed.

(** ---------- C17: positions of errors ---------- *)
Lemma new_lisp_error_keeps_module_position payload c q :
  has_module c = true -> new_lisp_error (VLispErr payload c) q = VLispErr payload c.
Proof. intros H. simpl. now rewrite H. Qed.

Lemma new_lisp_error_positions_anonymous payload c q :
  has_module c = false -> new_lisp_error (VLispErr payload c) q = VLispErr payload q.
Proof. intros H. simpl. now rewrite H. Qed.

Lemma new_lisp_error_wraps_go_error msg q : new_lisp_error (VGoErr msg) q = VLispErr (VGoErr msg) q.
Proof. reflexivity. Qed.

(** an unbound symbol is reported at the symbol's own position *)
Lemma eval_ast_unbound_symbol ev d s p env st :
  env_get st env s p = Err (not_found s p) ->
  eval_ast ev d (VSym s p) env st = (Err (VLispErr (VGoErr (s_ "symbol '" ++ s ++ s_ "' not found")) p), st).
Proof.
  intros H. unfold eval_ast. rewrite H. unfold not_found, lisp_goerr, new_lisp_error.
  destruct (has_module p); reflexivity.
Qed.


(** ---------- C18: the debugger section ---------- *)
Lemma dbg_entry_no_stepper ast env body st : dbg st = None -> dbg_entry ast env body st = body st.
Proof. intros H. unfold dbg_entry. now rewrite H. Qed.

Lemma outing_hook_outcome (m : M val) st : fst (outing_hook m st) = fst (m st).
Proof.
  unfold outing_hook. destruct (dbg st) as [g|]; auto. destruct (douting1 g); auto.
  destruct (m st); reflexivity.
Qed.

Lemma outing_hook_no_stepper (m : M val) st : dbg st = None -> outing_hook m st = m st.
Proof. intros H. unfold outing_hook. now rewrite H. Qed.

(** whatever the flags and whatever the command, the debugger section only decides whether the
    callback is consulted and rewrites flags: the outcome is the outcome of the rest of EVAL
    (run on a state that differs in the debugger field only) — unless the callback returns a
    command outside the four, which is a host panic *)
Lemma dbg_entry_outcome ast env body st g g1 nd :
  dbg st = Some g -> dbg_decide g ast env = (g1, nd, false) ->
  fst (dbg_entry ast env body st) = fst (body (set_dbg st (Some g1))).
Proof.
  intros Hg Hd. unfold dbg_entry. rewrite Hg, Hd.
  destruct (body (set_dbg st (Some g1))) as [r st']. reflexivity.
Qed.

(** the decision never reports a bad command unless the callback returned one *)
Lemma dbg_decide_ok g ast env :
  (dskip g = true \/ match dcmds g with CBad :: _ => False | _ => True end) ->
  exists g1 nd, dbg_decide g ast env = (g1, nd, false).
Proof.
  intros H. unfold dbg_decide. destruct (dskip g); [eauto|]. destruct H as [H|H]; [discriminate|].
  destruct (dcmds g) as [|c cs]; [eauto|]. destruct c; try contradiction; eauto.
Qed.

Lemma dbg_entry_bad_command ast env body st g cs :
  dbg st = Some g -> dskip g = false -> dcmds g = CBad :: cs ->
  exists s st', dbg_entry ast env body st = (Panic s, st').
Proof. intros Hg Hs Hc. unfold dbg_entry, dbg_decide. rewrite Hg, Hs, Hc. cbn. eauto. Qed.

(** the callback is handed exactly the form and the scope this EVAL invocation is about to evaluate *)
Lemma dbg_decide_logs_its_arguments g ast env c cs :
  dskip g = false -> dcmds g = c :: cs -> c <> CBad ->
  exists g1 nd, dbg_decide g ast env = (g1, nd, false) /\ dlog g1 = (ast, env) :: dlog g /\ dcmds g1 = cs.
Proof.
  intros Hs Hc Hne. unfold dbg_decide. rewrite Hs, Hc.
  destruct c; try congruence; eexists; eexists; (split; [reflexivity|]); split; reflexivity.
Qed.
