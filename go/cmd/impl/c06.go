package main

import (
	"fmt"
	"strings"

	lisp "github.com/jig/lisp"
	"github.com/jig/lisp/types"
	. "verif.local/harness/h"
)

func init() { runners["C06"] = runC06 }

var c06HardChars = []string{"\"", "\\", "\n", "\t", "\r", "¬", "{", "}", "ʞ", ":", ";", "$", "(", ")", "[", "]", "'", "`", "~", "@", "^", " ", "a", "é", "日", "😀", "«", "»", "#", ",", "\\n", "{\"", "\"}", "¬¬", "0", "-"}

func c06String(r *Rng) string {
	switch r.Intn(6) {
	case 0: // JSON-looking: switches the printer to raw form
		inner := ""
		for i, n := 0, r.Intn(5); i < n; i++ {
			inner += r.Pick(c06HardChars)
		}
		return "{\"" + inner + "}"
	default:
		s := ""
		for i, n := 0, r.Intn(6); i < n; i++ {
			s += r.Pick(c06HardChars)
		}
		return s
	}
}

var c06KwNames = []string{"ʞa", "ʞ", "aʞ", "ʞʞk", "a", "k-1", "", "1", "é", "a:b", "-", "x?", "<="}

var c06Symbols = []string{"a", "x-1", "+", "<=", "a/b", "*x*", "é1", "nil?", "_", "true?", "->", "$", "a$b", "-", "-a", "--", "!"}

func c06Value(r *Rng, depth int) types.MalType {
	if depth <= 0 || r.Intn(10) < 4 {
		switch r.Intn(9) {
		case 0:
			return nil
		case 1:
			return r.Bool()
		case 2:
			return []int{0, 1, -1, 42, -9223372036854775808, 9223372036854775807, 1 << 40}[r.Intn(7)]
		case 3, 4, 5:
			s := c06String(r)
			if strings.HasPrefix(s, "ʞ") { // a Go string starting with U+029E IS a keyword: outside "strings"
				s = "x" + s
			}
			return s
		case 6:
			return Kw(r.Pick(c06KwNames))
		default:
			return types.Symbol{Val: r.Pick(c06Symbols)}
		}
	}
	n := r.Intn(4)
	switch r.Intn(5) {
	case 0, 1:
		l := make([]types.MalType, n)
		for i := range l {
			l[i] = c06Value(r, depth-1)
		}
		return types.List{Val: l}
	case 2:
		l := make([]types.MalType, n)
		for i := range l {
			l[i] = c06Value(r, depth-1)
		}
		return types.Vector{Val: l}
	case 3:
		m := map[string]types.MalType{}
		for i := 0; i < n; i++ {
			k := c06String(r)
			if r.Bool() {
				k = Kw(r.Pick([]string{"a", "b", "k-1"}))
			} else if strings.HasPrefix(k, "ʞ") {
				k = "x" + k
			}
			m[k] = c06Value(r, depth-1)
		}
		return types.HashMap{Val: m}
	default:
		m := map[string]struct{}{}
		for i := 0; i < n; i++ {
			k := c06String(r)
			if strings.HasPrefix(k, "ʞ") {
				k = "x" + k
			}
			m[k] = struct{}{}
		}
		return types.Set{Val: m}
	}
}

func hasMulti(v types.MalType) bool {
	switch x := v.(type) {
	case types.List:
		for _, e := range x.Val {
			if hasMulti(e) {
				return true
			}
		}
	case types.Vector:
		for _, e := range x.Val {
			if hasMulti(e) {
				return true
			}
		}
	case types.HashMap:
		if len(x.Val) > 1 {
			return true
		}
		for _, e := range x.Val {
			if hasMulti(e) {
				return true
			}
		}
	case types.Set:
		return len(x.Val) > 1
	}
	return false
}


// oneToken: does the text scan as exactly one token of the given kind (the property's
// "symbols/keywords range over the token alphabet")
func oneToken(text string, kind int) bool {
	return goTokens(text) == fmt.Sprintf("T %d %s1 ", kind, encSrc(text))
}

func runC06(tier string, seed uint64, rep *Report) {
	{ // keep only symbols / keyword names inside the token alphabet
		var syms []string
		for _, s := range c06Symbols {
			if oneToken(s, -2) && !strings.HasPrefix(s, "$") {
				syms = append(syms, s)
			}
		}
		c06Symbols = syms
		var kws []string
		for _, k := range c06KwNames {
			if oneToken(":"+k, -6) {
				kws = append(kws, k)
			}
		}
		c06KwNames = kws
		rep.Extra["symbols_in_alphabet"] = c06Symbols
		rep.Extra["keyword_names_in_alphabet"] = c06KwNames
	}
	rep.Rule = "(a) data values: every string of length <= 2 over 36 hard characters (quotes, backslash, newline, tab, CR, the raw-string quote, braces, U+029E, " +
		"delimiters, multi-byte runes, JSON-looking prefixes/suffixes) alone and inside collections, plus seeded random nested values (depth <= 4 quick, <= 6 thorough) " +
		"with such strings, keywords, symbols over the token alphabet, int64 extremes, maps and sets; PRINT then READ, compared structurally with the original by an " +
		"independent comparison (direct oracle) and with the model (printed text too when no map/set has more than one entry). (b) accepted source texts without floats: " +
		"READ, PRINT, READ again. Non-trivial: the value contains a string with a character the printer escapes or a JSON-looking string."
	r := NewRng(seed)
	round := func(v types.MalType, tag string) {
		txt := lisp.PRINT(v)
		o := Guard(func() (types.MalType, error) { return lisp.READ(txt, nil, nil) })
		flag := "1 "
		printed := encSrc(txt)
		if hasMulti(v) {
			flag, printed = "0 ", "- "
		}
		nontrivial := strings.ContainsAny(txt, "\\¬") || strings.Contains(txt, "{\"")
		idx := rep.Add("W "+flag+EncS(v), printed+"| "+readClass(o), fmt.Sprintf("(read-string (pr-str '%s)) ; printed as %q", Show(v), txt), nontrivial, tag)
		if o.Panic != nil || o.Err != nil || !StrictEq(o.Val, v) {
			key := ""
			if strings.Contains(txt, "\x00") {
				key = "C06:nul-in-string"
			}
			what := fmt.Sprintf("reading the printed form does not give the value back: printed %q, read back %s", txt, readClass(o))
			rep.ViolateKnown(idx, what, fmt.Sprintf("value %s", Show(v)), key)
		}
	}
	// exhaustive hard strings
	for _, a0 := range c06HardChars {
		a := a0
		if strings.HasPrefix(a, "ʞ") { // a Go string starting with U+029E IS a keyword: not a "string"
			a = "x" + a
		}
		round(a, "string-1")
		round(types.Vector{Val: []types.MalType{a, Kw("k")}}, "string-in-vector")
		for _, b := range c06HardChars {
			round(a+b, "string-2")
			if tier == "thorough" {
				for _, c := range c06HardChars {
					round(a+b+c, "string-3")
				}
			}
		}
		round("{\""+a+"}", "json-looking")
		round(types.HashMap{Val: map[string]types.MalType{a + "k": "{\"" + a + "\"}"}}, "json-in-map")
	}
	for _, s := range c06Symbols {
		round(types.Symbol{Val: s}, "symbol")
		round(types.List{Val: []types.MalType{types.Symbol{Val: s}, types.Symbol{Val: s}}}, "symbol")
	}
	for _, k := range c06KwNames {
		round(Kw(k), "keyword")
		round(types.Vector{Val: []types.MalType{Kw(k), Kw(k)}}, "keyword")
	}
	n, depth := 3000, 4
	if tier == "thorough" {
		n, depth = 150000, 6
	}
	for i := 0; i < n; i++ {
		round(c06Value(r, 1+r.Intn(depth)), "random")
	}
	// the NUL finding, re-confirmed on every run
	{
		v := "a\x00b"
		o := Guard(func() (types.MalType, error) { return lisp.READ(lisp.PRINT(v), nil, nil) })
		if o.Err != nil || o.Panic != nil || !StrictEq(o.Val, v) {
			rep.Extra["known_confirmed"] = []string{"C06:nul-in-string"}
		}
	}
	// (b) texts
	texts := append([]string{}, c05Wellformed...)
	texts = append(texts, `(1 "a\nb" "\\n" "\"" ¬{"a":"¬¬"}¬ :k x-1 -7 0x10 017 1_0)`, `{"k" [nil true false] :s #{"a"}}`, "'(a `b ~c ~@d @e ^{:m 1} f)", `"{\"k\": 1}"`, "¬plain¬", `("\t" "\r")`)
	soup := []string{"(", ")", "[", "]", "{", "}", "#{", "'", "`", "~", "~@", "@", "\"a\"", "\"\\\\\"", "\"\\n\"", "¬r¬", "¬{\"¬", ":k", "a", "-1", "0x1F", "1_0", "nil", "true", " ", "\n", ";c\n", "\"{\\\"a\\\"}\"", "x-1", "$"}
	m := 1500
	if tier == "thorough" {
		m = 60000
	}
	for i := 0; i < m; i++ {
		var b strings.Builder
		for j, k := 0, 1+r.Intn(10); j < k; j++ {
			b.WriteString(soup[r.Intn(len(soup))] + " ")
		}
		texts = append(texts, b.String())
	}
	for _, t := range texts {
		if strings.Contains(goTokens(t), " -4 ") || strings.HasPrefix(goTokens(t), "T -4 ") {
			continue // floating-point literals are outside the property
		}
		o1 := Guard(func() (types.MalType, error) { return lisp.READ(t, nil, nil) })
		line := readClass(o1) + "| "
		second := "-"
		if o1.Err == nil && o1.Panic == nil {
			o2 := Guard(func() (types.MalType, error) { return lisp.READ(lisp.PRINT(o1.Val), nil, nil) })
			second = readClass(o2)
			if hasMulti(o1.Val) { // maps print in random order; values compared canonically anyway
			}
			if o2.Err != nil || o2.Panic != nil || !StrictEq(o2.Val, o1.Val) {
				rep.Violate(len(rep.cases), "printing an accepted text and reading it again does not give an equal value: "+second, fmt.Sprintf("%q", t))
			}
		}
		rep.Add("X "+encSrc(t), line+second, fmt.Sprintf("read/print/read %q", t), o1.Err == nil, "text", "text-class:"+readClass(o1)[:1])
	}
}
