module verif.local/harness

go 1.18

require (
	github.com/jig/lisp v0.0.0
	github.com/jig/scanner v1.2.0
)

require (
	github.com/chzyer/readline v1.5.1 // indirect
	github.com/davecgh/go-spew v1.1.1 // indirect
	github.com/google/uuid v1.3.0 // indirect
)

replace github.com/jig/lisp => /repo
