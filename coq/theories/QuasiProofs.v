(** C12: quasiquote builds exactly the template.
    For EVERY evaluation function [rho] that gives quote/cons/concat/vec their standard
    meaning, evaluating the expansion computed by [quasiquote] equals the template
    substitution [subst] (state and effect order included: everything is stated in the
    state monad M, pointwise). *)
From Lisp Require Import Base Value Core Env Eval.

Definition meq {A} (m1 m2 : M A) : Prop := forall st, m1 st = m2 st.
Infix "==" := meq (at level 70).

Lemma bindM_cong {A B} (m1 m2 : M A) (f1 f2 : A -> M B) :
  m1 == m2 -> (forall a, f1 a == f2 a) -> bindM m1 f1 == bindM m2 f2.
Proof. intros H1 H2 st. unfold bindM. rewrite H1. destruct (m2 st) as [[a| | |] st']; auto. apply H2. Qed.

Lemma bindM_ret_l {A B} (a : A) (f : A -> M B) : bindM (ret a) f == f a.
Proof. intros st; reflexivity. Qed.

Lemma bindM_assoc {A B C} (m : M A) (f : A -> M B) (g : B -> M C) :
  bindM (bindM m f) g == bindM m (fun a => bindM (f a) g).
Proof. intros st. unfold bindM. destruct (m st) as [[a| | |] st']; auto. Qed.

Lemma meq_refl {A} (m : M A) : m == m. Proof. intros st; reflexivity. Qed.
Lemma meq_trans {A} (a b c : M A) : a == b -> b == c -> a == c.
Proof. intros H1 H2 st; now rewrite H1. Qed.
Lemma meq_sym {A} (a b : M A) : a == b -> b == a.
Proof. intros H st; now rewrite H. Qed.

(** named version of quasiquote's local loop (convertible with it) *)
Fixpoint qq_loop (xs : list val) : val :=
  match xs with
  | [] => VList [] None
  | elt :: r =>
      let acc := qq_loop r in
      match elt with
      | VList e _ =>
          if starts_with e (s_ "splice-unquote")
          then VList [sy "concat"; second e; acc] None
          else VList [sy "cons"; quasiquote elt; acc] None
      | _ => VList [sy "cons"; quasiquote elt; acc] None
      end
  end.

Lemma quasiquote_list l p :
  quasiquote (VList l p) = if starts_with l (s_ "unquote") then second l else qq_loop l.
Proof. reflexivity. Qed.
Lemma quasiquote_vec l p : quasiquote (VVec l p) = VList [sy "vec"; qq_loop l] None.
Proof. reflexivity. Qed.

Definition self_evaluating (v : val) : bool :=
  match v with VList _ _ | VVec _ _ | VMap _ | VSym _ _ => false | _ => true end.

Section Template.
  Variable rho : val -> M val.
  Hypothesis rho_quote : forall x, rho (VList [sy "quote"; x] None) == ret x.
  Hypothesis rho_cons : forall a b,
    rho (VList [sy "cons"; a; b] None) == (let+ x := rho a in let+ y := rho b in lift (b_cons [x; y])).
  Hypothesis rho_concat : forall a b,
    rho (VList [sy "concat"; a; b] None) == (let+ x := rho a in let+ y := rho b in lift (b_concat [x; y])).
  Hypothesis rho_vec : forall a, rho (VList [sy "vec"; a] None) == (let+ x := rho a in lift (b_vec [x])).
  Hypothesis rho_nil : rho (VList [] None) == ret (VList [] None).
  Hypothesis rho_atom : forall a, self_evaluating a = true -> rho a == ret a.

  (** the template semantics, written without reference to the expansion *)
  Fixpoint subst (t : val) : M val :=
    let subst_seq := fix go (l : list val) : M (list val) :=
      match l with
      | [] => ret []
      | elt :: r =>
          match elt with
          | VList e _ =>
              if starts_with e (s_ "splice-unquote") then
                let+ spliced := rho (second e) in
                let+ rest := go r in
                let+ items := lift (get_slice spliced) in
                ret (items ++ rest)
              else let+ x := subst elt in let+ rest := go r in ret (x :: rest)
          | _ => let+ x := subst elt in let+ rest := go r in ret (x :: rest)
          end
      end in
    match t with
    | VVec l _ => let+ xs := subst_seq l in ret (VVec xs None)
    | VMap _ | VSym _ _ => ret t
    | VList l _ => if starts_with l (s_ "unquote") then rho (second l)
                   else let+ xs := subst_seq l in ret (VList xs None)
    | _ => ret t
    end.

  Fixpoint subst_seq (l : list val) : M (list val) :=
    match l with
    | [] => ret []
    | elt :: r =>
        match elt with
        | VList e _ =>
            if starts_with e (s_ "splice-unquote") then
              let+ spliced := rho (second e) in
              let+ rest := subst_seq r in
              let+ items := lift (get_slice spliced) in
              ret (items ++ rest)
            else let+ x := subst elt in let+ rest := subst_seq r in ret (x :: rest)
        | _ => let+ x := subst elt in let+ rest := subst_seq r in ret (x :: rest)
        end
    end.

  Lemma subst_list l p : subst (VList l p) =
    if starts_with l (s_ "unquote") then rho (second l) else let+ xs := subst_seq l in ret (VList xs None).
  Proof. reflexivity. Qed.
  Lemma subst_vec l p : subst (VVec l p) = let+ xs := subst_seq l in ret (VVec xs None).
  Proof. reflexivity. Qed.

  Lemma cons_step x (l : list val) : lift (b_cons [x; VList l None]) == ret (VList (x :: l) None).
  Proof. intros st; reflexivity. Qed.

  Lemma concat_step (sp : val) (l : list val) :
    lift (b_concat [sp; VList l None]) == (let+ items := lift (get_slice sp) in ret (VList (items ++ l) None)).
  Proof.
    intros st. unfold lift, bindM, b_concat. destruct (get_slice sp) as [items| | |]; simpl; auto.
  Qed.

  Lemma qq_loop_correct l :
    Forall (fun x => rho (quasiquote x) == subst x) l ->
    rho (qq_loop l) == (let+ xs := subst_seq l in ret (VList xs None)).
  Proof.
    induction l as [|elt r IH]; intros HF.
    - simpl. eapply meq_trans; [apply rho_nil|]. intros st; reflexivity.
    - inversion HF as [|? ? Hx HF']; subst. specialize (IH HF').
      assert (Hcons : rho (VList [sy "cons"; quasiquote elt; qq_loop r] None) ==
                      (let+ xs := (let+ x := subst elt in let+ rest := subst_seq r in ret (x :: rest)) in ret (VList xs None))).
      { eapply meq_trans; [apply rho_cons|].
        eapply meq_trans; [|apply meq_sym, bindM_assoc].
        apply bindM_cong; [exact Hx|]. intros x.
        eapply meq_trans; [|apply meq_sym, bindM_assoc].
        eapply meq_trans; [apply bindM_cong; [exact IH|intros; apply meq_refl]|].
        eapply meq_trans; [apply bindM_assoc|].
        apply bindM_cong; [apply meq_refl|]. intros rest.
        eapply meq_trans; [apply bindM_ret_l|].
        eapply meq_trans; [apply cons_step|].
        apply meq_sym. eapply meq_trans; [apply bindM_ret_l|]. apply meq_refl. }
      destruct elt; try exact Hcons.
      cbn [qq_loop subst_seq]. destruct (starts_with l (s_ "splice-unquote")) eqn:Es; [|exact Hcons].
      eapply meq_trans; [apply rho_concat|].
      eapply meq_trans; [|apply meq_sym, bindM_assoc].
      apply bindM_cong; [apply meq_refl|]. intros sp.
      eapply meq_trans; [|apply meq_sym, bindM_assoc].
      eapply meq_trans; [apply bindM_cong; [exact IH|intros; apply meq_refl]|].
      eapply meq_trans; [apply bindM_assoc|].
      apply bindM_cong; [apply meq_refl|]. intros rest.
      eapply meq_trans; [apply bindM_ret_l|].
      eapply meq_trans; [apply concat_step|].
      eapply meq_trans; [|apply meq_sym, bindM_assoc].
      apply bindM_cong; [apply meq_refl|]. intros items.
      apply meq_sym. eapply meq_trans; [apply bindM_ret_l|]. apply meq_refl.
  Qed.

  Theorem quasiquote_is_template : forall t, rho (quasiquote t) == subst t.
  Proof.
    induction t using val_ind'; try (apply rho_atom; reflexivity).
    - (* symbol *) simpl. apply rho_quote.
    - (* list *)
      rewrite quasiquote_list, subst_list. destruct (starts_with l (s_ "unquote")); [apply meq_refl|].
      apply qq_loop_correct; auto.
    - (* vector *)
      rewrite quasiquote_vec, subst_vec.
      eapply meq_trans; [apply rho_vec|].
      eapply meq_trans; [apply bindM_cong; [apply qq_loop_correct; auto|intros; apply meq_refl]|].
      eapply meq_trans; [apply bindM_assoc|].
      apply bindM_cong; [apply meq_refl|]. intros xs.
      eapply meq_trans; [apply bindM_ret_l|]. intros st; reflexivity.
    - (* map *) simpl. apply rho_quote.
  Qed.
End Template.
