(** C20: the reflective binder honours the declared contract. *)
From Lisp Require Import Base Value Core Binder.
Local Arguments Z.add : simpl never.
Local Arguments Z.sub : simpl never.
Local Opaque Z.add Z.sub.

Lemma in_firstn {A} n (l : list A) x : In x (firstn n l) -> In x l.
Proof. revert l; induction n; intros [|y l]; simpl; try tauto. intros [?|?]; auto. Qed.

Lemma param_ty_some fx va j : (match va with Some _ => True | None => (j < length fx)%nat end) -> param_ty fx va j <> None.
Proof.
  revert j; induction fx as [|t fx IH]; intros j H; simpl.
  - destruct va; [discriminate | simpl in H; lia].
  - destruct j; [discriminate|]. apply IH. destruct va; auto. simpl in H; lia.
Qed.

Lemma first_bad_none fx va i args :
  (match va with Some _ => True | None => (i + length args <= length fx)%nat end) ->
  first_bad fx va i args = None <-> all_assignable fx va i args = true.
Proof.
  revert i; induction args as [|a r IH]; intros i Hc; simpl.
  - split; reflexivity.
  - destruct (param_ty fx va i) as [t|] eqn:E.
    + destruct (assignable a t); simpl; [apply IH | split; intros H; discriminate H].
      destruct va; auto. simpl in Hc. lia.
    + exfalso. eapply param_ty_some; [|exact E]. destruct va; auto. simpl in Hc; lia.
Qed.

Lemma first_bad_some fx va i args v t :
  first_bad fx va i args = Some (v, t) -> In v args /\ assignable v t = false.
Proof.
  revert i; induction args as [|a r IH]; intros i; simpl; [discriminate|].
  destruct (param_ty fx va i) as [t'|]; [|discriminate].
  destruct (assignable a t') eqn:E.
  - intros H; apply IH in H as [? ?]; auto.
  - intros H; inversion H; subst; auto.
Qed.

(** what "within the contract" means: the count lies within the lisp-visible bounds, covers the
    fixed parameters, does not exceed them for a non-variadic function, and every argument is
    assignable to its parameter *)
Definition within_contract (s : bsig) (mn mx : Z) (args : list val) : bool :=
  let '(lo, hi) := lisp_bounds s mn mx in
  let n := Z.of_nat (length args) in
  (Z.leb lo n && Z.leb n hi)
  && Nat.leb (length (fixed s)) (length args)
  && (match variadic s with None => Nat.leb (length args) (length (fixed s)) | Some _ => true end)
  && all_assignable (fixed s) (variadic s) 0 args.

Theorem gate_iff_contract s mn mx args :
  gate s mn mx args = Ok tt <-> within_contract s mn mx args = true.
Proof.
  unfold gate, within_contract. destruct (lisp_bounds s mn mx) as [lo hi].
  destruct (Z.ltb_spec (Z.of_nat (length args)) lo); simpl.
  { split; [discriminate|]. rewrite !andb_true_iff, Z.leb_le. lia. }
  destruct (Z.ltb_spec hi (Z.of_nat (length args))); simpl.
  { split; [discriminate|]. rewrite !andb_true_iff, !Z.leb_le. lia. }
  assert (Hb : (lo <=? Z.of_nat (length args)) && (Z.of_nat (length args) <=? hi) = true).
  { rewrite andb_true_iff, !Z.leb_le. lia. }
  rewrite Hb. simpl.
  destruct (Nat.ltb_spec (length args) (length (fixed s))).
  { split; [discriminate|]. rewrite !andb_true_iff, Nat.leb_le. lia. }
  assert (Hf : (length (fixed s) <=? length args)%nat = true) by (apply Nat.leb_le; lia).
  rewrite Hf; simpl.
  destruct (variadic s) as [t|].
  - simpl. destruct (first_bad _ _ _ _) as [[v t']|] eqn:E.
    + split; [destruct (first_bad_fixed _ _) as [[? ?]|]; discriminate|]. intros Ha. apply first_bad_none in Ha; [congruence|exact I].
    + split; auto. intros _. now apply first_bad_none.
  - destruct (Nat.ltb_spec (length (fixed s)) (length args)).
    { split; [discriminate|]. rewrite andb_true_iff, Nat.leb_le. lia. }
    assert (Hg : (length args <=? length (fixed s))%nat = true) by (apply Nat.leb_le; lia).
    rewrite Hg; simpl. destruct (first_bad _ _ _ _) as [[v t']|] eqn:E.
    + split; [destruct (first_bad_fixed _ _) as [[? ?]|]; discriminate|]. intros Ha. apply first_bad_none in Ha; [congruence|simpl; lia].
    + split; auto. intros _. apply first_bad_none; [simpl; lia|auto].
Qed.

(** otherwise the caller gets a lisp error about the count or about a type, never a panic *)
Theorem gate_error_class s mn mx args :
  gate s mn mx args = Ok tt \/ gate s mn mx args = Err arity_error \/
  exists v t, (gate s mn mx args = Err (type_error v t) \/ gate s mn mx args = Err (type_error_variadic v t))
              /\ In v args /\ assignable v t = false.
Proof.
  unfold gate. destruct (lisp_bounds s mn mx) as [lo hi].
  repeat match goal with |- context [if ?c then _ else _] => destruct c; auto end.
  destruct (first_bad _ _ _ _) as [[v t]|] eqn:E; auto.
  right; right. destruct (first_bad_fixed (fixed s) args) as [[v' t']|] eqn:E'.
  - exists v', t'. split; auto. unfold first_bad_fixed in E'. apply first_bad_some in E' as [Hin Ha].
    split; auto. eapply in_firstn; eauto.
  - exists v, t. split; auto. eapply first_bad_some; eauto.
Qed.

(** the Go function is entered iff the call is within the contract, and then with exactly the
    arguments given *)
Theorem invoke_enters_iff s mn mx f args :
  (within_contract s mn mx args = true -> invoke s mn mx f args = finish (map_result s (f args))) /\
  (within_contract s mn mx args = false -> exists e, invoke s mn mx f args = Err e /\ forall f', invoke s mn mx f' args = Err e).
Proof.
  split; intros H.
  - apply gate_iff_contract in H. unfold invoke. now rewrite H.
  - unfold invoke. destruct (gate_error_class s mn mx args) as [Hg|[Hg|[v [t [Hg _]]]]].
    + apply gate_iff_contract in Hg. congruence.
    + rewrite Hg. eauto.
    + destruct Hg as [Hg|Hg]; rewrite Hg; eauto.
Qed.

(** effective lisp-visible bounds: the declared ones when given (also for context-taking
    functions, fix 84c9fff), the signature-derived ones otherwise *)
Theorem bind_declared_pair s m M mn mx :
  variadic s <> None -> bind s [m; M] = Bound mn mx -> lisp_bounds s mn mx = (m, M) \/ (M = UNLIMITED /\ has_ctx s = true).
Proof.
  intros Hv. unfold bind. destruct (variadic s); [|congruence].
  destruct (Z.ltb M m); [discriminate|]. destruct (Z.ltb m 0 || Z.ltb M 0); [discriminate|].
  destruct (Nat.ltb 2 (nresults s)); [discriminate|].
  unfold lisp_bounds. destruct (has_ctx s); simpl; intros H; inversion H; subst.
  - destruct (Z.eqb_spec M UNLIMITED); [right; auto | left; f_equal; lia].
  - left; reflexivity.
Qed.

Theorem bind_declared_min s m mn mx :
  variadic s <> None -> bind s [m] = Bound mn mx -> fst (lisp_bounds s mn mx) = m.
Proof.
  intros Hv. unfold bind. destruct (variadic s); [|congruence].
  destruct (Z.ltb UNLIMITED m); [discriminate|]. destruct (Z.ltb m 0 || Z.ltb UNLIMITED 0); [discriminate|].
  destruct (Nat.ltb 2 (nresults s)); [discriminate|].
  unfold lisp_bounds. destruct (has_ctx s); cbn [andb]; intros H; inversion H; subst; cbn [fst]; clear; try reflexivity; ring.
Qed.

Theorem bind_fixed_arity s mn mx :
  variadic s = None -> bind s [] = Bound mn mx ->
  lisp_bounds s mn mx = (Z.of_nat (length (fixed s)), Z.of_nat (length (fixed s))).
Proof.
  intros Hv. unfold bind, num_in. rewrite Hv.
  destruct (Z.ltb _ _); [discriminate|]. destruct (_ || _); [discriminate|].
  destruct (Nat.ltb 2 (nresults s)); [discriminate|].
  unfold lisp_bounds. destruct (has_ctx s); cbn [andb]; intros H; injection H as <- <-; f_equal; lia.
Qed.

(** registration itself panics only for the documented misuse *)
Theorem bind_panics_only_on_misuse s decl why :
  bind s decl = RegPanic why ->
  (variadic s = None /\ (length decl = 1 \/ length decl = 2)%nat)
  \/ (exists m M, decl = [m; M] /\ M < m)
  \/ (exists m, In m decl /\ m < 0)
  \/ (exists m, decl = [m] /\ UNLIMITED < m)
  \/ (2 < nresults s)%nat.
Proof.
  unfold bind. destruct decl as [|m [|M [|x r]]].
  - destruct (variadic s) eqn:Ev; simpl.
    + destruct (Nat.ltb_spec 2 (nresults s)); [auto 6|destruct (has_ctx s); discriminate].
    + destruct (Z.ltb_spec (num_in s) (num_in s)); [lia|].
      destruct (Z.ltb_spec (num_in s) 0); simpl.
      { unfold num_in in *. rewrite Ev in *. destruct (has_ctx s); lia. }
      destruct (Nat.ltb_spec 2 (nresults s)); [auto 6|destruct (has_ctx s); discriminate].
  - destruct (variadic s); [|left; auto].
    destruct (Z.ltb_spec UNLIMITED m); [intros _; right; right; right; left; eauto|].
    destruct (Z.ltb_spec m 0); simpl; [intros _; right; right; left; exists m; simpl; auto|].
    destruct (Nat.ltb_spec 2 (nresults s)); [auto 6|destruct (has_ctx s); discriminate].
  - destruct (variadic s); [|left; auto].
    destruct (Z.ltb_spec M m); [intros _; right; left; eauto|].
    destruct (Z.ltb_spec m 0); simpl; [intros _; right; right; left; exists m; simpl; auto|].
    destruct (Z.ltb_spec M 0); simpl; [intros _; right; right; left; exists M; simpl; auto|].
    destruct (Nat.ltb_spec 2 (nresults s)); [auto 6|destruct (has_ctx s); discriminate].
  - destruct (variadic s) eqn:Ev; simpl.
    + destruct (Nat.ltb_spec 2 (nresults s)); [auto 6|destruct (has_ctx s); discriminate].
    + destruct (Z.ltb_spec (num_in s) (num_in s)); [lia|].
      destruct (Z.ltb_spec (num_in s) 0); simpl.
      { unfold num_in in *. rewrite Ev in *. destruct (has_ctx s); lia. }
      destruct (Nat.ltb_spec 2 (nresults s)); [auto 6|destruct (has_ctx s); discriminate].
Qed.

(** results by convention *)
Theorem result_no_value_is_nil s v : (nresults s < 2)%nat -> map_result s (Ok v) = Ok VNil.
Proof. unfold map_result. destruct (nresults s) as [|[|n]]; auto; lia. Qed.
Theorem result_value s v : (2 <= nresults s)%nat -> map_result s (Ok v) = Ok v.
Proof. unfold map_result. destruct (nresults s) as [|[|n]]; auto; lia. Qed.
Theorem result_error s e : map_result s (Err e) = Err e.
Proof. unfold map_result. destruct (nresults s) as [|[|n]]; auto. Qed.

(** a panic inside becomes a catchable error *)
Theorem panic_contained s mn mx f args site :
  within_contract s mn mx args = true -> f args = Panic site ->
  invoke s mn mx f args = Err (recover_panic site).
Proof.
  intros H Hp. destruct (invoke_enters_iff s mn mx f args) as [He _]. rewrite (He H), Hp.
  unfold map_result. destruct (nresults s) as [|[|n]]; reflexivity.
Qed.
