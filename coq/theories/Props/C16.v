(** C16 — incomplete input is told apart from malformed input. *)
From Lisp Require Import Base Value Core Scanner Reader ReaderProofs IncompleteProofs.
From Lisp.Gen Require Strings.

(** A text that runs out inside open brackets, everything before the end being complete, is
    rejected with "expected 'c', got EOF" where c closes the INNERMOST open bracket — for every
    nesting of lists, vectors, maps, sets, constructor brackets, reader macros and ^meta. *)
Theorem C16_incomplete_names_innermost_closer : forall m ph ext c ts,
  Incomplete m ph ext c ts -> forall fuel, (length ts <= fuel)%nat ->
  eof_error c (read_form m ph ext (S fuel) ts).
Proof. exact incomplete_reads_eof. Qed.

(** a complete expression is accepted and never reported as incomplete *)
Theorem C16_complete_accepted : forall m ph ext ts v, Complete m ph ext ts v -> read_all m ph ext ts = Ok v.
Proof. exact complete_accepted. Qed.
Theorem C16_complete_never_incomplete : forall m ph ext ts v c fuel,
  Complete m ph ext ts v -> (length ts <= fuel)%nat -> ~ eof_error c (read_form m ph ext (S fuel) ts).
Proof. exact complete_never_incomplete. Qed.

(** a surplus closing bracket or a second expression after a complete one: rejected, with an
    error that is not the incomplete-input error, never accepted or truncated *)
Theorem C16_surplus_or_second_expression_rejected : forall m ph ext ts v extra,
  Complete m ph ext ts v -> extra <> [] ->
  read_all m ph ext (ts ++ extra) = Err (VLispErr (VGoErr (s_ "not all tokens where parsed")) None).
Proof. exact complete_then_more_rejected. Qed.

(** an unmatched closing bracket where a form is expected *)
Theorem C16_unmatched_closer : forall m ph ext t rest fuel,
  text_is t ")" = true \/ text_is t "]" = true \/ text_is t "}" = true ->
  exists msg p, read_form m ph ext (S fuel) (t :: rest) = Err (VLispErr (VGoErr msg) p) /\
                (msg = s_ "unexpected ')'" \/ msg = s_ "unexpected ']'" \/ msg = s_ "unexpected '}'").
Proof. exact unexpected_closer. Qed.

(** generated-source obligation: the five messages the REPL's multiLine treats as "keep reading"
    (repl/repl.go, regenerated on every run) are exactly the reader's incomplete-input errors *)
Lemma C16_repl_continuation_messages :
  Strings.repl_multiline_lits =
  map (fun c => s_ "expected '" ++ c ++ s_ "', got EOF") [s_ ")"; s_ "]"; s_ "}"; [187%N]; [172%N]].
Proof. reflexivity. Qed.

(** ... and the reader builds its message from the same pieces (reader/reader.go, regenerated) *)
Lemma C16_reader_message_pieces :
  In (s_ "expected '") Strings.reader_lits_read_list /\ In (s_ "', got EOF") Strings.reader_lits_read_list.
Proof. split; vm_compute; tauto. Qed.

(** non-vacuity: "(a [b" is Incomplete with innermost closer "]", "x" is Complete *)
Definition tk (k : tkind) (s : String.string) : token := mkTok k (s_ s) 1.
Example C16_incomplete_example : forall m ph ext,
  Incomplete m ph ext (s_ "]") [tk (KChar 40) "("; tk KIdent "a"; tk (KChar 91) "["; tk KIdent "b"].
Proof.
  intros m ph ext.
  destruct (complete_symbol m ph ext (tk KIdent "a")) as [va Ha]; try reflexivity.
  destruct (complete_symbol m ph ext (tk KIdent "b")) as [vb Hb]; try reflexivity.
  apply (Inc_nest m ph ext (tk (KChar 40) "(") (s_ ")") 0%nat [tk KIdent "a"] (s_ "]") [tk (KChar 91) "["; tk KIdent "b"]).
  - reflexivity.
  - apply (Items_cons m ph ext (s_ ")") [tk KIdent "a"] va []); [exact Ha | reflexivity | constructor].
  - apply (Inc_open m ph ext (tk (KChar 91) "[") (s_ "]") 1%nat [tk KIdent "b"]); [reflexivity|].
    apply (Items_cons m ph ext (s_ "]") [tk KIdent "b"] vb []); [exact Hb | reflexivity | constructor].
  - reflexivity.
Qed.

Example C16_computed :
  exists p, read_str None None None (s_ "(a [b " ++ [RAWQ] ++ s_ "(" ++ [RAWQ] ++ s_ " ""]"" ; ) comment") = Err (VLispErr (VGoErr (s_ "expected ']', got EOF")) p).
Proof. eexists. vm_compute. reflexivity. Qed.

Print Assumptions C16_incomplete_names_innermost_closer.
Print Assumptions C16_complete_accepted.
Print Assumptions C16_complete_never_incomplete.
Print Assumptions C16_surplus_or_second_expression_rejected.
Print Assumptions C16_unmatched_closer.
