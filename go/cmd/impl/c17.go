package main

import (
	"fmt"
	"strings"

	. "verif.local/harness/h"
)

func init() { runners["C17"] = runC17 }

type c17gen struct {
	r    *Rng
	hist map[string]int
}

// module builds a text "(do <forms>)" with one planted fault; returns the text, the fault's
// line, and the first/last line of the top-level form that textually contains it.
func (g *c17gen) module() (text string, faultLine, fs, fe int, desc string) {
	var lines []string
	add := func(l string) int { lines = append(lines, l); return len(lines) }
	add("(do")
	filler := func() {
		switch g.r.Intn(6) {
		case 0:
			add(";; a comment ( with brackets")
			g.hist["comment-before"]++
		case 1:
			add("")
			g.hist["blank-before"]++
		case 2:
			add("(def ok" + fmt.Sprint(len(lines)) + " (fn [a]")
			add("   ;; inner comment")
			add("   (+ a 1)))")
			g.hist["multiline-form-before"]++
		case 3:
			add("(def raw" + fmt.Sprint(len(lines)) + " ¬multi")
			add("line ( raw")
			add("string¬)")
			g.hist["multiline-raw-string-before"]++
		case 4:
			add("(def s" + fmt.Sprint(len(lines)) + " \"str ; not a comment\")  ; real comment")
		default:
			add("(trace! :ok)")
		}
	}
	for i, n := 0, g.r.Intn(5); i < n; i++ {
		filler()
	}
	fault := []string{"(undefined-sym 1)", "undefined-bare", "(throw \"boom\")", "(throw {:code 7})", "(first 5)", "(nth [1] 9)", "(assert false)", "(assert nil \"msg\")", "(+ 1 \"s\")"}[g.r.Intn(9)]
	desc = fault
	viaFn := g.r.Intn(3) == 0 && fault != "undefined-bare"
	wrap := g.r.Intn(10)
	if viaFn {
		// the fault sits in the body of a function defined here and called by a LATER form
		g.hist["via-earlier-function"]++
		fs = add("(def faulty (fn [x]")
		add("  ;; the fault is on the next line")
		faultLine = add("  (do x " + fault + ")")
		fe = add("  ))")
		for i, n := 0, g.r.Intn(3); i < n; i++ {
			filler()
		}
		call := []string{"(faulty 1)", "(map faulty [1 2])", "(apply faulty [1])", "(swap! (atom 1) faulty)", "(let [y 2] (if true (faulty y)))", "(cond false 1 :else (faulty 3))"}[g.r.Intn(6)]
		desc += " via " + call
		add(call)
	} else {
		switch wrap {
		case 0:
			g.hist["direct"]++
			fs = add(fault)
			faultLine, fe = fs, fs
		case 1:
			g.hist["in-let"]++
			fs = add("(let [a 1")
			add("      b 2]")
			faultLine = add("  " + fault)
			fe = add("  a)")
		case 2:
			g.hist["in-if-do"]++
			fs = add("(if true")
			add("  (do 1")
			faultLine = add("      " + fault + ")")
			fe = add("  :else)")
		case 3:
			g.hist["in-vector-literal"]++
			fs = add("(def lit [1 2")
			faultLine = add("          " + fault)
			fe = add("          3])")
		case 4:
			g.hist["in-map-literal"]++
			fs = add("(def lit {:a 1")
			faultLine = add("          :b " + fault + "})")
			fe = faultLine
		case 5:
			g.hist["in-cond-operand"]++
			fs = add("(cond false 0")
			faultLine = add("      true " + fault)
			fe = add("      :else 2)")
		case 6:
			g.hist["in-thread-macro"]++
			fs = add("(-> 1")
			add("    (+ 2)")
			faultLine = add("    ((fn [v] " + fault + ")))")
			fe = faultLine
		case 7:
			g.hist["in-and-or"]++
			fs = add("(or nil")
			faultLine = add("    (and 1 " + fault + ")")
			fe = add("    3)")
		case 8:
			g.hist["in-call-args"]++
			fs = add("(list 1")
			faultLine = add("      (str \"a\" " + fault + ")")
			fe = add("      2)")
		default:
			g.hist["in-closure-called-here"]++
			fs = add("((fn [q]")
			faultLine = add("   " + fault + ")")
			fe = add(" 5)")
		}
	}
	for i, n := 0, g.r.Intn(3); i < n; i++ {
		filler()
	}
	add(")")
	return strings.Join(lines, "\n"), faultLine, fs, fe, desc
}

func runC17(tier string, seed uint64, rep *Report) {
	rep.Rule = "modules `(do <forms>)` read under the module name \"mod\": 0..4 correct forms, comments, blank lines, multi-line forms and multi-line raw strings, then exactly " +
		"one planted fault (undefined symbol, throw of a string / map, failing builtin, failed assert, type error) directly, inside let / if+do / vector and map literals / cond, -> " +
		"and/or operands / call arguments / an immediately called closure, or inside the body of a function defined by that form and called by a LATER form (directly, via map, " +
		"apply, swap!, let+if, cond); the generator knows the fault's line and the first/last line of the top-level form containing it. Direct oracle: the error carries a " +
		"position that names the module, lies within those lines and covers the fault's line. The model (scanner+reader+evaluator) predicts the same begin/end rows. " +
		"Non-trivial: every case."
	g := &c17gen{r: NewRng(seed), hist: map[string]int{}}
	n := 700
	if tier == "thorough" {
		n = 20000
	}
	for i := 0; i < n; i++ {
		text, fl, fs, fe, desc := g.module()
		_, full, o := evalText(text, true)
		idx := rep.Add("E 1 "+encSrc(text), full, fmt.Sprintf("fault %s at line %d of form %d..%d in module:\n%s", desc, fl, fs, fe, text), true, "module")
		if o.Panic != nil {
			rep.Violate(idx, fmt.Sprintf("panic: %v", o.Panic), text)
			continue
		}
		if o.Err == nil {
			rep.Violate(idx, "the planted fault did not produce an error", text)
			continue
		}
		var m, b, e int
		if _, err := fmt.Sscanf(posLine(o), "p %d %d %d", &m, &b, &e); err != nil {
			rep.Violate(idx, fmt.Sprintf("the error carries no position (%s): fault %s at line %d", posLine(o), desc, fl), text)
			continue
		}
		if m != 1 || b < fs || e > fe || b > fl || e < fl {
			rep.Violate(idx, fmt.Sprintf("wrong position for fault %s: reported rows %d..%d (module named: %v), the fault is on line %d of the top-level form spanning lines %d..%d", desc, b, e, m == 1, fl, fs, fe), text)
		}
	}
	mergeHist(rep, g.hist)
}
