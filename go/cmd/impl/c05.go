package main

import (
	"sync"
	"context"
	"fmt"
	"strings"
	"time"

	lisp "github.com/jig/lisp"
	"github.com/jig/lisp/reader"
	"github.com/jig/lisp/types"
	"github.com/jig/scanner"
	. "verif.local/harness/h"
)

func init() { runners["C05"] = runC05 }

func encSrc(s string) string {
	cps := CodePoints(s)
	var b strings.Builder
	fmt.Fprintf(&b, "%d ", len(cps))
	for _, c := range cps {
		fmt.Fprintf(&b, "%d ", c)
	}
	return b.String()
}

// goTokens replays reader.tokenize on the third-party scanner and prints what op T prints.
func goTokens(src string) string {
	var s scanner.Scanner
	s.Init(strings.NewReader(src))
	var b strings.Builder
	b.WriteString("T ")
	for tok := s.Scan(); tok != scanner.EOF; tok = s.Scan() {
		if s.ErrorCount != 0 {
			return "X"
		}
		fmt.Fprintf(&b, "%d ", tok)
		b.WriteString(encSrc(s.TokenText()))
		fmt.Fprintf(&b, "%d ", s.Pos().Line)
	}
	return b.String()
}

// readClass is the canonical outcome of a read, as Run.show_read_outcome prints it
func readClass(o Outcome) string {
	if o.Panic != nil {
		return "P"
	}
	if o.Err != nil {
		msg := ""
		if ev, ok := o.Err.(interface{ ErrorValue() types.MalType }); ok {
			if e, ok := ev.ErrorValue().(error); ok {
				msg = e.Error()
			}
		} else {
			msg = o.Err.Error()
		}
		if strings.HasPrefix(msg, "expected '") && strings.HasSuffix(msg, "', got EOF") {
			mid := strings.TrimSuffix(strings.TrimPrefix(msg, "expected '"), "', got EOF")
			cps := CodePoints(mid)
			if len(cps) == 1 {
				return fmt.Sprintf("Q %d", cps[0])
			}
		}
		return "E"
	}
	return "V " + EncS(o.Val)
}

// watchdog runs f with a time limit (the hang oracle)
func watchdog(f func() Outcome) (Outcome, bool) {
	done := make(chan Outcome, 1)
	go func() { done <- f() }()
	select {
	case o := <-done:
		return o, true
	case <-time.After(2 * time.Second):
		return Outcome{}, false
	}
}

var c05World *World

// readAll runs one text through every read entry point; adds the model cases.
func readAll(rep *Report, src string, tag string) {
	if c05World == nil {
		c05World, _ = NewWorld()
	}
	pretty := fmt.Sprintf("%q", src)
	nontrivial := strings.ContainsAny(src, "()[]{}'`~^@\"¬$«»;:")
	rep.Add("T "+encSrc(src), goTokens(src), "tokenize "+pretty, nontrivial, tag, "tokens")
	type route struct {
		name, wire string
		run        func() (types.MalType, error)
	}
	ph := &types.HashMap{Val: map[string]types.MalType{"$A": 7, "$B": types.List{Val: []types.MalType{types.Symbol{Val: "x"}}}}}
	phWire := "1 2 " + encSrc("$A") + "i 7 " + encSrc("$B") + "l 1 y 1 120 "
	routes := []route{
		{"READ", "R 0 0 0 ", func() (types.MalType, error) { return lisp.READ(src, nil, nil) }},
		{"READ+module", "R 1 0 0 ", func() (types.MalType, error) { return lisp.READ(src, types.NewCursorFile("mod"), nil) }},
		{"Read_str+placeholders", "R 0 " + phWire + "0 ", func() (types.MalType, error) { return reader.Read_str(src, nil, ph) }},
		{"READ+env", "R 0 0 1 ", func() (types.MalType, error) { return lisp.READ(src, nil, c05World.Env) }},
	}
	for _, rt := range routes {
		o, ok := watchdog(func() Outcome { return Guard(rt.run) })
		line := "HANG"
		if ok {
			line = readClass(o)
		}
		idx := rep.Add(rt.wire+encSrc(src), line, rt.name+" "+pretty, nontrivial, "route:"+rt.name, "class:"+line[:1])
		if !ok {
			rep.Violate(idx, rt.name+" did not return within 2s", pretty)
			emergencyFlush(rep)
		} else if o.Panic != nil {
			rep.Violate(idx, fmt.Sprintf("%s panicked: %v", rt.name, o.Panic), pretty)
		} else if o.Err == nil { // PRINT of the result terminates and returns a string
			po, pok := watchdog(func() Outcome {
				return Guard(func() (types.MalType, error) { return lisp.PRINT(o.Val), nil })
			})
			if !pok || po.Panic != nil {
				rep.Violate(idx, fmt.Sprintf("PRINT of the result of %s panicked or hung: %v", rt.name, po.Panic), pretty)
			}
		}
	}
	// routes without a model case yet: READWithPreamble and the read-string builtin (direct oracle only)
	for name, run := range map[string]func() (types.MalType, error){
		"READWithPreamble": func() (types.MalType, error) { return lisp.READWithPreamble(src, nil, nil) },
		"READWithPreamble+env": func() (types.MalType, error) { return lisp.READWithPreamble(src, types.NewCursorFile("mod"), c05World.Env) },
		"read-string": func() (types.MalType, error) {
			return lisp.EVAL(context.Background(), types.List{Val: []types.MalType{types.Symbol{Val: "read-string"}, src}}, c05World.Env)
		},
	} {
		o, ok := watchdog(func() Outcome { return Guard(run) })
		rep.Histogram["oracle-only:"+name]++
		if !ok {
			rep.Violate(-1, name+" did not return within 2s", pretty)
			emergencyFlush(rep)
		} else if o.Panic != nil {
			rep.Violate(-1, fmt.Sprintf("%s panicked: %v", name, o.Panic), pretty)
		}
	}
}

var c05Alphabet = []string{"(", ")", "[", "]", "{", "}", "#{", "'", "`", "~", "~@", "^", "@", "\"", "¬", ";", "$", ":", "«", "»", "\n", "a", "1", "\\", " ", "\xff", "\x00", "-", ".", "$A", "_", "0x", "e"}

var c05Wellformed = []string{
	`(def f (fn [a & r] (if (= a 0) "zero" (f (- a 1)))))`, `{:a 1 "b" [1 2 #{"x" :y}]}`, "'(1 ~x ~@(list 2 3) `y ^{:m 1} z @w)",
	"(str \"a\\\"b\\\\n\" ¬raw¬¬text¬ :kw -12 0x1F 1_000 3.5e2)", ";; $MODULE m.lisp\n(do ; c\n  (a)\n  $A $B)", "«atom 1»", "(prn \"$A is\" $A) ; tail",
	"[\"(\" ¬)¬ \"]\"] ; ( unbalanced in comment", "(a\r\n b\t c)", "(-> x (f 1) g)", "#{} {} () []", "(try (throw 1) (catch e e) (finally 2))",
}

func runC05(tier string, seed uint64, rep *Report) {
	rep.Rule = "byte strings: (i) every string of length <= 3 (<= 4 thorough) over a 33-symbol alphabet of delimiters, reader macros, quotes, raw-string quote, " +
		"comment, placeholder, keyword, constructor brackets, newline, an invalid UTF-8 byte, NUL, number prefixes; (ii) every prefix and every single-rune deletion of " +
		"well-formed texts (truncation anywhere); (iii) seeded random token soups; (iv) texts that straddle the scanner's 1024-byte buffer with multi-byte runes and long tokens. " +
		"Each text goes through the scanner (token kinds, texts, lines vs the model), READ (with and without module), Read_str with placeholder values, READ with an environment " +
		"(each vs the model), READWithPreamble and the read-string builtin (direct oracle only), then PRINT. Direct oracle: panic or 2 s watchdog. " +
		"Non-trivial: the text contains a delimiter, quote, reader macro or placeholder character."
	maxLen := 3
	if tier == "thorough" {
		maxLen = 4
	}
	count := 0
	var rec func(prefix string, left int)
	rec = func(prefix string, left int) {
		readAll(rep, prefix, "exhaustive")
		count++
		if left == 0 {
			return
		}
		for _, a := range c05Alphabet {
			rec(prefix+a, left-1)
		}
	}
	if tier == "thorough" {
		rec("", maxLen)
	} else { // quick: all of length <= 2, a seeded third of length 3
		r0 := NewRng(seed + 5)
		for _, a := range c05Alphabet {
			readAll(rep, a, "exhaustive")
			for _, b := range c05Alphabet {
				readAll(rep, a+b, "exhaustive")
				for _, c := range c05Alphabet {
					if r0.Intn(6) == 0 {
						readAll(rep, a+b+c, "exhaustive-sampled")
					}
				}
			}
		}
		readAll(rep, "", "exhaustive")
	}
	for _, w := range c05Wellformed {
		rs := []rune(w)
		for i := 0; i <= len(rs); i++ {
			readAll(rep, string(rs[:i]), "prefix")
			if i < len(rs) && (tier == "thorough" || i%3 == 0) {
				readAll(rep, string(rs[:i])+string(rs[i+1:]), "deletion")
			}
		}
	}
	r := NewRng(seed)
	n := 600
	if tier == "thorough" {
		n = 30000
	}
	soup := append(append([]string{}, c05Alphabet...), "abc", "nil", "true", ":k", "\"s\"", "¬r¬", "12", "-3", "1.5", "é", "ʞ", "日本", "\t", "x-1", "$B", "new-", "0b12", "1__0", "\\n", "\\\"")
	for i := 0; i < n; i++ {
		var b strings.Builder
		for j, m := 0, 1+r.Intn(12); j < m; j++ {
			b.WriteString(soup[r.Intn(len(soup))])
			if r.Intn(3) == 0 {
				b.WriteString(" ")
			}
		}
		readAll(rep, b.String(), "soup")
	}
	// number-token torture: every string of length <= 4 over the number alphabet (tokens + READ only)
	numAlpha := []string{"0", "1", "9", "x", "X", "b", "o", "_", ".", "e", "p", "-", "+", "f", "8"}
	var nrec func(prefix string, left int)
	nrec = func(prefix string, left int) {
		if prefix != "" && (tier == "thorough" || len(prefix) < 3 || r.Intn(8) == 0) {
			rep.Add("T "+encSrc(prefix), goTokens(prefix), "tokenize "+fmt.Sprintf("%q", prefix), true, "numbers", "tokens")
			o := Guard(func() (types.MalType, error) { return lisp.READ(prefix, nil, nil) })
			idx := rep.Add("R 0 0 0 "+encSrc(prefix), readClass(o), "READ "+fmt.Sprintf("%q", prefix), true, "numbers")
			if o.Panic != nil {
				rep.Violate(idx, fmt.Sprintf("READ panicked: %v", o.Panic), fmt.Sprintf("%q", prefix))
			}
		}
		if left == 0 {
			return
		}
		for _, a := range numAlpha {
			nrec(prefix+a, left-1)
		}
	}
	nrec("", 4)
	// (iv) buffer boundary
	for _, padLen := range []int{1015, 1020, 1022, 1023, 1024, 1025, 2040, 2047, 2048} {
		for _, tail := range []string{"日本語 (a \"str日本\" ¬raw¬) :kw", "\"" + strings.Repeat("é", 30) + "\"", "(" + strings.Repeat("x", 40) + ")", ";c\n(1 2", "\xff"} {
			readAll(rep, "("+strings.Repeat(" ", padLen)+tail, "buffer-boundary")
			readAll(rep, strings.Repeat("a", padLen)+tail, "buffer-boundary-long-token")
		}
	}
	rep.Extra["exhaustive_inputs"] = count
	// (v) reads that OVERLAP in time (goroutines of a host, futures calling read-string): each yields what it yields alone.
	// Texts with names never read before in this process (keywords, symbols, strings, constructor-free forms).
	{
		per := 1500
		if tier == "thorough" {
			per = 20000
		}
		var wg sync.WaitGroup
		bad := make([]string, 16)
		for gi := 0; gi < 16; gi++ {
			wg.Add(1)
			go func(gi int) {
				defer wg.Done()
				defer func() {
					if r := recover(); r != nil {
						bad[gi] = fmt.Sprintf("panic in an overlapping read: %v", r)
					}
				}()
				for i := 0; i < per; i++ {
					src := fmt.Sprintf("(:kw-%d-%d sym-%d-%d \"s%d\" {:k%d-%d [%d ¬raw%d¬]} 'q%d-%d)", gi, i, gi, i, i, gi, i, i, i, gi, i)
					ast, err := lisp.READ(src, nil, nil)
					if err != nil {
						bad[gi] = "overlapping read failed: " + src + ": " + err.Error()
						return
					}
					if got := lisp.PRINT(ast); !strings.HasPrefix(got, fmt.Sprintf("(:kw-%d-%d sym-%d-%d \"s%d\" {:k%d-%d [%d ", gi, i, gi, i, i, gi, i, i)) || !strings.HasSuffix(got, fmt.Sprintf("(quote q%d-%d))", gi, i)) {
						bad[gi] = "overlapping read gave another form: " + src + " => " + got
						return
					}
				}
			}(gi)
		}
		wg.Wait()
		idx := rep.Add("R 0 0 0 "+encSrc("nil"), readClass(Guard(func() (types.MalType, error) { return lisp.READ("nil", nil, nil) })), "16 goroutines x reads of texts with fresh names", true, "overlapping-reads")
		rep.Histogram["overlapping-reads:texts"] = 16 * per
		for _, b := range bad {
			if b != "" {
				rep.Violate(idx, b, "16 goroutines each calling lisp.READ on texts like (:kw-G-I sym-G-I \"sI\" {:kG-I [I ¬rawI¬]} 'qG-I) with G, I fresh")
				break
			}
		}
	}
}
