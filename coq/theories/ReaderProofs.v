(** C05: reading is total — for every rune list, tokenize and read_str neither panic nor run
    out of fuel (the fuel is a device of the model: it is shown to be always sufficient). *)
From Lisp Require Import Base Value Core Scanner Reader BaseProofs.
Local Open Scope nat_scope.

(** ---------- the scanner returns suffixes and makes progress ---------- *)
Lemma drop_while_le p l : length (drop_while p l) <= length l.
Proof. induction l as [|c r IH]; simpl; auto. destruct (p c); simpl; lia. Qed.

Lemma scan_identifier_lt l : l <> [] -> length (scan_identifier l) < length l.
Proof. destruct l as [|c r]; [congruence|]. intros _. simpl. pose proof (drop_while_le (isIdentRune true) r). lia. Qed.

Lemma digits_le base : forall l ds inv, length (fst (fst (digits base l ds inv))) <= length l.
Proof.
  induction l as [|c r IH]; intros ds inv; simpl; auto.
  destruct (N.leb base 10).
  - destruct (isDecimal c || N.eqb c 95)%bool; simpl; auto; (etransitivity; [apply IH|]; lia).
  - destruct (isHex c || N.eqb c 95)%bool; simpl; auto; (etransitivity; [apply IH|]; lia).
Qed.

Lemma tl_le {A} (l : list A) : length (tl l) <= length l.
Proof. destruct l; simpl; lia. Qed.

Lemma scan_digits_le : forall n l base, length (fst (scan_digits l base n)) <= length l.
Proof.
  induction n as [|n IH]; intros l base.
  - simpl. lia.
  - destruct l as [|c r].
    + simpl. lia.
    + cbn [scan_digits]. destruct (N.ltb (digit_val c) base).
      * specialize (IH r base). simpl. lia.
      * simpl. lia.
Qed.

Lemma scan_escape_le l : length (fst (scan_escape l)) <= length l.
Proof.
  unfold scan_escape. destruct l as [|c r]; [simpl; lia|].
  destruct (existsb _ _); [simpl; lia|].
  destruct (_ && _)%bool; [apply (scan_digits_le 3 (c :: r))|].
  destruct (N.eqb c 120); [pose proof (scan_digits_le 2 r 16%N); cbn [length]; lia|].
  destruct (N.eqb c 117); [pose proof (scan_digits_le 4 r 16%N); cbn [length]; lia|].
  destruct (N.eqb c 85); [pose proof (scan_digits_le 8 r 16%N); cbn [length]; lia|]. cbn [fst length]; lia.
Qed.

(** a string literal scanned without error ends after its closing quote: at least one rune consumed *)
Lemma scan_string_lt : forall fuel l err rest, scan_string fuel l err = (rest, false) -> length rest < length l.
Proof.
  induction fuel as [|fuel IH]; intros l err rest; simpl; [discriminate|].
  destruct l as [|c r]; [discriminate|].
  destruct (N.eqb c 34); [intros [= <- _]; simpl; lia|].
  destruct (N.eqb c 10); [discriminate|].
  destruct (N.eqb c 92).
  - destruct (scan_escape r) as [r' e] eqn:E. intros H. apply IH in H.
    pose proof (scan_escape_le r) as Hle. rewrite E in Hle. simpl in *. lia.
  - intros H. apply IH in H. simpl. lia.
Qed.

Lemma scan_string_le : forall fuel l err, length (fst (scan_string fuel l err)) <= length l.
Proof.
  induction fuel as [|fuel IH]; intros l err; simpl; auto.
  destruct l as [|c r]; simpl; auto.
  destruct (N.eqb c 34); simpl; [lia|]. destruct (N.eqb c 10); simpl; [lia|].
  destruct (N.eqb c 92).
  - destruct (scan_escape r) as [r' e] eqn:E. pose proof (scan_escape_le r) as Hle. rewrite E in Hle.
    specialize (IH r' (err || e)%bool). simpl in *. lia.
  - specialize (IH r err). lia.
Qed.

Lemma scan_raw_lt_n : forall n l rest e, length l <= n -> l <> [] -> scan_raw l = (rest, e) -> length rest < length l.
Proof.
  induction n as [|n IH]; intros l rest e Hn Hne.
  - destruct l; [congruence | simpl in Hn; lia].
  - destruct l as [|c r]; [congruence|]. cbn [scan_raw].
    destruct (N.eqb c RAWQ).
    + destruct r as [|c2 r2]; [intros [= <- _]; simpl; lia|].
      destruct (N.eqb c2 RAWQ).
      * destruct r2 as [|c3 r3]; [cbn [scan_raw]; intros [= <- _]; simpl; lia|].
        intros H. apply IH in H; [cbn [length] in *; lia | cbn [length] in *; lia | discriminate].
      * intros [= <- _]. simpl. lia.
    + destruct r as [|c2 r2]; [cbn [scan_raw]; intros [= <- _]; simpl; lia|].
      intros H. apply IH in H; [cbn [length] in *; lia | cbn [length] in *; lia | discriminate].
Qed.

Lemma scan_raw_lt l rest e : l <> [] -> scan_raw l = (rest, e) -> length rest < length l.
Proof. apply (scan_raw_lt_n (length l)); lia. Qed.

Lemma scan_raw_nil : forall e rest, scan_raw [] = (rest, e) -> rest = [] /\ e = true.
Proof. simpl. intros e rest [= <- <-]; auto. Qed.

(** scan_number returns a suffix of what it was given, a strict one when it starts on a digit *)
Lemma num_prefix_le l sd : length (snd (num_prefix l sd)) <= length l.
Proof.
  unfold num_prefix. destruct sd; simpl; auto.
  destruct (head_is l 48); simpl; auto.
  pose proof (tl_le l). pose proof (tl_le (tl l)).
  destruct (head_lower_is (tl l) 120); simpl; [lia|].
  destruct (head_lower_is (tl l) 111); simpl; [lia|].
  destruct (head_lower_is (tl l) 98); simpl; lia.
Qed.

Lemma num_int_le base ds l sd : length (fst (fst (fst (num_int base ds l sd)))) <= length l.
Proof.
  unfold num_int. destruct sd; simpl; auto.
  destruct (digits base l ds 0) as [[r d] inv] eqn:E.
  pose proof (digits_le base l ds 0%N) as H. rewrite E in H. simpl in H.
  destruct (head_is r 46); simpl; [pose proof (tl_le r); lia | lia].
Qed.

Lemma num_frac_le base l ds inv sd : length (fst (fst (num_frac base l ds inv sd))) <= length l.
Proof. unfold num_frac. destruct sd; simpl; auto. apply digits_le. Qed.

Lemma num_exp_le l : length (fst (fst (num_exp l))) <= length l.
Proof.
  unfold num_exp. destruct (_ || _)%bool; simpl; auto.
  set (r0 := if (head_is (tl l) 43 || head_is (tl l) 45)%bool then tl (tl l) else tl l).
  destruct (digits 10 r0 0 0) as [[r' ds] inv] eqn:E.
  pose proof (digits_le 10%N r0 0%N 0%N) as H. rewrite E in H. simpl in *.
  assert (length r0 <= length l).
  { unfold r0. pose proof (tl_le l). pose proof (tl_le (tl l)). destruct (_ || _)%bool; lia. }
  lia.
Qed.

Lemma digits_head base c r ds inv :
  isDecimal c = true -> N.leb base 10 = true -> length (fst (fst (digits base (c :: r) ds inv))) <= length r.
Proof. intros Hc Hb. simpl. rewrite Hb, Hc. simpl. apply digits_le. Qed.

Lemma scan_number_le tok0 l sd neg : length (snd (fst (scan_number tok0 l sd neg))) <= length l.
Proof.
  unfold scan_number.
  destruct (num_prefix l sd) as [[[base prefix] ds0] l1] eqn:H1.
  destruct (num_int base ds0 l1 sd) as [[[l2 ds1] inv1] sd1] eqn:H2.
  destruct (num_frac base l2 ds1 inv1 sd1) as [[l3 ds2] inv2] eqn:H3.
  destruct (num_exp l3) as [[l4 dsE] he] eqn:H4. cbn [fst snd].
  pose proof (num_prefix_le l sd) as A. rewrite H1 in A. simpl in A.
  pose proof (num_int_le base ds0 l1 sd) as B. rewrite H2 in B. simpl in B.
  pose proof (num_frac_le base l2 ds1 inv1 sd1) as C. rewrite H3 in C. simpl in C.
  pose proof (num_exp_le l3) as D. rewrite H4 in D. simpl in D. lia.
Qed.

Lemma isDecimal_48 c : N.eqb c 48 = true -> isDecimal c = true.
Proof. intros H. apply N.eqb_eq in H. subst. reflexivity. Qed.

Lemma scan_number_lt tok0 c r sd neg :
  isDecimal c = true -> length (snd (fst (scan_number tok0 (c :: r) sd neg))) <= length r.
Proof.
  intros Hc.
  unfold scan_number.
  destruct (num_prefix (c :: r) sd) as [[[base prefix] ds0] l1] eqn:H1.
  destruct (num_int base ds0 l1 sd) as [[[l2 ds1] inv1] sd1] eqn:H2.
  destruct (num_frac base l2 ds1 inv1 sd1) as [[l3 ds2] inv2] eqn:H3.
  destruct (num_exp l3) as [[l4 dsE] he] eqn:H4. cbn [fst snd].
  pose proof (num_int_le base ds0 l1 sd) as B. rewrite H2 in B. simpl in B.
  pose proof (num_frac_le base l2 ds1 inv1 sd1) as C. rewrite H3 in C. simpl in C.
  pose proof (num_exp_le l3) as D. rewrite H4 in D. simpl in D.
  destruct sd.
  - (* fraction first: .5 — the digit is consumed by num_frac *)
    unfold num_prefix in H1. inversion H1; subst. unfold num_int in H2. inversion H2; subst.
    unfold num_frac in H3. pose proof (digits_head 10%N c r 0%N 0%N Hc eq_refl) as E. rewrite H3 in E. simpl in E. lia.
  - unfold num_prefix in H1. cbn [head_is] in H1. destruct (N.eqb c 48) eqn:E0.
    + (* leading 0: consumed by the prefix stage *)
      assert (length l1 <= length r).
      { cbn [tl] in H1. pose proof (tl_le r).
        destruct (head_lower_is r 120); [inversion H1; subst; lia|].
        destruct (head_lower_is r 111); [inversion H1; subst; lia|].
        destruct (head_lower_is r 98); inversion H1; subst; lia. }
      lia.
    + inversion H1; subst. unfold num_int in H2.
      destruct (digits 10 (c :: r) 0 0) as [[r' d] inv] eqn:ED.
      pose proof (digits_head 10%N c r 0%N 0%N Hc eq_refl) as E. rewrite ED in E. simpl in E.
      destruct (head_is r' 46); inversion H2; subst; [pose proof (tl_le r'); lia | lia].
Qed.

Lemma skip_blank_le : forall fuel l, length (skip_blank fuel l) <= length l.
Proof.
  induction fuel as [|fuel IH]; intros l; simpl; auto.
  destruct l as [|c r]; auto. destruct (is_ws c); [specialize (IH r); simpl; lia|].
  destruct (N.eqb c 59); [|lia].
  pose proof (drop_while_le (fun x => negb (N.eqb x 10)) r). specialize (IH (drop_while (fun x => negb (N.eqb x 10)) r)). simpl. lia.
Qed.

(** every Scan consumes at least one rune: tokenize's fuel (the input length) is never the
    reason it stops *)
Lemma scan_token_progress l : l <> [] -> length (snd (fst (scan_token l))) < length l.
Proof.
  destruct l as [|c0 r]; [congruence|]. intros _. unfold scan_token.
  destruct (isIdentRune false c0); [cbn [fst snd]; apply scan_identifier_lt; discriminate|].
  destruct (isDecimal (norm c0)) eqn:Ed.
  { assert (Hc : isDecimal c0 = true).
    { unfold norm in Ed. destruct (is_bad c0); [discriminate | exact Ed]. }
    pose proof (scan_number_lt (c0 :: r) c0 r false false Hc). simpl length. lia. }
  destruct (N.eqb (norm c0) 45).
  { destruct r as [|d r']; [simpl; lia|].
    destruct (isIdentRune false d); [cbn [fst snd]; pose proof (scan_identifier_lt (d :: r')); simpl length in *; assert (d :: r' <> []) by discriminate; intuition lia|].
    destruct (isDecimal (norm d)) eqn:Ed2.
    - assert (Hd : isDecimal d = true) by (unfold norm in Ed2; destruct (is_bad d); [discriminate | exact Ed2]).
      pose proof (scan_number_lt (c0 :: d :: r') d r' false true Hd). simpl length. lia.
    - simpl. lia. }
  destruct (N.eqb (norm c0) 34).
  { destruct (scan_string (S (length r)) r false) as [r' e] eqn:E. cbn [fst snd].
    pose proof (scan_string_le (S (length r)) r false) as H. rewrite E in H. simpl in *. lia. }
  destruct (N.eqb (norm c0) 58); [cbn [fst snd]; apply scan_identifier_lt; discriminate|].
  destruct (N.eqb (norm c0) 46).
  { destruct r as [|d r']; [simpl; lia|]. destruct (isDecimal (norm d)) eqn:Ed2; [|simpl; lia].
    assert (Hd : isDecimal d = true) by (unfold norm in Ed2; destruct (is_bad d); [discriminate | exact Ed2]).
    pose proof (scan_number_lt (c0 :: d :: r') d r' true false Hd). simpl length. lia. }
  destruct (N.eqb (norm c0) RAWQ).
  { destruct (scan_raw r) as [r' e] eqn:E. cbn [fst snd]. destruct r as [|c1 r1].
    - apply scan_raw_nil in E as [-> _]. simpl; lia.
    - apply scan_raw_lt in E; [simpl in *; lia | discriminate]. }
  destruct (N.eqb (norm c0) 126); [destruct (head_is r 64); cbn [fst snd]; simpl length; pose proof (tl_le r); lia|].
  destruct (N.eqb (norm c0) 35); [destruct (head_is r 123); cbn [fst snd]; simpl length; pose proof (tl_le r); lia|].
  simpl. lia.
Qed.

(** tokenize does not depend on its fuel: any fuel above the input length gives the same
    result, i.e. the loop always ends because the input is exhausted *)
Lemma tokenize_n_fuel : forall fuel whole l sb, length l < fuel ->
  tokenize_n fuel whole l sb = tokenize_n (S fuel) whole l sb.
Proof.
  induction fuel as [|fuel IH]; intros whole l sb Hlt; [lia|].
  cbn [tokenize_n].
  pose proof (skip_blank_le (S (length l)) l) as Hs.
  destruct (skip_blank (S (length l)) l) as [|c l1] eqn:E1; auto.
  pose proof (scan_token_progress (c :: l1)) as Hp.
  destruct (scan_token (c :: l1)) as [[k rest] lexerr] eqn:E2. cbn [fst snd] in Hp.
  assert (Hr : length rest < length (c :: l1)) by (apply Hp; discriminate).
  destruct (_ || lexerr)%bool; auto.
  rewrite (IH whole rest false) by (simpl in *; lia). reflexivity.
Qed.

(** ---------- tokens produced by the scanner have the shape the reader's slices rely on ---------- *)
Definition tok_wf (t : token) : Prop :=
  match tkind_of t with
  | KString | KRawString => 2 <= length (ttext t)
  | KKeyword => 1 <= length (ttext t)
  | _ => True
  end.

Lemma consumed_length l rest : length rest <= length l -> length (consumed l rest) = length l - length rest.
Proof. intros H. unfold consumed. rewrite firstn_length. lia. Qed.

Lemma scan_number_kind tok0 l sd neg :
  match fst (fst (scan_number tok0 l sd neg)) with KInt | KFloat | KChar _ => True | _ => False end.
Proof.
  unfold scan_number.
  destruct (num_prefix l sd) as [[[base prefix] ds0] l1].
  destruct (num_int base ds0 l1 sd) as [[[l2 ds1] inv1] sd1].
  destruct (num_frac base l2 ds1 inv1 sd1) as [[l3 ds2] inv2].
  destruct (num_exp l3) as [[l4 dsE] he]. cbn [fst snd].
  destruct he; [exact I|]. destruct (_ && neg)%bool; [exact I|]. destruct sd1; exact I.
Qed.

Lemma scan_token_wf l k rest line :
  l <> [] -> scan_token l = (k, rest, false) -> tok_wf (mkTok k (consumed l rest) line).
Proof.
  intros Hne H. pose proof (scan_token_progress l Hne) as Hp. rewrite H in Hp. cbn [fst snd] in Hp.
  unfold tok_wf. cbn [tkind_of ttext]. rewrite consumed_length by lia.
  destruct l as [|c0 r]; [congruence|]. unfold scan_token in H.
  destruct (isIdentRune false c0); [inversion H; subst; exact I|].
  destruct (isDecimal (norm c0)).
  { pose proof (scan_number_kind (c0 :: r) (c0 :: r) false false) as Hk. rewrite H in Hk. cbn [fst] in Hk.
    destruct k; try contradiction; exact I. }
  destruct (N.eqb (norm c0) 45).
  { destruct r as [|d r']; [inversion H; subst; exact I|].
    destruct (isIdentRune false d); [inversion H; subst; exact I|].
    destruct (isDecimal (norm d)); [|inversion H; subst; exact I].
    pose proof (scan_number_kind (c0 :: d :: r') (d :: r') false true) as Hk. rewrite H in Hk. cbn [fst] in Hk.
    destruct k; try contradiction; exact I. }
  destruct (N.eqb (norm c0) 34).
  { destruct (scan_string (S (length r)) r false) as [r' e] eqn:E. inversion H; subst.
    apply scan_string_lt in E. simpl length. lia. }
  destruct (N.eqb (norm c0) 58); [inversion H; subst; simpl length in *; lia|].
  destruct (N.eqb (norm c0) 46).
  { destruct (match r with d :: _ => isDecimal (norm d) | [] => false end); [|inversion H; subst; exact I].
    pose proof (scan_number_kind (c0 :: r) r true false) as Hk. rewrite H in Hk. cbn [fst] in Hk.
    destruct k; try contradiction; exact I. }
  destruct (N.eqb (norm c0) RAWQ).
  { destruct (scan_raw r) as [r' e] eqn:E. inversion H; subst. destruct r as [|c1 r1].
    - simpl in E. inversion E.
    - apply scan_raw_lt in E; [simpl length in *; lia | discriminate]. }
  destruct (N.eqb (norm c0) 126); [destruct (head_is r 64); inversion H; subst; exact I|].
  destruct (N.eqb (norm c0) 35); [destruct (head_is r 123); inversion H; subst; exact I|].
  inversion H; subst; exact I.
Qed.

Lemma tokenize_n_wf : forall fuel whole l sb ts, tokenize_n fuel whole l sb = Some ts -> Forall tok_wf ts.
Proof.
  induction fuel as [|fuel IH]; intros whole l sb ts; cbn [tokenize_n]; [intros [= <-]; constructor|].
  destruct (skip_blank (S (length l)) l) as [|c l1] eqn:E1; [intros [= <-]; constructor|].
  destruct (scan_token (c :: l1)) as [[k rest] lexerr] eqn:E2.
  match goal with |- context [if ?c then None else _] => destruct c eqn:Ec end; [discriminate|].
  apply orb_false_iff in Ec as [_ ->].
  destruct (tokenize_n fuel whole rest false) as [ts'|] eqn:E3; [|discriminate].
  intros [= <-]. constructor; [|eapply IH; eauto].
  eapply scan_token_wf; [discriminate | exact E2].
Qed.

(** ---------- the reader ---------- *)
Definition safe {A} (o : outcome A) : Prop := (forall s, o <> Panic s) /\ o <> OutOfFuel.

Lemma safe_ok {A} (a : A) : safe (Ok a). Proof. split; congruence. Qed.
Lemma safe_err {A} e : safe (@Err A e). Proof. split; congruence. Qed.

Lemma strip_ok i j s : i + j <= length s -> exists r, strip i j s = Ok r.
Proof. intros H. unfold strip. destruct (Nat.leb_spec (i + j) (length s)); [eauto | lia]. Qed.

Lemma read_atom_safe m t : tok_wf t -> safe (read_atom m t).
Proof.
  unfold tok_wf, read_atom. destruct (tkind_of t); intros Hwf.
  - repeat match goal with |- context [if ?c then _ else _] => destruct c end; try apply safe_ok; apply safe_err.
  - destruct (parse_int _); [apply safe_ok | apply safe_err].
  - destruct (float_overflows _); [apply safe_err | apply safe_ok].
  - destruct (strip_ok 1 1 (ttext t)) as [r ->]; [lia|]. apply safe_ok.
  - destruct (strip_ok 1 0 (ttext t)) as [r ->]; [lia|]. apply safe_ok.
  - destruct (str_eqb _ _); [apply safe_err|]. destruct (strip_ok 1 1 (ttext t)) as [r ->]; [lia|]. apply safe_ok.
  - apply safe_ok.
Qed.

Lemma new_hash_map_safe : forall n kvs mp, length kvs = 2 * n -> safe (new_hash_map mp kvs).
Proof.
  induction n as [|n IH]; intros kvs mp Hl.
  - destruct kvs; [apply safe_ok | simpl in Hl; lia].
  - destruct kvs as [|k [|v r]]; try (simpl in Hl; lia). cbn [new_hash_map].
    destruct k; try apply safe_err. apply IH. simpl in Hl. lia.
Qed.

Lemma even_length_double {A} (l : list A) : Nat.odd (length l) = false -> exists n, length l = 2 * n.
Proof.
  intros H. rewrite <- Nat.negb_even in H. apply negb_false_iff, Nat.even_spec in H as [n Hn]. eauto.
Qed.

Lemma set_items_safe : forall l acc, safe (set_items acc l).
Proof.
  induction l as [|x r IH]; intros acc; [apply safe_ok|].
  destruct x; try apply safe_err. apply IH.
Qed.

Lemma bind_safe {A B} (o : outcome A) (f : A -> outcome B) : safe o -> (forall a, safe (f a)) -> safe (bind o f).
Proof.
  intros [H1 H2] Hf. destruct o; simpl; auto; try apply safe_err.
  - exfalso; eapply H1; eauto.
  - congruence.
Qed.

Lemma get_slice_safe v : safe (get_slice v).
Proof. destruct v; simpl; try apply safe_ok; apply safe_err. Qed.

Lemma new_set_safe v : safe (new_set v).
Proof.
  assert (H : safe (let* l := get_slice v in let* s := set_items [] l in Ok (VSet s))).
  { apply bind_safe; [apply get_slice_safe|]. intros l. apply bind_safe; [apply set_items_safe|]. intros; apply safe_ok. }
  unfold new_set. destruct v; try exact H. apply safe_ok.
Qed.

Section ReaderSafe.
  Variable m : option str.
  Variable ph : option (list (str * val)).
  Variable ext : option (str -> list val -> outcome val).
  (** the Go constructor called by read_external is a binder-wrapped builtin: it may fail but
      neither panics nor diverges (C20) *)
  Hypothesis ext_safe : forall f, ext = Some f -> forall n a, safe (f n a).

  Lemma finish_coll_safe kind items p : safe (finish_coll ext kind items p).
  Proof.
    unfold finish_coll. destruct kind as [|[|[|[|k]]]]; try apply safe_ok.
    - destruct (Nat.odd (length items)) eqn:E; [apply safe_err|].
      destruct (even_length_double items E) as [n Hn].
      pose proof (new_hash_map_safe n items [] Hn) as [H1 H2].
      destruct (new_hash_map [] items); simpl; try apply safe_ok; try apply safe_err.
      + exfalso; eapply H1; eauto.
      + congruence.
    - apply new_set_safe.
    - destruct items as [|[] args]; try apply safe_err.
      destruct ext as [f|] eqn:E; [|apply safe_err]. now apply (ext_safe f).
  Qed.

  Definition good (bound : nat) (rf : list token -> outcome (val * list token)) : Prop :=
    forall ts, length ts <= bound -> Forall tok_wf ts ->
      safe (rf ts) /\ forall v rest, rf ts = Ok (v, rest) -> length rest < length ts /\ Forall tok_wf rest.

  Lemma read_items_good rf fin closer bound :
    good bound rf -> (forall items c, safe (fin items c)) ->
    forall k ts acc last, length ts <= bound -> length ts < k -> Forall tok_wf ts ->
      safe (read_items m rf fin closer k ts acc last) /\
      forall v rest, read_items m rf fin closer k ts acc last = Ok (v, rest) -> length rest < length ts /\ Forall tok_wf rest.
  Proof.
    intros Hrf Hfin. induction k as [|k IH]; intros ts acc last Hb Hk Hwf; [lia|].
    cbn [read_items]. destruct ts as [|c r].
    - split; [apply safe_err | discriminate].
    - destruct (str_eqb (ttext c) closer).
      + destruct (Hfin (rev acc) c) as [H1 H2]. inversion Hwf; subst.
        destruct (fin (rev acc) c) eqn:E; simpl.
        * split; [apply safe_ok|]. intros v rest [= <- <-]. simpl; split; [lia | auto].
        * split; [apply safe_err | discriminate].
        * exfalso; eapply H1; eauto.
        * congruence.
      + destruct (Hrf (c :: r) Hb Hwf) as [[H1 H2] Hprog].
        destruct (rf (c :: r)) as [[f r']| | |] eqn:E; simpl.
        * destruct (Hprog f r' eq_refl) as [Hlt Hwf'].
          destruct (IH r' (f :: acc) c) as [Hs Hp]; [simpl in *; lia | simpl in *; lia | auto|].
          split; auto. intros v rest Heq. destruct (Hp v rest Heq) as [Hlt2 Hwf2]. split; [cbn [length] in *; lia | auto].
        * split; [apply safe_err | discriminate].
        * exfalso; eapply H1; eauto.
        * congruence.
  Qed.

  Lemma read_form_S fuel ts :
    read_form m ph ext (S fuel) ts =
    match ts with
    | [] => rerr "read_form underflow" None
    | t :: rest =>
        match macro_name t with
        | Some name =>
            let* (form, rest') := read_form m ph ext fuel rest in
            Ok (VList [VSym name (tok_pos m t); form] (tok_pos m t), rest')
        | None =>
            if text_is t "^" then
              let* (meta, r1) := read_form m ph ext fuel rest in
              let* (form, r2) := read_form m ph ext fuel r1 in
              Ok (VList [VSym (s_ "with-meta") (tok_pos m t); form; meta] (tok_pos m t), r2)
            else if text_is t ")" then rerr "unexpected ')'" (tok_pos m t)
            else if text_is t "]" then rerr "unexpected ']'" (tok_pos m t)
            else if text_is t "}" then rerr "unexpected '}'" (tok_pos m t)
            else
              match closer_of t with
              | Some (closer, kind) =>
                  read_items m (read_form m ph ext fuel) (fun items c => finish_coll ext kind items (span_pos m t c))
                             closer fuel rest [] t
              | None =>
                  if head_is (ttext t) 36 then
                    match ph with
                    | None => Ok (VNil, rest)
                    | Some mp => Ok (lookup_or_nil (ttext t) mp, rest)
                    end
                  else let* v := read_atom m t in Ok (v, rest)
              end
        end
    end.
  Proof. reflexivity. Qed.

  Lemma read_form_good : forall fuel, good fuel (read_form m ph ext (S fuel)).
  Proof.
    induction fuel as [|fuel IH]; intros ts Hb Hwf.
    - destruct ts; [|simpl in Hb; lia]. simpl. split; [apply safe_err | discriminate].
    - rewrite read_form_S. destruct ts as [|t rest]; [split; [apply safe_err | discriminate]|].
      inversion Hwf as [|? ? Ht Hrest]; subst. simpl in Hb.
      assert (Hb' : length rest <= fuel) by lia.
      destruct (macro_name t) as [name|].
      { destruct (IH rest Hb' Hrest) as [[H1 H2] Hp].
        destruct (read_form m ph ext (S fuel) rest) as [[form rest']| | |] eqn:E; cbn [bind].
        - destruct (Hp form rest' eq_refl). split; [apply safe_ok|]. intros v r [= <- <-]. simpl; split; [lia|auto].
        - split; [apply safe_err | discriminate].
        - exfalso; eapply H1; eauto.
        - congruence. }
      destruct (text_is t "^").
      { destruct (IH rest Hb' Hrest) as [[H1 H2] Hp].
        destruct (read_form m ph ext (S fuel) rest) as [[meta r1]| | |] eqn:E; cbn [bind].
        - destruct (Hp meta r1 eq_refl) as [Hlt1 Hwf1].
          destruct (IH r1) as [[H3 H4] Hp2]; [lia | auto|].
          destruct (read_form m ph ext (S fuel) r1) as [[form r2]| | |] eqn:E2; cbn [bind].
          + destruct (Hp2 form r2 eq_refl). split; [apply safe_ok|]. intros v r [= <- <-]. simpl; split; [lia|auto].
          + split; [apply safe_err | discriminate].
          + exfalso; eapply H3; eauto.
          + congruence.
        - split; [apply safe_err | discriminate].
        - exfalso; eapply H1; eauto.
        - congruence. }
      destruct (text_is t ")"); [split; [apply safe_err | discriminate]|].
      destruct (text_is t "]"); [split; [apply safe_err | discriminate]|].
      destruct (text_is t "}"); [split; [apply safe_err | discriminate]|].
      destruct (closer_of t) as [[closer kind]|].
      { destruct (read_items_good (read_form m ph ext (S fuel)) (fun items c => finish_coll ext kind items (span_pos m t c)) closer fuel IH
                  (fun items c => finish_coll_safe kind items _) (S fuel) rest [] t) as [Hs Hp]; auto; try lia.
        split; auto. intros v r Heq. destruct (Hp v r Heq). simpl; split; [lia|auto]. }
      destruct (head_is (ttext t) 36).
      { destruct ph; (split; [apply safe_ok|]; intros v r [= <- <-]; simpl; split; [lia|auto]). }
      pose proof (read_atom_safe m t Ht) as [H1 H2].
      destruct (read_atom m t) eqn:E; cbn [bind].
      + split; [apply safe_ok|]. intros v r [= <- <-]. simpl; split; [lia|auto].
      + split; [apply safe_err | discriminate].
      + exfalso; eapply H1; eauto.
      + congruence.
  Qed.
End ReaderSafe.

(** THE THEOREM: for every rune list, with or without module name, placeholder values and
    environment, Read_str returns a value or an error; it neither panics nor fails to end *)
Theorem read_str_total cm ph ext src :
  (forall f, ext = Some f -> forall n a, safe (f n a)) -> safe (read_str cm ph ext src).
Proof.
  intros Hext. unfold read_str.
  set (mt := match cm with Some x => (Some x, src) | None => _ end). destruct mt as [mm text].
  destruct (tokenize text) as [ts|] eqn:E; [|apply safe_err].
  unfold read_all. destruct ts as [|t ts']; [apply safe_err|].
  assert (Hwf : Forall tok_wf (t :: ts')) by (unfold tokenize in E; eapply tokenize_n_wf; eauto).
  destruct (read_form_good mm ph ext Hext (length (t :: ts')) (t :: ts') (le_n _) Hwf) as [[H1 H2] Hp].
  destruct (read_form mm ph ext (S (length (t :: ts'))) (t :: ts')) as [[v rest]| | |] eqn:E2; cbn [bind].
  - destruct rest; [apply safe_ok | apply safe_err].
  - apply safe_err.
  - exfalso; eapply H1; eauto.
  - congruence.
Qed.

(** tokenize itself is total by construction (option result) and its fuel is never what stops it *)
Theorem tokenize_fuel_irrelevant input extra :
  let l := match input with c :: r => if N.eqb c BOM then r else input | [] => [] end in
  tokenize_n (S (length input) + extra) input l false = tokenize input.
Proof.
  intros l. unfold tokenize. fold l. induction extra as [|e IH]; [now rewrite Nat.add_0_r|].
  rewrite <- IH. rewrite Nat.add_succ_r. symmetry. apply tokenize_n_fuel.
  assert (length l <= length input). { unfold l. destruct input as [|c r]; simpl; auto. destruct (N.eqb c BOM); simpl; lia. }
  lia.
Qed.
