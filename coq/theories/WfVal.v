(** Well-formed values: every function value inside a value refers to a scope that exists, has a
    body EVAL can decorate an error with, and every builtin value names a registered Go function.
    The first-order builtins neither forge nor lose such values: whatever they return (value or
    error) is built from pieces of their arguments.  Used by NoPanic.v (C04). *)
From Lisp Require Import Base Value Core Binder Env Eval Interp.

Definition registered (n : str) : bool :=
  match alookup n builtin_table with
  | Some _ => true
  | None => existsb (str_eqb n) raw_builtins
  end.

Definition nonempty_list (v : val) : bool :=
  match v with VList (_ :: _) _ => true | _ => false end.

Fixpoint wfb (b : positive) (v : val) : bool :=
  match v with
  | VFn ps body env _ => Pos.ltb env b && nonempty_list body && wfb b body
  | VBuiltin n => registered n
  | VList l _ | VVec l _ => (fix go (l : list val) : bool := match l with [] => true | x :: r => wfb b x && go r end) l
  | VMap m => (fix go (m : list (str * val)) : bool := match m with [] => true | kv :: r => wfb b (snd kv) && go r end) m
  | VLispErr p _ => wfb b p
  | _ => true
  end.

Definition wfl (b : positive) (l : list val) : bool := forallb (wfb b) l.
Definition wfm (b : positive) (m : list (str * val)) : bool := forallb (fun kv => wfb b (snd kv)) m.

Lemma wfb_list b l p : wfb b (VList l p) = wfl b l.
Proof. simpl. induction l as [|x r IH]; simpl; [reflexivity | now rewrite IH]. Qed.
Lemma wfb_vec b l p : wfb b (VVec l p) = wfl b l.
Proof. simpl. induction l as [|x r IH]; simpl; [reflexivity | now rewrite IH]. Qed.
Lemma wfb_map b m : wfb b (VMap m) = wfm b m.
Proof. simpl. induction m as [|x r IH]; simpl; [reflexivity | now rewrite IH]. Qed.
Lemma wfb_fn b ps body env m : wfb b (VFn ps body env m) = (Pos.ltb env b && nonempty_list body && wfb b body)%bool.
Proof. reflexivity. Qed.

Global Opaque wfb.
Lemma wfb_nil b : wfb b VNil = true. Proof. reflexivity. Qed.
Lemma wfb_bool b x : wfb b (VBool x) = true. Proof. reflexivity. Qed.
Lemma wfb_int b x : wfb b (VInt x) = true. Proof. reflexivity. Qed.
Lemma wfb_str b x : wfb b (VStr x) = true. Proof. reflexivity. Qed.
Lemma wfb_sym b x p : wfb b (VSym x p) = true. Proof. reflexivity. Qed.
Lemma wfb_set b x : wfb b (VSet x) = true. Proof. reflexivity. Qed.
Lemma wfb_atom b x : wfb b (VAtom x) = true. Proof. reflexivity. Qed.
Lemma wfb_goerr b x : wfb b (VGoErr x) = true. Proof. reflexivity. Qed.
Lemma wfb_other b x : wfb b (VOther x) = true. Proof. reflexivity. Qed.
Lemma wfb_lisperr b v p : wfb b (VLispErr v p) = wfb b v. Proof. reflexivity. Qed.
Lemma wfb_builtin b n : wfb b (VBuiltin n) = registered n. Proof. reflexivity. Qed.

Lemma wfb_vlist b l : wfb b (vlist l) = wfl b l. Proof. apply wfb_list. Qed.
Lemma wfb_vvec b l : wfb b (vvec l) = wfl b l. Proof. apply wfb_vec. Qed.
Global Hint Rewrite wfb_vlist wfb_vvec wfb_list wfb_vec wfb_map wfb_nil wfb_bool wfb_int wfb_str wfb_sym wfb_set wfb_atom
  wfb_goerr wfb_other wfb_lisperr : wf.

(** a later state has more scopes: well-formedness is kept *)
Lemma wfb_mono b b' : (b <= b')%positive -> forall v, wfb b v = true -> wfb b' v = true.
Proof.
  intros Hle v. induction v using val_ind'; autorewrite with wf; auto.
  - unfold wfl. rewrite !forallb_forall. rewrite Forall_forall in H. auto.
  - unfold wfl. rewrite !forallb_forall. rewrite Forall_forall in H. auto.
  - unfold wfm. rewrite !forallb_forall. rewrite Forall_forall in H. intros Hm kv Hin. apply H; auto.
  - rewrite !wfb_fn, !andb_true_iff. intros [[H1 H2] H3]. repeat split; auto.
    apply Pos.ltb_lt in H1. apply Pos.ltb_lt. lia.
Qed.

Lemma wfl_mono b b' l : (b <= b')%positive -> wfl b l = true -> wfl b' l = true.
Proof. intros Hle. unfold wfl. rewrite !forallb_forall. intros H x Hx. eapply wfb_mono; eauto. Qed.
Lemma wfm_mono b b' m : (b <= b')%positive -> wfm b m = true -> wfm b' m = true.
Proof. intros Hle. unfold wfm. rewrite !forallb_forall. intros H x Hx. eapply wfb_mono; eauto. Qed.

(** ---- list plumbing ---- *)
Lemma wfl_app b l1 l2 : wfl b (l1 ++ l2) = (wfl b l1 && wfl b l2)%bool.
Proof. apply forallb_app. Qed.
Lemma wfl_cons b x l : wfl b (x :: l) = (wfb b x && wfl b l)%bool.
Proof. reflexivity. Qed.
Lemma wfl_rev b l : wfl b (rev l) = wfl b l.
Proof. induction l as [|x r IH]; simpl; auto. rewrite wfl_app, IH. simpl. rewrite andb_true_r. apply andb_comm. Qed.
Lemma wfl_firstn b n l : wfl b l = true -> wfl b (firstn n l) = true.
Proof.
  revert n; induction l as [|x r IH]; intros [|n]; simpl; auto.
  rewrite !andb_true_iff. intros [H1 H2]. split; auto.
Qed.
Lemma wfl_skipn b n l : wfl b l = true -> wfl b (skipn n l) = true.
Proof.
  revert n; induction l as [|x r IH]; intros [|n]; simpl; auto.
  rewrite !andb_true_iff. intros [H1 H2]. apply IH; auto.
Qed.
Lemma wfl_map_str {A} b (f : A -> val) ks : (forall k, wfb b (f k) = true) -> wfl b (map f ks) = true.
Proof. intros H. unfold wfl. rewrite forallb_forall. intros x Hx. apply in_map_iff in Hx. destruct Hx as [k [<- _]]. apply H. Qed.
Lemma wfl_nth b l n x : wfl b l = true -> nth_opt l n = Some x -> wfb b x = true.
Proof.
  revert n; induction l as [|y r IH]; intros n Hl Hn; [destruct n; discriminate|].
  rewrite wfl_cons, andb_true_iff in Hl. destruct Hl as [Hy Hr].
  destruct n; simpl in Hn; [inversion Hn; subst; auto | eauto].
Qed.
Lemma wfl_set_nth b l n x l' : wfl b l = true -> wfb b x = true -> set_nth l n x = Some l' -> wfl b l' = true.
Proof.
  revert n l'; induction l as [|y r IH]; intros n l' Hl Hx Hs; [destruct n; discriminate|].
  rewrite wfl_cons, andb_true_iff in Hl. destruct Hl as [Hy Hr].
  destruct n; simpl in Hs.
  - inversion Hs; subst. rewrite wfl_cons, Hx, Hr. reflexivity.
  - destruct (set_nth r n x) eqn:E; [|discriminate]. inversion Hs; subst.
    rewrite wfl_cons, Hy. simpl. eauto.
Qed.
Lemma wfl_slice b l i j r : wfl b l = true -> slice l i j = Ok r -> wfl b r = true.
Proof.
  unfold slice. destruct (_ && _ && _)%bool; [|discriminate]. intros H E. inversion E; subst.
  apply wfl_firstn, wfl_skipn, H.
Qed.
Lemma wfl_index b l i x : wfl b l = true -> index l i = Ok x -> wfb b x = true.
Proof.
  unfold index. destruct (Z.ltb i 0); [discriminate|]. destruct (nth_opt l (Z.to_nat i)) eqn:E; [|discriminate].
  intros H E'. inversion E'; subst. eapply wfl_nth; eauto.
Qed.
Lemma wfl_get_slice b v l : wfb b v = true -> get_slice v = Ok l -> wfl b l = true.
Proof. destruct v; simpl; try discriminate; autorewrite with wf; intros H E; inversion E; subst; auto. Qed.

(** ---- map plumbing ---- *)
Lemma wfm_aset b k v m : wfb b v = true -> wfm b m = true -> wfm b (aset k v m) = true.
Proof.
  intros Hv. induction m as [|[k' v'] r IH]; simpl; [now rewrite Hv|].
  rewrite andb_true_iff. intros [H1 H2]. destruct (str_eqb k k'); simpl; [now rewrite Hv, H2|].
  rewrite H1. simpl. auto.
Qed.
Lemma wfm_adel b k m : wfm b m = true -> wfm b (adel k m) = true.
Proof.
  induction m as [|[k' v'] r IH]; simpl; auto.
  rewrite andb_true_iff. intros [H1 H2]. destruct (str_eqb k k'); simpl; auto. now rewrite H1, IH.
Qed.
Lemma wfm_alookup b k m v : wfm b m = true -> alookup k m = Some v -> wfb b v = true.
Proof.
  induction m as [|[k' v'] r IH]; simpl; [discriminate|].
  rewrite andb_true_iff. intros [H1 H2]. destruct (str_eqb k k'); [intros E; inversion E; subst; auto | auto].
Qed.
Lemma wfb_lookup_or_nil b k m : wfm b m = true -> wfb b (lookup_or_nil k m) = true.
Proof. intros H. unfold lookup_or_nil. destruct (alookup k m) eqn:E; [eapply wfm_alookup; eauto | reflexivity]. Qed.
Lemma wfl_map_snd b m : wfm b m = true -> wfl b (map snd m) = true.
Proof. induction m as [|kv r IH]; simpl; auto. rewrite !andb_true_iff. intros [H1 H2]; auto. Qed.
Lemma wfm_filter b f m : wfm b m = true -> wfm b (filter f m) = true.
Proof. unfold wfm. rewrite !forallb_forall. intros H x Hx. apply filter_In in Hx. apply H, Hx. Qed.

(** the outcome of a first-order builtin: value or error, both well formed *)
Definition okout (b : positive) (o : outcome val) : bool :=
  match o with Ok v | Err v => wfb b v | _ => true end.
Definition pure_ok (f : list val -> outcome val) : Prop :=
  forall b a, wfl b a = true -> okout b (f a) = true.

Ltac wfsimp :=
  repeat (autorewrite with wf in * || rewrite ?wfl_cons, ?wfl_app, ?wfl_rev, ?andb_true_iff in * || simpl okout in * ).

Ltac wfauto :=
  wfsimp; intuition (auto using wfl_firstn, wfl_skipn, wfm_aset, wfm_adel, wfb_lookup_or_nil, wfl_map_snd, wfm_filter).

(** every argument shape: destruct the argument list and the heads a builtin looks at *)
Ltac cases_args a :=
  let x := fresh "x" in let r := fresh "r" in
  destruct a as [|x r]; [try reflexivity|].

Lemma get_slice_err b v e : get_slice v = Err e -> wfb b e = true.
Proof. destruct v; simpl; try discriminate; intros E; inversion E; reflexivity. Qed.

Lemma okout_bind_slice b v (k : list val -> outcome val) :
  wfb b v = true -> (forall l, wfl b l = true -> okout b (k l) = true) ->
  okout b (let* l := get_slice v in k l) = true.
Proof.
  intros Hv Hk. destruct (get_slice v) eqn:E; simpl; auto; [apply Hk; eapply wfl_get_slice; eauto | eapply get_slice_err; eauto].
Qed.


Lemma pure_ok_list : pure_ok b_list. Proof. intros b a H. simpl. now autorewrite with wf. Qed.
Lemma pure_ok_vector : pure_ok b_vector. Proof. intros b a H. simpl. now autorewrite with wf. Qed.

Lemma pure_ok_cons : pure_ok b_cons.
Proof.
  intros b a H. destruct a as [|x [|s [|? ?]]]; try reflexivity. wfsimp. unfold b_cons.
  apply okout_bind_slice; [tauto|]. intros l Hl. simpl. wfauto.
Qed.

Lemma concat_rest_ok b : forall a acc, wfl b acc = true -> wfl b a = true ->
  match concat_rest acc a with Ok l => wfl b l = true | Err e => wfb b e = true | _ => True end.
Proof.
  induction a as [|s r IH]; intros acc Hacc Ha; simpl; auto.
  wfsimp. destruct Ha as [Hs Hr]. destruct (get_slice s) eqn:E; simpl; auto.
  - apply IH; auto. wfsimp. split; auto. eapply wfl_get_slice; eauto.
  - eapply get_slice_err; eauto.
Qed.

Lemma pure_ok_concat : pure_ok b_concat.
Proof.
  intros b a H. destruct a as [|s r]; [reflexivity|]. wfsimp. destruct H as [Hs Hr]. unfold b_concat.
  destruct (get_slice s) eqn:E; simpl; auto; [|eapply get_slice_err; eauto].
  pose proof (concat_rest_ok b r a (wfl_get_slice _ _ _ Hs E) Hr) as Hc.
  destruct (concat_rest a r); simpl; auto.
Qed.

Lemma pure_ok_vec : pure_ok b_vec.
Proof.
  intros b a H. destruct a as [|x [|? ?]]; try reflexivity; [|destruct x; reflexivity].
  wfsimp. destruct x; simpl; wfauto. apply wfl_map_str. reflexivity.
Qed.

Lemma pure_ok_nth : pure_ok b_nth.
Proof.
  intros b a H. destruct a as [|s [|i [|? ?]]]; try reflexivity; try (destruct i; reflexivity).
  wfsimp. destruct i; try reflexivity. unfold b_nth.
  destruct (get_slice s) eqn:E; simpl; auto; [|eapply get_slice_err; eauto].
  destruct (Z.ltb z _); [|reflexivity]. destruct (index a z) eqn:Ei; simpl; auto.
  - eapply wfl_index; [|eauto]. eapply wfl_get_slice; [|eauto]. tauto.
  - unfold index in Ei. destruct (Z.ltb z 0); [discriminate|]. destruct (nth_opt a (Z.to_nat z)); discriminate.
Qed.

Lemma pure_ok_first : pure_ok b_first.
Proof.
  intros b a H. destruct a as [|s [|? ?]]; try reflexivity; [|destruct s; reflexivity].
  wfsimp. destruct H as [Hs _].
  assert (G : okout b (let* l := get_slice s in match l with [] => Ok VNil | x :: _ => Ok x end) = true).
  { apply okout_bind_slice; auto. intros [|x l] Hl; simpl; auto. wfsimp. tauto. }
  destruct s; simpl; auto.
Qed.

Lemma pure_ok_rest : pure_ok b_rest.
Proof.
  intros b a H. destruct a as [|s [|? ?]]; try reflexivity; [|destruct s; reflexivity].
  wfsimp. destruct H as [Hs _].
  assert (G : okout b (let* l := get_slice s in match l with [] => Ok (vlist []) | _ :: r => Ok (vlist r) end) = true).
  { apply okout_bind_slice; auto. intros [|x l] Hl; simpl; auto. wfsimp. tauto. }
  destruct s; simpl; auto.
Qed.

Lemma pure_ok_empty : pure_ok b_empty_Q.
Proof. intros b a H. destruct a as [|s [|? ?]]; try reflexivity; destruct s; reflexivity. Qed.
Lemma pure_ok_count : pure_ok b_count.
Proof. intros b a H. destruct a as [|s [|? ?]]; try reflexivity; destruct s; reflexivity. Qed.

Lemma assoc_pairs_ok b : forall kvs m, wfm b m = true -> wfl b kvs = true ->
  match assoc_pairs m kvs with Ok m' => wfm b m' = true | Err e => wfb b e = true | _ => True end.
Proof.
  fix IH 1. intros [|k [|v r]] m Hm Hk; simpl; auto.
  - destruct k; simpl; auto.
  - destruct k; simpl; auto. wfsimp. apply IH; [apply wfm_aset|]; tauto.
Qed.

Lemma add_keys_ok b : forall ks s, match add_keys s ks with Err e => wfb b e = true | _ => True end.
Proof. induction ks as [|k r IH]; intros s; simpl; auto. destruct k; simpl; auto. apply IH. Qed.
Lemma del_keys_ok b : forall ks m, wfm b m = true ->
  match del_keys m ks with Ok m' => wfm b m' = true | Err e => wfb b e = true | _ => True end.
Proof. induction ks as [|k r IH]; intros m Hm; simpl; auto. destruct k; simpl; auto. apply IH, wfm_adel, Hm. Qed.
Lemma del_skeys_ok b : forall ks s, match del_skeys s ks with Err e => wfb b e = true | _ => True end.
Proof. induction ks as [|k r IH]; intros s; simpl; auto. destruct k; simpl; auto. apply IH. Qed.
Lemma set_items_ok b : forall l s, match set_items s l with Err e => wfb b e = true | _ => True end.
Proof. induction l as [|k r IH]; intros s; simpl; auto. destruct k; simpl; auto. apply IH. Qed.

Lemma pure_ok_conj : pure_ok b_conj.
Proof.
  intros b a H. destruct a as [|c xs]; [reflexivity|]. wfsimp. destruct H as [Hc Hx].
  destruct c; simpl; auto; wfsimp; auto.
  - destruct (Nat.even (length xs)); [|reflexivity].
    pose proof (assoc_pairs_ok b xs m Hc Hx). destruct (assoc_pairs m xs); simpl; auto.
  - pose proof (add_keys_ok b xs ks). destruct (add_keys ks xs); simpl; auto.
Qed.

Lemma pure_ok_seq : pure_ok b_seq.
Proof.
  intros b a H. destruct a as [|s [|? ?]]; try reflexivity; [|destruct s; reflexivity].
  wfsimp. destruct H as [Hs _]. destruct s; simpl; auto.
  - destruct s as [|c s']; [reflexivity|]. change (wfb b (vlist (map (fun c => VStr [c]) (c :: s'))) = true).
    autorewrite with wf. apply wfl_map_str. reflexivity.
  - destruct l; simpl; auto.
  - destruct l as [|y l']; [reflexivity|]. simpl okout. now autorewrite with wf in *.
  - autorewrite with wf. apply wfl_map_str. reflexivity.
Qed.

Ltac int_seq a :=
  let n := fresh "n" in let s := fresh "s" in
  destruct a as [|n [|s [|? ?]]]; try reflexivity; destruct n; try reflexivity; destruct s; try reflexivity.

Lemma pure_ok_take : pure_ok b_take.
Proof. intros b a H. int_seq a; wfsimp; simpl; wfauto. Qed.
Lemma pure_ok_drop : pure_ok b_drop.
Proof. intros b a H. int_seq a; wfsimp; simpl; wfauto. Qed.
Lemma pure_ok_drop_last : pure_ok b_drop_last.
Proof. intros b a H. int_seq a; wfsimp; simpl; wfauto. Qed.
Lemma wfb_nil_if_empty b l : wfl b l = true -> wfb b (nil_if_empty l) = true.
Proof. destruct l; simpl; auto. Qed.
Lemma pure_ok_take_last : pure_ok b_take_last.
Proof. intros b a H. int_seq a; wfsimp; simpl; apply wfb_nil_if_empty, wfl_skipn; tauto. Qed.


Lemma slice_not_err {A} (l : list A) i j e : slice l i j <> Err e.
Proof. unfold slice. destruct (_ && _ && _)%bool; discriminate. Qed.
Lemma index_not_err {A} (l : list A) i e : index l i <> Err e.
Proof. unfold index. destruct (Z.ltb i 0); [discriminate|]. destruct (nth_opt l (Z.to_nat i)); discriminate. Qed.
Lemma as_int_not_err v e : as_int v <> Err e. Proof. destruct v; discriminate. Qed.
Lemma as_str_not_err v e : as_str v <> Err e. Proof. destruct v; discriminate. Qed.

Lemma subvec_core_ok b l f (t : outcome Z) : wfl b l = true -> (forall e, t <> Err e) ->
  okout b (let* from := as_int f in
           let* to := t in
           if (Z.ltb from 0 || Z.ltb (Z.of_nat (length l)) to || Z.ltb to from)%bool
           then goerr "subvec index out of range"
           else let* r := slice l from to in Ok (vvec r)) = true.
Proof.
  intros Hl Ht. destruct (as_int f) eqn:Ef; simpl; auto; [|exfalso; eapply as_int_not_err; eauto].
  destruct t as [to|e| |]; simpl; auto; [|exfalso; eapply Ht; eauto].
  destruct (_ || _ || _)%bool; simpl; auto. destruct (slice l a to) eqn:E; simpl; auto.
  - autorewrite with wf. eapply wfl_slice; eauto.
  - exfalso; eapply slice_not_err; eauto.
Qed.

Lemma pure_ok_subvec : pure_ok b_subvec.
Proof.
  intros b a H. destruct a as [|v [|f [|t [|? ?]]]]; try reflexivity; wfsimp.
  - destruct v; try reflexivity. apply (subvec_core_ok b l f (Ok (Z.of_nat (length l)))); [autorewrite with wf in *; tauto|discriminate].
  - destruct v; try reflexivity. apply (subvec_core_ok b l f (as_int t)); [autorewrite with wf in *; tauto|apply as_int_not_err].
Qed.

Lemma wfl_range b : forall n from, wfl b (range_list from n) = true.
Proof. induction n; intros; simpl; auto. rewrite IHn. reflexivity. Qed.
Lemma pure_ok_range : pure_ok b_range.
Proof.
  intros b a H. destruct a as [|x [|y [|? ?]]]; try reflexivity; destruct x; try reflexivity; destruct y; try reflexivity.
  simpl. autorewrite with wf. apply wfl_range.
Qed.

Lemma new_hash_map_ok b : forall kvs m, wfm b m = true -> wfl b kvs = true ->
  match new_hash_map m kvs with Ok m' => wfm b m' = true | Err e => wfb b e = true | _ => True end.
Proof.
  fix IH 1. intros [|k [|v r]] m Hm Hk; simpl; auto.
  - destruct k; simpl; auto.
  - destruct k; simpl; auto. wfsimp. apply IH; [apply wfm_aset|]; tauto.
Qed.

Lemma pure_ok_hash_map : pure_ok b_hash_map.
Proof.
  intros b a H. destruct a as [|x [|y r]]; try reflexivity. unfold b_hash_map.
  destruct (Nat.odd _); [reflexivity|].
  pose proof (new_hash_map_ok b (x :: y :: r) [] eq_refl H) as G.
  destruct (new_hash_map [] (x :: y :: r)); simpl; auto.
Qed.

Lemma new_set_ok b v : okout b (new_set v) = true.
Proof.
  unfold new_set.
  assert (G : okout b (let* l := get_slice v in let* s := set_items [] l in Ok (VSet s)) = true).
  { destruct (get_slice v) eqn:E; simpl; auto; [|destruct v; simpl in E; try discriminate; inversion E; reflexivity].
    pose proof (set_items_ok b a []). destruct (set_items [] a); simpl; auto. }
  destruct v; auto.
Qed.
Lemma pure_ok_set : pure_ok b_set.
Proof. intros b a H. destruct a as [|x [|? ?]]; try reflexivity. apply new_set_ok. Qed.
Lemma pure_ok_hash_set : pure_ok b_hash_set.
Proof. intros b a H. apply new_set_ok. Qed.

Lemma assoc_vec_ok b : forall kvs l, wfl b l = true -> wfl b kvs = true ->
  match (fix go (l : list val) (kvs : list val) : outcome (list val) :=
           match kvs with
           | [] => Ok l
           | VInt i :: v :: r =>
               if Z.ltb i 0 then Panic (s_ "index out of range")
               else match set_nth l (Z.to_nat i) v with
                    | Some l' => go l' r
                    | None => Panic (s_ "index out of range")
                    end
           | VInt _ :: [] => Panic (s_ "index out of range")
           | _ :: _ => goerr "assoc called with non-int key"
           end) l kvs with
  | Ok l' => wfl b l' = true | Err e => wfb b e = true | _ => True end.
Proof.
  fix IH 1. intros [|k [|v r]] l Hl Hk; auto.
  - destruct k; simpl; auto.
  - destruct k; try (simpl; auto; fail). wfsimp.
    destruct (Z.ltb z 0); auto. destruct (set_nth l (Z.to_nat z) v) eqn:E; auto.
    apply IH; [eapply wfl_set_nth; eauto; tauto | tauto].
Qed.

Lemma pure_ok_assoc : pure_ok b_assoc.
Proof.
  intros b a H. destruct a as [|c xs]; [reflexivity|]. unfold b_assoc.
  rewrite wfl_cons, andb_true_iff in H. destruct H as [Hc Hx].
  destruct c; try reflexivity.
  - destruct (Nat.ltb _ 3); [reflexivity|].
    pose proof (assoc_vec_ok b xs l) as G. autorewrite with wf in Hc. specialize (G Hc Hx).
    match goal with |- okout b (let* l' := ?X in _) = true => destruct X end; simpl; auto.
  - destruct (Nat.ltb _ 3); [reflexivity|]. destruct (Nat.even _); [reflexivity|].
    autorewrite with wf in Hc.
    pose proof (assoc_pairs_ok b xs m Hc Hx). destruct (assoc_pairs m xs); simpl; auto.
  - destruct (Nat.ltb _ 2); [reflexivity|].
    pose proof (add_keys_ok b xs ks). destruct (add_keys ks xs); simpl; auto.
Qed.

Lemma pure_ok_dissoc : pure_ok b_dissoc.
Proof.
  intros b a H. unfold b_dissoc. destruct (Nat.ltb _ 2); [reflexivity|].
  destruct a as [|c ks]; [reflexivity|]. rewrite wfl_cons, andb_true_iff in H. destruct H as [Hc Hx].
  destruct c; try reflexivity.
  - autorewrite with wf in Hc. pose proof (del_keys_ok b ks m Hc). destruct (del_keys m ks); simpl; auto.
  - pose proof (del_skeys_ok b ks ks0). destruct (del_skeys ks0 ks); simpl; auto.
Qed.

Lemma get2_ok b hm key : wfb b hm = true -> okout b (get2 hm key) = true.
Proof.
  intros H. unfold get2. destruct hm; try reflexivity; destruct key; try reflexivity; simpl; autorewrite with wf in H;
    try (destruct (index l z) eqn:E; simpl; auto; [eapply wfl_index; eauto | exfalso; eapply index_not_err; eauto]).
  - apply wfb_lookup_or_nil, H.
  - destruct (smem s ks); reflexivity.
Qed.
Lemma pure_ok_get : pure_ok b_get.
Proof. intros b a H. destruct a as [|x [|y [|? ?]]]; try reflexivity. wfsimp. apply get2_ok; tauto. Qed.

Lemma get_in_path_ok b : forall path v, wfb b v = true -> okout b (get_in_path v path) = true.
Proof.
  induction path as [|idx rest IH]; intros v Hv; [exact Hv|].
  destruct rest as [|i2 rest']; [apply get2_ok, Hv|].
  cbn [get_in_path].
  match goal with |- okout b (let* branch := ?X in _) = true =>
    assert (G : match X with Ok br => wfb b br = true | Err _ => False | _ => True end) end.
  { destruct v; auto; autorewrite with wf in Hv.
    - destruct (as_int idx) eqn:Ei; simpl; auto; [|eapply as_int_not_err; eauto].
      destruct (index l a) eqn:E; simpl; auto; [|eapply index_not_err; eauto].
      pose proof (wfl_index _ _ _ _ Hv E). destruct a0; auto.
    - destruct (as_int idx) eqn:Ei; simpl; auto; [|eapply as_int_not_err; eauto].
      destruct (index l a) eqn:E; simpl; auto; [|eapply index_not_err; eauto].
      pose proof (wfl_index _ _ _ _ Hv E). destruct a0; auto.
    - destruct (as_str idx) eqn:Ei; simpl; auto; [|eapply as_str_not_err; eauto].
      pose proof (wfb_lookup_or_nil b a m Hv). destruct (lookup_or_nil a m); auto. }
  match goal with |- okout b (let* branch := ?X in _) = true => destruct X end; simpl; auto; try contradiction.
  apply IH, G.
Qed.

Lemma pure_ok_get_in : pure_ok b_get_in.
Proof.
  intros b a H. destruct a as [|x [|y [|? ?]]]; try reflexivity; try (destruct x; reflexivity);
    try (destruct x; try reflexivity; destruct y; reflexivity).
  wfsimp. destruct H as [Hx _].
  assert (G : forall l, okout b (get_in_path x l) = true) by (intros; apply get_in_path_ok, Hx).
  destruct x; destruct y; try reflexivity; apply G.
Qed.

Lemma pure_ok_contains : pure_ok b_contains_Q.
Proof. intros b a H. destruct a as [|x [|y [|? ?]]]; try reflexivity; destruct x; try reflexivity; destruct y; reflexivity. Qed.
Lemma pure_ok_keys : pure_ok b_keys.
Proof.
  intros b a H. destruct a as [|x [|? ?]]; try reflexivity; destruct x; try reflexivity.
  simpl. autorewrite with wf. apply wfl_map_str. reflexivity.
Qed.
Lemma pure_ok_vals : pure_ok b_vals.
Proof.
  intros b a H. destruct a as [|x [|? ?]]; try reflexivity; destruct x; try reflexivity.
  wfsimp. simpl. autorewrite with wf. apply wfl_map_snd. tauto.
Qed.

Lemma wfm_fold_aset b : forall m1 m0, wfm b m0 = true -> wfm b m1 = true ->
  wfm b (fold_left (fun acc kv => aset (fst kv) (snd kv) acc) m1 m0) = true.
Proof.
  induction m1 as [|kv r IH]; intros m0 H0 H1; simpl; auto.
  simpl in H1. rewrite andb_true_iff in H1. apply IH; [apply wfm_aset|]; tauto.
Qed.

Lemma pure_ok_merge : pure_ok b_merge.
Proof.
  intros b a H. destruct a as [|x [|y [|? ?]]]; try reflexivity; try (destruct x; reflexivity);
    try (destruct x; try reflexivity; destruct y; reflexivity).
  wfsimp. destruct H as [Hx [Hy _]].
  assert (G : okout b (let* m0 := match x with VNil => Ok [] | VMap m => Ok m | _ => goerr "expected hash map" end in
                       let* m1 := match y with VNil => Ok [] | VMap m => Ok m | _ => goerr "expected hash map" end in
                       Ok (VMap (fold_left (fun acc kv => aset (fst kv) (snd kv) acc) m1 m0))) = true).
  { destruct x; try reflexivity; destruct y; try reflexivity; simpl; autorewrite with wf in *;
      auto; apply wfm_fold_aset; auto. }
  destruct x; try exact G; destruct y; try exact G; reflexivity.
Qed.

Lemma rename_go_ok b alt : forall d out, wfm b out = true -> wfm b d = true ->
  match (fix go (out : list (str * val)) (d : list (str * val)) : outcome (list (str * val)) :=
           match d with
           | [] => Ok out
           | (k, v) :: r =>
               match alookup k alt with
               | Some nk => let* nk' := as_str nk in go (aset nk' v out) r
               | None => go out r
               end
           end) out d with
  | Ok m => wfm b m = true | Err _ => False | _ => True end.
Proof.
  induction d as [|[k v] r IH]; intros out Ho Hd; auto.
  simpl in Hd. rewrite andb_true_iff in Hd. destruct Hd as [Hv Hr].
  destruct (alookup k alt); [|apply IH; auto].
  destruct (as_str v0) eqn:E; simpl; auto; [|eapply as_str_not_err; eauto].
  apply IH; auto. apply wfm_aset; auto.
Qed.

Lemma pure_ok_rename_keys : pure_ok b_rename_keys.
Proof.
  intros b a H. destruct a as [|x [|y [|? ?]]]; try reflexivity; destruct x; try reflexivity; destruct y; try reflexivity.
  wfsimp. unfold b_rename_keys.
  match goal with |- okout b (let* out := ?X in _) = true =>
    assert (G : match X with Ok m => wfm b m = true | Err _ => False | _ => True end) end.
  { apply rename_go_ok; [apply wfm_filter|]; tauto. }
  match goal with |- okout b (let* out := ?X in _) = true => destruct X end; simpl; auto; try contradiction.
Qed.

Lemma assoc_in_path_ok b nv : wfb b nv = true -> forall path v, wfl b path = true -> wfb b v = true -> okout b (assoc_in_path v path nv) = true.
Proof.
  intros Hnv. induction path as [|idx rest IH]; intros v Hp Hv; [exact Hv|].
  rewrite wfl_cons, andb_true_iff in Hp. destruct Hp as [Hidx Hrest].
  destruct rest as [|i2 rest'].
  { cbn [assoc_in_path]. apply pure_ok_assoc. wfsimp. simpl. tauto. }
  cbn [assoc_in_path].
  match goal with |- okout b (let* branch := ?X in _) = true =>
    assert (G : match X with Ok br => wfb b br = true | Err _ => False | _ => True end) end.
  { destruct v; auto; autorewrite with wf in Hv.
    - destruct (as_int idx) eqn:Ei; simpl; auto; [|eapply as_int_not_err; eauto].
      destruct (index l a) eqn:E; simpl; auto; [|eapply index_not_err; eauto].
      pose proof (wfl_index _ _ _ _ Hv E). destruct a0; auto.
    - destruct (as_str idx) eqn:Ei; simpl; auto; [|eapply as_str_not_err; eauto].
      pose proof (wfb_lookup_or_nil b a m Hv). destruct (lookup_or_nil a m); auto. }
  match goal with |- okout b (let* branch := ?X in _) = true => destruct X as [br|?| |] end; cbn [bind okout]; auto; try contradiction.
  change (okout b (let* inner := assoc_in_path br (i2 :: rest') nv in b_assoc [v; idx; inner]) = true).
  specialize (IH br Hrest G). destruct (assoc_in_path br (i2 :: rest') nv) as [inner|?| |]; cbn [bind okout] in *; auto.
  apply pure_ok_assoc. wfsimp. simpl. tauto.
Qed.

Lemma pure_ok_assoc_in : pure_ok b_assoc_in.
Proof.
  intros b a H. destruct a as [|x [|y [|z [|? ?]]]]; try reflexivity; try (destruct y; reflexivity).
  destruct y; try reflexivity. wfsimp. apply assoc_in_path_ok; tauto.
Qed.

Lemma pure_ok_pred f : pure_ok (pred1 f).
Proof. intros b a H. destruct a as [|x [|? ?]]; reflexivity. Qed.
Lemma pure_ok_symbol : pure_ok b_symbol.
Proof. intros b a H. destruct a as [|x [|? ?]]; try reflexivity; destruct x; reflexivity. Qed.
Lemma pure_ok_keyword : pure_ok b_keyword.
Proof. intros b a H. destruct a as [|x [|? ?]]; try reflexivity; destruct x; reflexivity. Qed.
Lemma pure_ok_arith f : pure_ok (arith f).
Proof. intros b a H. destruct a as [|x [|y [|? ?]]]; try reflexivity; destruct x; try reflexivity; destruct y; reflexivity. Qed.
Lemma pure_ok_cmp f : pure_ok (cmp f).
Proof. intros b a H. destruct a as [|x [|y [|? ?]]]; try reflexivity; destruct x; try reflexivity; destruct y; reflexivity. Qed.
Lemma pure_ok_div : pure_ok b_div.
Proof.
  intros b a H. destruct a as [|x [|y [|? ?]]]; try reflexivity; destruct x; try reflexivity; destruct y; try reflexivity.
  simpl. destruct (Z.eqb z0 0); reflexivity.
Qed.
Lemma pure_ok_equal : pure_ok b_equal.
Proof. intros b a H. destruct a as [|x [|y [|? ?]]]; try reflexivity. simpl. destruct (equalI x y); reflexivity. Qed.
Lemma pure_ok_throw : pure_ok b_throw.
Proof.
  intros b a H. destruct a as [|x [|? ?]]; try reflexivity. wfsimp. simpl. destruct (is_error x); simpl; tauto.
Qed.
Lemma pure_ok_assert : pure_ok b_assert.
Proof.
  intros b a H. destruct a as [|x [|y [|? ?]]]; try reflexivity; wfsimp.
  - destruct x; try reflexivity. destruct b0; reflexivity.
  - destruct x; try reflexivity; [destruct y; simpl; tauto | destruct b0; try reflexivity; destruct y; simpl; tauto].
Qed.
Lemma pure_ok_with_meta : pure_ok b_with_meta.
Proof.
  intros b a H. destruct a as [|x [|y [|? ?]]]; try reflexivity; destruct x; try reflexivity; wfsimp; simpl; wfsimp; tauto.
Qed.
Lemma pure_ok_pr_str : pure_ok b_pr_str.
Proof. intros b a H. reflexivity. Qed.
Lemma pure_ok_str : pure_ok b_str.
Proof. intros b a H. reflexivity. Qed.

(** every first-order entry of the table *)
Definition entry_pure_ok (e : str * bentry) : Prop :=
  match b_kind (snd e) with BPure f => pure_ok f | _ => True end.

Lemma table_pure_ok : Forall entry_pure_ok builtin_table.
Proof.
  unfold builtin_table.
  repeat (apply Forall_cons; [first [exact I | unfold entry_pure_ok; cbn [snd b_kind pure1 pure2 purev int2 pred];
    auto using pure_ok_list, pure_ok_vector, pure_ok_cons, pure_ok_concat, pure_ok_vec, pure_ok_nth, pure_ok_first, pure_ok_rest,
      pure_ok_empty, pure_ok_count, pure_ok_conj, pure_ok_seq, pure_ok_take, pure_ok_drop, pure_ok_drop_last, pure_ok_take_last,
      pure_ok_subvec, pure_ok_range, pure_ok_hash_map, pure_ok_set, pure_ok_hash_set, pure_ok_assoc, pure_ok_dissoc, pure_ok_get,
      pure_ok_get_in, pure_ok_contains, pure_ok_keys, pure_ok_vals, pure_ok_merge, pure_ok_rename_keys, pure_ok_assoc_in,
      pure_ok_pred, pure_ok_symbol, pure_ok_keyword, pure_ok_arith, pure_ok_cmp, pure_ok_div, pure_ok_equal, pure_ok_throw,
      pure_ok_assert, pure_ok_with_meta, pure_ok_pr_str, pure_ok_str] |]).
  apply Forall_nil.
Qed.

Lemma lookup_pure_ok name e f : alookup name builtin_table = Some e -> b_kind e = BPure f -> pure_ok f.
Proof.
  intros Hl Hk. pose proof table_pure_ok as T. rewrite Forall_forall in T.
  assert (Hin : exists n, In (n, e) builtin_table).
  { revert Hl. generalize builtin_table. induction l as [|[k v] r IH]; simpl; [discriminate|].
    destruct (str_eqb name k); [intros E; inversion E; subst; eexists; left; reflexivity|].
    intros E. destruct (IH E) as [n Hn]. eexists; right; eauto. }
  destruct Hin as [n Hn]. specialize (T _ Hn). unfold entry_pure_ok in T. simpl in T. now rewrite Hk in T.
Qed.
