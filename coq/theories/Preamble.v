(** mal.go: AddPreamble and READWithPreamble, transcribed.  The two regular expressions
    (placeholderRE, moduleNamePrefixRE) are replaced by hand-written matchers; their literals
    are pinned by a generated-source lemma (Props/C15.v).  Definitions only. *)
From Lisp Require Export Value Core Scanner Reader Printer.
Local Open Scope N_scope.

(** strings.Cut(s, "\n") *)
Fixpoint cut_nl (s : str) : str * str :=
  match s with
  | [] => ([], [])
  | c :: r => if N.eqb c 10 then ([], r) else let '(a, b) := cut_nl r in (c :: a, b)
  end.

(** strings.Trim(s, " \t\r\n") *)
Definition is_trim (c : N) : bool := N.eqb c 32 || N.eqb c 9 || N.eqb c 13 || N.eqb c 10.
Definition trim (s : str) : str := rev (drop_while is_trim (rev (drop_while is_trim s))).

(** [\-\d\w] *)
Definition is_name_char (c : N) : bool :=
  N.eqb c 45 || (N.leb 48 c && N.leb c 57) || (N.leb 65 c && N.leb c 90) || (N.leb 97 c && N.leb c 122) || N.eqb c 95.

Fixpoint span_name (s : str) : str * str :=
  match s with
  | c :: r => if is_name_char c then let '(a, b) := span_name r in (c :: a, b) else ([], s)
  | [] => ([], [])
  end.

(** \s of RE2: [\t\n\f\r ] *)
Definition is_re_space (c : N) : bool := N.eqb c 9 || N.eqb c 10 || N.eqb c 12 || N.eqb c 13 || N.eqb c 32.

Definition PRE : str := s_ ";; $".

(** placeholderRE = `^(;; \$[\-\d\w]+)+\s(.+)` on one (trimmed) line: Some (key, value) where key
    is the LAST repetition of group 1 without its ";; " prefix *)
Fixpoint match_preamble (fuel : nat) (line : str) (last_key : option str) : option (str * str) :=
  match fuel with
  | O => None
  | S fuel' =>
      if prefix_of PRE line then
        let after := skipn 4 line in
        let '(name, rest) := span_name after in
        match name with
        | [] => (* no further repetition possible here *)
            match last_key, line with
            | Some k, c :: v => if is_re_space c then match v with [] => None | _ => Some (k, v) end else None
            | _, _ => None
            end
        | _ =>
            match rest with
            | c :: v =>
                if prefix_of PRE rest then match_preamble fuel' rest (Some (36 :: name))
                else if is_re_space c then match v with [] => None | _ => Some (36 :: name, v) end else None
            | [] => None
            end
        end
      else
        match last_key, line with
        | Some k, c :: v => if is_re_space c then match v with [] => None | _ => Some (k, v) end else None
        | _, _ => None
        end
  end.

Definition preamble_line (line : str) : option (str * str) := match_preamble (S (length line)) line None.

(** READWithPreamble(str, cursor, ns) *)
Fixpoint read_with_preamble_n (fuel : nat) (cm : option str) (ext : option (str -> list val -> outcome val))
         (src : str) (ph : list (str * val)) : outcome val :=
  match fuel with
  | O => OutOfFuel
  | S fuel' =>
      let '(line0, rest) := cut_nl src in
      let line := trim line0 in
      match line with
      | [] => read_str cm (Some ph) ext rest
      | _ =>
          if negb (prefix_of PRE line) then read_str cm (Some ph) ext (line ++ 10 :: rest)
          else
            match preamble_line line with
            | None => rerr "invalid preamble format" None
            | Some (key, value) =>
                let item := match read_str None None ext value with Ok v => v | _ => VNil end in
                read_with_preamble_n fuel' cm ext rest (aset key item ph)
            end
      end
  end.

Definition read_with_preamble cm ext (src : str) : outcome val :=
  read_with_preamble_n (S (S (length src))) cm ext src [].

(** AddPreamble(str, placeholderMap): one ";; $K printed-value" line per entry, a blank line, the source *)
Definition add_preamble (src : str) (m : list (str * val)) : str :=
  concat (map (fun kv => s_ ";; " ++ fst kv ++ s_ " " ++ pr_str true (snd kv) ++ [10]) m) ++ 10 :: src.
