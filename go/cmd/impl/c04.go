package main

import (
	"fmt"

	"github.com/jig/lisp/types"
	. "verif.local/harness/h"
)

func init() { runners["C04"] = runC04 }

func runC04(tier string, seed uint64, rep *Report) {
	rep.Rule = "ASTs built as Go values (not through READ): (i) every special-form head x every operand list of length 0..3 (0..4 thorough) over a " +
		"17-element operand universe incl. malformed clauses; (ii) every modelled builtin applied to 0..3 operands over a value universe; " +
		"(iii) seeded random ASTs of all value kinds. Direct oracle: recover() fired (a Go panic escaped EVAL), or the error is not catchable by try/catch. " +
		"Non-trivial: the operand list is not the well-formed shape of its head."
	ops := []types.MalType{
		nil, 1, "s", Kw("k"), S("x"), L(), L(S("x")), V(S("x")), V(S("&"), S("x")), V(S("&")), V(1),
		types.HashMap{Val: map[string]types.MalType{}}, L(S("catch")), L(S("catch"), S("e")), L(S("catch"), S("e"), 1), L(S("catch"), 5, 6),
		L(S("finally")), L(S("finally"), 1), V(S("catch"), S("e"), 2), V(S("finally"), 2), L(S("unquote")), L(S("splice-unquote")), L(L(S("splice-unquote"))), L(S("fn")), L(S("fn"), V(1), 1),
	}
	heads := []string{"def", "let", "quote", "quasiquoteexpand", "quasiquote", "defmacro", "macroexpand", "try", "do", "if", "fn"}
	maxLen := 3
	if tier == "thorough" {
		maxLen = 4
	}
	var rec func(prefix []types.MalType, left int)
	count := 0
	rec = func(prefix []types.MalType, left int) {
		ast := types.List{Val: append([]types.MalType{}, prefix...)}
		idx, line, _ := addProgram(rep, ast, true, "special-form")
		count++
		// every error must be catchable: wrap in try/catch
		if outcomeKind(line) == "E" && count%7 == 0 {
			wrapped := Call("try", ast, Call("catch", S("e"), Kw("caught")))
			_, l2, _ := addProgram(rep, wrapped, true, "catchable")
			if outcomeKind(l2) != "V" {
				rep.Violate(idx, "an error returned by EVAL was not catchable by try/catch", Show(wrapped))
			}
		}
		if left == 0 {
			return
		}
		for _, o := range ops {
			if left < maxLen-1 && len(prefix) >= 3 && count%3 != 0 { // thin out the deepest level
				continue
			}
			rec(append(prefix, o), left-1)
		}
	}
	for _, hd := range heads {
		rec([]types.MalType{S(hd)}, maxLen)
	}
	// calling closures with malformed parameter lists
	for _, params := range append(append([]types.MalType{}, ops...), V(S("x"), S("&")), V(S("x"), S("y"), S("&")), V(S("&"), S("x"), S("y")), V(S("x"), S("&"), S("&")), V(S("x"), S("&"), 1)) {
		for n := 0; n <= 3; n++ {
			call := []types.MalType{Call("fn", params, S("x"))}
			for i := 0; i < n; i++ {
				call = append(call, i)
			}
			addProgram(rep, L(call...), true, "closure-params")
		}
	}
	// (ii) builtins x operands
	vals := []types.MalType{nil, 0, -1, 5, "s", Kw("k"), Q(S("x")), Call("list"), Call("list", 1, 2), V(), V(1, 2),
		types.HashMap{Val: map[string]types.MalType{}}, types.HashMap{Val: map[string]types.MalType{Kw("a"): 1}}, Call("hash-set", "a"), Call("fn", V(S("a")), S("a")), S("+"), Call("atom", 1)}
	builtins := []string{"assoc-in", "update", "update-in", "<", "+", "/", "get", "get-in", "contains?", "cons", "nth", "with-meta", "range", "merge",
		"rename-keys", "map", "throw", "symbol", "keyword", "set", "keys", "vals", "vec", "first", "rest", "count", "seq", "deref", "pr-str", "str",
		"list", "vector", "hash-map", "hash-set", "assoc", "dissoc", "concat", "=", "empty?", "apply", "conj", "assert", "take", "take-last", "drop",
		"drop-last", "subvec", "atom", "swap!", "reset!", "eval", "fn?", "macro?"}
	r := NewRng(seed)
	printing := map[string]bool{"pr-str": true, "str": true}
	for _, b := range builtins {
		addProgram(rep, Call(b), true, "builtin-0")
		vals := vals
		if printing[b] {
			vals = vals[:14] // the model prints functions and atoms opaquely: keep them away from the printer
		}
		for _, a := range vals {
			addProgram(rep, Call(b, a), true, "builtin-1")
			for _, c := range vals {
				if tier == "thorough" || r.Intn(3) == 0 {
					addProgram(rep, Call(b, a, c), true, "builtin-2")
				}
				if r.Intn(12) == 0 {
					addProgram(rep, Call(b, a, c, vals[r.Intn(len(vals))]), true, "builtin-3")
				}
			}
		}
	}
	// (iii) random ASTs of all kinds
	n := 1500
	if tier == "thorough" {
		n = 40000
	}
	var gen func(d int) types.MalType
	atoms := append([]types.MalType{}, ops...)
	for _, hd := range heads {
		atoms = append(atoms, S(hd))
	}
	for _, b := range builtins {
		if !printing[b] {
			atoms = append(atoms, S(b))
		}
	}
	gen = func(d int) types.MalType {
		if d == 0 || r.Intn(3) == 0 {
			return atoms[r.Intn(len(atoms))]
		}
		k := r.Intn(5)
		xs := make([]types.MalType, k)
		for i := range xs {
			xs[i] = gen(d - 1)
		}
		if r.Intn(4) == 0 {
			return types.Vector{Val: xs}
		}
		return types.List{Val: xs}
	}
	for i := 0; i < n; i++ {
		addProgram(rep, gen(4), true, "random-ast")
	}
	c04Compositions(r, rep, tier)
}

// (iv) error paths that interact: a failing expression inside nested evaluation contexts (tail and non-tail
// positions, closures, builtins that call back into lisp, forms built at run time by a macro, try with
// handlers and finally bodies that themselves use symbols, fail, or tail-call with a wrong arity), each
// delivered three ways: as a Go-built AST (compared with the model), as text read without a module name
// and as text read under a module name (positions present: the error decoration paths differ).
func c04Compositions(r *Rng, rep *Report, tier string) {
	failing := []string{
		"(throw {:boom 1})", "(throw \"s\")", "(undefined-fn 1)", "zz-undefined", "((fn [a] a))", "((fn [a] a) 1 2)", "(one-arg)", "(one-arg 1 2)",
		"(nth [] 3)", "(first 5)", "(+ 1 \"s\")", "(1 2)", "((fn [& r] (first r)))", "(assert false)", "(swap! 5 inc)", "(deref 5)", "(apply + 1)",
	}
	failing = append(failing,
		// a macro whose expansion is the empty list; parameter lists ending in a dangling &, called with enough arguments
		"(m-empty)", "(m-splice)", "(-> ())", "((fn [a &] a) 1)", "((fn [a b &] a) 1 2)", "(m-dangling 1)",
		// functions and macros that carry metadata, called every way; try clauses written as vectors
		"(m-meta false (throw 7) 8)", "(f-meta)", "(apply f-meta [])", "(try 1 [catch e 2])", "(try (throw 1) [catch e 2] (finally 3))", "(try 1 [finally 2])")
	fine := []string{"1", "(trace! :ok)", "(+ 1 2)", "(count log)", "[1 (trace! 2)]",
		// special forms with fewer operands than usual, wherever they end up (often in tail position after longer forms)
		"(m-meta true 7 8)", "(f-meta 1)", "(apply f-meta [1])", "(map f-meta [1 2])", "(swap! (atom 1) f-meta)", "((with-meta f-meta {:again 1}) 2)", "(if true)", "(if nil)", "(if (trace! 1))", "(quote)", "(do)", "(let [])", "(fn)", "(try)", "{:a (trace! 1)}", "(quasiquote)"}
	pick := func(xs []string) string { return xs[r.Intn(len(xs))] }
	var ctxs []func(inner string) string
	ctxs = []func(string) string{
		func(x string) string { return x },
		func(x string) string { return "(do (trace! :a) " + x + ")" },
		func(x string) string { return "(do 1 2 " + x + ")" },
		func(x string) string { return "(let [a 1] 10 20 " + x + ")" },
		func(x string) string { return "((fn [a b] " + x + ") 1 (trace! 2))" },
		func(x string) string { return "(do " + x + " (trace! :after))" },
		func(x string) string { return "(let [q 1] " + x + ")" },
		func(x string) string { return "(let [q " + x + "] q)" },
		func(x string) string { return "(if true " + x + " 2)" },
		func(x string) string { return "(if " + x + " 1 2)" },
		func(x string) string { return "((fn [] " + x + "))" },
		func(x string) string { return "(list 1 " + x + " 3)" },
		func(x string) string { return "(map (fn [v] " + x + ") [1 2])" },
		func(x string) string { return "(apply (fn [v] " + x + ") [1])" },
		func(x string) string { return "(eval (quote " + x + "))" },
		func(x string) string { return "(swap! (atom 1) (fn [v] " + x + "))" },
		func(x string) string { return "(mm-map (fn [v] " + x + ") [1 2])" },   // the (map ..) call form is built by a macro: no position
		func(x string) string { return "(mm-apply (fn [v] " + x + ") [1])" },
		func(x string) string { return "(-> 1 ((fn [v] " + x + ")))" },
		func(x string) string { return "(try " + x + " (catch e " + pick(append(failing, fine...)) + "))" },
		func(x string) string { return "(try " + x + " (catch e (trace! e)) (finally (swap! log conj :f)))" },
		func(x string) string { return "(try " + x + " (catch exc " + pick(failing) + ") (finally (swap! log conj :f)))" },
		func(x string) string { return "(try " + x + " (finally " + pick(append(failing, fine...)) + "))" },
		func(x string) string { return "(try (try " + x + " (finally (trace! :inner))) (catch e2 (trace! :outer)))" },
		func(x string) string { return "(try 1 (catch e 2) (finally " + x + "))" },
		func(x string) string { return "(try (throw 1) (catch e " + x + ") (finally (trace! (count log))))" },
	}
	prelude := "(def log (atom [])) (def one-arg (fn [a] a)) (defmacro mm-map (fn [f xs] `(map ~f ~xs))) (defmacro mm-apply (fn [f xs] `(apply ~f ~xs)))" +
		" (defmacro m-meta (with-meta (fn [c a b] (list 'if c a b)) {:doc \"d\"})) (def f-meta (with-meta (fn [a] a) {:k 1}))" +
		" (defmacro m-empty (fn [& xs] xs)) (defmacro m-splice (fn [& form] `(~@form))) (defmacro m-dangling (fn [x &] x))"
	n := 1200
	if tier == "thorough" {
		n = 30000
	}
	for i := 0; i < n; i++ {
		x := pick(failing)
		if r.Intn(6) == 0 {
			x = pick(fine)
		}
		for d, depth := 0, 1+r.Intn(3); d < depth; d++ {
			x = ctxs[r.Intn(len(ctxs))](x)
		}
		src := "(do " + prelude + " " + x + ")"
		w, _ := NewWorld()
		ast, err := READ(w, src)
		if err != nil {
			panic("harness: " + src + ": " + err.Error())
		}
		idx, _, _ := addProgram(rep, StripPos(ast), true, "composition:ast")
		for _, module := range []bool{false, true} {
			_, _, o := evalText(src, module)
			tag := map[bool]string{false: "composition:text-no-module", true: "composition:text-module"}[module]
			rep.Histogram[tag]++
			if o.Panic != nil {
				rep.Violate(idx, fmt.Sprintf("a Go panic escaped from EVAL (%s): %v", tag, o.Panic), src)
			}
		}
	}
}
