(** C03 — throw / catch / finally. *)
From Lisp Require Import Base Value Core Binder Env Eval Interp EvalProofs Run.
From Lisp.Gen Require Import Examples.

(** re-positioning an error (the only thing EVAL does to an error it propagates through a
    builtin call) never changes its payload *)
Theorem C03_reposition_keeps_payload : forall e p, payload (new_lisp_error e p) = payload e.
Proof. exact new_lisp_error_payload. Qed.

(** throw hands a lisp value over as the payload, a Go error as itself *)
Theorem C03_throw_value_is_payload : forall v, is_error v = false -> b_throw [v] = Err (VLispErr v None).
Proof. exact throw_payload. Qed.
Theorem C03_throw_go_error_unchanged : forall v, is_error v = true -> b_throw [v] = Err v.
Proof. exact throw_error_itself. Qed.

(** the catch variable is bound to the payload itself *)
Theorem C03_catch_binds_payload : forall v p, caught_value (VLispErr v p) = v.
Proof. exact caught_value_lisp. Qed.

(** finally: runs exactly once, after body and handler (everything in [rest]), in the scope of
    the try form itself; its value and its error are discarded, the outcome is unchanged *)
Theorem C03_finally_once_outcome_unchanged : forall ev d forms env (rest : M val) st r st1 rf st2,
  rest st = (r, st1) -> r <> OutOfFuel ->
  do_forms ev d forms 0 false env st1 = (rf, st2) ->
  (forall s, rf <> Panic s) -> rf <> OutOfFuel ->
  with_finally ev d (Some forms) env rest st = (r, st2).
Proof. exact with_finally_once. Qed.

Theorem C03_no_finally : forall ev d env (rest : M val) st,
  dbg (snd (rest st)) = None -> with_finally ev d None env rest st = rest st.
Proof. exact with_finally_none. Qed.

(** the handler gets exactly the error of the body; a body that does not fail skips it *)
Theorem C03_handler_gets_body_error : forall (m : M val) h st e st',
  m st = (Err e, st') -> catch_errors m h st = h e st'.
Proof. exact catch_errors_err. Qed.
Theorem C03_no_error_no_handler : forall (m : M val) h st v st',
  m st = (Ok v, st') -> catch_errors m h st = (Ok v, st').
Proof. exact catch_errors_ok. Qed.

(** the four paths, computed on the model with a NON self-evaluating handler result *)
Example C03_path_normal : observe ex_c03_normal = s_ "V i 1 | l 2 i 1 i 3 ". Proof. vm_compute. reflexivity. Qed.
Example C03_path_caught : observe ex_c03_caught = s_ "V l 3 y 1 43 i 1 i 2 | l 2 i 2 i 3 ". Proof. vm_compute. reflexivity. Qed.
Example C03_handler_value_not_reevaluated : observe ex_c03_handler_quoted = s_ "V l 3 y 1 43 i 1 i 2 | l 0 ". Proof. vm_compute. reflexivity. Qed.
Example C03_path_uncaught : observe ex_c03_uncaught = s_ "E x m 1 2 670 97 i 1 | l 2 i 1 i 3 ". Proof. vm_compute. reflexivity. Qed.
Example C03_path_handler_throws : observe ex_c03_handler_throws = s_ "E x l 2 s 6 670 97 103 97 105 110 i 1 | l 1 i 3 ". Proof. vm_compute. reflexivity. Qed.
Example C03_catch_var_scoped : observe ex_c03_scoped = s_ "V i 99 | l 1 i 99 ". Proof. vm_compute. reflexivity. Qed.
Example C03_nested_finally_order : observe ex_c03_nested = s_ "V i 1 | l 3 i 1 i 2 i 3 ". Proof. vm_compute. reflexivity. Qed.

Print Assumptions C03_reposition_keeps_payload.
Print Assumptions C03_finally_once_outcome_unchanged.
Print Assumptions C03_handler_gets_body_error.
