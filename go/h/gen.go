package h

import "github.com/jig/lisp/types"

func Kw(s string) string { return "ʞ" + s }

// small alphabets chosen to make collisions (same key, same spelling across kinds) likely
var genStrs = []string{"", "a", "b", "ab", "nil", "0", "x y", "\"q\"", "\\", "é", "{\"k\":1}"}
var genNames = []string{"a", "b", "c", "nil?", "x-1"}
var genInts = []int{0, 1, -1, 2, 7, 1 << 40}

// GenScalar: nil, bool, int, string, keyword, symbol.
func GenScalar(r *Rng) types.MalType {
	switch r.Intn(8) {
	case 0:
		return nil
	case 1:
		return r.Bool()
	case 2, 3:
		return genInts[r.Intn(len(genInts))]
	case 4:
		return r.Pick(genStrs)
	case 5, 6:
		return Kw(r.Pick(genNames))
	default:
		return types.Symbol{Val: r.Pick(genNames)}
	}
}

func GenKey(r *Rng) string {
	if r.Bool() {
		return Kw(r.Pick(genNames[:3]))
	}
	return r.Pick(genStrs[:5])
}

// GenData produces a nested data value (the universe of C06/C14/C13).
func GenData(r *Rng, depth int) types.MalType {
	if depth <= 0 || r.Intn(10) < 4 {
		return GenScalar(r)
	}
	n := r.Intn(4)
	switch r.Intn(6) {
	case 0, 1:
		l := make([]types.MalType, n)
		for i := range l {
			l[i] = GenData(r, depth-1)
		}
		return types.List{Val: l}
	case 2, 3:
		l := make([]types.MalType, n)
		for i := range l {
			l[i] = GenData(r, depth-1)
		}
		return types.Vector{Val: l}
	case 4:
		m := map[string]types.MalType{}
		for i := 0; i < n; i++ {
			m[GenKey(r)] = GenData(r, depth-1)
		}
		return types.HashMap{Val: m}
	default:
		m := map[string]struct{}{}
		for i := 0; i < n; i++ {
			m[GenKey(r)] = struct{}{}
		}
		return types.Set{Val: m}
	}
}

// Mutate returns a value close to v (one local change), to generate near-equal pairs.
func Mutate(r *Rng, v types.MalType, depth int) types.MalType {
	switch x := v.(type) {
	case types.List:
		if len(x.Val) > 0 && r.Intn(3) > 0 {
			i := r.Intn(len(x.Val))
			l := append([]types.MalType{}, x.Val...)
			l[i] = Mutate(r, l[i], depth-1)
			if r.Intn(4) == 0 {
				return types.Vector{Val: l}
			}
			return types.List{Val: l}
		}
		if r.Bool() {
			return types.Vector{Val: append([]types.MalType{}, x.Val...)}
		}
		return types.List{Val: append(append([]types.MalType{}, x.Val...), GenScalar(r))}
	case types.Vector:
		if len(x.Val) > 0 && r.Intn(3) > 0 {
			i := r.Intn(len(x.Val))
			l := append([]types.MalType{}, x.Val...)
			l[i] = Mutate(r, l[i], depth-1)
			return types.Vector{Val: l}
		}
		return types.List{Val: append([]types.MalType{}, x.Val...)}
	case types.HashMap:
		m := map[string]types.MalType{}
		for k, e := range x.Val {
			m[k] = e
		}
		ks := SortedKeys(m)
		switch {
		case len(ks) > 0 && r.Intn(3) == 0: // rename one key, keep the value
			k := ks[r.Intn(len(ks))]
			val := m[k]
			delete(m, k)
			m[GenKey(r)] = val
		case len(ks) > 0 && r.Intn(2) == 0: // replace a value by nil / mutate it
			k := ks[r.Intn(len(ks))]
			if r.Bool() {
				m[k] = nil
			} else {
				m[k] = Mutate(r, m[k], depth-1)
			}
		default: // swap a key holding nil for another absent key
			m[GenKey(r)] = nil
		}
		return types.HashMap{Val: m}
	case types.Set:
		m := map[string]struct{}{}
		for k := range x.Val {
			m[k] = struct{}{}
		}
		ks := SortedSet(m)
		if len(ks) > 0 && r.Bool() {
			delete(m, ks[r.Intn(len(ks))])
		}
		m[GenKey(r)] = struct{}{}
		return types.Set{Val: m}
	default:
		if r.Intn(3) == 0 {
			return v
		}
		return GenScalar(r)
	}
}

// Rebuild returns a structurally identical copy built along a different path
// (fresh maps, reversed insertion order).
func Rebuild(v types.MalType) types.MalType {
	switch x := v.(type) {
	case types.List:
		l := make([]types.MalType, len(x.Val))
		for i := range l {
			l[i] = Rebuild(x.Val[i])
		}
		return types.List{Val: l}
	case types.Vector:
		l := make([]types.MalType, len(x.Val))
		for i := range l {
			l[i] = Rebuild(x.Val[i])
		}
		return types.Vector{Val: l}
	case types.HashMap:
		m := map[string]types.MalType{}
		ks := SortedKeys(x.Val)
		for i := len(ks) - 1; i >= 0; i-- {
			m[ks[i]] = Rebuild(x.Val[ks[i]])
		}
		return types.HashMap{Val: m}
	case types.Set:
		m := map[string]struct{}{}
		ks := SortedSet(x.Val)
		for i := len(ks) - 1; i >= 0; i-- {
			m[ks[i]] = struct{}{}
		}
		return types.Set{Val: m}
	default:
		return v
	}
}
