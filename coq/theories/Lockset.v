(** Lock discipline of the Go functions that touch shared fields (env/env.go, the Atom and Future
    methods of lib/concurrent/concurrent.go), decided on the action lists the translator
    regenerates from the source on every run (Gen/ConcActions.v).
    [parse] turns a token list into structured code; [exec] runs it abstractly over the state of
    the object's mutex along ALL paths (both arms of every if, every case of a select, any number
    of loop iterations); [discipline] computes, per function, the weakest lock mode it must be
    entered with, and checks every call of a method on the same object against that.
    LocksetProofs.v: a function accepted by [exec] performs, on every path, every shared read
    under the read or write lock, every shared write under the write lock, never re-locks a mutex
    it holds, and returns with exactly the locks it was entered with. *)
From Lisp Require Export Base.
Local Open Scope nat_scope.

Inductive instr :=
| ILock | IUnlock | IRLock | IRUnlock | IDeferUnlock | IDeferRUnlock
| IRead (f : str) | IWrite (f : str)
| ICallOwn (name : str) | ICallOther (name : str)
| INeutral (tok : str)                     (* Apply, Send, Recv, Go, CallCancel: no effect on this mutex *)
| IReturn
| IIf (thn els : list instr)
| ISelect (cases : list (list instr))
| ILoop (body : list instr)
| IDeferFn (body : list instr)
| IBad (tok : str).                        (* not understood: never accepted *)

(** ---- parsing the token stream ---- *)
Definition tok_is (t : str) (s : String.string) : bool := str_eqb t (s_ s).
Definition tok_after (p : String.string) (t : str) : option str :=
  if prefix_of (s_ p) t then Some (skipn (length (s_ p)) t) else None.

Definition simple_instr (t : str) : instr :=
  if tok_is t "Lock" then ILock else if tok_is t "Unlock" then IUnlock
  else if tok_is t "RLock" then IRLock else if tok_is t "RUnlock" then IRUnlock
  else if tok_is t "DeferUnlock" then IDeferUnlock else if tok_is t "DeferRUnlock" then IDeferRUnlock
  else if tok_is t "Return" then IReturn
  else if tok_is t "WriteVal" then IWrite (s_ "Val") else if tok_is t "WriteMap" then IWrite (s_ "data")
  else if tok_is t "Apply" || tok_is t "Go" || tok_is t "CallCancel" then INeutral t
  else match tok_after "Read:" t with Some f => IRead f | None =>
       match tok_after "Write:" t with Some f => IWrite f | None =>
       match tok_after "Call:own:" t with Some n => ICallOwn n | None =>
       match tok_after "Call:other:" t with Some n => ICallOther n | None =>
       match tok_after "Send:" t with Some _ => INeutral t | None =>
       match tok_after "Recv:" t with Some _ => INeutral t | None => IBad t
       end end end end end end.

(** [parse_seq fuel toks] reads instructions up to the closing ")" of the enclosing block (or
    the end of the list) and returns them with the remaining tokens (after the ")"). *)
Fixpoint parse_seq (fuel : nat) (toks : list str) : list instr * list str :=
  match fuel with
  | O => ([IBad (s_ "fuel")], [])
  | S f =>
      match toks with
      | [] => ([], [])
      | t :: rest =>
          if tok_is t ")" then ([], rest)
          else if tok_is t "If(" then
            let '(thn, rest1) := parse_seq f rest in
            match rest1 with
            | t2 :: rest2 =>
                if tok_is t2 "Else(" then
                  let '(els, rest3) := parse_seq f rest2 in
                  let '(more, rest4) := parse_seq f rest3 in
                  (IIf thn els :: more, rest4)
                else
                  let '(more, rest4) := parse_seq f rest1 in
                  (IIf thn [] :: more, rest4)
            | [] => ([IIf thn []], [])
            end
          else if tok_is t "Loop(" then
            let '(body, rest1) := parse_seq f rest in
            let '(more, rest2) := parse_seq f rest1 in
            (ILoop body :: more, rest2)
          else if tok_is t "Defer(" then
            let '(body, rest1) := parse_seq f rest in
            let '(more, rest2) := parse_seq f rest1 in
            (IDeferFn body :: more, rest2)
          else if tok_is t "Select(" then
            let '(cases, rest1) := parse_cases f rest in
            let '(more, rest2) := parse_seq f rest1 in
            (ISelect cases :: more, rest2)
          else
            let '(more, rest1) := parse_seq f rest in
            (simple_instr t :: more, rest1)
      end
  end
with parse_cases (fuel : nat) (toks : list str) : list (list instr) * list str :=
  match fuel with
  | O => ([[IBad (s_ "fuel")]], [])
  | S f =>
      match toks with
      | [] => ([], [])
      | t :: rest =>
          if tok_is t ")" then ([], rest)
          else if tok_is t "Case(" then
            let '(body, rest1) := parse_seq f rest in
            let '(more, rest2) := parse_cases f rest1 in
            (body :: more, rest2)
          else ([[IBad t]], [])
      end
  end.

Definition parse (toks : list str) : list instr := fst (parse_seq (S (2 * length toks)) toks).

(** ---- the abstract state of this object's mutex, as held by the running function ---- *)
Inductive mode := MFree | MR | MW.
Definition mode_eqb (a b : mode) : bool :=
  match a, b with MFree, MFree | MR, MR | MW, MW => true | _, _ => false end.
Definition mode_le (a b : mode) : bool :=      (* a is enough when b is held *)
  match a, b with MFree, _ => true | MR, MR | MR, MW => true | MW, MW => true | _, _ => false end.

Record lst := mkL { held : mode; dfr : option mode }.
Definition lst_eqb (a b : lst) : bool :=
  mode_eqb (held a) (held b) &&
  match dfr a, dfr b with None, None => true | Some x, Some y => mode_eqb x y | _, _ => false end.

(** summary of a method: the weakest mode it must be entered with, and whether it takes the lock itself *)
Record summary := mkSum { s_name : str; s_needs : mode; s_acquires : bool }.
Fixpoint find_sum (tbl : list summary) (n : str) : option summary :=
  match tbl with [] => None | x :: r => if str_eqb (s_name x) n then Some x else find_sum r n end.

Definition ret_ok (entry : mode) (st : lst) : bool :=
  match dfr st with
  | Some m => mode_eqb (held st) m && mode_eqb entry MFree    (* the deferred unlock releases what is held *)
  | None => mode_eqb (held st) entry
  end.

(** run k on every element, collecting the outcomes; None as soon as one fails *)
Fixpoint collect {A} (k : A -> option (list lst)) (l : list A) : option (list lst) :=
  match l with
  | [] => Some []
  | x :: r => match k x, collect k r with Some a, Some b => Some (a ++ b) | _, _ => None end
  end.

Section Exec.
  Variable shared : str -> bool.            (* which fields are guarded by this mutex *)
  Variable tbl : list summary.
  Variable entry : mode.

  (** None: a violation on some path.  Some outs: the states in which control can fall through. *)
  Fixpoint exec (fuel : nat) (st : lst) (code : list instr) : option (list lst) :=
    match fuel with
    | O => None
    | S f =>
        match code with
        | [] => Some [st]
        | i :: rest =>
            let continue (outs : list lst) := collect (fun s1 => exec f s1 rest) outs in
            match i with
            | ILock => if mode_eqb (held st) MFree then exec f (mkL MW (dfr st)) rest else None
            | IRLock => if mode_eqb (held st) MFree then exec f (mkL MR (dfr st)) rest else None
            | IUnlock =>
                match held st, dfr st with MW, None => exec f (mkL MFree None) rest | _, _ => None end
            | IRUnlock =>
                match held st, dfr st with MR, None => exec f (mkL MFree None) rest | _, _ => None end
            | IDeferUnlock =>
                match held st, dfr st with MW, None => exec f (mkL MW (Some MW)) rest | _, _ => None end
            | IDeferRUnlock =>
                match held st, dfr st with MR, None => exec f (mkL MR (Some MR)) rest | _, _ => None end
            | IRead fld => if negb (shared fld) || mode_le MR (held st) then exec f st rest else None
            | IWrite fld => if negb (shared fld) || mode_le MW (held st) then exec f st rest else None
            | ICallOwn n =>
                (* every method of that name (two types may share one) must be callable here *)
                match find_sum tbl n with
                | Some _ =>
                    if forallb (fun sm => negb (str_eqb (s_name sm) n) ||
                                          (mode_le (s_needs sm) (held st) && (negb (s_acquires sm) || mode_eqb (held st) MFree))) tbl
                    then exec f st rest else None
                | None => None
                end
            | ICallOther _ | INeutral _ => exec f st rest
            | IReturn => if ret_ok entry st then Some [] else None
            | IIf thn els =>
                match exec f st thn, exec f st els with
                | Some a, Some b => continue (a ++ b)
                | _, _ => None
                end
            | ISelect cases =>
                match collect (fun c => exec f st c) cases with Some o => continue o | None => None end
            | ILoop body =>
                (* the loop body must fall through in the state it was entered with *)
                match exec f st body with
                | Some outs => if forallb (lst_eqb st) outs then exec f st rest else None
                | None => None
                end
            | IDeferFn body =>
                (* a deferred closure runs at return time: it must be safe on its own *)
                match exec f (mkL MFree None) body with
                | Some outs => if forallb (lst_eqb (mkL MFree None)) outs then exec f st rest else None
                | None => None
                end
            | IBad _ => None
            end
        end
    end.
End Exec.

Fixpoint isize (i : instr) : nat :=
  match i with
  | IIf a b => S (list_sum (map isize a) + list_sum (map isize b))
  | ISelect cs => S (list_sum (map (fun c => S (list_sum (map isize c))) cs))
  | ILoop b | IDeferFn b => S (list_sum (map isize b))
  | _ => 1
  end.
Definition csize (c : list instr) : nat := S (list_sum (map isize c)).

(** a function is fine when entered in mode m if every path is, and it cannot fall off its end
    holding something it should not *)
Definition fn_ok (shared : str -> bool) (tbl : list summary) (m : mode) (code : list instr) : bool :=
  match exec shared tbl m (4 * csize code + 4) (mkL m None) code with
  | Some outs => forallb (ret_ok m) outs
  | None => false
  end.

Fixpoint acquires (code : list instr) : bool :=
  existsb (fun i => match i with ILock | IRLock => true | _ => false end) code.

Definition summarize (shared : str -> bool) (tbl : list summary) (name : str) (code : list instr) : option summary :=
  if fn_ok shared tbl MFree code then Some (mkSum name MFree (acquires code))
  else if fn_ok shared tbl MR code then Some (mkSum name MR false)
  else if fn_ok shared tbl MW code then Some (mkSum name MW false)
  else None.

(** iterate: functions whose callees are already summarised get a summary *)
(** one round: summarise, against the table of the previous round, every function that can be *)
Definition round (shared : str -> bool) (tbl : list summary) (fns : list (str * list instr)) : list summary :=
  flat_map (fun p => match summarize shared tbl (fst p) (snd p) with Some sm => [sm] | None => [] end) fns.

Fixpoint rounds (k : nat) (shared : str -> bool) (tbl : list summary) (fns : list (str * list instr)) : list summary :=
  match k with O => tbl | S k' => rounds k' shared (round shared tbl fns) fns end.

(** the verdict for a file: every function has a summary, and the exported entry points (the
    ones other packages call without holding anything) can be entered with the mutex free *)
Definition discipline (shared : str -> bool) (fns : list (str * list str)) (entry_points : list str) : bool :=
  let parsed := map (fun p => (fst p, parse (snd p))) fns in
  let tbl := rounds (length fns) shared [] parsed in
  Nat.eqb (length tbl) (length parsed) &&
  forallb (fun n => match find_sum tbl n with Some sm => mode_eqb (s_needs sm) MFree | None => false end) entry_points.

Definition summaries (shared : str -> bool) (fns : list (str * list str)) : list (str * nat) :=
  map (fun sm => (s_name sm, match s_needs sm with MFree => 0 | MR => 1 | MW => 2 end))
      (rounds (length fns) shared [] (map (fun p => (fst p, parse (snd p))) fns)).
