package main

import (
	"context"
	"fmt"
	"regexp"
	"sort"
	"strconv"
	"strings"
	"sync/atomic"
	"time"

	"github.com/jig/lisp/types"
	. "verif.local/harness/h"
)

func init() { runners["C09"] = runC09 }

// one atom operation of a generated history
type atomOp struct {
	opc, i, j int
	k1, k2    int
	src       string
}

var atomPrintRE = regexp.MustCompile(`^«atom (-?\d+)»$`)

func genAtomOp(r *Rng, natoms int, hist map[string]int) atomOp {
	i := r.Intn(natoms)
	a := fmt.Sprintf("a%d", i)
	yield := ""
	if r.Intn(2) == 0 {
		yield = "(yield!) "
	}
	switch k := r.Intn(14); {
	case k < 3:
		hist["op:deref"]++
		return atomOp{opc: 0, i: i, src: "@" + a}
	case k < 4:
		hist["op:deref-by-print"]++
		return atomOp{opc: 0, i: i, src: "(pr-str " + a + ")"}
	case k < 6:
		v := r.Intn(50)
		hist["op:reset!"]++
		return atomOp{opc: 1, i: i, k1: v, src: fmt.Sprintf("(reset! %s %d)", a, v)}
	case k < 8:
		d := 1 + r.Intn(5)
		hist["op:swap!-builtin"]++
		return atomOp{opc: 2, i: i, k1: d, src: fmt.Sprintf("(swap! %s + %d)", a, d)}
	case k < 10:
		d := 1 + r.Intn(5)
		hist["op:swap!-closure"]++
		return atomOp{opc: 2, i: i, k1: d, src: fmt.Sprintf("(swap! %s (fn [x] (do %s(+ x %d))))", a, yield, d)}
	case k < 11:
		m, d := 2+r.Intn(2), r.Intn(4)
		hist["op:swap!-mul-add"]++
		return atomOp{opc: 3, i: i, k1: m, k2: d, src: fmt.Sprintf("(swap! %s (fn [x] (do %s(+ (* x %d) %d))))", a, yield, m, d)}
	case k < 12:
		hist["op:swap!-failing"]++
		if r.Bool() {
			return atomOp{opc: 4, i: i, src: fmt.Sprintf("(swap! %s (fn [x] (do %s(throw {:boom x}))))", a, yield)}
		}
		return atomOp{opc: 4, i: i, src: fmt.Sprintf("(swap! %s (fn [x] (nth [] x)))", a)}
	default:
		// update functions that read or update ANOTHER atom: only from a lower to a higher atom,
		// the opposite nesting order on two threads is the known finding C09:nested-swap-abba
		if natoms < 2 || i != 0 {
			hist["op:deref"]++
			return atomOp{opc: 0, i: i, src: "@" + a}
		}
		if r.Bool() {
			hist["op:swap!-reading-other-atom"]++
			return atomOp{opc: 5, i: 0, j: 1, src: fmt.Sprintf("(swap! a0 (fn [x] (do %s(+ x @a1))))", yield)}
		}
		d := 1 + r.Intn(3)
		hist["op:swap!-updating-other-atom"]++
		return atomOp{opc: 6, i: 0, j: 1, k1: d, src: fmt.Sprintf("(swap! a0 (fn [x] (do (swap! a1 + %d) %s(+ x 1))))", d, yield)}
	}
}

func runC09(tier string, seed uint64, rep *Report) {
	rep.Rule = "rounds of 2-4 harness threads issuing 2-4 operations each (deref, deref through pr-str, reset!, swap! with a builtin, with closures that yield between read and write, " +
		"that fail by throw or by a builtin error, that read another atom, that swap! another atom) on 1-2 shared integer atoms through lisp.EVAL, all released together; every call is " +
		"stamped on a global logical clock at invocation and response, a final deref of every atom follows. The recorded history goes to the model driver (op N): LinCheck.atoms_linearizable " +
		"(proved sound and complete) against the register specification. Direct oracle: a round that does not finish within the watchdog is a hang; values stay integers; a failing swap! returns an error. " +
		"Run under the Go race detector. Library code on atoms: gensym uniqueness and memoize consistency across threads. Known-finding probes (self-deref inside swap!, opposite nesting order) " +
		"run last, each under its own watchdog. Non-trivial: the round contains at least one write concurrent with another operation."
	r := NewRng(seed)
	rounds := 400
	if tier == "thorough" {
		rounds = 6000
	}
	var clock atomic.Int64
	for round := 0; round < rounds; round++ {
		natoms := 1 + r.Intn(2)
		w, err := NewWorld()
		if err != nil {
			panic(err)
		}
		inits := make([]int, natoms)
		for i := range inits {
			inits[i] = r.Intn(10)
			if o := w.EvalText(context.Background(), fmt.Sprintf("(def a%d (atom %d))", i, inits[i])); o.Err != nil || o.Panic != nil {
				panic(fmt.Sprint("harness: cannot define atom: ", o.Err, o.Panic))
			}
		}
		nth := 2 + r.Intn(3)
		var progs [][]ThreadOp
		var ops [][]atomOp
		total := 0
		for t := 0; t < nth; t++ {
			n := 2 + r.Intn(3)
			if total+n > 9 {
				n = 9 - total
			}
			if n <= 0 {
				break
			}
			total += n
			var p []ThreadOp
			var o []atomOp
			for k := 0; k < n; k++ {
				op := genAtomOp(r, natoms, rep.Histogram)
				o = append(o, op)
				p = append(p, ThreadOp{Src: op.src})
			}
			progs = append(progs, p)
			ops = append(ops, o)
		}
		base := clock.Load()
		calls, hung := RunThreads(w, &clock, progs, 20*time.Second)
		listing := func() string {
			var b strings.Builder
			for i, v := range inits {
				fmt.Fprintf(&b, "(def a%d (atom %d))\n", i, v)
			}
			for t, p := range progs {
				fmt.Fprintf(&b, "thread %d:", t)
				for k, op := range p {
					fmt.Fprintf(&b, "  %s", op.Src)
					if k < len(calls[t]) {
						c := calls[t][k]
						if c.Err != nil {
							fmt.Fprintf(&b, " => error [%d,%d]", c.Inv-base, c.Resp-base)
						} else {
							fmt.Fprintf(&b, " => %s [%d,%d]", Show(c.Val), c.Inv-base, c.Resp-base)
						}
					} else {
						b.WriteString(" => (no response)")
					}
				}
				b.WriteString("\n")
			}
			return b.String()
		}
		if hung {
			idx := rep.Add("N 0 0", "lin", "round "+strconv.Itoa(round), true, "round:hung")
			rep.Violate(idx, "atom operations did not finish within 20s: some evaluation is blocked for ever (the atom is no longer usable)", listing())
			emergencyFlush(rep)
		}
		// final derefs, after everything has responded
		type rec struct {
			op        atomOp
			rk, rv    int
			inv, resp int64
		}
		var recs []rec
		bad := false
		concurrentWrite := false
		for t := range calls {
			for k, c := range calls[t] {
				op := ops[t][k]
				rc := rec{op: op, inv: c.Inv - base, resp: c.Resp - base}
				switch {
				case c.Panic != nil:
					idx := rep.Add("N 0 0", "lin", "round "+strconv.Itoa(round), true)
					rep.Violate(idx, fmt.Sprintf("a Go panic escaped from an atom operation: %v", c.Panic), listing())
					bad = true
				case c.Err != nil:
					rc.rk = 1
				default:
					v := c.Val
					if s, ok := v.(string); ok {
						if m := atomPrintRE.FindStringSubmatch(s); m != nil {
							n, _ := strconv.Atoi(m[1])
							v = n
						}
					}
					n, ok := v.(int)
					if !ok {
						idx := rep.Add("N 0 0", "lin", "round "+strconv.Itoa(round), true)
						rep.Violate(idx, fmt.Sprintf("%s returned %s: not a value that was ever installed", op.src, Show(c.Val)), listing())
						bad = true
					}
					rc.rv = n
				}
				recs = append(recs, rc)
			}
		}
		if bad {
			continue
		}
		for i := 0; i < natoms; i++ {
			inv := clock.Add(1)
			// under a watchdog: an atom left locked by the last operation that touched it blocks this read for ever
			och := make(chan Outcome, 1)
			go func(i int) { och <- w.EvalText(context.Background(), fmt.Sprintf("@a%d", i)) }(i)
			var o Outcome
			select {
			case o = <-och:
			case <-time.After(10 * time.Second):
				idx := rep.Add("N 0 0", "lin", "round "+strconv.Itoa(round), true, "round:hung")
				rep.Violate(idx, fmt.Sprintf("after all threads had finished, @a%d did not return within 10s: the atom was left locked", i), listing())
				emergencyFlush(rep)
			}
			resp := clock.Add(1)
			n, _ := o.Val.(int)
			recs = append(recs, rec{op: atomOp{opc: 0, i: i, src: fmt.Sprintf("@a%d (final)", i)}, rv: n, inv: inv - base, resp: resp - base})
		}
		for x := range recs {
			for y := range recs {
				if x != y && recs[x].op.opc != 0 && recs[x].inv < recs[y].resp && recs[y].inv < recs[x].resp {
					concurrentWrite = true
				}
			}
		}
		sort.Slice(recs, func(a, b int) bool { return recs[a].inv < recs[b].inv })
		var b strings.Builder
		fmt.Fprintf(&b, "N %d ", natoms)
		for _, v := range inits {
			fmt.Fprintf(&b, "%d ", v)
		}
		fmt.Fprintf(&b, "%d ", len(recs))
		for _, rc := range recs {
			fmt.Fprintf(&b, "%d %d %d %d %d %d %d %d %d ", rc.op.opc, rc.op.i, rc.op.j, rc.op.k1, rc.op.k2, rc.rk, rc.rv, rc.inv, rc.resp)
		}
		tag := "round:sequential-only"
		if concurrentWrite {
			tag = "round:with-concurrent-write"
		}
		rep.Add(strings.TrimSpace(b.String()), "lin", strings.ReplaceAll(strings.TrimSpace(listing()), "\n", " ;; "), concurrentWrite, tag, fmt.Sprintf("threads:%d", len(progs)), fmt.Sprintf("atoms:%d", natoms))
	}
	c09NestedPrint(rep, tier)
	c09Library(r, rep, tier)
	c09KnownFindings(rep)
}

// printing an atom that holds another atom while an update function of the inner atom resets the outer one:
// the printer must not hold the outer atom's lock while it waits for the inner one
func c09NestedPrint(rep *Report, tier string) {
	n := 5
	if tier == "thorough" {
		n = 60
	}
	for round := 0; round < n; round++ {
		w, _ := NewWorld()
		w.EvalText(context.Background(), "(do (def b (atom 0)) (def a (atom b)))")
		var clock atomic.Int64
		var p1, p2 []ThreadOp
		for k := 0; k < 25; k++ {
			p1 = append(p1, ThreadOp{Src: "(pr-str a)"})
			p2 = append(p2, ThreadOp{Src: "(swap! b (fn [x] (do (yield!) (reset! a b) (+ x 1))))"})
		}
		calls, hung := RunThreads(w, &clock, [][]ThreadOp{p1, p2, p1}, 20*time.Second)
		rep.Histogram["scenario:print-nested-atom-vs-inner-swap-resetting-outer"]++
		desc := "(def b (atom 0)) (def a (atom b)); threads 0 and 2: 25 x (pr-str a); thread 1: 25 x (swap! b (fn [x] (do (yield!) (reset! a b) (+ x 1))))"
		idx := rep.Add("N 0 0", "lin", desc, true)
		if hung {
			rep.Violate(idx, "printing an atom that holds an atom, against an update function of the inner atom that resets the outer one, blocked for ever", desc)
			emergencyFlush(rep)
		}
		for t := range calls {
			for _, c := range calls[t] {
				if c.Err != nil || c.Panic != nil {
					rep.Violate(idx, fmt.Sprintf("%s failed: %v %v", c.Src, c.Err, c.Panic), desc)
				}
			}
		}
		if o, ok := w.EvalTextWithin("@b", 10*time.Second); !ok {
			rep.Violate(idx, "after the scenario the inner atom cannot be read any more (left locked)", desc)
			emergencyFlush(rep)
		} else if o.Val != 25 {
			rep.Violate(idx, fmt.Sprintf("after 25 increments the inner atom holds %s", Show(o.Val)), desc)
		}
	}
}

// library code built on atoms: gensym hands out distinct symbols, memoize answers consistently
func c09Library(r *Rng, rep *Report, tier string) {
	n := 6
	if tier == "thorough" {
		n = 40
	}
	for round := 0; round < n; round++ {
		w, _ := NewWorld()
		w.EvalText(context.Background(), "(def mf (memoize (fn [x] (do (yield!) (* x x)))))")
		var clock atomic.Int64
		nth, per := 4, 25
		progs := make([][]ThreadOp, nth)
		for t := range progs {
			for k := 0; k < per; k++ {
				if k%2 == 0 {
					progs[t] = append(progs[t], ThreadOp{Src: "(gensym)"})
				} else {
					progs[t] = append(progs[t], ThreadOp{Src: fmt.Sprintf("(mf %d)", (k/2)%5)})
				}
			}
		}
		calls, hung := RunThreads(w, &clock, progs, 30*time.Second)
		if hung {
			idx := rep.Add("N 0 0", "lin", "library round", true, "library:hung")
			rep.Violate(idx, "concurrent gensym / memoize calls did not finish within 30s", "4 threads x 25 calls of (gensym) and (mf k), mf = (memoize (fn [x] (do (yield!) (* x x))))")
			emergencyFlush(rep)
		}
		seen := map[string]int{}
		for t := range calls {
			for k, c := range calls[t] {
				if c.Err != nil || c.Panic != nil {
					idx := rep.Add("N 0 0", "lin", "library round", true)
					rep.Violate(idx, fmt.Sprintf("%s failed under concurrency: %v %v", c.Src, c.Err, c.Panic), c.Src)
					continue
				}
				if k%2 == 0 {
					s, _ := c.Val.(types.Symbol)
					seen[s.Val]++
				} else {
					x := (k / 2) % 5
					if n, ok := c.Val.(int); !ok || n != x*x {
						idx := rep.Add("N 0 0", "lin", "library round", true)
						rep.Violate(idx, fmt.Sprintf("memoized function returned %s for %d under concurrency", Show(c.Val), x), c.Src)
					}
				}
			}
		}
		dups := 0
		for _, c := range seen {
			if c > 1 {
				dups += c - 1
			}
		}
		rep.Histogram["library:gensym-calls"] += nth * ((per + 1) / 2)
		if dups > 0 {
			idx := rep.Add("N 0 0", "lin", "library round", true)
			rep.Violate(idx, fmt.Sprintf("gensym handed out %d duplicate symbols to %d concurrent callers (its counter lost updates)", dups, nth),
				"4 threads each calling (gensym) 13 times on one environment")
		}
	}
}

// The two deadlocks of swap! that are listed as open known findings: re-confirmed on every run.
func c09KnownFindings(rep *Report) {
	confirmed := []string{}
	// (1) the update function derefs the atom being swapped
	{
		w, _ := NewWorld()
		w.EvalText(context.Background(), "(def b (atom 1))")
		done := make(chan Outcome, 1)
		go func() { done <- w.EvalText(context.Background(), "(swap! b (fn [x] (+ x @b)))") }()
		select {
		case o := <-done:
			rep.Extra["self-deref"] = "returned " + o.Class()
		case <-time.After(1500 * time.Millisecond):
			idx := rep.Add("N 0 0", "lin", "(swap! b (fn [x] (+ x @b)))", true, "probe:self-deref")
			rep.ViolateKnown(idx, "an update function that derefs the atom being swapped blocks the evaluation for ever (RWMutex held across the call, not reentrant)",
				"(def b (atom 1)) (swap! b (fn [x] (+ x @b)))", "C09:swap-self-deref")
			confirmed = append(confirmed, "C09:swap-self-deref")
		}
	}
	// (2) two threads nest swap! on two atoms in opposite orders
	{
		w, _ := NewWorld()
		w.EvalText(context.Background(), "(do (def a (atom 0)) (def b (atom 0)))")
		var clock atomic.Int64
		progs := [][]ThreadOp{
			{{Src: "(swap! a (fn [x] (do (meet! 2) (swap! b + 1) (+ x 1))))"}},
			{{Src: "(swap! b (fn [y] (do (meet! 2) (swap! a + 1) (+ y 1))))"}},
		}
		_, hung := RunThreads(w, &clock, progs, 3*time.Second)
		if hung {
			idx := rep.Add("N 0 0", "lin", "nested swap! in opposite orders", true, "probe:abba")
			rep.ViolateKnown(idx, "two evaluations whose update functions swap! each other's atom block each other for ever (lock held across the update function)",
				"thread 1: (swap! a (fn [x] (do (swap! b + 1) (+ x 1))))   thread 2: (swap! b (fn [y] (do (swap! a + 1) (+ y 1))))", "C09:nested-swap-abba")
			confirmed = append(confirmed, "C09:nested-swap-abba")
		} else {
			rep.Extra["abba"] = "both evaluations returned"
		}
	}
	rep.Extra["known_confirmed"] = confirmed
}
