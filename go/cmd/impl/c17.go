package main

import (
	"context"
	"fmt"
	"os"
	"path/filepath"
	"strings"

	lisp "github.com/jig/lisp"
	"github.com/jig/lisp/types"

	. "verif.local/harness/h"
)

func init() { runners["C17"] = runC17 }

type c17gen struct {
	r    *Rng
	hist map[string]int
	unmodelled bool // also plant faults the evaluator model has no builtin for (read-string)
}

// module builds a text "(do <forms>)" with one planted fault; returns the text, the fault's
// line, and the first/last line of the top-level form that textually contains it.
func (g *c17gen) module() (text string, faultLine, fs, fe int, desc string) {
	var lines []string
	add := func(l string) int { lines = append(lines, l); return len(lines) }
	add("(do")
	filler := func() {
		switch g.r.Intn(6) {
		case 0:
			add(";; a comment ( with brackets")
			g.hist["comment-before"]++
		case 1:
			add("")
			g.hist["blank-before"]++
		case 2:
			add("(def ok" + fmt.Sprint(len(lines)) + " (fn [a]")
			add("   ;; inner comment")
			add("   (+ a 1)))")
			g.hist["multiline-form-before"]++
		case 3:
			add("(def raw" + fmt.Sprint(len(lines)) + " ¬multi")
			add("line ( raw")
			add("string¬)")
			g.hist["multiline-raw-string-before"]++
		case 4:
			add("(def s" + fmt.Sprint(len(lines)) + " \"str ; not a comment\")  ; real comment")
		default:
			add("(trace! :ok)")
		}
	}
	fk := g.r.Intn(12)
	if fk >= 9 || g.r.Bool() {
		// quoted data written EARLIER in the module: it mentions the names the fault will fail to find (never looked up here),
		// and holds the values a later form throws — the error belongs to the form that fails, not to where its data was written
		add("(def codes '(not-found forbidden [x y]))")
		add("(def names-seen '(undefined-sym undefined-bare codes))")
		g.hist["quoted-data-before"]++
	}
	for i, n := 0, g.r.Intn(5); i < n; i++ {
		filler()
	}
	fault := []string{"(undefined-sym 1)", "undefined-bare", "(throw \"boom\")", "(throw {:code 7})", "(first 5)", "(nth [1] 9)", "(assert false)", "(assert nil \"msg\")", "(+ 1 \"s\")",
		"(throw (first codes))", "(throw (nth codes 2))", "(assert false (first codes))"}[fk]
	if g.unmodelled && g.r.Intn(3) == 0 {
		// the failing form is read at run time from a string (positions relative to that string, no module): the error must
		// still be attributed to the place IN THIS MODULE that evaluated it
		g.hist["fault-read-from-string-at-run-time"]++
		fault = []string{`(eval (read-string "(undefined-sym 1)"))`, `(eval (read-string "\n\n\n\n\n\n\n\n\n\n\n\n(first 5)"))`, `(eval (read-string "(throw {:code 7})"))`, `(eval (first (read-string "[(nth [1] 9)]")))`}[g.r.Intn(4)]
	}
	desc = fault
	viaFn := g.r.Intn(3) == 0 && fault != "undefined-bare"
	wrap := g.r.Intn(10)
	if viaFn {
		// the fault sits in the body of a function defined here and called by a LATER form
		g.hist["via-earlier-function"]++
		fs = add("(def faulty (fn [x]")
		add("  ;; the fault is on the next line")
		faultLine = add("  (do x " + fault + ")")
		fe = add("  ))")
		for i, n := 0, g.r.Intn(3); i < n; i++ {
			filler()
		}
		call := []string{"(faulty 1)", "(map faulty [1 2])", "(apply faulty [1])", "(swap! (atom 1) faulty)", "(let [y 2] (if true (faulty y)))", "(cond false 1 :else (faulty 3))"}[g.r.Intn(6)]
		desc += " via " + call
		add(call)
	} else {
		switch wrap {
		case 0:
			g.hist["direct"]++
			fs = add(fault)
			faultLine, fe = fs, fs
		case 1:
			g.hist["in-let"]++
			fs = add("(let [a 1")
			add("      b 2]")
			faultLine = add("  " + fault)
			fe = add("  a)")
		case 2:
			g.hist["in-if-do"]++
			fs = add("(if true")
			add("  (do 1")
			faultLine = add("      " + fault + ")")
			fe = add("  :else)")
		case 3:
			g.hist["in-vector-literal"]++
			fs = add("(def lit [1 2")
			faultLine = add("          " + fault)
			fe = add("          3])")
		case 4:
			g.hist["in-map-literal"]++
			fs = add("(def lit {:a 1")
			faultLine = add("          :b " + fault + "})")
			fe = faultLine
		case 5:
			g.hist["in-cond-operand"]++
			fs = add("(cond false 0")
			faultLine = add("      true " + fault)
			fe = add("      :else 2)")
		case 6:
			g.hist["in-thread-macro"]++
			fs = add("(-> 1")
			add("    (+ 2)")
			faultLine = add("    ((fn [v] " + fault + ")))")
			fe = faultLine
		case 7:
			g.hist["in-and-or"]++
			fs = add("(or nil")
			faultLine = add("    (and 1 " + fault + ")")
			fe = add("    3)")
		case 8:
			g.hist["in-call-args"]++
			fs = add("(list 1")
			faultLine = add("      (str \"a\" " + fault + ")")
			fe = add("      2)")
		default:
			g.hist["in-closure-called-here"]++
			fs = add("((fn [q]")
			faultLine = add("   " + fault + ")")
			fe = add(" 5)")
		}
	}
	for i, n := 0, g.r.Intn(3); i < n; i++ {
		filler()
	}
	add(")")
	return strings.Join(lines, "\n"), faultLine, fs, fe, desc
}

func runC17(tier string, seed uint64, rep *Report) {
	rep.Rule = "modules `(do <forms>)` read under the module name \"mod\": 0..4 correct forms, comments, blank lines, multi-line forms and multi-line raw strings, then exactly " +
		"one planted fault (undefined symbol, throw of a string / map, failing builtin, failed assert, type error) directly, inside let / if+do / vector and map literals / cond, -> " +
		"and/or operands / call arguments / an immediately called closure, or inside the body of a function defined by that form and called by a LATER form (directly, via map, " +
		"apply, swap!, let+if, cond); the generator knows the fault's line and the first/last line of the top-level form containing it. Direct oracle: the error carries a " +
		"position that names the module, lies within those lines and covers the fault's line. The model (scanner+reader+evaluator) predicts the same begin/end rows. " +
		"Non-trivial: every case."
	g := &c17gen{r: NewRng(seed), hist: map[string]int{}}
	n := 700
	if tier == "thorough" {
		n = 20000
	}
	for i := 0; i < n; i++ {
		text, fl, fs, fe, desc := g.module()
		_, full, o := evalText(text, true)
		idx := rep.Add("E 1 "+encSrc(text), full, fmt.Sprintf("fault %s at line %d of form %d..%d in module:\n%s", desc, fl, fs, fe, text), true, "module")
		if o.Panic != nil {
			rep.Violate(idx, fmt.Sprintf("panic: %v", o.Panic), text)
			continue
		}
		if o.Err == nil {
			rep.Violate(idx, "the planted fault did not produce an error", text)
			continue
		}
		var m, b, e int
		if _, err := fmt.Sscanf(posLine(o), "p %d %d %d", &m, &b, &e); err != nil {
			rep.Violate(idx, fmt.Sprintf("the error carries no position (%s): fault %s at line %d", posLine(o), desc, fl), text)
			continue
		}
		if m != 1 || b < fs || e > fe || b > fl || e < fl {
			rep.Violate(idx, fmt.Sprintf("wrong position for fault %s: reported rows %d..%d (module named: %v), the fault is on line %d of the top-level form spanning lines %d..%d", desc, b, e, m == 1, fl, fs, fe), text)
		}
	}
	// ---- the same modules delivered by load-file from files that begin with blank / white-space-only lines: the
	// position must name the file and still cover the line where the fault starts
	nf := 60
	if tier == "thorough" {
		nf = 1500
	}
	dir, err := os.MkdirTemp("", "c17files")
	if err != nil {
		panic(err)
	}
	defer os.RemoveAll(dir)
	g.unmodelled = true
	for i := 0; i < nf; i++ {
		text, fl, fs, fe, desc := g.module()
		k := g.r.Intn(4)
		lead := ""
		for j := 0; j < k; j++ {
			lead += []string{"", "   ", "\t"}[g.r.Intn(3)] + "\n"
		}
		path := filepath.Join(dir, fmt.Sprintf([]string{"m%d.lisp", "my module %d.lisp", "a  b c (%d).lisp", "m%d"}[g.r.Intn(4)], i)) // file names with blanks are file names
		if err := os.WriteFile(path, []byte(lead+text+"\n"), 0o644); err != nil {
			panic(err)
		}
		w, _ := NewWorld()
		o := w.EvalText(context.Background(), fmt.Sprintf("(load-file %q)", path))
		g.hist[fmt.Sprintf("load-file-leading-blank-lines:%d", k)]++
		idx := rep.Add("E 1 "+encSrc("nil"), "V n | l 0 | p - ", fmt.Sprintf("load-file of a file with %d leading blank lines, fault %s at line %d", k, desc, fl+k), true, "load-file")
		if o.Panic != nil || o.Err == nil {
			rep.Violate(idx, fmt.Sprintf("load-file: expected the planted fault's error, got %s", d2o(o)), lead+text)
			continue
		}
		var m, b, e int
		if _, err := fmt.Sscanf(posLine(o), "p %d %d %d", &m, &b, &e); err != nil {
			rep.Violate(idx, fmt.Sprintf("load-file: the error carries no position: fault %s at line %d", desc, fl+k), lead+text)
			continue
		}
		if m != 1 || b < fs+k || e > fe+k || b > fl+k || e < fl+k {
			rep.Violate(idx, fmt.Sprintf("load-file of a file with %d leading blank lines: wrong position for fault %s: reported rows %d..%d, the fault is on line %d (form spanning %d..%d)", k, desc, b, e, fl+k, fs+k, fe+k), lead+text)
		} else if p, ok := o.Err.(interface{ Position() *types.Position }); ok && (p.Position().Module == nil || *p.Position().Module != path) {
			rep.Violate(idx, fmt.Sprintf("load-file: the position names module %q, the fault is in %q", fmt.Sprint(func() string { if p.Position().Module == nil { return "<nil>" }; return *p.Position().Module }()), path), lead+text)
		}
	}
	// ---- two texts read one after the other under ONE cursor variable whose name the host changes in between: an
	// error inside a function the first text defined, called from the second, must name the first module
	ns := 40
	if tier == "thorough" {
		ns = 800
	}
	for i := 0; i < ns; i++ {
		fault := []string{"(throw \"boom\")", "(first 5)", "(undefined-sym 1)", "(assert false)", "(nth [1] 9)"}[g.r.Intn(5)]
		lib := "(do\n  (def helper (fn [x]\n    (do x " + fault + ")))\n  :lib)"
		main := "(do\n\n\n\n  (trace! 1)\n  " + []string{"(helper 1)", "(map helper [1])", "(apply helper [1])"}[g.r.Intn(3)] + ")"
		w, _ := NewWorld()
		name := "lib.lisp"
		cur := types.NewCursorFile(name)
		cur.Module = &name
		a1, err1 := lisp.READ(lib, cur, w.Env)
		if err1 != nil {
			panic(err1)
		}
		if o := w.Eval(context.Background(), a1); o.Err != nil || o.Panic != nil {
			panic(fmt.Sprint("harness: lib failed: ", o.Err, o.Panic))
		}
		name = "main.lisp" // the host reuses its variable
		cur2 := types.NewCursorFile(name)
		cur2.Module = &name
		a2, err2 := lisp.READ(main, cur2, w.Env)
		if err2 != nil {
			panic(err2)
		}
		o := w.Eval(context.Background(), a2)
		g.hist["two-modules-one-name-variable"]++
		idx := rep.Add("E 1 "+encSrc("nil"), "V n | l 0 | p - ", "lib.lisp: "+lib+" ; then main.lisp: "+main, true, "two-modules")
		p, ok := o.Err.(interface{ Position() *types.Position })
		if o.Err == nil || !ok || p.Position() == nil || p.Position().Module == nil {
			rep.Violate(idx, fmt.Sprintf("expected a positioned error from the function defined in lib.lisp, got %s", d2o(o)), lib+"\n----\n"+main)
			continue
		}
		if *p.Position().Module != "lib.lisp" || p.Position().BeginRow != 3 {
			rep.Violate(idx, fmt.Sprintf("the fault is on line 3 of lib.lisp, the position says %s line %d", *p.Position().Module, p.Position().BeginRow), lib+"\n----\n"+main)
		}
	}
	mergeHist(rep, g.hist)
}
