(** C01 — core evaluation matches the language definition.  One equation per clause of the
    definition, each about one iteration of EVAL's loop as transcribed in Eval.v. *)
From Lisp Require Import Base Value Core Binder Env Eval Interp EvalProofs TailProofs Run.
From Lisp.Gen Require Import Examples.

(** def evaluates its operand, binds the name IN THE CURRENT SCOPE and returns the value *)
Theorem C01_def_current_scope_returns_value : forall n d name p e cur env st,
  macro_of st (VList [sy "def"; VSym name p; e] cur) env = None ->
  eval (S n) d (VList [sy "def"; VSym name p; e] cur) env st =
  prop (eval n (S d) e env st) (fun v st' => env_set env name v st').
Proof. exact eval_def. Qed.

(** fn captures the scope it is evaluated in *)
Theorem C01_closure_captures_defining_scope : forall n d params body cur env st,
  macro_of st (VList (sy "fn" :: params :: body) cur) env = None ->
  eval (S n) d (VList (sy "fn" :: params :: body) cur) env st =
  (Ok (VFn params (VList (sy "do" :: body) None) env false), st).
Proof. exact eval_fn. Qed.

(** only nil and false are falsy; only the selected branch is evaluated *)
Theorem C01_if_selected_branch_only : forall n d c a b cur env st,
  macro_of st (VList [sy "if"; c; a; b] cur) env = None ->
  eval (S n) d (VList [sy "if"; c; a; b] cur) env st =
  prop (eval n (S d) c env st) (fun cv st' => if truthy cv then eval n d a env st' else eval n d b env st').
Proof. exact eval_if. Qed.

Theorem C01_if_without_else_is_nil : forall n d c a cur env st,
  macro_of st (VList [sy "if"; c; a] cur) env = None ->
  eval (S n) d (VList [sy "if"; c; a] cur) env st =
  prop (eval n (S d) c env st) (fun cv st' => if truthy cv then eval n d a env st' else (Ok VNil, st')).
Proof. exact eval_if_no_else. Qed.

Theorem C01_quote_unevaluated : forall n d x cur env st,
  macro_of st (VList [sy "quote"; x] cur) env = None ->
  eval (S n) d (VList [sy "quote"; x] cur) env st = (Ok x, st).
Proof. exact eval_quote. Qed.

(** calling a closure: arguments evaluated once, left to right (eval_list), then the body runs
    in a new scope whose outer scope is the closure's defining scope *)
Theorem C01_call_closure : forall n d s p args cur env st params body fenv vs st1,
  macro_of st (VList (VSym s p :: args) cur) env = None ->
  is_special s = false ->
  eval_list (eval n) d (VSym s p :: args) env st = (Ok (VFn params body fenv false :: vs), st1) ->
  eval (S n) d (VList (VSym s p :: args) cur) env st =
  match new_env_binds fenv params (VList vs None) st1 with
  | (Ok env', st2) => eval n d body env' st2
  | (Err e, st2) => (bind_error e body, st2)
  | (Panic x, st2) => (Panic x, st2)
  | (OutOfFuel, st2) => (OutOfFuel, st2)
  end.
Proof. exact eval_call_closure. Qed.

(** computed instances: closure counter, recursion, & rest, arity error, argument order *)
(** the elements of a call form — the callee FIRST, then the arguments — are evaluated exactly once each,
    left to right, each in the state left by the previous one, before anything is applied *)
Theorem C01_callee_then_arguments_left_to_right : forall ev d x xs env st,
  eval_list ev d (x :: xs) env st =
  prop (ev (S d) x env st) (fun v st1 => prop (eval_list ev d xs env st1) (fun vs st2 => (Ok (v :: vs), st2))).
Proof. exact eval_list_left_to_right. Qed.

(** let: a fresh scope; the bindings are evaluated in order IN that scope (later ones see earlier
    ones); the body's last form continues in it *)
Theorem C01_let_new_scope_then_body : forall n d a1 body cur env st,
  macro_of st (VList (sy "let" :: a1 :: body) cur) env = None ->
  eval (S n) d (VList (sy "let" :: a1 :: body) cur) env st =
  prop (new_env (Some env) st) (fun let_env st1 =>
  prop (lift (get_slice a1) st1) (fun arr st2 =>
  if Nat.odd (length arr) then (Err (lisp_goerr (s_ "let: odd elements on binding vector") (get_position a1)), st2) else
  prop (let_binds (eval n) d let_env a1 arr st2) (fun _ st3 =>
  prop (do_forms (eval n) d (sy "let" :: a1 :: body) 2 true let_env st3) (fun last st4 =>
  eval n d last let_env st4)))).
Proof. exact eval_let. Qed.

Theorem C01_let_bindings_are_sequential : forall ev d let_env a1 name p e r st,
  let_binds ev d let_env a1 (VSym name p :: e :: r) st =
  prop (ev (S d) e let_env st) (fun v st1 => prop (env_set let_env name v st1) (fun _ st2 => let_binds ev d let_env a1 r st2)).
Proof. exact let_binds_sequential. Qed.

(** do evaluates its forms in order and continues with the last *)
Theorem C01_do_in_order : forall n d forms cur env st,
  macro_of st (VList (sy "do" :: forms) cur) env = None ->
  eval (S n) d (VList (sy "do" :: forms) cur) env st =
  prop (do_forms (eval n) d (sy "do" :: forms) 1 true env st) (fun last st' => eval n d last env st').
Proof. exact eval_do. Qed.

Example C01_counter : observe ex_c01_counter = s_ "V l 2 i 3 i 1 | l 0 ". Proof. vm_compute. reflexivity. Qed.
Example C01_fact : observe ex_c01_fact = s_ "V i 3628800 | l 0 ". Proof. vm_compute. reflexivity. Qed.
Example C01_rest_params : observe ex_c01_rest = s_ "V l 2 i 1 l 2 i 2 i 3 | l 0 ". Proof. vm_compute. reflexivity. Qed.
Example C01_arity_error : observe ex_c01_arity = s_ "E x G | l 0 ". Proof. vm_compute. reflexivity. Qed.
Example C01_args_left_to_right_once : observe ex_c01_order = s_ "V i 1 | l 3 i 1 i 2 i 9 ". Proof. vm_compute. reflexivity. Qed.

Print Assumptions C01_def_current_scope_returns_value.
Print Assumptions C01_closure_captures_defining_scope.
Print Assumptions C01_if_selected_branch_only.
Print Assumptions C01_call_closure.
Print Assumptions C01_callee_then_arguments_left_to_right.
Print Assumptions C01_let_new_scope_then_body.
Print Assumptions C01_let_bindings_are_sequential.
Print Assumptions C01_do_in_order.
