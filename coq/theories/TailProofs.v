(** C08, general form.  [tail_step] collects every way one iteration of EVAL's loop hands a
    sub-form to the SAME loop (selected branch of if, last form of do, of a let body, of a closure
    body, the expansion of a macro call); [tail_steps] is any number of them in any nesting.
    Theorem: along tail_steps the evaluation of the original form IS the evaluation of the form
    finally reached, at the same depth d — the number of lisp.EVAL frames does not grow, however
    many iterations the loop makes and however the tail constructs are nested or spread over
    several functions. *)
From Lisp Require Import Base Value Core Binder Env Eval Interp EvalProofs.

(** the binding loop of let, named *)
Definition let_binds (ev : nat -> val -> positive -> M val) (d : nat) (let_env : positive) (a1 : val) :=
  fix go (arr : list val) : M unit :=
    match arr with
    | VSym name _ :: e :: r =>
        let+ v := ev (S d) e let_env in
        let+ _ := env_set let_env name v in go r
    | [] => ret tt
    | _ => fail (lisp_goerr (s_ "non-symbol bind value") (get_position a1))
    end.

Lemma eval_let n d a1 body cur env st :
  macro_of st (VList (sy "let" :: a1 :: body) cur) env = None ->
  eval (S n) d (VList (sy "let" :: a1 :: body) cur) env st =
  prop (new_env (Some env) st) (fun let_env st1 =>
  prop (lift (get_slice a1) st1) (fun arr st2 =>
  if Nat.odd (length arr) then (Err (lisp_goerr (s_ "let: odd elements on binding vector") (get_position a1)), st2) else
  prop (let_binds (eval n) d let_env a1 arr st2) (fun _ st3 =>
  prop (do_forms (eval n) d (sy "let" :: a1 :: body) 2 true let_env st3) (fun last st4 =>
  eval n d last let_env st4)))).
Proof.
  intros H. step_eval H. cbn -[bindM lift new_env get_slice do_forms Nat.odd fail].
  rewrite bindM_prop. destruct (new_env (Some env) st) as [[le| | |] st1]; cbn [prop]; auto.
  rewrite bindM_prop. destruct (lift (get_slice a1) st1) as [[arr| | |] st2]; cbn [prop]; auto.
  destruct (Nat.odd (length arr)); [reflexivity|].
  match goal with |- context [bindM (?F arr) _ st2] => change F with (let_binds (eval n) d le a1) end.
  rewrite bindM_prop.
  destruct (let_binds (eval n) d le a1 arr st2) as [[u| | |] st3]; cbn [prop]; auto.
Qed.

(** one hand-over to the same loop: from fuel S n to fuel n' *)
Inductive tail_step (n d : nat) : val -> positive -> state -> nat -> val -> positive -> state -> Prop :=
| ts_if_true c a b cur env st cv st1 :
    macro_of st (VList [sy "if"; c; a; b] cur) env = None ->
    eval n (S d) c env st = (Ok cv, st1) -> truthy cv = true ->
    tail_step n d (VList [sy "if"; c; a; b] cur) env st n a env st1
| ts_if_false c a b cur env st cv st1 :
    macro_of st (VList [sy "if"; c; a; b] cur) env = None ->
    eval n (S d) c env st = (Ok cv, st1) -> truthy cv = false ->
    tail_step n d (VList [sy "if"; c; a; b] cur) env st n b env st1
| ts_if_one_armed c a cur env st cv st1 :
    macro_of st (VList [sy "if"; c; a] cur) env = None ->
    eval n (S d) c env st = (Ok cv, st1) -> truthy cv = true ->
    tail_step n d (VList [sy "if"; c; a] cur) env st n a env st1
| ts_do forms cur env st last st1 :
    macro_of st (VList (sy "do" :: forms) cur) env = None ->
    do_forms (eval n) d (sy "do" :: forms) 1 true env st = (Ok last, st1) ->
    tail_step n d (VList (sy "do" :: forms) cur) env st n last env st1
| ts_let a1 body cur env st let_env st1 arr st2 u st3 last st4 :
    macro_of st (VList (sy "let" :: a1 :: body) cur) env = None ->
    new_env (Some env) st = (Ok let_env, st1) -> lift (get_slice a1) st1 = (Ok arr, st2) -> Nat.odd (length arr) = false ->
    let_binds (eval n) d let_env a1 arr st2 = (Ok u, st3) ->
    do_forms (eval n) d (sy "let" :: a1 :: body) 2 true let_env st3 = (Ok last, st4) ->
    tail_step n d (VList (sy "let" :: a1 :: body) cur) env st n last let_env st4
| ts_call s p args cur env st params body fenv vs st1 env' st2 :
    macro_of st (VList (VSym s p :: args) cur) env = None -> is_special s = false ->
    eval_list (eval n) d (VSym s p :: args) env st = (Ok (VFn params body fenv false :: vs), st1) ->
    new_env_binds fenv params (VList vs None) st1 = (Ok env', st2) ->
    tail_step n d (VList (VSym s p :: args) cur) env st n body env' st2
| ts_macro head p rest cur env st mac ast' st1 :
    macro_of st (VList (VSym head p :: rest) cur) env = Some mac ->
    macroexpand (eval n) (call_builtin n (eval n)) n d (VList (VSym head p :: rest) cur) env st = (Ok ast', st1) ->
    tail_step n d (VList (VSym head p :: rest) cur) env st (S n) ast' env st1.

(** what follows a macro expansion is literally the next iteration on the expansion *)
Lemma eval_step_is_eval n d ast env st :
  eval_step (eval n) (eval n) (call_builtin n (eval n)) n d ast env st = eval (S n) d ast env st.
Proof. reflexivity. Qed.

Theorem tail_step_same_depth n d x env st n' y env' st' :
  tail_step n d x env st n' y env' st' -> eval (S n) d x env st = eval n' d y env' st'.
Proof.
  destruct 1 as [c a b cur env st cv st1 H He Ht | c a b cur env st cv st1 H He Ht | c a cur env st cv st1 H He Ht | forms cur env st last st1 H Hd
                | a1 body cur env st le st1 arr st2 u st3 last st4 H H1 H2 H3 H4 H5
                | s p args cur env st params body fenv vs st1 env' st2 H Hs He Hb
                | head p rest cur env st mac ast' st1 H He].
  - rewrite (eval_if _ _ _ _ _ _ _ _ H), He. cbn [prop]. rewrite Ht. reflexivity.
  - rewrite (eval_if _ _ _ _ _ _ _ _ H), He. cbn [prop]. rewrite Ht. reflexivity.
  - rewrite (eval_if_no_else _ _ _ _ _ _ _ H), He. cbn [prop]. rewrite Ht. reflexivity.
  - rewrite (eval_do _ _ _ _ _ _ H), Hd. reflexivity.
  - rewrite (eval_let _ _ _ _ _ _ _ H), H1. cbn [prop]. rewrite H2. cbn [prop]. rewrite H3, H4. cbn [prop]. rewrite H5. reflexivity.
  - rewrite (eval_call_closure _ _ _ _ _ _ _ _ _ _ _ _ _ H Hs He), Hb. reflexivity.
  - rewrite (eval_macro_call _ _ _ _ _ _ _ _ _ H), He. cbn [prop].
    apply eval_step_is_eval.
Qed.

(** any number of hand-overs, in any nesting, over any number of functions *)
Inductive tail_steps (d : nat) : nat -> val -> positive -> state -> nat -> val -> positive -> state -> Prop :=
| tss_refl n x env st : tail_steps d n x env st n x env st
| tss_step n x env st n1 y env1 st1 n2 z env2 st2 :
    tail_step n d x env st (S n1) y env1 st1 -> tail_steps d (S n1) y env1 st1 n2 z env2 st2 ->
    tail_steps d (S n) x env st n2 z env2 st2.

Theorem tail_steps_same_depth d : forall n x env st n' y env' st',
  tail_steps d n x env st n' y env' st' -> eval n d x env st = eval n' d y env' st'.
Proof.
  induction 1 as [|n x env st n1 y env1 st1 n2 z env2 st2 Hs Hrest IH]; [reflexivity|].
  rewrite (tail_step_same_depth _ _ _ _ _ _ _ _ _ Hs). exact IH.
Qed.

(** ---- C01: order of evaluation, stated on the transcription ---- *)
(** the elements of a call form — callee first, then the arguments — are evaluated once each, left
    to right, each in the state the previous one left *)
Lemma eval_list_left_to_right ev d x xs env st :
  eval_list ev d (x :: xs) env st =
  prop (ev (S d) x env st) (fun v st1 => prop (eval_list ev d xs env st1) (fun vs st2 => (Ok (v :: vs), st2))).
Proof.
  cbn [eval_list]. rewrite bindM_prop. destruct (ev (S d) x env st) as [[v| | |] st1]; cbn [prop]; auto.
Qed.

(** let binds sequentially: each value is computed in the let scope where the earlier names are
    already bound, then bound there itself *)
Lemma let_binds_sequential ev d let_env a1 name p e r st :
  let_binds ev d let_env a1 (VSym name p :: e :: r) st =
  prop (ev (S d) e let_env st) (fun v st1 => prop (env_set let_env name v st1) (fun _ st2 => let_binds ev d let_env a1 r st2)).
Proof.
  cbn [let_binds]. rewrite bindM_prop. destruct (ev (S d) e let_env st) as [[v| | |] st1]; cbn [prop]; auto.
Qed.
