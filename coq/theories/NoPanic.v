(** C04, for EVERY program: the evaluator model never yields a Go panic.

    [eval n d ast env st] (and [eval_c], the evaluator with the cancellation poll) is never
    [Panic _], for every fuel, every depth, every well-formed AST and every well-formed state —
    by induction on the fuel, with an invariant on the interpreter state (every scope a closure
    or a frame refers to exists, outer scopes are older, every builtin value names a registered
    Go function) that every construct of the language and every builtin preserves.  Each checked
    Go operation of the model (index, slice, type assertion, nil map, nil env: the [Panic] sites of
    Core.v, Env.v, Eval.v, Interp.v) is therefore either unreachable or under the binder's recover. *)
From Lisp Require Import Base Value Core Binder Env Eval Interp EvalProofs WfVal QuasiProofs.

Definition nx (st : state) : positive := next_env st.

Record WF (st : state) : Prop := mkWF {
  wf_root : (ROOT < nx st)%positive;
  wf_dom : forall id, (id < nx st)%positive -> exists f, get_frame st id = Some f;
  wf_frames : forall id f, get_frame st id = Some f ->
      (id < nx st)%positive /\ (forall o, outer f = Some o -> (o < id)%positive) /\ wfm (nx st) (binds f) = true;
  wf_count : Pos.to_nat (nx st) = S (nframes st);
  wf_atoms : wfl (nx st) (atoms st) = true;
}.

(** outcome of a computation started in a well-formed state: the state stays well formed, scopes
    are only added, the value (or the error value) is well formed in the final state; a panic
    only where [ap] allows it (inside the binder's recover) *)
Definition post {A} (ap : bool) (okA : positive -> A -> Prop) (st : state) (r : outcome A * state) : Prop :=
  WF (snd r) /\ (nx st <= nx (snd r))%positive /\
  match fst r with
  | Ok a => okA (nx (snd r)) a
  | Err e => wfb (nx (snd r)) e = true
  | Panic _ => ap = true
  | OutOfFuel => True
  end.

Definition good {A} (ap : bool) (b : positive) (okA : positive -> A -> Prop) (m : M A) : Prop :=
  forall st, WF st -> (b <= nx st)%positive -> post ap okA st (m st).

Definition mono {A} (okA : positive -> A -> Prop) : Prop :=
  forall b b' a, (b <= b')%positive -> okA b a -> okA b' a.

Definition okv (b : positive) (v : val) : Prop := wfb b v = true.
Definition okl (b : positive) (l : list val) : Prop := wfl b l = true.
Definition oke (b : positive) (e : positive) : Prop := (e < b)%positive.
Definition oku (b : positive) (u : unit) : Prop := True.

Lemma mono_okv : mono okv. Proof. intros b b' a H. apply wfb_mono, H. Qed.
Lemma mono_okl : mono okl. Proof. intros b b' a H. apply wfl_mono, H. Qed.
Lemma mono_oke : mono oke. Proof. intros b b' a H H1. unfold oke in *. lia. Qed.
Lemma mono_oku : mono oku. Proof. intros b b' a H H1. exact I. Qed.
Global Hint Resolve mono_okv mono_okl mono_oke mono_oku : np.

Lemma good_weaken_ap {A} b okA (m : M A) : good false b okA m -> good true b okA m.
Proof.
  intros H st W Hb. destruct (H st W Hb) as [W' [Hle Hr]]. split; [|split]; auto.
  destruct (fst (m st)); auto.
Qed.

Lemma good_mono_b {A} ap b b' okA (m : M A) : (b <= b')%positive -> good ap b okA m -> good ap b' okA m.
Proof. intros Hle H st W Hb. apply H; auto. lia. Qed.

Lemma good_ret {A} ap b okA (a : A) : mono okA -> okA b a -> good ap b okA (ret a).
Proof. intros Hm Ha st W Hb. split; [|split]; simpl; auto; try lia. eapply Hm; eauto. Qed.

Lemma good_fail {A} ap b okA e : wfb b e = true -> good ap b okA (@fail A e).
Proof. intros He st W Hb. split; [|split]; simpl; auto; try lia. eapply wfb_mono; eauto. Qed.

Lemma good_bind {A B} ap b okA okB (m : M A) (f : A -> M B) :
  good ap b okA m ->
  (forall a b', (b <= b')%positive -> okA b' a -> good ap b' okB (f a)) ->
  good ap b okB (bindM m f).
Proof.
  intros Hm Hf st W Hb. unfold bindM. specialize (Hm st W Hb). destruct (m st) as [o st1]. unfold post in *. simpl in Hm.
  destruct Hm as [W1 [Hle Ho]]. destruct o as [a|e|s|].
  - assert (Hb1 : (b <= nx st1)%positive) by lia.
    specialize (Hf a (nx st1) Hb1 Ho st1 W1 (Pos.le_refl _)). unfold post in Hf. destruct (f a st1) as [o2 st2]. simpl in *.
    destruct Hf as [W2 [Hle2 Ho2]]. split; [|split]; auto. lia.
  - split; [|split]; auto.
  - split; [|split]; auto.
  - split; [|split]; auto.
Qed.

(** lifting a pure outcome *)
Lemma good_lift_val ap b (o : outcome val) :
  okout b o = true -> (forall s, o = Panic s -> ap = true) -> good ap b okv (lift o).
Proof.
  intros Ho Hp st W Hb. split; [|split]; simpl; auto; try lia.
  destruct o; simpl in *; auto; try (eapply wfb_mono; eauto). eapply Hp; eauto.
Qed.

(** ---- the state operations ---- *)
Lemma WF_set_dbg st g : WF st -> WF (set_dbg st g).
Proof. intros [H1 H2 H3 H4 H5]. constructor; auto. Qed.
Lemma nx_set_dbg st g : nx (set_dbg st g) = nx st. Proof. reflexivity. Qed.

Lemma WF_set_cancelled st : WF st -> WF (set_cancelled st).
Proof. intros [H1 H2 H3 H4 H5]. constructor; auto. Qed.

Lemma WF_trace st v : WF st -> WF (snd (trace_push v st)).
Proof. intros [H1 H2 H3 H4 H5]. constructor; auto. Qed.

Lemma get_put_frame st id f id' :
  get_frame (put_frame st id f) id' = if Pos.eqb id' id then Some f else get_frame st id'.
Proof.
  unfold get_frame, put_frame. simpl. destruct (Pos.eqb_spec id' id) as [->|Hne].
  - apply PositiveMap.gss.
  - apply PositiveMap.gso. auto.
Qed.

Lemma WF_put_frame st id f0 f :
  WF st -> get_frame st id = Some f0 -> (forall o, outer f = Some o -> (o < id)%positive) -> wfm (nx st) (binds f) = true -> WF (put_frame st id f).
Proof.
  intros [H1 H2 H3 H4 H5] Hg Ho Hb. constructor; auto.
  - intros id' Hlt. rewrite get_put_frame. destruct (Pos.eqb id' id); eauto.
  - intros id' f' Hg'. rewrite get_put_frame in Hg'. change (nx (put_frame st id f)) with (nx st).
    destruct (Pos.eqb_spec id' id) as [->|Hne].
    + inversion Hg'; subst f'. destruct (H3 _ _ Hg) as [Ha [Hb' Hc]]. repeat split; auto.
    + apply H3. exact Hg'.
Qed.

Lemma good_env_set ap b env key v :
  (env < b)%positive -> wfb b v = true -> good ap b okv (env_set env key v).
Proof.
  intros He Hv st W Hb. unfold env_set.
  destruct (wf_dom st W env ltac:(lia)) as [f Hf]. rewrite Hf. simpl.
  assert (Hv' : wfb (nx st) v = true) by (eapply wfb_mono; eauto).
  split; [|split]; simpl; auto; try (unfold nx; simpl; lia).
  destruct (wf_frames st W env f Hf) as [_ [Hout Hbinds]].
  eapply WF_put_frame; eauto. simpl. apply wfm_aset; auto.
Qed.

Lemma WF_new_env st o :
  WF st -> (forall oid, o = Some oid -> (oid < nx st)%positive) ->
  WF (snd (new_env o st)) /\ nx (snd (new_env o st)) = Pos.succ (nx st).
Proof.
  intros [H1 H2 H3 H4 H5] Ho. split; [|reflexivity]. unfold new_env; simpl.
  constructor; unfold nx, get_frame in *; simpl in *.
  - lia.
  - intros id Hlt. destruct (Pos.eqb_spec id (next_env st)) as [->|Hne].
    + rewrite PositiveMap.gss. eauto.
    + rewrite PositiveMap.gso by auto. apply H2. lia.
  - intros id f Hg. destruct (Pos.eqb_spec id (next_env st)) as [->|Hne].
    + rewrite PositiveMap.gss in Hg. inversion Hg; subst f. simpl. repeat split; auto; try lia.
    + rewrite PositiveMap.gso in Hg by auto. destruct (H3 _ _ Hg) as [Ha [Hb Hc]]. repeat split; auto; try lia.
      eapply wfm_mono; [|exact Hc]. lia.
  - rewrite Pos2Nat.inj_succ. congruence.
  - eapply wfl_mono; [|exact H5]. lia.
Qed.

Lemma good_new_env ap b o :
  (forall oid, o = Some oid -> (oid < b)%positive) -> good ap b oke (new_env o).
Proof.
  intros Ho st W Hb.
  destruct (WF_new_env st o W) as [W' Hn]; [intros oid E; specialize (Ho oid E); lia|].
  split; [|split]; auto.
  - rewrite Hn. lia.
  - simpl fst. unfold oke. rewrite Hn. simpl. unfold nx. lia.
Qed.

(** env.Get / env.Find on a valid scope *)
Lemma env_get_n_ok st (W : WF st) key p : forall n env,
  (env < nx st)%positive -> (Pos.to_nat env <= n)%nat ->
  match env_get_n n st env key p with
  | Ok v => wfb (nx st) v = true
  | Err e => wfb (nx st) e = true
  | Panic _ => False
  | OutOfFuel => False
  end.
Proof.
  induction n as [|n IH]; intros env He Hn; [lia|].
  cbn [env_get_n]. destruct (wf_dom st W env He) as [f Hf]. rewrite Hf.
  destruct (wf_frames st W env f Hf) as [_ [Ho Hb]].
  destruct (alookup key (binds f)) eqn:E; [eapply wfm_alookup; eauto|].
  destruct (outer f) as [o|] eqn:Eo; [|reflexivity].
  specialize (Ho o eq_refl). apply IH; [lia|]. apply Pos2Nat.inj_lt in Ho. lia.
Qed.

Lemma env_get_ok st (W : WF st) env key p : (env < nx st)%positive ->
  match env_get st env key p with
  | Ok v => wfb (nx st) v = true
  | Err e => wfb (nx st) e = true
  | Panic _ => False
  | OutOfFuel => False
  end.
Proof.
  intros He. unfold env_get. apply env_get_n_ok; auto.
  rewrite <- (wf_count st W). apply Pos2Nat.inj_lt in He. lia.
Qed.

(** parameter binding *)
Lemma bind_params_ok b : forall bs nb exprs ne i acc,
  wfl b exprs = true -> wfm b acc = true ->
  match bind_params bs nb exprs ne i acc with
  | Ok m => wfm b m = true
  | Err e => wfb b e = true
  | Panic _ => False
  | OutOfFuel => False
  end.
Proof.
  induction bs as [|p bs IH]; intros nb exprs ne i acc He Ha; cbn [bind_params].
  - destruct (Nat.eqb ne i); auto.
  - destruct p; try reflexivity.
    destruct (str_eqb s AMP).
    + destruct bs as [|q bs']; [reflexivity|]. destruct q; try reflexivity.
      apply wfm_aset; auto. autorewrite with wf. apply wfl_skipn; auto.
    + destruct (nth_opt exprs i) eqn:E; [|reflexivity].
      apply IH; auto. apply wfm_aset; auto. eapply wfl_nth; eauto.
Qed.

Lemma good_new_env_binds ap b outer_id ps es :
  (outer_id < b)%positive -> wfb b es = true -> good ap b oke (new_env_binds outer_id ps es).
Proof.
  intros Ho Hes st W Hb. unfold new_env_binds, bindM.
  destruct (WF_new_env st (Some outer_id) W) as [W1 Hn1]; [intros oid E; inversion E; subst; lia|].
  assert (Hid : get_frame (snd (new_env (Some outer_id) st)) (nx st) = Some (mkFrame [] (Some outer_id))).
  { unfold get_frame, new_env. simpl. apply PositiveMap.gss. }
  destruct (new_env (Some outer_id) st) as [o1 st1] eqn:E1.
  assert (Eo : o1 = Ok (nx st)) by (unfold new_env in E1; inversion E1; reflexivity). subst o1.
  simpl in W1, Hn1, Hid.
  assert (G : post ap oke st (Ok (nx st), st1)).
  { split; [|split]; simpl; auto; try lia. unfold oke. lia. }
  assert (Main : post ap oke st
    ((let+ bs := lift (get_slice ps) in let+ es0 := lift (get_slice es) in
      let+ acc := lift (bind_params bs (length bs) es0 (length es0) 0 []) in
      fun st' => (Ok (nx st), put_frame st' (nx st) (mkFrame acc (Some outer_id)))) st1)).
  { unfold bindM, lift.
    destruct (get_slice ps) as [bs|e| |] eqn:Eps; try (destruct ps; simpl in Eps; discriminate).
    2:{ split; [|split]; simpl; auto; try lia. destruct ps; simpl in Eps; try discriminate; inversion Eps; reflexivity. }
    destruct (get_slice es) as [es0|e| |] eqn:Ees; try (destruct es; simpl in Ees; discriminate).
    2:{ split; [|split]; simpl; auto; try lia. destruct es; simpl in Ees; try discriminate; inversion Ees; reflexivity. }
    assert (Hes0 : wfl (nx st1) es0 = true).
    { eapply wfl_get_slice; [|exact Ees]. eapply wfb_mono; [|exact Hes]. lia. }
    pose proof (bind_params_ok (nx st1) bs (length bs) es0 (length es0) 0 [] Hes0 eq_refl) as Hbp.
    destruct (bind_params bs (length bs) es0 (length es0) 0 []) as [acc|e| |]; try contradiction.
    - split; [|split]; simpl; try (unfold nx in *; simpl; lia).
      + eapply WF_put_frame; eauto. simpl. intros o Eo. inversion Eo; subst. lia.
      + unfold oke, nx in *. simpl. lia.
    - split; [|split]; simpl; auto; lia. }
  destruct ps; destruct es; try exact G; exact Main.
Qed.

(** quasiquote only rearranges pieces of its operand *)
Lemma wfb_second b l : wfl b l = true -> wfb b (second l) = true.
Proof. destruct l as [|x [|y r]]; try reflexivity. rewrite !wfl_cons, !andb_true_iff. tauto. Qed.

Lemma wfb_qq_loop b : forall l, Forall (fun x => wfb b x = true -> wfb b (quasiquote x) = true) l ->
  wfl b l = true -> wfb b (qq_loop l) = true.
Proof.
  induction l as [|elt r IH]; intros HF Hl; [reflexivity|].
  inversion HF as [|? ? Hx Hr]; subst. rewrite wfl_cons, andb_true_iff in Hl. destruct Hl as [He Hrl].
  specialize (IH Hr Hrl). cbn [qq_loop].
  assert (G : wfb b (VList [sy "cons"; quasiquote elt; qq_loop r] None) = true).
  { autorewrite with wf. rewrite !wfl_cons, Hx, IH; auto. }
  destruct elt; try exact G. destruct (starts_with l (s_ "splice-unquote")); [|exact G].
  autorewrite with wf. rewrite !wfl_cons, IH. rewrite wfb_second; [reflexivity|]. now autorewrite with wf in He.
Qed.

Lemma wfb_quasiquote b : forall ast, wfb b ast = true -> wfb b (quasiquote ast) = true.
Proof.
  induction ast using val_ind'; intros Hw; try exact Hw.
  - rewrite quasiquote_list. autorewrite with wf in Hw. destruct (starts_with l (s_ "unquote")).
    + apply wfb_second, Hw.
    + apply wfb_qq_loop; auto.
  - rewrite quasiquote_vec. autorewrite with wf in *. rewrite !wfl_cons. rewrite wfb_qq_loop; auto.
  - simpl. autorewrite with wf. rewrite !wfl_cons. rewrite Hw. reflexivity.
Qed.

(** ---- the evaluator, one fuel unit above evaluators that are good ---- *)
Definition ev_good (ev : nat -> val -> positive -> M val) : Prop :=
  forall d ast env b, wfb b ast = true -> (env < b)%positive -> good false b okv (ev d ast env).
Definition cb_good (cb : nat -> str -> list val -> M val) : Prop :=
  forall d name args b, registered name = true -> wfl b args = true -> good false b okv (cb d name args).

Lemma bind_lift_ok {A B} (a : A) (f : A -> M B) : bindM (lift (Ok a)) f = f a.
Proof. reflexivity. Qed.

Lemma post_outing_hook ap (okA : positive -> val -> Prop) (m : M val) st :
  post ap okA st (m st) -> post ap okA st (outing_hook m st).
Proof.
  unfold outing_hook. destruct (dbg st) as [g|]; auto. destruct (douting1 g); auto.
  intros H. destruct (m st) as [r st'] eqn:E. unfold post in *. simpl in *.
  destruct H as [W [Hle Hr]]. split; [apply WF_set_dbg, W|]. split; auto.
Qed.

Lemma good_outing_hook ap b okA (m : M val) : good ap b okA m -> good ap b okA (outing_hook m).
Proof. intros H st W Hb. apply post_outing_hook, H; auto. Qed.

Section Step.
  Variable ev ev_cont : nat -> val -> positive -> M val.
  Variable cb : nat -> str -> list val -> M val.
  Hypothesis Hev : ev_good ev.
  Hypothesis Hevc : ev_good ev_cont.
  Hypothesis Hcb : cb_good cb.

  Definition okll (n : nat) (b : positive) (l : list val) : Prop := wfl b l = true /\ length l = n.
  Lemma mono_okll n : mono (okll n).
  Proof. intros b b' a H [H1 H2]. split; auto. eapply wfl_mono; eauto. Qed.

  Lemma good_eval_list d env : forall l b, wfl b l = true -> (env < b)%positive ->
    good false b (okll (length l)) (eval_list ev d l env).
  Proof.
    induction l as [|a r IH]; intros b Hl He; cbn [eval_list].
    - apply good_ret; [apply mono_okll|]. split; reflexivity.
    - rewrite wfl_cons, andb_true_iff in Hl. destruct Hl as [Ha Hr].
      eapply good_bind; [apply Hev; eauto|]. intros v b1 Hle1 Hv.
      eapply good_bind; [apply IH; [eapply wfl_mono; eauto | lia]|]. intros vs b2 Hle2 [Hvs Hlen].
      apply good_ret; [apply mono_okll|]. split; [|simpl; congruence].
      rewrite wfl_cons, Hvs, andb_true_r. eapply wfb_mono; eauto.
  Qed.

  Definition okmm (b : positive) (m : list (str * val)) : Prop := wfm b m = true.
  Lemma mono_okmm : mono okmm. Proof. intros b b' a H. apply wfm_mono, H. Qed.

  Lemma good_eval_map d env : forall m b, wfm b m = true -> (env < b)%positive ->
    good false b okmm (eval_map ev d m env).
  Proof.
    induction m as [|[k a] r IH]; intros b Hm He; cbn [eval_map].
    - apply good_ret; [apply mono_okmm|reflexivity].
    - simpl in Hm. rewrite andb_true_iff in Hm. destruct Hm as [Ha Hr].
      eapply good_bind; [apply Hev; eauto|]. intros v b1 Hle1 Hv.
      eapply good_bind; [apply IH; [eapply wfm_mono; eauto | lia]|]. intros vs b2 Hle2 Hvs.
      apply good_ret; [apply mono_okmm|]. unfold okmm in *. simpl. rewrite Hvs, andb_true_r. eapply wfb_mono; eauto.
  Qed.

  Lemma wfb_new_lisp_error b e p : wfb b e = true -> wfb b (new_lisp_error e p) = true.
  Proof. intros H. destruct e; simpl; autorewrite with wf in *; auto. destruct (has_module p0); autorewrite with wf; auto. Qed.

  Lemma good_eval_ast d ast env b : wfb b ast = true -> (env < b)%positive -> good false b okv (eval_ast ev d ast env).
  Proof.
    intros Ha He. destruct ast; cbn [eval_ast]; try (apply good_ret; auto with np; fail).
    - intros st W Hb. pose proof (env_get_ok st W env s p ltac:(lia)) as G.
      destruct (env_get st env s p); try contradiction; (split; [|split]; simpl; auto; try lia).
      apply wfb_new_lisp_error, G.
    - autorewrite with wf in Ha. eapply good_bind; [apply good_eval_list; eauto|]. intros vs b1 Hle [Hvs _].
      apply good_ret; auto with np; unfold okv; autorewrite with wf; auto.
    - autorewrite with wf in Ha. eapply good_bind; [apply good_eval_list; eauto|]. intros vs b1 Hle [Hvs _].
      apply good_ret; auto with np; unfold okv; autorewrite with wf; auto.
    - autorewrite with wf in Ha. eapply good_bind; [apply good_eval_map; eauto|]. intros vs b1 Hle Hvs.
      apply good_ret; auto with np; unfold okv; autorewrite with wf; auto.
  Qed.

  Lemma nth_opt_last {A} (l : list A) : l <> [] -> exists x, nth_opt l (length l - 1) = Some x.
  Proof.
    induction l as [|a r IH]; [congruence|]. intros _. destruct r as [|a' r'].
    - exists a. reflexivity.
    - destruct IH as [x Hx]; [discriminate|]. exists x. simpl in *. rewrite Nat.sub_0_r in *. exact Hx.
  Qed.

  Lemma nth_opt_In {A} (l : list A) n x : nth_opt l n = Some x -> In x l.
  Proof. revert n; induction l as [|a r IH]; intros [|n] H; simpl in *; try discriminate; [inversion H; auto | eauto]. Qed.

  Lemma good_do_forms d lst from keep env b :
    wfl b lst = true -> (env < b)%positive -> (from <= length lst)%nat ->
    good false b okv (do_forms ev d lst from keep env).
  Proof.
    intros Hl He Hfrom. unfold do_forms. apply good_outing_hook.
    destruct (Nat.eqb_spec (length lst) from) as [E|NE]; [apply good_ret; auto with np; reflexivity|].
    assert (Hlt : (from < length lst)%nat) by lia.
    set (upto := if keep then Z.of_nat (length lst) - 1 else Z.of_nat (length lst)).
    assert (Hs : exists forms, slice lst (Z.of_nat from) upto = Ok forms /\ wfl b forms = true /\
                               (keep = false -> forms <> [])).
    { unfold slice. assert (Hc : (Z.leb 0 (Z.of_nat from) && Z.leb (Z.of_nat from) upto && Z.leb upto (Z.of_nat (length lst)))%bool = true).
      { subst upto. destruct keep; rewrite !andb_true_iff, !Z.leb_le; lia. }
      rewrite Hc. eexists; split; [reflexivity|]. split; [apply wfl_firstn, wfl_skipn, Hl|].
      intros ->. subst upto. intros Hnil.
      apply (f_equal (@length val)) in Hnil. rewrite firstn_length, skipn_length in Hnil. simpl in Hnil. lia. }
    destruct Hs as [forms [Es [Hf Hne]]]. rewrite Es, bind_lift_ok.
    eapply good_bind; [apply good_eval_list; [exact Hf|lia]|]. intros vs b2 Hle2 [Hvs Hlen].
    destruct keep.
    - destruct (nth_opt_last lst) as [x Hx]; [intros ->; simpl in Hlt; lia|]. rewrite Hx.
      apply good_ret; auto with np. unfold okv. eapply wfb_mono with (b := b); [lia|].
      unfold wfl in Hl. rewrite forallb_forall in Hl. apply Hl. eapply nth_opt_In; eauto.
    - destruct (nth_opt_last vs) as [x Hx].
      { intros ->. simpl in Hlen. destruct forms; [apply Hne; reflexivity | discriminate]. }
      rewrite Hx. apply good_ret; auto with np. unfold okv. unfold wfl in Hvs. rewrite forallb_forall in Hvs. apply Hvs. eapply nth_opt_In; eauto.
  Qed.

  Lemma good_apply_fn d f args b : wfb b f = true -> wfl b args = true -> good false b okv (apply_fn ev cb d f args).
  Proof.
    intros Hf Ha. destruct f; cbn [apply_fn]; try (apply good_fail; reflexivity).
    - rewrite wfb_fn, !andb_true_iff in Hf. destruct Hf as [[He Hne] Hbody]. apply Pos.ltb_lt in He.
      eapply good_bind; [apply good_new_env_binds; [exact He | now autorewrite with wf]|].
      intros env' b1 Hle Henv. apply Hev; [eapply wfb_mono; eauto | exact Henv].
    - rewrite wfb_builtin in Hf. apply Hcb; auto.
  Qed.

  (** is_macro_call: the macro found is a well-formed function value *)
  Lemma macro_of_ok st ast env mac : WF st -> (env < nx st)%positive -> macro_of st ast env = Some mac -> wfb (nx st) mac = true.
  Proof.
    intros W He. unfold macro_of. destruct ast; try discriminate. destruct l as [|h r]; try discriminate.
    destruct h; try discriminate. destruct (env_find st env s); try discriminate.
    pose proof (env_get_ok st W env s p0 He) as G. destruct (env_get st env s p0) as [v| | |]; try discriminate.
    destruct v; try discriminate. destruct macro; try discriminate. intros E; inversion E; subst. exact G.
  Qed.

  Lemma good_macroexpand d env : forall k ast b, wfb b ast = true -> (env < b)%positive ->
    good false b okv (macroexpand ev cb k d ast env).
  Proof.
    induction k as [|k IH]; intros ast b Ha He st W Hb; cbn [macroexpand].
    - destruct (macro_of st ast env); split; [|split|idtac|split]; simpl; auto; try lia. eapply wfb_mono; eauto.
    - destruct (macro_of st ast env) as [mac|] eqn:Em.
      + assert (Hmac : wfb (nx st) mac = true) by (eapply macro_of_ok; eauto; lia).
        assert (Hargs : wfl (nx st) (match ast with VList (_ :: r) _ => r | _ => [] end) = true).
        { destruct ast; try reflexivity. destruct l; try reflexivity.
          assert (H : wfb (nx st) (VList (v :: l) p) = true) by (eapply wfb_mono; eauto).
          autorewrite with wf in H. rewrite wfl_cons, andb_true_iff in H. tauto. }
        refine (good_bind false (nx st) okv okv _ _ _ _ st W (Pos.le_refl _)).
        * apply good_apply_fn; auto.
        * intros ast' b' Hle Hast'. apply IH; auto. lia.
      + split; [|split]; simpl; auto; try lia. eapply wfb_mono; eauto.
  Qed.

  (** the pieces of a try form are pieces of the form *)
  Definition ok_parts (b : positive) (p : try_parts) : Prop :=
    wfl b (t_body p) = true /\
    (forall c h, t_catch p = Some (c, h) -> wfb b c = true /\ wfl b h = true) /\
    (forall f, t_finally p = Some f -> wfl b f = true).
  Lemma mono_ok_parts : mono ok_parts.
  Proof.
    intros b b' p Hle [H1 [H2 H3]]. split; [eapply wfl_mono; eauto|]. split.
    - intros c h E. destruct (H2 c h E). split; [eapply wfb_mono | eapply wfl_mono]; eauto.
    - intros f E. eapply wfl_mono; eauto.
  Qed.

  Lemma wfl_items b v : wfb b v = true -> wfl b (match v with VList l _ => l | _ => [] end) = true.
  Proof. destruct v; try reflexivity. now autorewrite with wf. Qed.
  Lemma wfb_nth_default b l n : wfl b l = true -> wfb b (match nth_opt l n with Some x => x | None => VNil end) = true.
  Proof. intros H. destruct (nth_opt l n) eqn:E; [eapply wfl_nth; eauto | reflexivity]. Qed.

  Lemma split_try_ok b ast lst : wfl b lst = true -> (2 <= length lst)%nat ->
    match split_try ast lst with
    | Ok p => ok_parts b p
    | Err e => wfb b e = true
    | Panic _ => False
    | OutOfFuel => False
    end.
  Proof.
    intros Hl Hn. unfold split_try.
    set (n := length lst) in *.
    set (last := match nth_opt lst (n - 1) with Some x => x | None => VNil end).
    set (prelast := if Nat.leb 3 n then match nth_opt lst (n - 2) with Some x => x | None => VNil end else VNil).
    assert (Hlast : wfb b last = true) by (apply wfb_nth_default; auto).
    assert (Hpre : wfb b prelast = true) by (subst prelast; destruct (Nat.leb 3 n); [apply wfb_nth_default; auto | reflexivity]).
    assert (Hslice : forall j, (1 <= j <= Z.of_nat n)%Z -> exists body, slice lst 1 j = Ok body /\ wfl b body = true).
    { intros j Hj. unfold slice. fold n.
      assert (Hc : (Z.leb 0 1 && Z.leb 1 j && Z.leb j (Z.of_nat n))%bool = true) by (rewrite !andb_true_iff, !Z.leb_le; lia).
      rewrite Hc. eexists; split; [reflexivity|]. apply wfl_firstn, wfl_skipn, Hl. }
    destruct (str_eqb (clause_head last) (s_ "catch")).
    - destruct (Nat.ltb _ 2); [reflexivity|].
      destruct (Hslice (Z.of_nat n - 1)%Z ltac:(lia)) as [body [Eb Hb]]. rewrite Eb. cbn [bind].
      destruct (Nat.eqb _ 0); [reflexivity|].
      split; [exact Hb|]. split; [|discriminate].
      intros c h E. inversion E; subst. split; [exact (wfb_nth_default b _ 1 (wfl_items b last Hlast)) | exact (wfl_skipn b 2 _ (wfl_items b last Hlast))].
    - destruct (str_eqb (clause_head last) (s_ "finally")).
      + destruct (str_eqb (clause_head prelast) (s_ "catch")) eqn:Ec.
        * destruct (Nat.ltb _ 2); [reflexivity|].
          assert (H3 : (3 <= n)%nat).
          { subst prelast. destruct (Nat.leb_spec 3 n); auto. simpl in Ec. discriminate. }
          destruct (Hslice (Z.of_nat n - 2)%Z ltac:(lia)) as [body [Eb Hb]]. rewrite Eb. cbn [bind].
          split; [exact Hb|]. split.
          -- intros c h E. inversion E; subst. split; [exact (wfb_nth_default b _ 1 (wfl_items b prelast Hpre)) | exact (wfl_skipn b 2 _ (wfl_items b prelast Hpre))].
          -- intros f E. inversion E; subst. exact (wfl_skipn b 1 _ (wfl_items b last Hlast)).
        * destruct (Hslice (Z.of_nat n - 1)%Z ltac:(lia)) as [body [Eb Hb]]. rewrite Eb. cbn [bind].
          split; [exact Hb|]. split; [discriminate|].
          intros f E. inversion E; subst. exact (wfl_skipn b 1 _ (wfl_items b last Hlast)).
      + destruct (Hslice (Z.of_nat n) ltac:(lia)) as [body [Eb Hb]]. rewrite Eb. cbn [bind].
        split; [exact Hb|]. split; discriminate.
  Qed.

  Lemma good_catch_errors b (m : M val) h :
    good false b okv m -> (forall e b', (b <= b')%positive -> wfb b' e = true -> good false b' okv (h e)) ->
    good false b okv (catch_errors m h).
  Proof.
    intros Hm Hh st W Hb. unfold catch_errors. specialize (Hm st W Hb). unfold post in *.
    destruct (m st) as [o st1] eqn:E. simpl in Hm. destruct Hm as [W1 [Hle Ho]].
    destruct o as [v|e|s|]; try (split; [|split]; simpl; auto; fail).
    specialize (Hh e (nx st1) ltac:(lia) Ho st1 W1 (Pos.le_refl _)). unfold post in Hh.
    destruct (h e st1) as [o2 st2]. simpl in *. destruct Hh as [W2 [Hle2 Ho2]]. split; [|split]; auto. lia.
  Qed.

  Lemma good_recover_try b (m : M val) : good false b okv m -> good false b okv (recover_try m).
  Proof.
    intros Hm st W Hb. unfold recover_try. specialize (Hm st W Hb). unfold post in *.
    destruct (m st) as [[v|e|s|] st1]; simpl in *; auto. destruct Hm as [? [? ?]]. discriminate.
  Qed.

  Lemma good_with_finally d fin env b (rest : M val) :
    (forall f, fin = Some f -> wfl b f = true) -> (env < b)%positive ->
    good false b okv rest -> good false b okv (with_finally ev d fin env rest).
  Proof.
    intros Hfin He Hr st W Hb. unfold with_finally. specialize (Hr st W Hb). unfold post in *.
    destruct (rest st) as [r st1]. simpl in Hr. destruct Hr as [W1 [Hle Ho]].
    destruct r as [v|e|s|]; try contradiction; try discriminate; try (split; [|split]; simpl; auto; fail).
    - destruct fin as [forms|].
      + pose proof (good_do_forms d forms 0 false env b (Hfin _ eq_refl) He ltac:(lia) st1 W1 ltac:(lia)) as G.
        unfold post in G. destruct (do_forms ev d forms 0 false env st1) as [[v2|e2|s2|] st2]; simpl in *;
          destruct G as [W2 [Hle2 Ho2]]; try discriminate; (split; [|split]; auto; try lia).
        all: eapply wfb_mono; [|exact Ho]; lia.
      + pose proof (post_outing_hook false okv (ret VNil) st1) as G. unfold post in G.
        destruct (outing_hook (ret VNil) st1) as [r2 st2]. simpl in *.
        destruct G as [W2 [Hle2 _]]; [split; [|split]; simpl; auto; try lia; reflexivity|].
        split; [|split]; auto; try lia. eapply wfb_mono; [|exact Ho]; lia.
    - destruct fin as [forms|].
      + pose proof (good_do_forms d forms 0 false env b (Hfin _ eq_refl) He ltac:(lia) st1 W1 ltac:(lia)) as G.
        unfold post in G. destruct (do_forms ev d forms 0 false env st1) as [[v2|e2|s2|] st2]; simpl in *;
          destruct G as [W2 [Hle2 Ho2]]; try discriminate; (split; [|split]; auto; try lia).
        all: eapply wfb_mono; [|exact Ho]; lia.
      + pose proof (post_outing_hook false okv (ret VNil) st1) as G. unfold post in G.
        destruct (outing_hook (ret VNil) st1) as [r2 st2]. simpl in *.
        destruct G as [W2 [Hle2 _]]; [split; [|split]; simpl; auto; try lia; reflexivity|].
        split; [|split]; auto; try lia. eapply wfb_mono; [|exact Ho]; lia.
  Qed.

  Lemma bind_error_ok b e body : wfb b e = true -> nonempty_list body = true ->
    match bind_error e body with Err x => wfb b x = true | _ => False end.
  Proof.
    intros He Hn. destruct body; try discriminate. destruct l as [|h r]; try discriminate.
    destruct h; simpl; autorewrite with wf; auto; apply wfb_new_lisp_error; auto.
  Qed.

  Definition okls (v : val) (b : positive) (l : list val) : Prop := wfl b l = true /\ get_slice v = Ok l.
  Lemma mono_okls v : mono (okls v).
  Proof. intros b b' a H [H1 H2]. split; auto. eapply wfl_mono; eauto. Qed.
  Lemma good_lift_slice ap b v : wfb b v = true -> good ap b (okls v) (lift (get_slice v)).
  Proof.
    intros Hv st W Hb. unfold lift, post. simpl.
    destruct (get_slice v) eqn:Eg; (split; [exact W|]); (split; [lia|]).
    - split; auto. eapply wfl_get_slice; [|exact Eg]. eapply wfb_mono; [|exact Hv]. lia.
    - destruct v; simpl in Eg; try discriminate; inversion Eg; reflexivity.
    - destruct v; simpl in Eg; discriminate.
    - exact I.
  Qed.

  (** the binding loop of let *)
  Lemma good_let_binds d let_env p1 : forall arr b, wfl b arr = true -> (let_env < b)%positive ->
    good false b oku
      ((fix go (arr : list val) : M unit :=
          match arr with
          | VSym name _ :: e :: r =>
              let+ v := ev (S d) e let_env in
              let+ _ := env_set let_env name v in go r
          | [] => ret tt
          | _ => fail (lisp_goerr (s_ "non-symbol bind value") p1)
          end) arr).
  Proof.
    fix IH 1. intros [|x [|e r]] b Hl He.
    - apply good_ret; auto with np. exact I.
    - destruct x; apply good_fail; reflexivity.
    - destruct x; try (apply good_fail; reflexivity).
      rewrite !wfl_cons, !andb_true_iff in Hl. destruct Hl as [_ [He' Hr]].
      eapply good_bind; [apply Hev; eauto|]. intros v b1 Hle1 Hv.
      eapply good_bind; [apply good_env_set; [lia|exact Hv]|]. intros _ b2 Hle2 _.
      apply IH; [eapply wfl_mono; [|exact Hr]; lia | lia].
  Qed.

  Theorem good_eval_step k d ast env b : wfb b ast = true -> (env < b)%positive ->
    good false b okv (eval_step ev ev_cont cb k d ast env).
  Proof.
    intros Ha He. unfold eval_step.
    destruct ast; try (apply good_eval_ast; auto; fail).
    eapply good_bind; [apply good_macroexpand; eauto|]. intros ast1 b1 Hle1 Hast1. unfold okv in Hast1.
    assert (He1 : (env < b1)%positive) by lia.
    destruct ast1 as [| | | | |lst cur| | | | | | | | |]; try (apply good_eval_ast; auto; fail).
    destruct lst as [|a0 rest]; [apply good_ret; auto with np|].
    set (lst := a0 :: rest) in *.
    assert (Hlst : wfl b1 lst = true) by (now autorewrite with wf in Hast1).
    assert (Ha0 : wfb b1 a0 = true) by (subst lst; rewrite wfl_cons, andb_true_iff in Hlst; tauto).
    assert (Hrest : wfl b1 rest = true) by (subst lst; rewrite wfl_cons, andb_true_iff in Hlst; tauto).
    set (a1 := match rest with x :: _ => x | [] => VNil end).
    set (a2 := match rest with _ :: x :: _ => x | _ => VNil end).
    assert (Ha1 : wfb b1 a1 = true).
    { subst a1. destruct rest; [reflexivity|]. rewrite wfl_cons, andb_true_iff in Hrest; tauto. }
    assert (Ha2 : wfb b1 a2 = true).
    { subst a2. destruct rest as [|x [|y r]]; try reflexivity. rewrite !wfl_cons, !andb_true_iff in Hrest; tauto. }
    set (head := match a0 with VSym s _ => s | _ => s_ "__<*fn>__" end).
    destruct (str_eqb head (s_ "def")).
    { eapply good_bind; [apply Hev; eauto|]. intros res b2 Hle2 Hres.
      destruct a1; try (apply good_fail; reflexivity). apply good_env_set; [lia|exact Hres]. }
    destruct (str_eqb head (s_ "let")).
    { eapply good_bind; [apply good_new_env; intros oid E; inversion E; subst; exact He1|]. intros let_env b2 Hle2 Hle.
      eapply good_bind; [apply good_lift_slice; eapply wfb_mono; [|exact Ha1]; lia|].
      intros arr b3 Hle3 [Harr Eslice].
      assert (Hlen : (2 <= length lst)%nat).
      { subst lst a1. destruct rest; [discriminate|simpl; lia]. }
      destruct (Nat.odd (length arr)); [apply good_fail; reflexivity|].
      unfold oke in Hle.
      eapply good_bind; [apply good_let_binds; [exact Harr | lia]|]. intros _ b4 Hle4 _.
      eapply good_bind; [apply good_do_forms; [eapply wfl_mono; [|exact Hlst]; lia | lia | exact Hlen]|].
      intros ast' b5 Hle5 Hast'. apply Hev; [exact Hast' | lia]. }
    destruct (str_eqb head (s_ "quote")); [apply good_ret; auto with np|].
    destruct (str_eqb head (s_ "quasiquoteexpand")).
    { apply good_ret; auto with np. apply wfb_quasiquote, Ha1. }
    destruct (str_eqb head (s_ "quasiquote")); [apply Hev; [apply wfb_quasiquote, Ha1 | exact He1]|].
    destruct (str_eqb head (s_ "defmacro")).
    { eapply good_bind; [apply Hev; eauto|]. intros fn b2 Hle2 Hfn. unfold okv in Hfn.
      destruct fn; try (apply good_fail; reflexivity).
      destruct a1; try (apply good_fail; reflexivity).
      apply good_env_set; [lia|]. rewrite wfb_fn in *. exact Hfn. }
    destruct (str_eqb head (s_ "macroexpand")); [apply good_macroexpand; auto|].
    destruct (str_eqb head (s_ "try")).
    { destruct rest as [|r0 rest']; [apply good_ret; auto with np; reflexivity|].
      assert (Hlen : (2 <= length lst)%nat) by (subst lst; simpl; lia).
      eapply good_bind with (okA := ok_parts).
      { intros st W Hb. unfold lift, post. simpl.
        pose proof (split_try_ok b1 (VList lst cur) lst Hlst Hlen) as G.
        destruct (split_try (VList lst cur) lst); try contradiction; (split; [exact W|]); (split; [lia|]).
        - eapply mono_ok_parts; [|exact G]. lia.
        - eapply wfb_mono; [|exact G]. lia. }
      intros parts b2 Hle2 [Hbody [Hcatch Hfin]].
      apply good_with_finally; [exact Hfin | lia |].
      apply good_catch_errors; [apply good_recover_try, good_do_forms; [exact Hbody | lia | lia]|].
      intros e b3 Hle3 Hwe. destruct (t_catch parts) as [[cbind cdo]|] eqn:Ec; [|apply good_fail; exact Hwe].
      destruct (Hcatch cbind cdo eq_refl) as [Hcb' Hcdo].
      eapply good_bind; [apply good_new_env_binds; [lia|]|].
      { autorewrite with wf. rewrite wfl_cons, andb_true_r. destruct e; simpl; autorewrite with wf in *; auto. }
      intros new_env b4 Hle4 Hne. unfold oke in Hne.
      eapply good_bind; [apply good_do_forms; [eapply wfl_mono; [|exact Hcdo]; lia | exact Hne | lia]|].
      intros ast' b5 Hle5 Hast'. apply Hevc; [exact Hast' | lia]. }
    destruct (str_eqb head (s_ "do")).
    { eapply good_bind; [apply good_do_forms; [exact Hlst | exact He1 | subst lst; simpl; lia]|].
      intros ast' b2 Hle2 Hast'. apply Hev; [exact Hast' | lia]. }
    destruct (str_eqb head (s_ "if")).
    { eapply good_bind; [apply Hev; eauto|]. intros c b2 Hle2 Hc.
      destruct (truthy c); [apply Hev; [eapply wfb_mono; [|exact Ha2]; lia | lia]|].
      destruct rest as [|x [|y [|z r]]]; try (apply good_ret; auto with np; reflexivity).
      apply Hev; [|lia]. rewrite !wfl_cons, !andb_true_iff in Hrest. eapply wfb_mono; [|apply Hrest]. lia. }
    destruct (str_eqb head (s_ "fn")).
    { destruct rest as [|ps body]; [apply good_fail; reflexivity|].
      apply good_ret; auto with np. unfold okv. rewrite wfb_fn.
      rewrite wfl_cons, andb_true_iff in Hrest.
      apply Pos.ltb_lt in He1. rewrite He1. simpl. autorewrite with wf. rewrite wfl_cons. simpl. tauto. }
    (* application *)
    eapply good_bind; [apply good_eval_list; [exact Hlst | exact He1]|].
    intros el b2 Hle2 [Hel Hlen].
    destruct el as [|f args]; [subst lst; simpl in Hlen; discriminate|].
    rewrite wfl_cons, andb_true_iff in Hel. destruct Hel as [Hf Hargs].
    destruct f; try (apply good_fail; reflexivity).
    - (* closure: the body is evaluated in the same EVAL invocation *)
      rewrite wfb_fn, !andb_true_iff in Hf. destruct Hf as [[Hfe Hne] Hbody]. apply Pos.ltb_lt in Hfe.
      intros st W Hb.
      pose proof (good_new_env_binds false b2 env0 f1 (VList args None) Hfe ltac:(now autorewrite with wf) st W Hb) as G.
      unfold post in *. destruct (new_env_binds env0 f1 (VList args None) st) as [[env'|e|s|] st1]; simpl in G;
        destruct G as [W1 [Hle1' Ho]]; try discriminate.
      + pose proof (Hev d f2 env' (nx st1) ltac:(eapply wfb_mono; [|exact Hbody]; lia) Ho st1 W1 (Pos.le_refl _)) as G2.
        unfold post in G2. destruct (ev d f2 env' st1) as [o2 st2]. simpl in *. destruct G2 as [W2 [Hle2' Ho2]].
        split; [|split]; auto. lia.
      + pose proof (bind_error_ok (nx st1) e f2 Ho Hne) as G2. simpl.
        destruct (bind_error e f2); try contradiction. split; [|split]; auto.
      + simpl. split; [|split]; auto.
    - (* builtin *)
      rewrite wfb_builtin in Hf.
      apply good_catch_errors; [apply Hcb; auto|].
      intros e b3 Hle3 Hwe. apply good_fail. apply wfb_new_lisp_error, Hwe.
  Qed.
End Step.

(** ---- the builtins ---- *)
Lemma gate_err_wf b sg mn mx args e : gate sg mn mx args = Err e -> wfb b e = true.
Proof.
  unfold gate. destruct (lisp_bounds sg mn mx) as [lo hi].
  repeat match goal with |- context [if ?c then _ else _] => destruct c end;
    try (intros E; inversion E; reflexivity).
  destruct (first_bad _ _ _ _) as [[v t]|]; [|discriminate].
  destruct (first_bad_fixed _ _) as [[? ?]|]; intros E; inversion E; reflexivity.
Qed.

Lemma good_finishM b (m : M val) : good true b okv m -> good false b okv (finishM m).
Proof.
  intros Hm st W Hb. unfold finishM. specialize (Hm st W Hb). unfold post in *.
  destruct (m st) as [[v|e|s|] st1]; simpl in *; auto.
Qed.

Lemma WF_atoms_set st id v : WF st -> wfb (nx st) v = true -> WF (snd (atom_set id v st)).
Proof.
  intros [H1 H2 H3 H4 H5] Hv. constructor; auto. simpl. unfold nx in *. simpl.
  revert id. generalize dependent (atoms st). induction l as [|x r IH]; intros Hl [|id]; simpl; auto.
  - rewrite wfl_cons, andb_true_iff in Hl. rewrite Hv. tauto.
  - rewrite wfl_cons, andb_true_iff in Hl. destruct Hl as [Hx Hr]. rewrite Hx. simpl. apply IH, Hr.
Qed.

Lemma good_atom_set ap b id v : wfb b v = true -> good ap b oku (atom_set id v).
Proof.
  intros Hv st W Hb. unfold post. split; [apply WF_atoms_set; auto; eapply wfb_mono; eauto|].
  split; [simpl; unfold nx; simpl; lia | exact I].
Qed.

Lemma good_atom_get b id : good true b okv (atom_get id).
Proof.
  intros st W Hb. unfold atom_get, post. destruct (nth_opt (atoms st) id) eqn:E; simpl; (split; [exact W|]); (split; [lia|]); auto.
  eapply wfl_nth; [apply (wf_atoms st W)|exact E].
Qed.

Lemma good_new_atom ap b v : wfb b v = true -> good ap b okv (new_atom v).
Proof.
  intros Hv st W Hb. unfold new_atom, post. simpl. destruct W as [H1 H2 H3 H4 H5].
  split; [constructor; auto; unfold nx in *; simpl; rewrite wfl_app, H5; simpl; rewrite andb_true_r; eapply wfb_mono; eauto|].
  split; [unfold nx; simpl; lia | reflexivity].
Qed.

Lemma good_lift_pure b (f : list val -> outcome val) args : pure_ok f -> wfl b args = true -> good true b okv (lift (f args)).
Proof. intros Hf Ha. apply good_lift_val; [apply Hf, Ha | reflexivity]. Qed.

Lemma good_lift_any {A} b (okA : positive -> A -> Prop) (o : outcome A) :
  (forall a, o = Ok a -> forall b', (b <= b')%positive -> okA b' a) -> (forall e, o = Err e -> wfb b e = true) ->
  good true b okA (lift o).
Proof.
  intros H1 H2 st W Hb. unfold lift, post. simpl. split; [exact W|]. split; [lia|].
  destruct o; auto. eapply wfb_mono; [|apply H2; reflexivity]. exact Hb.
Qed.

Definition okz (b : positive) (z : Z) : Prop := True.
Definition oks (b : positive) (s : str) : Prop := True.

Section Kinds.
  Variable app : val -> list val -> M val.
  Hypothesis Happ : forall f args b, wfb b f = true -> wfl b args = true -> good false b okv (app f args).

  Lemma good_as_int b v : good true b okz (lift (as_int v)).
  Proof. apply good_lift_any; [intros; exact I | intros e E; destruct v; discriminate]. Qed.
  Lemma good_as_str b v : good true b oks (lift (as_str v)).
  Proof. apply good_lift_any; [intros; exact I | intros e E; destruct v; discriminate]. Qed.

  Lemma good_index b l i : wfl b l = true -> good true b okv (lift (index l i)).
  Proof.
    intros Hl. apply good_lift_any.
    - intros a E b' Hle. eapply wfb_mono; [exact Hle|]. eapply wfl_index; eauto.
    - intros e E. exfalso. eapply index_not_err; eauto.
  Qed.

  Lemma good_run_update b hm idx f : wfb b hm = true -> wfb b idx = true -> wfb b f = true ->
    good true b okv (run_update app hm idx f).
  Proof.
    intros Hh Hi Hf. destruct hm; cbn [run_update]; try (apply good_fail; reflexivity).
    - autorewrite with wf in Hh.
      eapply good_bind; [apply good_as_int|]. intros i b1 Hle1 _.
      eapply good_bind; [apply good_index; eapply wfl_mono; eauto|]. intros old b2 Hle2 Hold.
      eapply good_bind; [apply good_weaken_ap, Happ; [eapply wfb_mono; [|exact Hf]; lia | rewrite wfl_cons, andb_true_r; exact Hold]|].
      intros res b3 Hle3 Hres. apply good_lift_pure; [exact pure_ok_assoc|].
      rewrite !wfl_cons, andb_true_r, !andb_true_iff. repeat split; [|eapply wfb_mono; [|exact Hi]; lia|exact Hres].
      autorewrite with wf. eapply wfl_mono; [|exact Hh]. lia.
    - autorewrite with wf in Hh.
      eapply good_bind; [apply good_as_str|]. intros k b1 Hle1 _.
      eapply good_bind; [apply good_weaken_ap, Happ; [eapply wfb_mono; [|exact Hf]; lia | rewrite wfl_cons, andb_true_r; apply wfb_lookup_or_nil; eapply wfm_mono; [|exact Hh]; lia]|].
      intros res b3 Hle3 Hres. apply good_lift_pure; [exact pure_ok_assoc|].
      rewrite !wfl_cons, andb_true_r, !andb_true_iff. repeat split; [|eapply wfb_mono; [|exact Hi]; lia|exact Hres].
      autorewrite with wf. eapply wfm_mono; [|exact Hh]. lia.
  Qed.

  Lemma good_run_update_in f : forall path sq b, wfb b sq = true -> wfl b path = true -> wfb b f = true ->
    good true b okv (run_update_in app sq path f).
  Proof.
    induction path as [|idx rest IH]; intros sq b Hs Hp Hf; [apply good_ret; auto with np|].
    rewrite wfl_cons, andb_true_iff in Hp. destruct Hp as [Hidx Hrest].
    destruct rest as [|i2 rest']; [apply good_run_update; auto|].
    cbn [run_update_in]. destruct sq; try (apply good_fail; reflexivity).
    - autorewrite with wf in Hs.
      eapply good_bind; [apply good_as_int|]. intros i b1 Hle1 _.
      eapply good_bind; [apply good_index; eapply wfl_mono; eauto|]. intros br b2 Hle2 Hbr.
      assert (Hbranch : wfb b2 (match br with VNil => vvec [] | x => x end) = true) by (destruct br; auto).
      destruct (match br with VNil => vvec [] | x => x end) eqn:Eb; try (apply good_lift_val; [reflexivity|reflexivity]).
      eapply good_bind; [apply IH; [exact Hbranch | eapply wfl_mono; [|exact Hrest]; lia | eapply wfb_mono; [|exact Hf]; lia]|].
      intros inner b3 Hle3 Hinner. apply good_lift_pure; [exact pure_ok_assoc|].
      rewrite !wfl_cons, andb_true_r, !andb_true_iff. repeat split; [|eapply wfb_mono; [|exact Hidx]; lia|exact Hinner].
      autorewrite with wf. eapply wfl_mono; [|exact Hs]. lia.
    - autorewrite with wf in Hs.
      eapply good_bind; [apply good_as_str|]. intros k b1 Hle1 _.
      assert (Hbranch : wfb b1 (match lookup_or_nil k m with VNil => VMap [] | x => x end) = true).
      { pose proof (wfb_lookup_or_nil b1 k m ltac:(eapply wfm_mono; [|exact Hs]; lia)) as G. destruct (lookup_or_nil k m); auto. }
      destruct (match lookup_or_nil k m with VNil => VMap [] | x => x end) eqn:Eb; try (apply good_lift_val; [reflexivity|reflexivity]).
      eapply good_bind; [apply IH; [exact Hbranch | eapply wfl_mono; [|exact Hrest]; lia | eapply wfb_mono; [|exact Hf]; lia]|].
      intros inner b3 Hle3 Hinner. apply good_lift_pure; [exact pure_ok_assoc|].
      rewrite !wfl_cons, andb_true_r, !andb_true_iff. repeat split; [|eapply wfb_mono; [|exact Hidx]; lia|exact Hinner].
      autorewrite with wf. eapply wfm_mono; [|exact Hs]. lia.
  Qed.

  Lemma good_map_loop f : forall l b, wfb b f = true -> wfl b l = true ->
    good true b okl ((fix go (l : list val) : M (list val) :=
                        match l with
                        | [] => ret []
                        | x :: r => let+ y := app f [x] in let+ ys := go r in ret (y :: ys)
                        end) l).
  Proof.
    induction l as [|x r IH]; intros b Hf Hl; [apply good_ret; auto with np; reflexivity|].
    rewrite wfl_cons, andb_true_iff in Hl. destruct Hl as [Hx Hr].
    eapply good_bind; [apply good_weaken_ap, Happ; [exact Hf | rewrite wfl_cons, andb_true_r; exact Hx]|].
    intros y b1 Hle1 Hy.
    eapply good_bind; [apply IH; [eapply wfb_mono; eauto | eapply wfl_mono; eauto]|]. intros ys b2 Hle2 Hys.
    apply good_ret; auto with np. unfold okl. rewrite wfl_cons, Hys, andb_true_r. eapply wfb_mono; eauto.
  Qed.

  Lemma good_run_kind b k args : (forall f, k = BPure f -> pure_ok f) -> wfl b args = true ->
    good true b okv (run_kind app k args).
  Proof.
    intros Hk Ha. destruct k; cbn [run_kind].
    - apply good_lift_pure; auto.
    - (* apply *)
      destruct args as [|f r]; [apply good_fail; reflexivity|].
      rewrite wfl_cons, andb_true_iff in Ha. destruct Ha as [Hf Hr].
      destruct (rev r) as [|last mid_rev] eqn:Er; [apply good_fail; reflexivity|].
      assert (Hrev : wfl b (rev r) = true) by (rewrite wfl_rev; exact Hr). rewrite Er in Hrev.
      rewrite wfl_cons, andb_true_iff in Hrev. destruct Hrev as [Hlast Hmid].
      eapply good_bind; [apply good_lift_slice; exact Hlast|]. intros l b1 Hle1 [Hl _].
      apply good_weaken_ap, Happ; [eapply wfb_mono; eauto|].
      rewrite wfl_app, wfl_rev, Hl, andb_true_r. eapply wfl_mono; eauto.
    - (* map *)
      destruct args as [|f [|sq [|? ?]]]; try (apply good_lift_val; [reflexivity|reflexivity]).
      rewrite !wfl_cons, !andb_true_iff in Ha. destruct Ha as [Hf [Hsq _]].
      eapply good_bind; [apply good_lift_slice; exact Hsq|]. intros l b1 Hle1 [Hl _].
      eapply good_bind; [apply good_map_loop; [eapply wfb_mono; eauto | exact Hl]|]. intros rs b2 Hle2 Hrs.
      apply good_ret; auto with np; unfold okv; autorewrite with wf; auto.
    - (* update *)
      destruct args as [|hm [|idx [|f [|? ?]]]]; try (apply good_lift_val; [reflexivity|reflexivity]);
        try (destruct hm; apply good_lift_val; reflexivity).
      rewrite !wfl_cons, !andb_true_iff in Ha. destruct Ha as [Hh [Hi [Hf _]]].
      assert (G : good true b okv (run_update app hm idx f)) by (apply good_run_update; auto).
      destruct hm; first [exact G | apply good_ret; auto with np].
    - (* update-in *)
      destruct args as [|sq [|p [|f [|? ?]]]]; try (apply good_lift_val; [reflexivity|reflexivity]);
        try (destruct sq; apply good_lift_val; reflexivity);
        try (destruct sq; try (apply good_lift_val; reflexivity); destruct p; apply good_lift_val; reflexivity).
      rewrite !wfl_cons, !andb_true_iff in Ha. destruct Ha as [Hs [Hp [Hf _]]].
      destruct sq; try (destruct p; try (apply good_lift_val; reflexivity); apply good_run_update_in; auto; now autorewrite with wf in Hp).
    - (* swap! *)
      destruct args as [|a r]; [apply good_lift_val; reflexivity|].
      rewrite wfl_cons, andb_true_iff in Ha. destruct Ha as [_ Hr].
      destruct a; try (apply good_fail; reflexivity).
      destruct r as [|f extra]; [apply good_lift_val; reflexivity|].
      rewrite wfl_cons, andb_true_iff in Hr. destruct Hr as [Hf Hex].
      eapply good_bind; [apply good_atom_get|]. intros cur b1 Hle1 Hcur.
      eapply good_bind; [apply good_weaken_ap, Happ; [eapply wfb_mono; eauto | rewrite wfl_cons, Hcur; eapply wfl_mono; eauto]|].
      intros res b2 Hle2 Hres.
      eapply good_bind; [apply good_atom_set; exact Hres|]. intros _ b3 Hle3 _.
      apply good_ret; auto with np. eapply wfb_mono; eauto.
    - (* reset! *)
      destruct args as [|a [|v [|? ?]]]; try (apply good_lift_val; [reflexivity|reflexivity]);
        try (destruct a; apply good_lift_val; reflexivity).
      rewrite !wfl_cons, !andb_true_iff in Ha. destruct Ha as [_ [Hv _]].
      destruct a; try (apply good_fail; reflexivity).
      eapply good_bind; [apply good_atom_set; exact Hv|]. intros _ b3 Hle3 _.
      apply good_ret; auto with np. eapply wfb_mono; eauto.
    - (* deref *)
      destruct args as [|a [|? ?]]; try (apply good_lift_val; [reflexivity|reflexivity]);
        try (destruct a; apply good_lift_val; reflexivity).
      destruct a; try (apply good_lift_val; reflexivity). apply good_atom_get.
    - (* atom *)
      destruct args as [|a [|? ?]]; try (apply good_lift_val; [reflexivity|reflexivity]).
      rewrite wfl_cons, andb_true_iff in Ha. apply good_new_atom; tauto.
  Qed.
End Kinds.

(** every entry of the table registers without panic (computed over the whole table) *)
Lemma table_all_bound :
  forallb (fun e : str * bentry => match bind (b_sig (snd e)) (b_decl (snd e)) with Bound _ _ => true | RegPanic _ => false end) builtin_table = true.
Proof. vm_compute. reflexivity. Qed.

Lemma alookup_In {A} name (l : list (str * A)) e : alookup name l = Some e -> exists n, In (n, e) l.
Proof.
  induction l as [|[k v] r IH]; simpl; [discriminate|].
  destruct (str_eqb name k); [intros E; inversion E; subst; eexists; left; reflexivity|].
  intros E. destruct (IH E) as [n Hn]. eexists; right; eauto.
Qed.

Lemma lookup_bound name e : alookup name builtin_table = Some e -> exists mn mx, bind (b_sig e) (b_decl e) = Bound mn mx.
Proof.
  intros H. destruct (alookup_In _ _ _ H) as [n Hin].
  pose proof table_all_bound as T. rewrite forallb_forall in T. specialize (T _ Hin). simpl in T.
  destruct (bind (b_sig e) (b_decl e)); [eauto | discriminate].
Qed.

Lemma good_call_builtin ev : ev_good ev -> forall k, cb_good (call_builtin k ev).
Proof.
  intros Hev. induction k as [|k IH]; intros d name args b Hreg Ha.
  - intros st W Hb. unfold post. simpl. split; [exact W|]. split; [lia | exact I].
  - cbn [call_builtin].
    destruct (str_eqb name (s_ "eval")) eqn:E1.
    { destruct args as [|a [|? ?]]; try (apply good_fail; reflexivity).
      rewrite wfl_cons, andb_true_iff in Ha. destruct Ha as [Ha _].
      intros st W Hb.
      apply (Hev (S d) a ROOT (nx st)); [eapply wfb_mono; eauto | apply (wf_root st W) | exact W | lia]. }
    destruct (str_eqb name (s_ "trace!")) eqn:E2.
    { destruct args as [|a [|? ?]]; try (apply good_fail; reflexivity).
      rewrite wfl_cons, andb_true_iff in Ha. destruct Ha as [Ha _].
      intros st W Hb. unfold post. simpl. split; [apply (WF_trace st a W)|]. split; [unfold nx; simpl; lia|].
      unfold nx; simpl. eapply wfb_mono; eauto. }
    destruct (str_eqb name (s_ "depth!")) eqn:E3; [apply good_ret; auto with np; reflexivity|].
    destruct (str_eqb name (s_ "cancel!")) eqn:E4.
    { intros st W Hb. unfold post. simpl. split; [apply WF_set_cancelled, W|]. split; [unfold nx; simpl; lia | reflexivity]. }
    unfold registered in Hreg.
    destruct (alookup name builtin_table) as [be|] eqn:El.
    2:{ exfalso. simpl in Hreg. simpl in E1, E2, E3, E4. rewrite E1, E2, E3, E4 in Hreg. discriminate. }
    destruct (lookup_bound _ _ El) as [mn [mx Eb]]. rewrite Eb.
    destruct (gate (b_sig be) mn mx args) eqn:Eg.
    + apply good_finishM, good_run_kind; [|intros f Ek; eapply lookup_pure_ok; eauto|exact Ha].
      intros f args' b' Hf Ha'. apply good_apply_fn; auto.
    + apply good_fail. eapply gate_err_wf; eauto.
    + exfalso. eapply gate_no_panic; eauto.
    + intros st W Hb. unfold post. simpl. split; [exact W|]. split; [lia | exact I].
Qed.

(** ---- the closed evaluators ---- *)
Theorem eval_good : forall n, ev_good (eval n).
Proof.
  induction n as [|n IH]; intros d ast env b Ha He.
  - intros st W Hb. unfold post. simpl. split; [exact W|]. split; [lia | exact I].
  - cbn [eval]. apply good_eval_step; auto. apply good_call_builtin, IH.
Qed.

Lemma wfb_timeout_error b ast : wfb b (timeout_error ast) = true.
Proof. reflexivity. Qed.

Theorem eval_c_good : forall n, ev_good (eval_c n).
Proof.
  induction n as [|n IH]; intros d ast env b Ha He.
  - intros st W Hb. unfold post. simpl. split; [exact W|]. split; [lia | exact I].
  - cbn [eval_c]. intros st W Hb. destruct (cancelled st).
    + unfold post. simpl. split; [exact W|]. split; [lia | apply wfb_timeout_error].
    + exact (good_eval_step (eval_c n) (eval_c n) (call_builtin n (eval_c n)) IH IH (good_call_builtin _ IH n) n d ast env b Ha He st W Hb).
Qed.

(** the initial state is well formed: the root scope binds registered builtins only *)
Lemma WF_state0 : WF state0.
Proof.
  constructor.
  - reflexivity.
  - intros id Hlt. unfold nx, state0 in Hlt. simpl in Hlt. assert (id = 1%positive) by lia. subst.
    eexists. reflexivity.
  - intros id f Hg. unfold get_frame, state0 in Hg.
    destruct id as [q|q|]; simpl in Hg; try (rewrite PositiveMap.gleaf in Hg; discriminate).
    inversion Hg. split; [reflexivity|]. split; [discriminate|]. vm_compute. reflexivity.
  - reflexivity.
  - reflexivity.
Qed.

(** THE theorem: no program makes the evaluator panic *)
Theorem eval_never_panics n d ast env st s st' :
  WF st -> wfb (nx st) ast = true -> (env < nx st)%positive -> eval n d ast env st <> (Panic s, st').
Proof.
  intros W Ha He E. pose proof (eval_good n d ast env (nx st) Ha He st W (Pos.le_refl _)) as G.
  unfold post in G. rewrite E in G. simpl in G. destruct G as [_ [_ G]]. discriminate.
Qed.

Theorem eval_c_never_panics n d ast env st s st' :
  WF st -> wfb (nx st) ast = true -> (env < nx st)%positive -> eval_c n d ast env st <> (Panic s, st').
Proof.
  intros W Ha He E. pose proof (eval_c_good n d ast env (nx st) Ha He st W (Pos.le_refl _)) as G.
  unfold post in G. rewrite E in G. simpl in G. destruct G as [_ [_ G]]. discriminate.
Qed.

(** and the invariant goes on: whatever one evaluation leaves behind is a well-formed state for the next
    (a REPL session, load-file after load-file), with a well-formed value *)
Theorem eval_preserves_WF n d ast env st r st' :
  WF st -> wfb (nx st) ast = true -> (env < nx st)%positive -> eval n d ast env st = (r, st') ->
  WF st' /\ (nx st <= nx st')%positive /\ match r with Ok v | Err v => wfb (nx st') v = true | _ => True end.
Proof.
  intros W Ha He E. pose proof (eval_good n d ast env (nx st) Ha He st W (Pos.le_refl _)) as G.
  unfold post in G. rewrite E in G. simpl in G. destruct G as [W' [Hle G]]. split; [|split]; auto.
  destruct r; auto.
Qed.

(** what the reader produces is well formed: text has no function values in it.  [data v]: no function,
    no builtin value anywhere inside *)
Fixpoint datab (v : val) : bool :=
  match v with
  | VFn _ _ _ _ | VBuiltin _ => false
  | VList l _ | VVec l _ => (fix go (l : list val) : bool := match l with [] => true | x :: r => datab x && go r end) l
  | VMap m => (fix go (m : list (str * val)) : bool := match m with [] => true | kv :: r => datab (snd kv) && go r end) m
  | VLispErr p _ => datab p
  | _ => true
  end.

Lemma datab_wfb b : forall v, datab v = true -> wfb b v = true.
Proof.
  induction v using val_ind'; intros Hd; try reflexivity; try discriminate.
  - autorewrite with wf. simpl in Hd. induction H as [|x r Hx Hr IH]; [reflexivity|].
    rewrite andb_true_iff in Hd. rewrite wfl_cons, Hx, IH; tauto.
  - autorewrite with wf. simpl in Hd. induction H as [|x r Hx Hr IH]; [reflexivity|].
    rewrite andb_true_iff in Hd. rewrite wfl_cons, Hx, IH; tauto.
  - autorewrite with wf. simpl in Hd. induction H as [|x r Hx Hr IH]; [reflexivity|].
    rewrite andb_true_iff in Hd. unfold wfm in *. simpl. rewrite Hx, IH; tauto.
  - autorewrite with wf. simpl in Hd. auto.
Qed.

(** the statement as a user reads it: any data-only form (anything READ can return, anything a host builds
    from lists, vectors, maps, symbols and scalars), evaluated in the root scope of a fresh environment *)
Corollary eval_program_never_panics n d ast s st' : datab ast = true -> eval n d ast ROOT state0 <> (Panic s, st').
Proof. intros Hd. apply eval_never_panics; [apply WF_state0 | apply datab_wfb, Hd | reflexivity]. Qed.

(** non-vacuity: a concrete state and program meet the hypotheses, and a well-formed closure exists *)
Example np_premises_hold :
  WF state0 /\ datab (VList [VSym (s_ "try") None; VList [VSym (s_ "nth") None; VVec [] None; VInt 3] None;
                              VList [VSym (s_ "catch") None; VSym (s_ "e") None; VSym (s_ "e") None] None] None) = true /\
  wfb 2 (VFn (VVec [] None) (VList [VSym (s_ "do") None] None) ROOT false) = true.
Proof. split; [apply WF_state0|]. split; reflexivity. Qed.
