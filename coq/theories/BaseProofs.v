From Lisp Require Import Base Value.

Lemma str_eqb_spec a b : reflect (a = b) (str_eqb a b).
Proof.
  revert b; induction a as [|x a IH]; intros [|y b]; simpl; try (constructor; congruence).
  destruct (N.eqb_spec x y) as [->|Hne]; simpl.
  - destruct (IH b) as [->|Hne]; constructor; congruence.
  - constructor; congruence.
Qed.

Lemma str_eqb_refl a : str_eqb a a = true.
Proof. destruct (str_eqb_spec a a); congruence. Qed.

Lemma str_eqb_eq a b : str_eqb a b = true <-> a = b.
Proof. destruct (str_eqb_spec a b); split; congruence. Qed.

Lemma str_eqb_neq a b : str_eqb a b = false <-> a <> b.
Proof. destruct (str_eqb_spec a b); split; congruence. Qed.

Lemma str_eqb_sym a b : str_eqb a b = str_eqb b a.
Proof. destruct (str_eqb_spec a b), (str_eqb_spec b a); congruence. Qed.

Lemma smem_In k s : smem k s = true <-> In k s.
Proof.
  induction s as [|x s IH]; simpl; [split; [discriminate|tauto]|].
  rewrite orb_true_iff, IH, str_eqb_eq. split; intros [H|H]; auto.
Qed.

Lemma alookup_In_fst {A} k (m : list (str * A)) : (exists v, alookup k m = Some v) <-> In k (map fst m).
Proof.
  induction m as [|[k' v'] m IH]; simpl.
  - split; [intros [v H]; discriminate | tauto].
  - destruct (str_eqb_spec k k') as [->|Hne].
    + split; eauto.
    + rewrite IH. split; [auto | intros [H|H]; [congruence | auto]].
Qed.

Lemma alookup_None {A} k (m : list (str * A)) : alookup k m = None <-> ~ In k (map fst m).
Proof.
  rewrite <- alookup_In_fst. destruct (alookup k m); split; intros H; try congruence.
  - exfalso; apply H; eauto.
  - intros [v Hv]; discriminate.
Qed.

Lemma alookup_In {A} k (v : A) m : alookup k m = Some v -> In (k, v) m.
Proof.
  induction m as [|[k' v'] m IH]; simpl; [discriminate|].
  destruct (str_eqb_spec k k') as [->|Hne]; intros H.
  - left; congruence.
  - right; auto.
Qed.

Lemma nodup_keys_NoDup {A} (m : list (str * A)) : nodup_keys m = true <-> NoDup (map fst m).
Proof.
  - induction m as [|[k v] m IH]; simpl.
    + split; [constructor | reflexivity].
    + rewrite andb_true_iff, negb_true_iff, IH. split.
      * intros [Hn Hd]; constructor; auto. intros Hin.
        apply in_map_iff in Hin as [[k' v'] [Hk Hin]]; simpl in Hk; subst k'.
        assert (existsb (fun kv => str_eqb k (fst kv)) m = true); [|congruence].
        apply existsb_exists. exists (k, v'); split; auto. apply str_eqb_refl.
      * intros Hnd; inversion Hnd as [|? ? Hn Hd]; subst. split; auto.
        destruct (existsb _ m) eqn:E; auto.
        apply existsb_exists in E as [[k' v'] [Hin Hk]]. apply str_eqb_eq in Hk; simpl in Hk; subst k'.
        exfalso; apply Hn. apply in_map_iff. exists (k, v'); auto.
Qed.

Lemma nodup_strs_NoDup (s : list str) : nodup_strs s = true <-> NoDup s.
Proof.
  - induction s as [|k s IH]; simpl.
    + split; [constructor | reflexivity].
    + rewrite andb_true_iff, negb_true_iff, IH. split.
      * intros [Hn Hd]; constructor; auto. rewrite <- smem_In; congruence.
      * intros Hnd; inversion Hnd as [|? ? Hn Hd]; subst. split; auto.
        destruct (smem k s) eqn:E; auto. apply smem_In in E; tauto.
Qed.
