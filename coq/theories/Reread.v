(** C19: a program re-read from its printed form — without or under a module name — evaluates to the same outcome,
    scopes, atoms and ordered trace as the form it was printed from, up to source positions.
    C06 (the text reads back to the form up to positions) composed with PosEraseEval (positions do not matter). *)
From Lisp Require Import Base Value Core Binder Env Eval Interp Scanner Reader Printer PrintScan PrintInt PrintParse PosErase PosErase2 PosEraseEval.

(** on forms without function values and error values (everything the reader returns, everything [pv] admits)
    [unpos] and [erase] are the same function *)
Fixpoint plain (v : val) : bool :=
  match v with
  | VFn _ _ _ _ | VLispErr _ _ => false
  | VList l _ | VVec l _ => (fix go (l : list val) : bool := match l with [] => true | x :: r => plain x && go r end) l
  | VMap m => (fix go (m : list (str * val)) : bool := match m with [] => true | kv :: r => plain (snd kv) && go r end) m
  | _ => true
  end.

Lemma plain_list l p : plain (VList l p) = forallb plain l.
Proof. simpl. induction l as [|x r IH]; simpl; [reflexivity | now rewrite IH]. Qed.
Lemma plain_vec l p : plain (VVec l p) = forallb plain l.
Proof. simpl. induction l as [|x r IH]; simpl; [reflexivity | now rewrite IH]. Qed.
Lemma plain_map m : plain (VMap m) = forallb (fun kv => plain (snd kv)) m.
Proof. simpl. induction m as [|x r IH]; simpl; [reflexivity | now rewrite IH]. Qed.

Lemma erase_unpos : forall v, plain v = true -> erase v = unpos v.
Proof.
  induction v using val_ind'; intros Hp; try reflexivity; try discriminate.
  - rewrite plain_list in Hp. rewrite erase_list, unpos_list. f_equal. apply map_ext_in. intros x Hx.
    rewrite Forall_forall in H. rewrite forallb_forall in Hp. auto.
  - rewrite plain_vec in Hp. rewrite erase_vec, unpos_vec. f_equal. apply map_ext_in. intros x Hx.
    rewrite Forall_forall in H. rewrite forallb_forall in Hp. auto.
  - rewrite plain_map in Hp. rewrite erase_map, unpos_map. f_equal. unfold em. apply map_ext_in. intros kv Hk.
    rewrite Forall_forall in H. rewrite forallb_forall in Hp. f_equal. auto.
Qed.

Lemma pv_plain : forall v, pv v = true -> plain v = true.
Proof.
  induction v using val_ind'; intros Hp; try reflexivity; try discriminate.
  - rewrite pv_list in Hp. rewrite plain_list. rewrite forallb_forall in *. rewrite Forall_forall in H. auto.
  - rewrite pv_vec in Hp. rewrite plain_vec. rewrite forallb_forall in *. rewrite Forall_forall in H. auto.
  - rewrite pv_map, andb_true_iff in Hp. destruct Hp as [Hp _]. rewrite plain_map. rewrite forallb_forall in *. rewrite Forall_forall in H.
    intros kv Hk. specialize (Hp kv Hk). rewrite andb_true_iff in Hp. apply H; tauto.
Qed.

(** [unpos] does not touch function and error values: a form whose [unpos] image is plain is plain *)
Lemma unpos_plain : forall v w, unpos v = unpos w -> plain w = true -> plain v = true.
Proof.
  induction v using val_ind'; intros w E Hw; try reflexivity.
  - rewrite unpos_list in E. destruct w; try discriminate E. rewrite unpos_list in E. inversion E as [E1].
    rewrite plain_list in *. clear E. revert l0 E1 Hw. induction H as [|x r Hx Hr IH]; intros [|y r0] E1 Hw; try discriminate; [reflexivity|].
    simpl in *. inversion E1. rewrite andb_true_iff in *. split; [eapply Hx; [eassumption | tauto] | eapply IH; [eassumption | tauto]].
  - rewrite unpos_vec in E. destruct w; try discriminate E. rewrite unpos_vec in E. inversion E as [E1].
    rewrite plain_vec in *. clear E. revert l0 E1 Hw. induction H as [|x r Hx Hr IH]; intros [|y r0] E1 Hw; try discriminate; [reflexivity|].
    simpl in *. inversion E1. rewrite andb_true_iff in *. split; [eapply Hx; [eassumption | tauto] | eapply IH; [eassumption | tauto]].
  - rewrite unpos_map in E. destruct w; try discriminate E. rewrite unpos_map in E. inversion E as [E1].
    rewrite plain_map in *. clear E. revert m0 E1 Hw. induction H as [|x r Hx Hr IH]; intros [|y r0] E1 Hw; try discriminate; [reflexivity|].
    simpl in *. inversion E1. rewrite andb_true_iff in *. split; [eapply Hx; [eassumption | tauto] | eapply IH; [eassumption | tauto]].
  - destruct w; try discriminate E; discriminate Hw.
  - destruct w; try discriminate E; discriminate Hw.
Qed.

Theorem reread_evaluates_the_same cm ast : pv ast = true -> clean (pr_str true ast) = true ->
  exists ast', read_str cm None None (pr_str true ast) = Ok ast' /\
    forall n d env s1 s2, est s1 = est s2 ->
      eoA erase (fst (eval n d ast' env s1)) = eoA erase (fst (eval n d ast env s2)) /\
      est (snd (eval n d ast' env s1)) = est (snd (eval n d ast env s2)).
Proof.
  intros Hp Hc. destruct (print_then_read_module cm ast Hp Hc) as [ast' [Er Eu]]. exists ast'. split; [exact Er|].
  intros n d env s1 s2 Hs. apply same_up_to_positions; [|exact Hs].
  pose proof (pv_plain ast Hp) as Hpl. rewrite (erase_unpos ast Hpl), (erase_unpos ast' (unpos_plain ast' ast Eu Hpl)). exact Eu.
Qed.
