package main

import (
	"time"
	"context"
	lisp "github.com/jig/lisp"
	"fmt"
	"github.com/jig/lisp/types"
	. "verif.local/harness/h"
)

func init() { runners["C03"] = runC03 }

// thrown objects: every data kind, quoted lists that would evaluate to something else
func c03Thrown(r *Rng) types.MalType {
	pool := []types.MalType{
		1, "boom", Kw("err"), nil, false, Q(L(S("+"), 1, 2)), Q(S("undefined-symbol")), V(1, 2),
		types.HashMap{Val: map[string]types.MalType{Kw("code"): 42}}, Q(L(S("trace!"), 99)), Q(L()), Call("list", 1, Q(S("x"))),
	}
	return pool[r.Intn(len(pool))]
}

type c03gen struct {
	r    *Rng
	hist map[string]int
	n    int
}

func (g *c03gen) marker() types.MalType { g.n++; return Call("trace!", g.n) }

// an expression that may throw, somewhere: directly, in a callee, in a builtin, via macro
func (g *c03gen) thrower(depth int) types.MalType {
	t := c03Thrown(g.r)
	switch g.r.Intn(8) {
	case 0:
		g.hist["throw-direct"]++
		return Call("throw", t)
	case 1:
		g.hist["throw-in-callee"]++
		return L(Call("fn", V(S("v")), g.marker(), Call("throw", S("v"))), t)
	case 2:
		g.hist["throw-in-nested-call"]++
		return L(Call("fn", V(S("v")), L(Call("fn", V(), Call("throw", S("v"))))), t)
	case 3:
		g.hist["builtin-error"]++
		return []types.MalType{Call("first", 5), Call("nth", V(1), 7), Call("+", 1, "a"), S("undefined-zz"), Call("/", 1, 0), Call("assert", false, t)}[g.r.Intn(6)]
	case 4:
		if g.r.Intn(3) == 0 {
			// the error crosses SEVERAL builtins that call back into lisp before it is caught
			g.hist["throw-via-nested-builtins"]++
			inner := Call("fn", V(S("w")), Call("throw", S("w")))
			mid := []types.MalType{
				Call("apply", inner, Call("list", S("v"))),
				Call("first", Call("map", inner, Call("list", S("v")))),
				Call("swap!", Call("atom", S("v")), inner),
				Call("eval", Call("list", inner, Call("list", Q(S("quote")), S("v")))),
			}[g.r.Intn(4)]
			return Call("map", Call("fn", V(S("v")), mid), Call("list", t))
		}
		g.hist["throw-via-map-apply"]++
		if g.r.Bool() {
			return Call("map", Call("fn", V(S("v")), Call("throw", S("v"))), Call("list", t))
		}
		return Call("apply", Call("fn", V(S("v")), Call("throw", S("v"))), Call("list", t))
	case 5:
		g.hist["throw-via-macro"]++
		return Call("do", Call("defmacro", S("m!"), Call("fn", V(S("v")), Call("list", Q(S("throw")), S("v")))), Call("m!", t))
	case 6:
		g.hist["no-throw"]++
		return g.marker()
	default:
		if depth > 0 {
			return g.try(depth - 1)
		}
		return Call("throw", t)
	}
}

func (g *c03gen) try(depth int) types.MalType {
	form := []types.MalType{S("try")}
	for i, n := 0, g.r.Intn(3); i < n; i++ {
		form = append(form, g.marker())
	}
	form = append(form, g.thrower(depth))
	if g.r.Intn(4) == 0 {
		form = append(form, g.marker()) // code after the throwing form
	}
	hasCatch := g.r.Intn(5) > 0
	if hasCatch {
		g.hist["catch"]++
		h := []types.MalType{S("catch"), S("e")}
		for i, n := 0, g.r.Intn(2); i < n; i++ {
			h = append(h, g.marker())
		}
		switch g.r.Intn(7) {
		case 6: // a handler WITHOUT body forms still handles: the try yields nil (alone it is a syntax error, with a finally it is accepted)
			g.hist["handler-empty"]++
			h = []types.MalType{S("catch"), S("e")}
		case 0:
			g.hist["handler-returns-e"]++
			h = append(h, S("e"))
		case 1:
			g.hist["handler-quoted-form"]++
			h = append(h, Q(L(S("+"), 1, 2)))
		case 2:
			g.hist["handler-throws"]++
			h = append(h, Call("throw", Call("list", Kw("rethrown"), S("e"))))
		case 3:
			if depth > 0 {
				g.hist["handler-nested-try"]++
				h = append(h, g.try(depth-1))
			} else {
				h = append(h, S("e"))
			}
		case 4:
			g.hist["handler-calls-fn-ending-in-try"]++
			h = append(h, L(Call("fn", V(), Call("try", g.marker(), Call("finally", g.marker())))))
		default:
			h = append(h, Call("list", S("e"), g.marker()))
		}
		form = append(form, L(h...))
	}
	if g.r.Intn(3) > 0 {
		g.hist["finally"]++
		f := []types.MalType{S("finally")}
		for i, n := 0, g.r.Intn(3); i < n; i++ { // 0 forms: (finally)
			f = append(f, g.marker())
		}
		if g.r.Intn(6) == 0 {
			g.hist["finally-reads-e"]++
			f = append(f, Call("trace!", S("e"))) // e must not be visible here: errors silently, trace shows nothing
		}
		form = append(form, L(f...))
	}
	return L(form...)
}

func runC03(tier string, seed uint64, rep *Report) {
	rep.Rule = "programs nesting try/catch/finally (depth<=3 quick, <=6 thorough) with throws in the body, in callees, in builtins " +
		"(error return and panic), through map/apply and macro expansion, in handlers; thrown objects of every data kind incl. quoted forms; " +
		"every body/handler/finally form carries a numbered trace! marker. Observables: value or error payload (canonical), ordered trace. " +
		"Direct oracle: templates with prescribed results (payload unchanged, handler value not re-evaluated, catch variable scoped, finally exactly once)."
	ev := func(v types.MalType, trace ...types.MalType) string { return val(v, trace...) }
	thr := func(x types.MalType) types.MalType { return Call("throw", x) }
	expect(rep, "handler value is returned, not evaluated again", Call("try", thr(1), Call("catch", S("e"), Q(L(S("+"), 1, 2)))), ev(L(S("+"), 1, 2)), "tmpl")
	expect(rep, "thrown list arrives unchanged", Call("try", thr(Q(L(S("+"), 1, 2))), Call("catch", S("e"), S("e"))), ev(L(S("+"), 1, 2)), "tmpl")
	expect(rep, "catch variable is not visible in finally", Call("do", Call("def", S("e"), 99), Call("try", thr(1), Call("catch", S("e"), 5), Call("finally", Call("trace!", S("e"))))), ev(5, 99), "tmpl")
	expect(rep, "catch variable is not visible after the try", Call("do", Call("def", S("e"), 99), Call("try", thr(1), Call("catch", S("e"), 5)), S("e")), ev(99), "tmpl")
	expect(rep, "finally runs once on the normal path", Call("try", Call("trace!", 1), Call("finally", Call("trace!", 2))), ev(1, 1, 2), "tmpl")
	expect(rep, "a handler without body forms still handles the error (nil), the outer handler does not run",
		Call("try", Call("try", thr(1), Call("catch", S("e")), Call("finally", Call("trace!", 3))), Call("catch", S("e"), Call("trace!", Kw("outer")))), ev(nil, 3), "tmpl")
	expect(rep, "finally runs once on the caught path, after the handler", Call("try", thr(1), Call("catch", S("e"), Call("trace!", 2)), Call("finally", Call("trace!", 3))), ev(2, 2, 3), "tmpl")
	expect(rep, "finally does not change the result", Call("try", 7, Call("finally", 8)), ev(7), "tmpl")
	expect(rep, "finally errors are ignored", Call("try", 7, Call("finally", thr(1))), ev(7), "tmpl")
	expect(rep, "value thrown through a call and a macro arrives unchanged",
		Call("do", Call("defmacro", S("m!"), Call("fn", V(S("v")), Call("list", Q(S("throw")), S("v")))), Call("try", L(Call("fn", V(), Call("m!", types.HashMap{Val: map[string]types.MalType{Kw("a"): 1}}))), Call("catch", S("e"), S("e")))),
		ev(types.HashMap{Val: map[string]types.MalType{Kw("a"): 1}}), "tmpl")
	expect(rep, "value thrown at macro-expansion time arrives unchanged",
		Call("do", Call("defmacro", S("m!"), Call("fn", V(S("v")), Call("throw", types.HashMap{Val: map[string]types.MalType{Kw("bad"): 3}}))), Call("try", Call("m!", 1), Call("catch", S("e"), S("e")))),
		ev(types.HashMap{Val: map[string]types.MalType{Kw("bad"): 3}}), "tmpl")
	expect(rep, "handler value is returned, not evaluated again, also when a finally clause follows",
		Call("try", Call("throw", Q(L(S("+"), 1, 2))), Call("catch", S("e"), S("e")), Call("finally", nil)), ev(L(S("+"), 1, 2)), "tmpl")
	expect(rep, "a thrown list with an effect is data for the handler, also with finally",
		Call("try", Call("throw", Q(L(S("trace!"), 99))), Call("catch", S("e"), S("e")), Call("finally", Call("trace!", 1))), ev(L(S("trace!"), 99), 1), "tmpl")
	expect(rep, "outer finally runs when the handler ends in another try",
		Call("try", thr(1), Call("catch", S("e"), Call("try", Call("trace!", 1), Call("finally", Call("trace!", 2)))), Call("finally", Call("trace!", 3))), ev(1, 1, 2, 3), "tmpl")
	// under a deadline the try body gets part of the remaining time so that handler and finally can still run:
	// a body that uses up its share is caught, and finally runs exactly once, on the caught and on the uncaught path
	for _, c := range []struct {
		src       string
		wantTrace []types.MalType
		wantVal   types.MalType
		wantErr   bool
	}{
		{"(try (sleep 100000) (catch e (do (trace! :handler) :caught)) (finally (trace! :finally)))", []types.MalType{Kw("handler"), Kw("finally")}, Kw("caught"), false},
		{"(try (sleep 100000) (finally (trace! :finally)))", []types.MalType{Kw("finally")}, nil, true},
		{"(try (try (sleep 100000) (finally (trace! :inner))) (catch e :c) (finally (trace! :outer)))", []types.MalType{Kw("inner"), Kw("outer")}, Kw("c"), false},
	} {
		run := func(d time.Duration) (*World, Outcome, bool) {
			w, _ := NewWorld()
			ctx, cancel := context.WithTimeout(context.Background(), d)
			o := w.EvalText(ctx, c.src)
			cancel()
			got := EncS(types.List{Val: w.TraceSnapshot()})
			want := EncS(types.List{Val: c.wantTrace})
			return w, o, got == want && (o.Err != nil) == c.wantErr && (c.wantErr || EncS(o.Val) == EncS(c.wantVal))
		}
		w, o, ok := run(time.Second)
		if !ok {
			// handler and finally get a fifth of what is left: on a loaded machine that can be too short; the verdict is
			// taken on a second run with a 5 s deadline
			rep.Histogram["deadline-template-retried"]++
			w, o, ok = run(5 * time.Second)
		}
		idx := rep.Add("P n", "V n | l 0 ", c.src+"  under a 1s deadline", true, "deadline-template")
		if !ok {
			rep.Violate(idx, fmt.Sprintf("try under a deadline: result %s, trace %s; expected %s with trace %s", d2o(o), Show(types.List{Val: w.TraceSnapshot()}),
				map[bool]string{true: "an error", false: Show(c.wantVal)}[c.wantErr], Show(types.List{Val: c.wantTrace})), c.src+"  evaluated under context.WithTimeout(1s)")
		}
	}
	n, depth := 1500, 3
	if tier == "thorough" {
		n, depth = 30000, 6
	}
	g := &c03gen{r: NewRng(seed), hist: map[string]int{}}
	for i := 0; i < n; i++ {
		g.n = 0
		p := g.try(1 + g.r.Intn(depth))
		idx, line, _ := addProgram(rep, p, true, "random")
		// the same program as users write it: text, read without and with a module name (forms then carry positions,
		// errors are decorated on their way out); what is caught and traced must not depend on that
		if i%3 == 0 {
			text := lisp.PRINT(p)
			for _, module := range []bool{false, true} {
				core, _, o := evalText(text, module)
				tag := map[bool]string{false: "text-no-module", true: "text-module"}[module]
				rep.Histogram["route:"+tag]++
				if o.Panic != nil {
					rep.Violate(idx, fmt.Sprintf("a Go panic escaped (%s): %v", tag, o.Panic), text)
				} else if core != line && core != "READERR" {
					rep.Violate(idx, fmt.Sprintf("read as text (%s) the program gives %q, built as a form %q: the thrown value or the effects differ", tag, core, line), text)
				}
			}
		}
	}
	mergeHist(rep, g.hist)
}
