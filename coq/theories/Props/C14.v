(** C14 — `=` is structural equality and an equivalence relation on data.
    Only statements closed by `exact`; proofs live in EqualProofs.v. *)
From Lisp Require Import Base Value Equal EqualProofs.

(** Equal_Q (as transcribed in Equal.v, presence test included) never panics on data and
    returns exactly structural equality. *)
Theorem C14_structural : forall a b, data a = true -> data b = true -> equalI a b = Some (eqS a b).
Proof. exact equalI_eqS. Qed.

Theorem C14_refl : forall a, data a = true -> eqS a a = true.
Proof. exact eqS_refl. Qed.

Theorem C14_sym : forall a b, data a = true -> data b = true -> eqS a b = eqS b a.
Proof. exact eqS_sym. Qed.

Theorem C14_trans : forall a b c, eqS a b = true -> eqS b c = true -> eqS a c = true.
Proof. exact eqS_trans. Qed.

(** values of different kinds are never equal; list and vector are one kind *)
Theorem C14_kinds_disjoint : forall a b, eqS a b = true ->
  type_tag a = type_tag b \/ (sequential a = true /\ sequential b = true).
Proof. exact eqS_kinds. Qed.

Theorem C14_list_vector_interchange : forall l, forallb data l = true -> eqS (VList l None) (VVec l None) = true.
Proof. exact eqS_list_vec. Qed.

(** the defect repaired by 3571099, kept as a regression witness: with the presence test
    the two maps are unequal in both directions *)
Example C14_missing_key_is_not_nil :
  equalI (VMap [(s_ "a", VNil)]) (VMap [(s_ "b", VInt 2)]) = Some false /\
  equalI (VMap [(s_ "b", VInt 2)]) (VMap [(s_ "a", VNil)]) = Some false.
Proof. split; reflexivity. Qed.

(** non-vacuity: a nested value with maps, sets, nil values satisfies `data` *)
Example C14_data_nonvacuous :
  data (VList [VMap [(s_ "a", VNil); (s_ "b", VVec [VInt 1; VSet [s_ "x"; s_ "y"]] None)]; VStr (KW :: s_ "k")] None) = true.
Proof. reflexivity. Qed.

Print Assumptions C14_structural.
Print Assumptions C14_refl.
Print Assumptions C14_sym.
Print Assumptions C14_trans.
Print Assumptions C14_kinds_disjoint.
Print Assumptions C14_list_vector_interchange.
