(** C04 — evaluation never panics into the host. *)
From Lisp Require Import Base Value Core Binder Env Eval Interp EvalProofs Run WfVal NoPanic StepperSim.
From Lisp.Gen Require Import Examples.

(** the reflective binder converts every panic of the bound function, of the arity check and
    of reflect's assignability check into an error value: a bound builtin never panics *)
Theorem C04_bound_builtin_never_panics : forall sg mn mx f args s, invoke sg mn mx f args <> Panic s.
Proof. exact invoke_no_panic. Qed.

Theorem C04_gate_never_panics : forall sg mn mx args s, gate sg mn mx args <> Panic s.
Proof. exact gate_no_panic. Qed.

(** the same for the builtins that call back into the evaluator (apply, map, swap!, update...):
    whatever the callback does, the recover of the binder turns a panic into an error *)
Theorem C04_higher_order_builtin_never_panics : forall A (m : M A) st s st', finishM m st <> (Panic s, st').
Proof. exact (@finishM_no_panic). Qed.

(** THE property, for every program: whatever the form (well-formed: its function values, if any, refer to
    scopes that exist), the scope and the interpreter state (well-formed: [WF]), whatever the fuel and the
    depth, the evaluator never yields a Go panic — every checked Go operation of the model (index, slice,
    type assertion, nil map, nil scope) is unreachable or under the binder's recover.  [eval_c] is the same
    evaluator with the cancellation poll. *)
Theorem C04_eval_never_panics : forall n d ast env st s st',
  WF st -> wfb (nx st) ast = true -> (env < nx st)%positive -> eval n d ast env st <> (Panic s, st').
Proof. exact eval_never_panics. Qed.

Theorem C04_eval_c_never_panics : forall n d ast env st s st',
  WF st -> wfb (nx st) ast = true -> (env < nx st)%positive -> eval_c n d ast env st <> (Panic s, st').
Proof. exact eval_c_never_panics. Qed.

(** the invariant is kept: the state one evaluation leaves is a state the next one can start from (a REPL session) *)
Theorem C04_invariant_is_kept : forall n d ast env st r st',
  WF st -> wfb (nx st) ast = true -> (env < nx st)%positive -> eval n d ast env st = (r, st') ->
  WF st' /\ (nx st <= nx st')%positive /\ match r with Ok v | Err v => wfb (nx st') v = true | _ => True end.
Proof. exact eval_preserves_WF. Qed.

(** as a user reads it: any data-only form — whatever READ returns, whatever a host builds from lists, vectors, maps,
    symbols and scalars — evaluated in the root scope of a fresh environment *)
Theorem C04_no_program_panics : forall n d ast s st', datab ast = true -> eval n d ast ROOT state0 <> (Panic s, st').
Proof. exact eval_program_never_panics. Qed.

(** with a debugger stepper that answers with the four commands only *)
Theorem C04_stepped_evaluation_never_panics : forall n d ast env st s,
  nobad st -> WF st -> wfb (nx st) ast = true -> (env < nx st)%positive -> fst (eval_dbg n d ast env st) <> Panic s.
Proof. exact eval_dbg_never_panics. Qed.

(** the premises are met by the initial state and a non-trivial program *)
Example C04_premises_hold :
  WF state0 /\ datab (VList [VSym (s_ "try") None; VList [VSym (s_ "nth") None; VVec [] None; VInt 3] None;
                              VList [VSym (s_ "catch") None; VSym (s_ "e") None; VSym (s_ "e") None] None] None) = true /\
  wfb 2 (VFn (VVec [] None) (VList [VSym (s_ "do") None] None) ROOT false) = true.
Proof. exact np_premises_hold. Qed.

(** the formerly panicking malformed special forms are errors a try can catch (computed) *)
Example C04_malformed_forms_are_catchable :
  observe ex_c04_malformed = s_ "V l 6 s 3 670 101 49 s 3 670 101 50 s 3 670 101 51 s 3 670 101 52 n s 3 670 101 54 | l 0 ".
Proof. vm_compute. reflexivity. Qed.

Print Assumptions C04_eval_never_panics.
Print Assumptions C04_eval_c_never_panics.
Print Assumptions C04_invariant_is_kept.
Print Assumptions C04_no_program_panics.
Print Assumptions C04_stepped_evaluation_never_panics.
Print Assumptions C04_bound_builtin_never_panics.
Print Assumptions C04_gate_never_panics.
Print Assumptions C04_higher_order_builtin_never_panics.
