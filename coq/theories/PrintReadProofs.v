(** C06: print then read.  Inversion lemmas between printer.go's escaping and reader.go's
    un-escaping, for ALL strings (any code points). *)
From Lisp Require Import Base Value Core Scanner Reader Printer BaseProofs.
Local Open Scope N_scope.

(** the three successive strings.Replace calls of the printer act character by character *)
Definition esc1 (c : N) : str :=
  if N.eqb c 92 then [92; 92] else if N.eqb c 34 then [92; 34] else if N.eqb c 10 then [92; 110] else [c].

Lemma replace1_app c new a b : replace1 c new (a ++ b) = replace1 c new a ++ replace1 c new b.
Proof. unfold replace1. now rewrite map_app, concat_app. Qed.

Lemma escape_str_cons c s : escape_str (c :: s) = esc1 c ++ escape_str s.
Proof.
  unfold escape_str, esc1. change (c :: s) with ([c] ++ s). rewrite !replace1_app.
  f_equal. unfold replace1. simpl.
  destruct (N.eqb_spec c 92) as [->|H1]; [reflexivity|].
  destruct (N.eqb_spec c 34) as [->|H2]; [reflexivity|].
  destruct (N.eqb_spec c 10) as [->|H3]; [reflexivity|].
  simpl. destruct (N.eqb_spec c 92); [congruence|]. simpl.
  destruct (N.eqb_spec c 34); [congruence|]. simpl.
  destruct (N.eqb_spec c 10); [congruence|]. reflexivity.
Qed.

Lemma escape_str_nil : escape_str [] = [].
Proof. reflexivity. Qed.

(** reader.unescape undoes printer's escaping, whatever the string contains (in particular
    U+029E, which the code before fix D8 turned into a backslash) *)
Theorem unescape_escape : forall s, unescape (escape_str s) = s.
Proof.
  induction s as [|c s IH]; [reflexivity|].
  rewrite escape_str_cons. unfold esc1.
  destruct (N.eqb_spec c 92) as [->|H1]; [simpl; now rewrite IH|].
  destruct (N.eqb_spec c 34) as [->|H2]; [simpl; now rewrite IH|].
  destruct (N.eqb_spec c 10) as [->|H3]; [simpl; now rewrite IH|].
  simpl. destruct (N.eqb_spec c 92); [congruence|]. now rewrite IH.
Qed.

(** the escaped text contains no bare quote and no raw newline: the scanner's string literal
    ends exactly at the closing quote the printer adds *)
Lemma escape_str_no_newline s : existsb (N.eqb 10) (escape_str s) = false.
Proof.
  induction s as [|c s IH]; [reflexivity|]. rewrite escape_str_cons, existsb_app, IH, orb_false_r.
  unfold esc1. destruct (N.eqb_spec c 92) as [->|]; [reflexivity|].
  destruct (N.eqb_spec c 34) as [->|]; [reflexivity|]. destruct (N.eqb_spec c 10) as [->|Hn]; [reflexivity|].
  cbn [existsb]. destruct (N.eqb_spec 10 c); [congruence|reflexivity].
Qed.

(** raw form: doubling the raw-string quote is undone by the reader *)
Definition dbl (c : N) : str := if N.eqb c RAWQ then [RAWQ; RAWQ] else [c].

Lemma replace_rawq_cons c s : replace1 RAWQ [RAWQ; RAWQ] (c :: s) = dbl c ++ replace1 RAWQ [RAWQ; RAWQ] s.
Proof. reflexivity. Qed.

Theorem undouble_double : forall s, undouble (replace1 RAWQ [RAWQ; RAWQ] s) = s.
Proof.
  induction s as [|c s IH]; [reflexivity|]. rewrite replace_rawq_cons.
  unfold dbl. destruct (N.eqb_spec c RAWQ) as [->|Hne].
  - simpl. now rewrite IH.
  - simpl app. destruct (replace1 RAWQ [RAWQ; RAWQ] s) as [|c2 r2] eqn:E.
    + simpl. simpl in IH. now rewrite <- IH.
    + change (undouble (c :: c2 :: r2)) with (if N.eqb c RAWQ && N.eqb c2 RAWQ then RAWQ :: undouble r2 else c :: undouble (c2 :: r2)).
      destruct (N.eqb_spec c RAWQ); [congruence|]. cbn [andb]. now rewrite IH.
Qed.

Lemma firstn_app_exact {A} (x : list A) b : firstn (length x) (x ++ [b]) = x.
Proof. induction x as [|c x IH]; simpl; [reflexivity | now rewrite IH]. Qed.

(** at the level of read_atom: the printed form of a string, taken as one String / RawString
    token, reads back as the string *)
Theorem read_atom_printed_string m line s :
  read_atom m (mkTok KString (34 :: escape_str s ++ [34]) line) = Ok (VStr s).
Proof.
  unfold read_atom. cbn [tkind_of ttext]. unfold strip.
  assert (H : Nat.leb (1 + 1) (length (34 :: escape_str s ++ [34])) = true).
  { apply Nat.leb_le. simpl. rewrite app_length. simpl. lia. }
  rewrite H. cbn [bind]. f_equal. f_equal.
  assert (Hs : firstn (Nat.sub (Nat.sub (length (34 :: escape_str s ++ [34])) 1) 1) (skipn 1 (34 :: escape_str s ++ [34])) = escape_str s).
  { simpl skipn. simpl length. rewrite app_length. simpl.
    match goal with |- firstn ?n _ = _ => replace n with (length (escape_str s)) by lia end.
    apply firstn_app_exact. }
  rewrite Hs. apply unescape_escape.
Qed.

Theorem read_atom_printed_raw m line s :
  s <> [] ->
  read_atom m (mkTok KRawString (RAWQ :: replace1 RAWQ [RAWQ; RAWQ] s ++ [RAWQ]) line) = Ok (VStr s).
Proof.
  intros Hne. unfold read_atom. cbn [tkind_of ttext].
  set (d := replace1 RAWQ [RAWQ; RAWQ] s).
  assert (Hd : d <> []).
  { unfold d. destruct s as [|c s']; [congruence|]. rewrite replace_rawq_cons. unfold dbl. destruct (N.eqb c RAWQ); discriminate. }
  destruct (str_eqb_spec (RAWQ :: d ++ [RAWQ]) [RAWQ]) as [Heq|_].
  { inversion Heq. destruct d; [congruence | discriminate]. }
  unfold strip.
  assert (H : Nat.leb (1 + 1) (length (RAWQ :: d ++ [RAWQ])) = true).
  { apply Nat.leb_le. simpl. rewrite app_length. simpl. lia. }
  rewrite H. cbn [bind]. f_equal. f_equal.
  assert (Hs : firstn (Nat.sub (Nat.sub (length (RAWQ :: d ++ [RAWQ])) 1) 1) (skipn 1 (RAWQ :: d ++ [RAWQ])) = d).
  { simpl skipn. simpl length. rewrite app_length. simpl.
    match goal with |- firstn ?n _ = _ => replace n with (length d) by lia end.
    apply firstn_app_exact. }
  rewrite Hs. apply undouble_double.
Qed.
