# per-property configuration of bin/check
PROPS = {
    "C14": {
        "runner": "C14",
        "technique": "Coq proof (nested induction) that the transcription of Equal_Q equals structural equality, which is an equivalence; correspondence model vs Go on exhaustive+random pairs",
        "level_text": "Theorems C14_structural/refl/sym/trans/kinds_disjoint/list_vector_interchange hold for all data values of any nesting (kernel-checked, no axioms). They are about the hand-written model equalI of types.Equal_Q; the tie to the code is the correspondence check (every ordered pair of a 66-value universe + seeded random/near-equal/rebuilt pairs through the real `=` builtin vs the extracted model, cross-checked with vm_compute) and a model-free structural oracle with symmetry/transitivity probes.",
        "level_note": "trusted: Coq kernel+VM, extraction (ExtrOcamlBasic), OCaml glue driver, Go harness; modelled not verified: Go == on interfaces, reflect.TypeOf; a change to Equal_Q that is invisible on the generated pairs is not detected",
        "replay_hint": "evaluate the printed (= 'a 'b) form in a fresh environment (lisp.READ + lisp.EVAL)",
        "trusted": ["modelled rather than verified: Go's == on interface values (go_eq_same_type), reflect.TypeOf as a type tag"],
        "assumptions": ["Go map semantics (keys pairwise distinct) as the association-list invariant nodup_keys",
                        "metadata fields (Meta, Cursor) do not take part in equality (they do not in Equal_Q)"],
    },
}

NOT_CLAIMED = {p: "machinery for this property is not built yet in this revision (see DESIGN.md §9 order of work)" for p in
               ["C%02d" % i for i in range(1, 21)] if p not in PROPS}
