package main

import (
	"os"
	"strconv"
	"context"
	"fmt"
	"strings"
	"sync"
	"time"

	"github.com/jig/lisp/types"
	. "verif.local/harness/h"
)

func init() { runners["C11"] = runC11 }

// prefixDefs renames, everywhere in ast, the symbols the program defines at top level or in any
// nested (def ..) / (defmacro ..), so that programs running together write names of their own.
func prefixDefs(ast types.MalType, prefix string) types.MalType {
	defs := map[string]bool{}
	var collect func(v types.MalType)
	collect = func(v types.MalType) {
		switch x := v.(type) {
		case types.List:
			if len(x.Val) >= 2 {
				if h, ok := x.Val[0].(types.Symbol); ok && (h.Val == "def" || h.Val == "defmacro") {
					if n, ok := x.Val[1].(types.Symbol); ok && !strings.HasPrefix(n.Val, "scratch") { // scratch*: defined inside a call, local by construction, same name in every thread
						defs[n.Val] = true
					}
				}
			}
			for _, e := range x.Val {
				collect(e)
			}
		case types.Vector:
			for _, e := range x.Val {
				collect(e)
			}
		case types.HashMap:
			for _, e := range x.Val {
				collect(e)
			}
		}
	}
	collect(ast)
	var ren func(v types.MalType) types.MalType
	ren = func(v types.MalType) types.MalType {
		switch x := v.(type) {
		case types.Symbol:
			if defs[x.Val] {
				return types.Symbol{Val: prefix + x.Val}
			}
			return x
		case types.List:
			out := make([]types.MalType, len(x.Val))
			for i, e := range x.Val {
				out[i] = ren(e)
			}
			return types.List{Val: out}
		case types.Vector:
			out := make([]types.MalType, len(x.Val))
			for i, e := range x.Val {
				out[i] = ren(e)
			}
			return types.Vector{Val: out}
		case types.HashMap:
			out := map[string]types.MalType{}
			for k, e := range x.Val {
				out[k] = ren(e)
			}
			return types.HashMap{Val: out}
		}
		return v
	}
	return ren(ast)
}

// hand-written program shapes: the same LOCAL names (x y acc e n) in every thread, own global names
func c11Template(r *Rng, hist map[string]int) string {
	p, q := 1+r.Intn(9), 1+r.Intn(9)
	switch shapePick(r) {
	case 0:
		hist["shape:closure-over-let"]++
		return fmt.Sprintf("(do (def mk (fn [x] (fn [y] (do (yield!) (+ x y))))) (let [x %d acc (mk x)] (acc %d)))", p, q)
	case 1:
		hist["shape:recursion"]++
		return fmt.Sprintf("(do (def fib (fn [n] (if (< n 2) n (+ (fib (- n 1)) (fib (- n 2)))))) (fib %d))", 5+p)
	case 2:
		hist["shape:library-macros-with-temporaries"]++
		return fmt.Sprintf("(let [x %d y %d] [(or nil false x) (and x y) (-> x (+ y) (* 2)) (cond (< x y) :lt (> x y) :gt :else :eq)])", p, q)
	case 3:
		hist["shape:catch-variable"]++
		return fmt.Sprintf("(let [x %d] (try (do (yield!) (throw {:v x})) (catch e (do (yield!) (get e :v)))))", p)
	case 4:
		hist["shape:own-memoize"]++
		return fmt.Sprintf("(do (def m (memoize (fn [x] (do (yield!) (* x %d))))) [(m 3) (m 3) (m 4)])", p)
	case 5:
		hist["shape:own-atom"]++
		return fmt.Sprintf("(do (def a (atom 0)) (swap! a + %d) (swap! a (fn [x] (do (yield!) (+ x 1)))) @a)", p)
	case 6:
		hist["shape:own-future"]++
		return fmt.Sprintf("(do (def fu (future (let [y %d] (do (yield!) (* y y))))) @fu)", p)
	case 7:
		hist["shape:future-reads-enclosing-let-while-parent-defines-into-it"]++
		return fmt.Sprintf("(let [x %d] (do (def fu (future (do (yield!) (+ x (+ x (do (yield!) x)))))) (def tmp %d) (def tmp2 (+ tmp x)) [@fu tmp2]))", p, q)
	case 8:
		hist["shape:own-macro-with-gensym"]++
		return fmt.Sprintf("(do (defmacro twice (fn [form] (let [g (gensym)] `(let [~g ~form] (+ ~g ~g))))) (let [x %d] (twice (do (yield!) (+ x %d)))))", p, q)
	case 9:
		hist["shape:reads-shared-globals"]++
		return fmt.Sprintf("(let [x %d] (shared-add (shared-add x shared-k) (count shared-v)))", p)
	case 10:
		hist["shape:loop-with-accumulator"]++
		return fmt.Sprintf("(do (def sum-to (fn [n acc] (if (= n 0) acc (sum-to (- n 1) (+ acc n))))) (sum-to %d 0))", 20*p)
	case 11:
		hist["shape:map-reduce-closures"]++
		return fmt.Sprintf("(let [x %d] (reduce + 0 (map (fn [y] (do (yield!) (* x y))) [1 2 3 %d])))", p, q)
	case 12:
		hist["shape:future-reads-enclosing-let-while-parent-defines-into-it"]++
		return fmt.Sprintf("(let [x %d] (do (def fu (future (do (yield!) (+ x (+ x (do (yield!) x)))))) (def tmp %d) (def tmp2 (+ tmp x)) [@fu tmp2]))", p, q)
	case 13:
		hist["shape:futures-in-let-bindings-while-later-bindings-are-written"]++
		return fmt.Sprintf("(let [x %d f1 (future (do (yield!) (* x 2))) a (+ x 1) f2 (future (do (yield!) (+ x a))) b (+ a 1) c (+ b 1)] (do (def d (+ c 1)) (+ (+ @f1 @f2) (+ (+ a b) (+ c d)))))", p)
	case 16:
		hist["shape:def-inside-thunk-same-scratch-name-in-every-thread"]++
		return c11Expect(fmt.Sprintf("((fn [] (do (def scratch %d) (yield!) (def scratch2 (* scratch 2)) (sleep 1) (yield!) [scratch scratch2])))", p), fmt.Sprintf("[%d %d]", p, 2*p))
	case 17:
		hist["shape:def-inside-sibling-future-bodies-same-scratch-name"]++
		return c11Expect(fmt.Sprintf("(let [f1 (future (do (def scratch %d) (sleep 1) (yield!) scratch)) f2 (future (do (def scratch %d) (sleep 1) (yield!) scratch))] [@f1 @f2 (try scratch (catch e :unbound))])", p, q+100), fmt.Sprintf("[%d %d :unbound]", p, q+100))
	case 18:
		hist["shape:future-reads-parameter-later-shadowed-by-tail-let"]++
		return c11Expect(fmt.Sprintf("((fn [x] (let [fu (future (do (sleep 2) (yield!) x))] (let [x (* x 100)] (list @fu x)))) %d)", p), fmt.Sprintf("(%d %d)", p, 100*p))
	case 15:
		// a try at the very top of the program: its catch variable must not land in the shared root scope
		hist["shape:top-level-try-catch-variable"]++
		return fmt.Sprintf("(try (throw {:v %d}) (catch e (do (sleep 1) (yield!) (get e :v))))", p)
	default:
		hist["shape:future-reads-parameter-scope-while-the-call-defines-into-it"]++
		return fmt.Sprintf("((fn [x y] (do (def fu (future (do (yield!) (* x (do (yield!) y))))) (def t1 (+ x y)) (def t2 (* t1 2)) (+ @fu t2))) %d %d)", p, q)
	}
}

// prescribed results of the shapes whose wrong behaviour would be the same alone and in company
var c11Want = map[string]string{}

func c11Expect(src, want string) string { c11Want[src] = want; return src }

const c11Shared = "(do (def shared-k 10) (def shared-v [1 2 3]) (def shared-add (fn [a b] (+ a b))))"

func c11World() *World {
	w, err := NewWorld()
	if err != nil {
		panic(err)
	}
	if o := w.EvalText(context.Background(), c11Shared); o.Err != nil || o.Panic != nil {
		panic(fmt.Sprint("harness: shared definitions failed: ", o.Err, o.Panic))
	}
	return w
}

func c11Line(o Outcome, lt *LocalTrace) string {
	return outcomeLine(o) + "| " + EncS(types.List{Val: lt.Snapshot()})
}

func runC11(tier string, seed uint64, rep *Report) {
	rep.Rule = "batches of 2-8 programs evaluated at the same time by lisp.EVAL on ONE environment preloaded with the standard libraries and three shared globals: programs of the C01 generator " +
		"(special forms, closures, bounded recursion, macros, try/catch; every name a program defines is prefixed with its thread number) and hand-written shapes that use the SAME local names in every thread " +
		"(let, parameters, catch variables, gensym temporaries of library and own macros, memoize, own atoms, own futures, a future reading its enclosing let scope while the parent defines into it, shared globals read-only). " +
		"Each program is first run alone on a fresh identical environment. Direct oracle: result and trace (kept per evaluation through the context) of the concurrent run equal the solo run. " +
		"For generator programs the model driver (op P) predicts result and trace from the evaluator model. Run under the Go race detector. gensym uniqueness / memoize consistency across threads. " +
		"Non-trivial: batches of at least 3 programs."
	r := NewRng(seed)
	g := NewPG(r)
	batches := 80
	if tier == "thorough" {
		batches = 700
	}
	for b := 0; b < batches; b++ {
		n := 2 + r.Intn(7)
		type prog struct {
			ast   types.MalType
			src   string
			model bool
			solo  string
		}
		progs := make([]prog, n)
		for t := range progs {
			prefix := fmt.Sprintf("t%d-", t)
			if r.Intn(2) == 0 {
				progs[t] = prog{ast: prefixDefs(g.Program(2+r.Intn(3)), prefix), model: true}
				progs[t].src = Show(progs[t].ast)
			} else {
				w0 := c11World()
				src := c11Template(r, rep.Histogram)
				ast, err := READ(w0, src)
				if err != nil {
					panic("harness: " + src + ": " + err.Error())
				}
				progs[t] = prog{ast: prefixDefs(StripPos(ast), prefix), src: src}
			}
			// solo run, fresh identical world
			w1 := c11World()
			ctx, lt := WithLocalTrace(context.Background())
			done := make(chan Outcome, 1)
			go func(ast types.MalType) { done <- w1.Eval(ctx, ast) }(progs[t].ast)
			select {
			case o := <-done:
				progs[t].solo = c11Line(o, lt)
				if want, ok := c11Want[progs[t].src]; ok && !progs[t].model && Show(o.Val) != want {
					idx := rep.Add("P n", "V n | l 0 ", progs[t].src, true, "program:template-with-prescribed-result")
					rep.Violate(idx, fmt.Sprintf("evaluated alone on a fresh environment the program gives %s, the scoping rules prescribe %s", Show(o.Val), want), progs[t].src)
				}
				if !progs[t].model && !strings.HasPrefix(progs[t].solo, "V") {
					panic("harness: the hand-written shape does not evaluate to a value alone: " + progs[t].src + " => " + progs[t].solo)
				}
			case <-time.After(20 * time.Second):
				progs[t].solo = "HANG"
			}
		}
		w := c11World()
		results := make([]string, n)
		var wg sync.WaitGroup
		start := make(chan struct{})
		for t := range progs {
			wg.Add(1)
			go func(t int) {
				defer wg.Done()
				ctx, lt := WithLocalTrace(context.Background())
				<-start
				o := w.Eval(ctx, progs[t].ast)
				results[t] = c11Line(o, lt)
			}(t)
		}
		done := make(chan struct{})
		go func() { wg.Wait(); close(done) }()
		close(start)
		listing := func() string {
			var sb strings.Builder
			sb.WriteString("shared: " + c11Shared + "\n")
			for t, p := range progs {
				fmt.Fprintf(&sb, "thread %d: %s\n", t, Show(p.ast))
			}
			return sb.String()
		}
		select {
		case <-done:
		case <-time.After(60 * time.Second):
			idx := rep.Add("P n", "HANG", "batch "+fmt.Sprint(b), true, "batch:hung")
			rep.Violate(idx, "concurrent evaluations on one environment did not finish within 60s", listing())
			emergencyFlush(rep)
		}
		// the local names every shape uses must not have become visible in the shared root scope
		for _, local := range []string{"x", "y", "acc", "e", "e2", "n", "form", "a", "b", "c", "d", "f1", "f2", "q", "scratch", "scratch2", "fu"} {
			o, answered := w.EvalTextWithin(local, 10*time.Second)
			if !answered {
				idx := rep.Add("P n", "V n | l 0 ", "batch "+fmt.Sprint(b), true, "batch:hung")
				rep.Violate(idx, "after the batch a lookup in the shared environment does not return: a scope's lock was left taken", listing())
				emergencyFlush(rep)
			}
			if o.Err == nil {
				idx := rep.Add("P n", "V n | l 0 ", "batch "+fmt.Sprint(b), true)
				rep.Violate(idx, fmt.Sprintf("after the batch the local name %q of some evaluation is bound in the shared root environment (to %s)", local, Show(o.Val)), listing())
			}
		}
		for t, p := range progs {
			tag := "program:template"
			if p.model {
				tag = "program:generator"
			}
			var idx int
			if p.model {
				idx = rep.Add("P "+EncS(p.ast), results[t], Show(p.ast), n >= 3, tag, fmt.Sprintf("batch-size:%d", n))
			} else {
				// not all builtins these shapes use are in the model: the solo run is the reference
				idx = rep.Add("P n", "V n | l 0 ", Show(p.ast), n >= 3, tag, fmt.Sprintf("batch-size:%d", n))
			}
			if results[t] != p.solo {
				rep.Violate(idx, fmt.Sprintf("thread %d: run together with %d other evaluations on one environment the program gives %q, alone %q", t, n-1, results[t], p.solo), listing())
			}
			if strings.HasPrefix(results[t], "P") {
				rep.Violate(idx, "a Go panic escaped from EVAL under concurrency", listing())
			}
		}
	}
	// ---- hidden state of library closures is per closure: several evaluations on one environment each memoize a function of
	// their own and call it with the SAME argument lists; each must get its own function's values (all at once, then one after the other)
	rounds := 4
	if tier == "thorough" {
		rounds = 40
	}
	for round := 0; round < rounds; round++ {
		w := c11World()
		nth := 6
		res := make([]string, nth)
		src := func(k int) string {
			return fmt.Sprintf("(do (def w%d-f (memoize (fn [x] (do (yield!) (+ (* x 100) %d))))) (let [a (w%d-f 1) b (w%d-f 2) c (w%d-f 1)] (list a b c)))", k, k, k, k, k)
		}
		want := func(k int) string { return fmt.Sprintf("(%d %d %d)", 100+k, 200+k, 100+k) }
		var wg sync.WaitGroup
		for k := 0; k < nth; k++ {
			wg.Add(1)
			go func(k int) {
				defer wg.Done()
				o, _ := w.EvalTextWithin(src(k), 20*time.Second)
				res[k] = Show(o.Val)
			}(k)
			if round%2 == 1 {
				wg.Wait() // odd rounds: one after the other on the same environment
			}
		}
		wg.Wait()
		for k := 0; k < nth; k++ {
			idx := rep.Add("P n", "V n | l 0 ", src(k), true, "memoize-isolation")
			if res[k] != want(k) {
				rep.Violate(idx, fmt.Sprintf("evaluation %d memoizes a function of its own; sharing the environment with %d others that do the same it gets %s, alone %s", k, nth-1, res[k], want(k)),
					fmt.Sprintf("on one environment, %s: %s ... for k = 0..%d", map[bool]string{false: "at the same time", true: "one after the other"}[round%2 == 1], src(k), nth-1))
			}
		}
	}
	mergeHist(rep, g.Hist)
	c09Library(r, rep, tier)
}

// shapePick: the shapes that share a local scope between an evaluation and a future it started get a third of the weight
func shapePick(r *Rng) int {
	k := r.Intn(23)
	if k >= 20 {
		return 16 + k%3
	}
	if k >= 18 {
		return 15
	}
	if v := os.Getenv("C11_ONLY_SHAPE"); v != "" {
		n, _ := strconv.Atoi(v)
		return n
	}
	if k >= 12 {
		return 12 + k%3
	}
	return k
}
