(** C15: placeholders survive the preamble transport. *)
From Lisp Require Import Base Value Core Scanner Reader Printer Preamble BaseProofs.
Local Open Scope N_scope.

Definition no_newline (s : str) : bool := negb (existsb (N.eqb 10) s).

Lemma cut_nl_app line rest : no_newline line = true -> cut_nl (line ++ 10 :: rest) = (line, rest).
Proof.
  unfold no_newline. induction line as [|c l IH]; cbn [app cut_nl existsb]; [now rewrite N.eqb_refl|].
  rewrite negb_true_iff, orb_false_iff. intros [Hc Hl].
  rewrite N.eqb_sym in Hc. rewrite Hc. rewrite IH; [reflexivity | now rewrite Hl].
Qed.

(** a line whose first and last runes are not blanks is its own trim *)
Definition last_rune (s : str) : N := match rev s with c :: _ => c | [] => 32 end.

Definition untrimmable (s : str) : bool :=
  match s with
  | a :: _ => negb (is_trim a) && negb (is_trim (last_rune s))
  | [] => false
  end.

Lemma drop_while_head p (s : str) : match s with a :: _ => p a = false | [] => True end -> drop_while p s = s.
Proof. destruct s as [|a r]; simpl; auto. intros ->. reflexivity. Qed.

Lemma trim_untrimmable s : untrimmable s = true -> trim s = s.
Proof.
  unfold untrimmable, trim, last_rune. destruct s as [|a r] eqn:Es; [discriminate|]. rewrite <- Es.
  destruct (rev s) as [|b r'] eqn:Er.
  { exfalso. assert (s = []) by (rewrite <- (rev_involutive s), Er; reflexivity). congruence. }
  rewrite andb_true_iff, !negb_true_iff. intros [Ha Hb].
  rewrite (drop_while_head is_trim s) by (subst s; exact Ha).
  rewrite Er. rewrite (drop_while_head is_trim (b :: r')) by exact Hb.
  rewrite <- Er. apply rev_involutive.
Qed.

(** a valid placeholder name: '$' followed by at least one of letters, digits, '-', '_' *)
Definition valid_key (k : str) : bool :=
  match k with
  | d :: name => N.eqb d 36 && negb (Nat.eqb (length name) 0) && forallb is_name_char name
  | [] => false
  end.

Lemma span_name_app name rest :
  forallb is_name_char name = true -> match rest with c :: _ => is_name_char c = false | [] => True end ->
  span_name (name ++ rest) = (name, rest).
Proof.
  induction name as [|c n IH]; simpl.
  - intros _ H. destruct rest as [|c r]; [reflexivity|]. simpl. now rewrite H.
  - rewrite andb_true_iff. intros [Hc Hn] Hr. rewrite Hc. now rewrite IH.
Qed.

(** the regular expression recognises exactly the line AddPreamble writes *)
Theorem preamble_line_roundtrip k txt :
  valid_key k = true -> txt <> [] ->
  preamble_line (s_ ";; " ++ k ++ 32 :: txt) = Some (k, txt).
Proof.
  intros Hk Ht. unfold valid_key in Hk. destruct k as [|d name]; [discriminate|].
  apply andb_true_iff in Hk as [Hk Hn]. apply andb_true_iff in Hk as [Hd Hl].
  apply N.eqb_eq in Hd. subst d. destruct name as [|n0 name']; [discriminate|]. clear Hl. rename Hn into Hk.
  unfold preamble_line.
  set (line := s_ ";; " ++ (36 :: n0 :: name') ++ 32 :: txt).
  change (match_preamble (S (length line)) line None) with
    (if prefix_of PRE line then
       let after := skipn 4 line in
       let '(name, rest) := span_name after in
       match name with
       | [] => None
       | _ => match rest with
              | c :: v => if prefix_of PRE rest then match_preamble (length line) rest (Some (36 :: name))
                          else if is_re_space c then match v with [] => None | _ => Some (36 :: name, v) end else None
              | [] => None
              end
       end
     else None).
  assert (Hs : span_name (skipn 4 line) = (n0 :: name', 32 :: txt)).
  { change (skipn 4 line) with ((n0 :: name') ++ 32 :: txt). apply span_name_app; [exact Hk | reflexivity]. }
  change (prefix_of PRE line) with true. cbv iota zeta. rewrite Hs.
  change (prefix_of PRE (32 :: txt)) with false. cbv iota.
  change (is_re_space 32) with true. cbv iota.
  destruct txt; [congruence | reflexivity].
Qed.

(** ---- the line loop of READWithPreamble on the text AddPreamble writes ---- *)
Definition reread ext (v : val) : val :=
  match read_str None None ext (pr_str true v) with Ok x => x | _ => VNil end.

(** what a placeholder entry must satisfy for the line-oriented transport: a valid name, and a
    printed value that is one non-empty line not ending in a blank *)
Definition good_entry (kv : str * val) : bool :=
  valid_key (fst kv) && no_newline (pr_str true (snd kv)) &&
  negb (Nat.eqb (length (pr_str true (snd kv))) 0) && negb (is_trim (last_rune (pr_str true (snd kv)))).

Definition entry_line (kv : str * val) : str := s_ ";; " ++ fst kv ++ 32 :: pr_str true (snd kv).

Lemma add_preamble_cons src kv m : add_preamble src (kv :: m) = entry_line kv ++ 10 :: add_preamble src m.
Proof. unfold add_preamble, entry_line. simpl. rewrite <- !app_assoc. simpl. rewrite <- app_assoc. reflexivity. Qed.

Lemma existsb_app_false {A} (p : A -> bool) a b : existsb p a = false -> existsb p b = false -> existsb p (a ++ b) = false.
Proof. intros. rewrite existsb_app. now rewrite H, H0. Qed.

Lemma name_chars_no_newline name : forallb is_name_char name = true -> existsb (N.eqb 10) name = false.
Proof.
  induction name as [|c n IH]; cbn [forallb existsb]; auto. rewrite andb_true_iff. intros [Hc Hn].
  rewrite IH by auto. rewrite orb_false_r. destruct (N.eqb_spec 10 c) as [<-|]; [discriminate | reflexivity].
Qed.

Lemma entry_line_facts kv : good_entry kv = true ->
  no_newline (entry_line kv) = true /\ trim (entry_line kv) = entry_line kv /\ entry_line kv <> [] /\
  prefix_of PRE (entry_line kv) = true /\ preamble_line (entry_line kv) = Some (fst kv, pr_str true (snd kv)).
Proof.
  unfold good_entry. rewrite !andb_true_iff, !negb_true_iff. intros [[[Hk Hn] Hl] Ht].
  destruct kv as [k v]. cbn [fst snd] in *. set (t := pr_str true v) in *.
  assert (Htne : t <> []) by (destruct t; [discriminate | discriminate]).
  pose proof Hk as Hk'. unfold valid_key in Hk'. destruct k as [|d name]; [discriminate|].
  apply andb_true_iff in Hk' as [Hk' Hnm]. apply andb_true_iff in Hk' as [Hd _]. apply N.eqb_eq in Hd. subst d.
  unfold entry_line. cbn [fst snd]. fold t. repeat split.
  - unfold no_newline in *. rewrite negb_true_iff in *.
    change (s_ ";; " ++ (36 :: name) ++ 32 :: t) with ([59; 59; 32; 36] ++ name ++ [32] ++ t).
    apply existsb_app_false; [reflexivity|]. apply existsb_app_false; [now apply name_chars_no_newline|].
    apply existsb_app_false; [reflexivity | exact Hn].
  - apply trim_untrimmable.
    set (pre := s_ ";; " ++ (36 :: name) ++ [32]).
    replace (s_ ";; " ++ (36 :: name) ++ 32 :: t) with (pre ++ t)
      by (unfold pre; rewrite <- !app_assoc; reflexivity).
    assert (Hlast : last_rune (pre ++ t) = last_rune t).
    { unfold last_rune. rewrite rev_app_distr. destruct (rev t) as [|b0 r0] eqn:Er; [|reflexivity].
      exfalso. apply Htne. rewrite <- (rev_involutive t), Er. reflexivity. }
    unfold untrimmable. rewrite Hlast, Ht. unfold pre. reflexivity.
  - discriminate.
  - apply (preamble_line_roundtrip (36 :: name) t Hk Htne).
Qed.

Lemma rwp_entry fuel cm ext kv rest ph : good_entry kv = true ->
  read_with_preamble_n (S fuel) cm ext (entry_line kv ++ 10 :: rest) ph =
  read_with_preamble_n fuel cm ext rest (aset (fst kv) (reread ext (snd kv)) ph).
Proof.
  intros Hg. destruct (entry_line_facts kv Hg) as (Hnl & Htr & Hne & Hpre & Hline).
  cbn [read_with_preamble_n]. rewrite (cut_nl_app _ _ Hnl), Htr.
  remember (entry_line kv) as L eqn:EL. destruct L as [|c l]; [congruence|].
  rewrite Hpre. cbn [negb]. rewrite Hline. reflexivity.
Qed.

Lemma rwp_blank fuel cm ext src ph :
  read_with_preamble_n (S fuel) cm ext (10 :: src) ph = read_str cm (Some ph) ext src.
Proof. reflexivity. Qed.

(** THE THEOREM: READWithPreamble of AddPreamble's output reads the source with every
    placeholder bound to its value as re-read from its printed form — whatever the source
    contains (its own preamble-looking comments included) and whatever the values contain
    besides a raw newline *)
Theorem preamble_transport cm ext src : forall m ph fuel,
  (length m < fuel)%nat -> forallb good_entry m = true ->
  read_with_preamble_n fuel cm ext (add_preamble src m) ph =
  read_str cm (Some (fold_left (fun acc kv => aset (fst kv) (reread ext (snd kv)) acc) m ph)) ext src.
Proof.
  induction m as [|kv m IH]; intros ph fuel Hf Hg.
  - destruct fuel; [simpl in Hf; lia|]. apply rwp_blank.
  - simpl in Hg. apply andb_true_iff in Hg as [Hkv Hg]. destruct fuel; [simpl in Hf; lia|].
    rewrite add_preamble_cons, rwp_entry by exact Hkv. simpl fold_left. apply IH; [simpl in Hf; lia | exact Hg].
Qed.

Lemma add_preamble_length src m : (length m < S (S (length (add_preamble src m))))%nat.
Proof.
  induction m as [|kv m IH]; [simpl; lia|]. rewrite add_preamble_cons, app_length. simpl. lia.
Qed.

Corollary preamble_transport_top cm ext src m :
  forallb good_entry m = true ->
  read_with_preamble cm ext (add_preamble src m) =
  read_str cm (Some (fold_left (fun acc kv => aset (fst kv) (reread ext (snd kv)) acc) m [])) ext src.
Proof. intros Hg. unfold read_with_preamble. apply preamble_transport; [apply add_preamble_length | exact Hg]. Qed.
