(** Soundness of the lock-discipline analysis: whatever path the function takes — any arm of
    every if, any case of a select, any number of iterations of every loop — the run-time
    monitor of the mutex accepts the trace of that path, and the function ends having released
    exactly what it acquired. *)
From Lisp Require Import Base Lockset.
Local Open Scope nat_scope.

(** the events of a path that matter to this object's mutex *)
Inductive ev :=
| EvLock | EvUnlock | EvRLock | EvRUnlock | EvDeferUnlock | EvDeferRUnlock
| EvRead (f : str) | EvWrite (f : str) | EvCallOwn (n : str) | EvNeutral.

Definition simple_ev (i : instr) : option ev :=
  match i with
  | ILock => Some EvLock | IUnlock => Some EvUnlock | IRLock => Some EvRLock | IRUnlock => Some EvRUnlock
  | IDeferUnlock => Some EvDeferUnlock | IDeferRUnlock => Some EvDeferRUnlock
  | IRead f => Some (EvRead f) | IWrite f => Some (EvWrite f)
  | ICallOwn n => Some (EvCallOwn n)
  | ICallOther _ | INeutral _ => Some EvNeutral
  | _ => None
  end.

(** the paths through structured code: [run code tr returned] *)
Inductive run : list instr -> list ev -> bool -> Prop :=
| run_nil : run [] [] false
| run_simple i e rest tr r : simple_ev i = Some e -> run rest tr r -> run (i :: rest) (e :: tr) r
| run_return rest : run (IReturn :: rest) [] true
| run_if_then_ret thn els rest tr : run thn tr true -> run (IIf thn els :: rest) tr true
| run_if_then thn els rest tr1 tr2 r : run thn tr1 false -> run rest tr2 r -> run (IIf thn els :: rest) (tr1 ++ tr2) r
| run_if_else_ret thn els rest tr : run els tr true -> run (IIf thn els :: rest) tr true
| run_if_else thn els rest tr1 tr2 r : run els tr1 false -> run rest tr2 r -> run (IIf thn els :: rest) (tr1 ++ tr2) r
| run_select_ret cases c rest tr : In c cases -> run c tr true -> run (ISelect cases :: rest) tr true
| run_select cases c rest tr1 tr2 r : In c cases -> run c tr1 false -> run rest tr2 r -> run (ISelect cases :: rest) (tr1 ++ tr2) r
| run_loop_exit body rest tr r : run rest tr r -> run (ILoop body :: rest) tr r
| run_loop_ret body rest tr : run body tr true -> run (ILoop body :: rest) tr true
| run_loop_again body rest tr1 tr2 r : run body tr1 false -> run (ILoop body :: rest) tr2 r -> run (ILoop body :: rest) (tr1 ++ tr2) r
| run_defer body rest tr r : run rest tr r -> run (IDeferFn body :: rest) tr r.

Section Sound.
  Variable shared : str -> bool.
  Variable tbl : list summary.
  Variable entry : mode.

  (** the run-time monitor: what each event requires of, and does to, the mutex as held by this function *)
  Definition mon1 (st : lst) (e : ev) : option lst :=
    match e with
    | EvLock => if mode_eqb (held st) MFree then Some (mkL MW (dfr st)) else None
    | EvRLock => if mode_eqb (held st) MFree then Some (mkL MR (dfr st)) else None
    | EvUnlock => match held st, dfr st with MW, None => Some (mkL MFree None) | _, _ => None end
    | EvRUnlock => match held st, dfr st with MR, None => Some (mkL MFree None) | _, _ => None end
    | EvDeferUnlock => match held st, dfr st with MW, None => Some (mkL MW (Some MW)) | _, _ => None end
    | EvDeferRUnlock => match held st, dfr st with MR, None => Some (mkL MR (Some MR)) | _, _ => None end
    | EvRead f => if negb (shared f) || mode_le MR (held st) then Some st else None
    | EvWrite f => if negb (shared f) || mode_le MW (held st) then Some st else None
    | EvCallOwn n =>
        match find_sum tbl n with
        | Some _ =>
            if forallb (fun sm => negb (str_eqb (s_name sm) n) ||
                                  (mode_le (s_needs sm) (held st) && (negb (s_acquires sm) || mode_eqb (held st) MFree))) tbl
            then Some st else None
        | None => None
        end
    | EvNeutral => Some st
    end.

  Fixpoint mon (st : lst) (tr : list ev) : option lst :=
    match tr with
    | [] => Some st
    | e :: r => match mon1 st e with Some st' => mon st' r | None => None end
    end.

  Lemma mon_app st tr1 tr2 st1 : mon st tr1 = Some st1 -> mon st (tr1 ++ tr2) = mon st1 tr2.
  Proof.
    revert st; induction tr1 as [|e r IH]; simpl; intros st H; [injection H as ->; reflexivity|].
    destruct (mon1 st e); [apply IH; exact H | discriminate].
  Qed.

  Lemma collect_in {A} (k : A -> option (list lst)) l res x :
    collect k l = Some res -> In x l -> exists a, k x = Some a /\ incl a res.
  Proof.
    revert res; induction l as [|y l IH]; simpl; intros res H Hin; [contradiction|].
    destruct (k y) as [a|] eqn:Ey; [|discriminate]. destruct (collect k l) as [b|] eqn:Eb; [|discriminate].
    injection H as <-. destruct Hin as [->|Hin].
    - exists a. split; [exact Ey | apply incl_appl, incl_refl].
    - destruct (IH b eq_refl Hin) as (a' & Ha & Hi). exists a'. split; [exact Ha | apply incl_appr; exact Hi].
  Qed.

  Lemma lst_eqb_eq a b : lst_eqb a b = true -> a = b.
  Proof.
    destruct a as [ha da], b as [hb db]. unfold lst_eqb; simpl. intros H. apply andb_true_iff in H. destruct H as [H1 H2].
    assert (ha = hb) by (destruct ha, hb; simpl in H1; congruence). subst.
    destruct da as [x|], db as [y|]; try discriminate; [|reflexivity].
    assert (x = y) by (destruct x, y; simpl in H2; congruence). subst. reflexivity.
  Qed.

  Notation exec := (exec shared tbl entry).

  (** exec and the monitor agree on simple instructions *)
  Lemma exec_simple f st i e rest outs :
    simple_ev i = Some e -> exec (S f) st (i :: rest) = Some outs ->
    exists st', mon1 st e = Some st' /\ exec f st' rest = Some outs.
  Proof.
    intros He H. destruct i; simpl in He; try discriminate; injection He as <-; cbn [Lockset.exec] in H; cbn [mon1].
    - destruct (mode_eqb (held st) MFree); [eauto | discriminate].
    - destruct (held st), (dfr st); try discriminate; eauto.
    - destruct (mode_eqb (held st) MFree); [eauto | discriminate].
    - destruct (held st), (dfr st); try discriminate; eauto.
    - destruct (held st), (dfr st); try discriminate; eauto.
    - destruct (held st), (dfr st); try discriminate; eauto.
    - destruct (negb (shared f0) || mode_le MR (held st)); [eauto | discriminate].
    - destruct (negb (shared f0) || mode_le MW (held st)); [eauto | discriminate].
    - destruct (find_sum tbl name); [|discriminate]. destruct (forallb _ tbl); [eauto | discriminate].
    - eauto.
    - eauto.
  Qed.

  (** THE THEOREM: every path is accepted by the monitor; where it falls through, it does so in one
      of the states the analysis computed; where it returns, the locks are balanced *)
  Theorem exec_sound : forall code tr r, run code tr r ->
    forall fuel st outs, exec fuel st code = Some outs ->
    exists st', mon st tr = Some st' /\
                (r = false -> In st' outs) /\ (r = true -> ret_ok entry st' = true).
  Proof.
    induction 1 as [ | i e rest tr r He Hrun IH | rest
                     | thn els rest tr Hthn IHthn | thn els rest tr1 tr2 r Hthn IHthn Hrest IHrest
                     | thn els rest tr Hels IHels | thn els rest tr1 tr2 r Hels IHels Hrest IHrest
                     | cases c rest tr Hin Hc IHc | cases c rest tr1 tr2 r Hin Hc IHc Hrest IHrest
                     | body rest tr r Hrest IHrest | body rest tr Hb IHb
                     | body rest tr1 tr2 r Hb IHb Hagain IHagain
                     | body rest tr r Hrest IHrest ];
      intros fuel st outs Hex; (destruct fuel as [|f]; [discriminate|]).
    - injection Hex as <-. exists st. split; [reflexivity|]. split; [left; reflexivity | discriminate].
    - destruct (exec_simple f st i e rest outs He Hex) as (st1 & Hm & Hex').
      destruct (IH f st1 outs Hex') as (st' & Hmon & Hft & Hret).
      exists st'. simpl. rewrite Hm. auto.
    - cbn [Lockset.exec] in Hex. destruct (ret_ok entry st) eqn:E; [|discriminate].
      exists st. split; [reflexivity|]. split; [discriminate | auto].
    - cbn [Lockset.exec] in Hex. destruct (Lockset.exec shared tbl entry f st thn) as [a|] eqn:Ea; [|discriminate].
      destruct (IHthn f st a Ea) as (st' & Hmon & _ & Hret). exists st'. split; [exact Hmon|]. split; [discriminate | exact Hret].
    - cbn [Lockset.exec] in Hex. destruct (Lockset.exec shared tbl entry f st thn) as [a|] eqn:Ea; [|discriminate].
      destruct (Lockset.exec shared tbl entry f st els) as [b|] eqn:Eb; [|discriminate].
      destruct (IHthn f st a Ea) as (st1 & Hmon1 & Hft1 & _).
      destruct (collect_in _ _ _ st1 Hex (in_or_app _ _ _ (or_introl (Hft1 eq_refl)))) as (o1 & Ho1 & Hincl).
      destruct (IHrest f st1 o1 Ho1) as (st' & Hmon & Hft & Hret).
      exists st'. split; [rewrite (mon_app _ _ _ _ Hmon1); exact Hmon|]. split; [intros E; apply Hincl, Hft, E | exact Hret].
    - cbn [Lockset.exec] in Hex. destruct (Lockset.exec shared tbl entry f st thn) as [a|] eqn:Ea; [|discriminate].
      destruct (Lockset.exec shared tbl entry f st els) as [b|] eqn:Eb; [|discriminate].
      destruct (IHels f st b Eb) as (st' & Hmon & _ & Hret). exists st'. split; [exact Hmon|]. split; [discriminate | exact Hret].
    - cbn [Lockset.exec] in Hex. destruct (Lockset.exec shared tbl entry f st thn) as [a|] eqn:Ea; [|discriminate].
      destruct (Lockset.exec shared tbl entry f st els) as [b|] eqn:Eb; [|discriminate].
      destruct (IHels f st b Eb) as (st1 & Hmon1 & Hft1 & _).
      destruct (collect_in _ _ _ st1 Hex (in_or_app _ _ _ (or_intror (Hft1 eq_refl)))) as (o1 & Ho1 & Hincl).
      destruct (IHrest f st1 o1 Ho1) as (st' & Hmon & Hft & Hret).
      exists st'. split; [rewrite (mon_app _ _ _ _ Hmon1); exact Hmon|]. split; [intros E; apply Hincl, Hft, E | exact Hret].
    - cbn [Lockset.exec] in Hex. destruct (collect (fun c0 => Lockset.exec shared tbl entry f st c0) cases) as [o|] eqn:Eo; [|discriminate].
      destruct (collect_in _ _ _ c Eo Hin) as (a & Ha & _).
      destruct (IHc f st a Ha) as (st' & Hmon & _ & Hret). exists st'. split; [exact Hmon|]. split; [discriminate | exact Hret].
    - cbn [Lockset.exec] in Hex. destruct (collect (fun c0 => Lockset.exec shared tbl entry f st c0) cases) as [o|] eqn:Eo; [|discriminate].
      destruct (collect_in _ _ _ c Eo Hin) as (a & Ha & Hia).
      destruct (IHc f st a Ha) as (st1 & Hmon1 & Hft1 & _).
      destruct (collect_in _ _ _ st1 Hex (Hia _ (Hft1 eq_refl))) as (o1 & Ho1 & Hincl).
      destruct (IHrest f st1 o1 Ho1) as (st' & Hmon & Hft & Hret).
      exists st'. split; [rewrite (mon_app _ _ _ _ Hmon1); exact Hmon|]. split; [intros E; apply Hincl, Hft, E | exact Hret].
    - cbn [Lockset.exec] in Hex. destruct (Lockset.exec shared tbl entry f st body) as [ob|] eqn:Eb; [|discriminate].
      destruct (forallb (lst_eqb st) ob); [|discriminate]. exact (IHrest f st outs Hex).
    - cbn [Lockset.exec] in Hex. destruct (Lockset.exec shared tbl entry f st body) as [ob|] eqn:Eb; [|discriminate].
      destruct (IHb f st ob Eb) as (st' & Hmon & _ & Hret). exists st'. split; [exact Hmon|]. split; [discriminate | exact Hret].
    - (* one more iteration: the body falls through in the state it was entered with *)
      pose proof Hex as Hex0.
      cbn [Lockset.exec] in Hex. destruct (Lockset.exec shared tbl entry f st body) as [ob|] eqn:Eb; [|discriminate].
      destruct (forallb (lst_eqb st) ob) eqn:Eall; [|discriminate].
      destruct (IHb f st ob Eb) as (st1 & Hmon1 & Hft1 & _).
      assert (st1 = st) as -> by (symmetry; apply lst_eqb_eq; exact (proj1 (forallb_forall _ _) Eall st1 (Hft1 eq_refl))).
      destruct (IHagain (S f) st outs Hex0) as (st' & Hmon & Hft & Hret).
      exists st'. split; [rewrite (mon_app _ _ _ _ Hmon1); exact Hmon|]. split; assumption.
    - cbn [Lockset.exec] in Hex. destruct (Lockset.exec shared tbl entry f (mkL MFree None) body) as [ob|] eqn:Eb; [|discriminate].
      destruct (forallb (lst_eqb (mkL MFree None)) ob); [|discriminate]. exact (IHrest f st outs Hex).
  Qed.

  (** a function accepted for entry mode [entry]: on every path the monitor accepts the whole trace
      and the function ends — by return or by reaching its end — with its locks balanced *)
  Theorem fn_ok_sound code : fn_ok shared tbl entry code = true ->
    forall tr r, run code tr r ->
    exists st', mon (mkL entry None) tr = Some st' /\ ret_ok entry st' = true.
  Proof.
    unfold fn_ok. intros H tr r Hrun.
    destruct (Lockset.exec shared tbl entry (4 * csize code + 4) (mkL entry None) code) as [outs|] eqn:E; [|discriminate].
    destruct (exec_sound code tr r Hrun _ _ _ E) as (st' & Hmon & Hft & Hret).
    exists st'. split; [exact Hmon|]. destruct r; [apply Hret; reflexivity|].
    exact (proj1 (forallb_forall _ _) H st' (Hft eq_refl)).
  Qed.

  (** what the monitor's acceptance means for the accesses: at every shared read the function holds
      the lock at least for reading, at every shared write for writing *)
  Fixpoint accesses_guarded (st : lst) (tr : list ev) : Prop :=
    match tr with
    | [] => True
    | e :: r =>
        match e with
        | EvRead f => shared f = true -> held st <> MFree
        | EvWrite f => shared f = true -> held st = MW
        | EvLock | EvRLock => held st = MFree      (* never re-locks what it already holds *)
        | _ => True
        end /\
        match mon1 st e with Some st' => accesses_guarded st' r | None => False end
    end.

  Lemma mon_guarded tr : forall st st', mon st tr = Some st' -> accesses_guarded st tr.
  Proof.
    induction tr as [|e r IH]; simpl; intros st st' H; [exact Logic.I|].
    destruct (mon1 st e) as [st1|] eqn:E; [|discriminate]. split; [|eapply IH; eauto].
    destruct e; simpl in E; auto.
    - destruct (held st); simpl in E; try discriminate; reflexivity.
    - destruct (held st); simpl in E; try discriminate; reflexivity.
    - intros Hs. rewrite Hs in E. simpl in E. destruct (held st); simpl in E; congruence.
    - intros Hs. rewrite Hs in E. simpl in E. destruct (held st); simpl in E; congruence.
  Qed.

  Corollary fn_ok_guarded code : fn_ok shared tbl entry code = true ->
    forall tr r, run code tr r -> accesses_guarded (mkL entry None) tr.
  Proof. intros H tr r Hrun. destruct (fn_ok_sound code H tr r Hrun) as (st' & Hmon & _). eapply mon_guarded; eauto. Qed.
End Sound.
