package main

import (
	lisp "github.com/jig/lisp"
	"context"
	"fmt"
	"strings"
	"time"

	"github.com/jig/lisp/types"
	"verif.local/harness/h"
)

// runProgram evaluates one position-less AST in a fresh world and returns the canonical
// line the model prints for op P: "<outcome>| <trace>" plus the raw outcome.
// sharedWorld, when non-nil, is reused by runProgram (for programs that do not define
// anything: pure builtin calls); its trace is cleared before every program.
var sharedWorld *h.World

func runProgram(ast types.MalType) (string, h.Outcome, *h.World) {
	w := sharedWorld
	if w == nil {
		var err error
		w, err = h.NewWorld()
		if err != nil {
			panic(err)
		}
	} else {
		w.Trace = nil
	}
	done := make(chan h.Outcome, 1)
	go func() { done <- w.Eval(context.Background(), ast) }()
	var o h.Outcome
	select {
	case o = <-done:
	case <-time.After(20 * time.Second):
		return "HANG | ", h.Outcome{}, w
	}
	return outcomeLine(o) + "| " + h.EncS(types.List{Val: w.Trace}), o, w
}

func outcomeLine(o h.Outcome) string {
	switch {
	case o.Panic != nil:
		return "P "
	case o.Err != nil:
		return "E " + h.EncS(o.Err)
	default:
		return "V " + h.EncS(o.Val)
	}
}

func outcomeKind(line string) string {
	if line == "" {
		return "?"
	}
	return line[:1]
}

// addProgram runs ast on the implementation, records the case, returns (index, line, outcome)
func addProgram(rep *Report, ast types.MalType, nontrivial bool, tags ...string) (int, string, h.Outcome) {
	line, o, _ := runProgram(ast)
	tags = append(tags, "outcome:"+outcomeKind(line))
	idx := rep.Add("P "+h.EncS(ast), line, h.Show(ast), nontrivial, tags...)
	if strings.HasPrefix(line, "P") {
		rep.Violate(idx, fmt.Sprintf("a Go panic escaped from EVAL: %v", o.Panic), h.Show(ast))
	}
	if strings.HasPrefix(line, "HANG") {
		rep.Violate(idx, "EVAL did not return within 20s", h.Show(ast))
		emergencyFlush(rep)
	}
	return idx, line, o
}

// expect checks a program with a known prescribed result (the direct, model-free oracle)
func expect(rep *Report, what string, ast types.MalType, want string, tags ...string) {
	idx, line, _ := addProgram(rep, ast, true, tags...)
	if line != want {
		rep.Violate(idx, fmt.Sprintf("%s: got %q, the language definition prescribes %q", what, line, want), h.Show(ast))
	}
	textRoutes(rep, idx, ast, want, what)
}

// textRoutes evaluates the program as users write it: its printed text, read without and under a module name (forms then
// carry source positions). The language definition does not mention positions: the outcome must be the one of the form.
func textRoutes(rep *Report, idx int, ast types.MalType, want string, what string) {
	text := lisp.PRINT(ast)
	for _, module := range []bool{false, true} {
		core, _, o := evalText(text, module)
		rep.Histogram[map[bool]string{false: "route:text-no-module", true: "route:text-module"}[module]]++
		if core == "READERR" {
			continue
		}
		if o.Panic != nil {
			rep.Violate(idx, fmt.Sprintf("a Go panic escaped when the program was read from text: %v", o.Panic), text)
		} else if core != want {
			rep.Violate(idx, fmt.Sprintf("%s: read from text (module name: %v) the program gives %q, expected %q", what, module, core, want), text)
		}
	}
}

func mergeHist(rep *Report, hist map[string]int) {
	for k, v := range hist {
		rep.Histogram["gen:"+k] += v
	}
}
