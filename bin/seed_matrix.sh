#!/bin/bash
# seed_matrix.sh [ids...]: apply each seeded change to /repo, run the quick check of its property, undo; one line per seed.
cd /verif
ids="$@"; [ -z "$ids" ] && ids=$(ls seeded)
for s in $ids; do
  out=$(bin/try_seed.sh $s 2>&1)
  exit=$(echo "$out" | grep -o "exit=[0-9]*" | tail -1)
  with=$(echo "$out" | grep -c "^VIOLATION" )
  withinput=$(echo "$out" | grep "^VIOLATION" | grep -vc "no-failing-input-found")
  echo "$s $exit violations=$with with_replay_input=$withinput"
done
git -C /repo status --short | head -3
