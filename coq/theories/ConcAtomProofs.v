(** C09: every interleaving of deref / reset! / swap! on one atom is linearizable, loses no
    update, leaves the atom usable after a failed update, and cannot deadlock as long as no
    update function locks the atom being swapped again (that case is refuted below). *)
From Lisp Require Import Base ConcAtom.
Local Open Scope nat_scope.

Section Proofs.
  Variable V : Type.
  Notation cstate := (cstate V).
  Notation thread := (thread V).
  Notation pc := (pc V).
  Notation event := (event V).

  Definition wcrit (p : pc) : bool :=
    match p with
    | ResetLocked _ _ | ResetWritten _ _ | SwapLocked _ _ | SwapRead _ _ _ | SwapWritten _ _ | SwapFailed _
    | SelfLocked _ _ | SelfRead _ _ _ => true
    | _ => false
    end.
  Definition rcrit (p : pc) : bool :=
    match p with DerefLocked _ | DerefRead _ _ => true | _ => false end.

  Definition ret_of_swap (f : V -> option V) (v : V) : ret V :=
    match f v with Some y => RVal V y | None => RErr V end.

  (** an event is legal at value v: what it reports is what the sequential atom would give *)
  Definition ev_ok (v : V) (e : event) : Prop :=
    match e with
    | EDeref _ _ x => x = v
    | EReset _ _ _ => True
    | ESwap _ _ f r => r = ret_of_swap f v
    end.

  Fixpoint legal (v0 : V) (h : list event) : Prop :=
    match h with
    | [] => True
    | e :: older => legal v0 older /\ ev_ok (replay V v0 older) e
    end.

  Record Inv (v0 : V) (s : cstate) : Prop := {
    inv_w : forall t th, nth_error (threads V s) t = Some th -> (wcrit (tpc V th) = true <-> wlock V s = Some t);
    inv_w_dom : forall t, wlock V s = Some t -> t < length (threads V s);
    inv_r : forall t th, nth_error (threads V s) t = Some th -> (rcrit (tpc V th) = true <-> In t (rlocks V s));
    inv_r_dom : forall t, In t (rlocks V s) -> t < length (threads V s);
    inv_excl : wlock V s <> None -> rlocks V s = [];
    inv_nodup : NoDup (rlocks V s);
    inv_read : forall t th f x, nth_error (threads V s) t = Some th -> tpc V th = SwapRead V f x -> cell V s = x;
    inv_cell : cell V s = replay V v0 (hist V s);
    inv_legal : legal v0 (hist V s);
  }.

  (** ---- list plumbing ---- *)
  Lemma nth_set_same {A} (l : list A) n x : n < length l -> nth_error (set_nth l n x) n = Some x.
  Proof. revert n; induction l as [|y l IH]; intros [|n] H; simpl in *; try lia; auto. apply IH; lia. Qed.
  Lemma nth_set_other {A} (l : list A) n m x : n <> m -> nth_error (set_nth l n x) m = nth_error l m.
  Proof. revert n m; induction l as [|y l IH]; intros [|n] [|m] H; simpl; auto; try congruence. Qed.
  Lemma length_set_nth {A} (l : list A) n x : length (set_nth l n x) = length l.
  Proof. revert n; induction l as [|y l IH]; intros [|n]; simpl; auto. Qed.
  Lemma list_cons_neq {A} (e : A) l : l = e :: l -> False.
  Proof. intros H. apply (f_equal (@length A)) in H. simpl in H. lia. Qed.
  Lemma nth_some_lt {A} (l : list A) n x : nth_error l n = Some x -> n < length l.
  Proof. intros H. apply nth_error_Some. congruence. Qed.

  Lemma in_remove_one t u l : NoDup l -> (In u (remove_one t l) <-> In u l /\ u <> t).
  Proof.
    induction l as [|x l IH]; simpl; intros Hn; [tauto|].
    inversion Hn as [|? ? Hx Hn']; subst.
    destruct (Nat.eqb_spec x t) as [->|Hne].
    - split; [intros Hu; split; [auto|]; intros ->; contradiction | intros [[->|Hu] Hd]; [congruence | auto]].
    - simpl. rewrite (IH Hn'). split.
      + intros [->|[Hu Hd]]; auto.
      + intros [[->|Hu] Hd]; auto.
  Qed.
  Lemma nodup_remove_one t l : NoDup l -> NoDup (remove_one t l).
  Proof.
    induction l as [|x l IH]; simpl; intros Hn; [constructor|].
    inversion Hn as [|? ? Hx Hn']; subst.
    destruct (Nat.eqb_spec x t); auto. constructor; auto.
    intros Hin. apply in_remove_one in Hin; tauto.
  Qed.

  (** what a thread other than t sees of the thread table after t's step *)
  Ltac other_thread :=
    match goal with
    | H : nth_error (upd _ _ ?t _) ?u = Some _ |- _ =>
        unfold upd in H; destruct (Nat.eq_dec t u) as [<-|Hneq];
        [ rewrite nth_set_same in H by (eapply nth_some_lt; eauto); injection H as <- | rewrite nth_set_other in H by exact Hneq ]
    end.

  Lemma init_inv v0 progs : Inv v0 (init V v0 progs).
  Proof.
    constructor; simpl.
    - intros t th H. apply nth_error_In, in_map_iff in H. destruct H as (p & <- & _). simpl. split; discriminate.
    - discriminate.
    - intros t th H. apply nth_error_In, in_map_iff in H. destruct H as (p & <- & _). simpl. split; [discriminate | tauto].
    - intros t [].
    - reflexivity.
    - constructor.
    - intros t th f x H. apply nth_error_In, in_map_iff in H. destruct H as (p & <- & _). simpl. discriminate.
    - reflexivity.
    - exact Logic.I.
  Qed.

  (** THE INVARIANT IS PRESERVED BY EVERY STEP OF EVERY THREAD *)
  Lemma step_inv v0 s t s' : Inv v0 s -> step V s t = Some s' -> Inv v0 s'.
  Proof.
    intros I Hs. unfold step in Hs.
    destruct (nth_error (threads V s) t) as [th|] eqn:Ht; [|discriminate].
    pose proof (nth_some_lt _ _ _ Ht) as Hlt.
    pose proof (inv_w _ _ I t th Ht) as Hw.
    pose proof (inv_r _ _ I t th Ht) as Hr.
    destruct (tpc V th) eqn:Hpc.
    - (* Idle: acquire *)
      destruct (todo V th) as [|[|v|f|f] r] eqn:Htodo; [discriminate| | | |].
      + (* RLock *)
        destruct (wlock V s) eqn:Hwl; [discriminate|]. injection Hs as <-.
        constructor; simpl; unfold upd.
        * intros u thu Hu. destruct (Nat.eq_dec t u) as [<-|Hneq].
          -- rewrite nth_set_same in Hu by exact Hlt. injection Hu as <-. simpl. split; discriminate.
          -- rewrite nth_set_other in Hu by exact Hneq. rewrite (inv_w _ _ I u thu Hu), Hwl. tauto.
        * discriminate.
        * intros u thu Hu. destruct (Nat.eq_dec t u) as [<-|Hneq].
          -- rewrite nth_set_same in Hu by exact Hlt. injection Hu as <-. simpl. tauto.
          -- rewrite nth_set_other in Hu by exact Hneq. rewrite (inv_r _ _ I u thu Hu). split; [auto | intros [Heq|Hin]; [congruence | exact Hin]].
        * intros u [<-|Hin]; rewrite length_set_nth; [exact Hlt | exact (inv_r_dom _ _ I u Hin)].
        * congruence.
        * constructor; [|exact (inv_nodup _ _ I)]. intros Hin. apply Hr in Hin. simpl in Hin. discriminate.
        * intros u thu f x Hu Hp. destruct (Nat.eq_dec t u) as [<-|Hneq].
          -- rewrite nth_set_same in Hu by exact Hlt. injection Hu as <-. discriminate.
          -- rewrite nth_set_other in Hu by exact Hneq. exact (inv_read _ _ I u thu f x Hu Hp).
        * exact (inv_cell _ _ I).
        * exact (inv_legal _ _ I).
      + (* Lock for reset! *)
        destruct (wlock V s) eqn:Hwl; [discriminate|]. destruct (rlocks V s) eqn:Hrl; [|discriminate]. injection Hs as <-.
        constructor; simpl; unfold upd.
        * intros u thu Hu. destruct (Nat.eq_dec t u) as [<-|Hneq].
          -- rewrite nth_set_same in Hu by exact Hlt. injection Hu as <-. simpl. tauto.
          -- rewrite nth_set_other in Hu by exact Hneq. rewrite (inv_w _ _ I u thu Hu), Hwl. split; [discriminate | congruence].
        * intros u [= <-]. rewrite length_set_nth. exact Hlt.
        * intros u thu Hu. destruct (Nat.eq_dec t u) as [<-|Hneq].
          -- rewrite nth_set_same in Hu by exact Hlt. injection Hu as <-. simpl. split; [discriminate | tauto].
          -- rewrite nth_set_other in Hu by exact Hneq. rewrite (inv_r _ _ I u thu Hu), Hrl. tauto.
        * intros u [].
        * reflexivity.
        * constructor.
        * intros u thu f x Hu Hp. destruct (Nat.eq_dec t u) as [<-|Hneq].
          -- rewrite nth_set_same in Hu by exact Hlt. injection Hu as <-. discriminate.
          -- rewrite nth_set_other in Hu by exact Hneq. exact (inv_read _ _ I u thu f x Hu Hp).
        * exact (inv_cell _ _ I).
        * exact (inv_legal _ _ I).
      + (* Lock for swap! *)
        destruct (wlock V s) eqn:Hwl; [discriminate|]. destruct (rlocks V s) eqn:Hrl; [|discriminate]. injection Hs as <-.
        constructor; simpl; unfold upd.
        * intros u thu Hu. destruct (Nat.eq_dec t u) as [<-|Hneq].
          -- rewrite nth_set_same in Hu by exact Hlt. injection Hu as <-. simpl. tauto.
          -- rewrite nth_set_other in Hu by exact Hneq. rewrite (inv_w _ _ I u thu Hu), Hwl. split; [discriminate | congruence].
        * intros u [= <-]. rewrite length_set_nth. exact Hlt.
        * intros u thu Hu. destruct (Nat.eq_dec t u) as [<-|Hneq].
          -- rewrite nth_set_same in Hu by exact Hlt. injection Hu as <-. simpl. split; [discriminate | tauto].
          -- rewrite nth_set_other in Hu by exact Hneq. rewrite (inv_r _ _ I u thu Hu), Hrl. tauto.
        * intros u [].
        * reflexivity.
        * constructor.
        * intros u thu f' x Hu Hp. destruct (Nat.eq_dec t u) as [<-|Hneq].
          -- rewrite nth_set_same in Hu by exact Hlt. injection Hu as <-. discriminate.
          -- rewrite nth_set_other in Hu by exact Hneq. exact (inv_read _ _ I u thu f' x Hu Hp).
        * exact (inv_cell _ _ I).
        * exact (inv_legal _ _ I).
      + (* Lock for the self-dereferencing swap! *)
        destruct (wlock V s) eqn:Hwl; [discriminate|]. destruct (rlocks V s) eqn:Hrl; [|discriminate]. injection Hs as <-.
        constructor; simpl; unfold upd.
        * intros u thu Hu. destruct (Nat.eq_dec t u) as [<-|Hneq].
          -- rewrite nth_set_same in Hu by exact Hlt. injection Hu as <-. simpl. tauto.
          -- rewrite nth_set_other in Hu by exact Hneq. rewrite (inv_w _ _ I u thu Hu), Hwl. split; [discriminate | congruence].
        * intros u [= <-]. rewrite length_set_nth. exact Hlt.
        * intros u thu Hu. destruct (Nat.eq_dec t u) as [<-|Hneq].
          -- rewrite nth_set_same in Hu by exact Hlt. injection Hu as <-. simpl. split; [discriminate | tauto].
          -- rewrite nth_set_other in Hu by exact Hneq. rewrite (inv_r _ _ I u thu Hu), Hrl. tauto.
        * intros u [].
        * reflexivity.
        * constructor.
        * intros u thu f' x Hu Hp. destruct (Nat.eq_dec t u) as [<-|Hneq].
          -- rewrite nth_set_same in Hu by exact Hlt. injection Hu as <-. discriminate.
          -- rewrite nth_set_other in Hu by exact Hneq. exact (inv_read _ _ I u thu f' x Hu Hp).
        * exact (inv_cell _ _ I).
        * exact (inv_legal _ _ I).
    - (* DerefLocked: the read *)
      injection Hs as <-. constructor; simpl; unfold upd.
      + intros u thu Hu. destruct (Nat.eq_dec t u) as [<-|Hneq].
        * rewrite nth_set_same in Hu by exact Hlt. injection Hu as <-. simpl. rewrite <- Hw. simpl. tauto.
        * rewrite nth_set_other in Hu by exact Hneq. exact (inv_w _ _ I u thu Hu).
      + intros u Hu. rewrite length_set_nth. exact (inv_w_dom _ _ I u Hu).
      + intros u thu Hu. destruct (Nat.eq_dec t u) as [<-|Hneq].
        * rewrite nth_set_same in Hu by exact Hlt. injection Hu as <-. simpl. rewrite <- Hr. simpl. tauto.
        * rewrite nth_set_other in Hu by exact Hneq. exact (inv_r _ _ I u thu Hu).
      + intros u Hu. rewrite length_set_nth. exact (inv_r_dom _ _ I u Hu).
      + exact (inv_excl _ _ I).
      + exact (inv_nodup _ _ I).
      + intros u thu f x Hu Hp. destruct (Nat.eq_dec t u) as [<-|Hneq].
        * rewrite nth_set_same in Hu by exact Hlt. injection Hu as <-. discriminate.
        * rewrite nth_set_other in Hu by exact Hneq. exact (inv_read _ _ I u thu f x Hu Hp).
      + exact (inv_cell _ _ I).
      + split; [exact (inv_legal _ _ I) | simpl; exact (inv_cell _ _ I)].
    - (* DerefRead: RUnlock *)
      injection Hs as <-. constructor; simpl; unfold upd.
      + intros u thu Hu. destruct (Nat.eq_dec t u) as [<-|Hneq].
        * rewrite nth_set_same in Hu by exact Hlt. injection Hu as <-. simpl. rewrite <- Hw. simpl. tauto.
        * rewrite nth_set_other in Hu by exact Hneq. exact (inv_w _ _ I u thu Hu).
      + intros u Hu. rewrite length_set_nth. exact (inv_w_dom _ _ I u Hu).
      + intros u thu Hu. rewrite (in_remove_one _ _ _ (inv_nodup _ _ I)). destruct (Nat.eq_dec t u) as [<-|Hneq].
        * rewrite nth_set_same in Hu by exact Hlt. injection Hu as <-. simpl. split; [discriminate | tauto].
        * rewrite nth_set_other in Hu by exact Hneq. rewrite (inv_r _ _ I u thu Hu). split; [auto | tauto].
      + intros u Hu. rewrite length_set_nth. apply (in_remove_one _ _ _ (inv_nodup _ _ I)) in Hu. exact (inv_r_dom _ _ I u (proj1 Hu)).
      + intros Hne. pose proof (inv_excl _ _ I Hne) as E. rewrite E. reflexivity.
      + apply nodup_remove_one. exact (inv_nodup _ _ I).
      + intros u thu f x Hu Hp. destruct (Nat.eq_dec t u) as [<-|Hneq].
        * rewrite nth_set_same in Hu by exact Hlt. injection Hu as <-. discriminate.
        * rewrite nth_set_other in Hu by exact Hneq. exact (inv_read _ _ I u thu f x Hu Hp).
      + exact (inv_cell _ _ I).
      + exact (inv_legal _ _ I).
    - (* ResetLocked: the write *)
      injection Hs as <-. constructor; simpl; unfold upd.
      + intros u thu Hu. destruct (Nat.eq_dec t u) as [<-|Hneq].
        * rewrite nth_set_same in Hu by exact Hlt. injection Hu as <-. simpl. rewrite <- Hw. simpl. tauto.
        * rewrite nth_set_other in Hu by exact Hneq. exact (inv_w _ _ I u thu Hu).
      + intros u Hu. rewrite length_set_nth. exact (inv_w_dom _ _ I u Hu).
      + intros u thu Hu. destruct (Nat.eq_dec t u) as [<-|Hneq].
        * rewrite nth_set_same in Hu by exact Hlt. injection Hu as <-. simpl. rewrite <- Hr. simpl. tauto.
        * rewrite nth_set_other in Hu by exact Hneq. exact (inv_r _ _ I u thu Hu).
      + intros u Hu. rewrite length_set_nth. exact (inv_r_dom _ _ I u Hu).
      + exact (inv_excl _ _ I).
      + exact (inv_nodup _ _ I).
      + (* nobody else can be between read and write: t holds the write lock *)
        intros u thu f x Hu Hp. destruct (Nat.eq_dec t u) as [<-|Hneq].
        * rewrite nth_set_same in Hu by exact Hlt. injection Hu as <-. discriminate.
        * rewrite nth_set_other in Hu by exact Hneq.
          pose proof (inv_w _ _ I u thu Hu) as Hwu. rewrite Hp in Hwu. simpl in Hwu.
          assert (wlock V s = Some u) by (apply Hwu; reflexivity).
          assert (wlock V s = Some t) by (apply Hw; reflexivity). congruence.
      + reflexivity.
      + split; [exact (inv_legal _ _ I) | exact Logic.I].
    - (* ResetWritten: Unlock *)
      injection Hs as <-. constructor; simpl; unfold upd.
      + intros u thu Hu. destruct (Nat.eq_dec t u) as [<-|Hneq].
        * rewrite nth_set_same in Hu by exact Hlt. injection Hu as <-. simpl. split; discriminate.
        * rewrite nth_set_other in Hu by exact Hneq. rewrite (inv_w _ _ I u thu Hu).
          assert (wlock V s = Some t) as -> by (apply Hw; reflexivity). split; [congruence | discriminate].
      + discriminate.
      + intros u thu Hu. destruct (Nat.eq_dec t u) as [<-|Hneq].
        * rewrite nth_set_same in Hu by exact Hlt. injection Hu as <-. simpl. rewrite <- Hr. simpl. tauto.
        * rewrite nth_set_other in Hu by exact Hneq. exact (inv_r _ _ I u thu Hu).
      + intros u Hu. rewrite length_set_nth. exact (inv_r_dom _ _ I u Hu).
      + congruence.
      + exact (inv_nodup _ _ I).
      + intros u thu f x Hu Hp. destruct (Nat.eq_dec t u) as [<-|Hneq].
        * rewrite nth_set_same in Hu by exact Hlt. injection Hu as <-. discriminate.
        * rewrite nth_set_other in Hu by exact Hneq. exact (inv_read _ _ I u thu f x Hu Hp).
      + exact (inv_cell _ _ I).
      + exact (inv_legal _ _ I).
    - (* SwapLocked: the read *)
      injection Hs as <-. constructor; simpl; unfold upd.
      + intros u thu Hu. destruct (Nat.eq_dec t u) as [<-|Hneq].
        * rewrite nth_set_same in Hu by exact Hlt. injection Hu as <-. simpl. rewrite <- Hw. simpl. tauto.
        * rewrite nth_set_other in Hu by exact Hneq. exact (inv_w _ _ I u thu Hu).
      + intros u Hu. rewrite length_set_nth. exact (inv_w_dom _ _ I u Hu).
      + intros u thu Hu. destruct (Nat.eq_dec t u) as [<-|Hneq].
        * rewrite nth_set_same in Hu by exact Hlt. injection Hu as <-. simpl. rewrite <- Hr. simpl. tauto.
        * rewrite nth_set_other in Hu by exact Hneq. exact (inv_r _ _ I u thu Hu).
      + intros u Hu. rewrite length_set_nth. exact (inv_r_dom _ _ I u Hu).
      + exact (inv_excl _ _ I).
      + exact (inv_nodup _ _ I).
      + intros u thu f' x Hu Hp. destruct (Nat.eq_dec t u) as [<-|Hneq].
        * rewrite nth_set_same in Hu by exact Hlt. injection Hu as <-. simpl in Hp. injection Hp as _ <-. reflexivity.
        * rewrite nth_set_other in Hu by exact Hneq. exact (inv_read _ _ I u thu f' x Hu Hp).
      + exact (inv_cell _ _ I).
      + exact (inv_legal _ _ I).
    - (* SwapRead: apply, then write or fail *)
      pose proof (inv_read _ _ I t th f x Ht Hpc) as Hcx.
      destruct (f x) as [r|] eqn:Hfx; injection Hs as <-; constructor; simpl; unfold upd.
      + intros u thu Hu. destruct (Nat.eq_dec t u) as [<-|Hneq].
        * rewrite nth_set_same in Hu by exact Hlt. injection Hu as <-. simpl. rewrite <- Hw. simpl. tauto.
        * rewrite nth_set_other in Hu by exact Hneq. exact (inv_w _ _ I u thu Hu).
      + intros u Hu. rewrite length_set_nth. exact (inv_w_dom _ _ I u Hu).
      + intros u thu Hu. destruct (Nat.eq_dec t u) as [<-|Hneq].
        * rewrite nth_set_same in Hu by exact Hlt. injection Hu as <-. simpl. rewrite <- Hr. simpl. tauto.
        * rewrite nth_set_other in Hu by exact Hneq. exact (inv_r _ _ I u thu Hu).
      + intros u Hu. rewrite length_set_nth. exact (inv_r_dom _ _ I u Hu).
      + exact (inv_excl _ _ I).
      + exact (inv_nodup _ _ I).
      + intros u thu f' x' Hu Hp. destruct (Nat.eq_dec t u) as [<-|Hneq].
        * rewrite nth_set_same in Hu by exact Hlt. injection Hu as <-. discriminate.
        * rewrite nth_set_other in Hu by exact Hneq.
          pose proof (inv_w _ _ I u thu Hu) as Hwu. rewrite Hp in Hwu. simpl in Hwu.
          assert (wlock V s = Some u) by (apply Hwu; reflexivity).
          assert (wlock V s = Some t) by (apply Hw; reflexivity). congruence.
      + rewrite <- (inv_cell _ _ I), Hcx, Hfx. reflexivity.
      + split; [exact (inv_legal _ _ I)|]. simpl. unfold ret_of_swap. rewrite <- (inv_cell _ _ I), Hcx, Hfx. reflexivity.
      + intros u thu Hu. destruct (Nat.eq_dec t u) as [<-|Hneq].
        * rewrite nth_set_same in Hu by exact Hlt. injection Hu as <-. simpl. rewrite <- Hw. simpl. tauto.
        * rewrite nth_set_other in Hu by exact Hneq. exact (inv_w _ _ I u thu Hu).
      + intros u Hu. rewrite length_set_nth. exact (inv_w_dom _ _ I u Hu).
      + intros u thu Hu. destruct (Nat.eq_dec t u) as [<-|Hneq].
        * rewrite nth_set_same in Hu by exact Hlt. injection Hu as <-. simpl. rewrite <- Hr. simpl. tauto.
        * rewrite nth_set_other in Hu by exact Hneq. exact (inv_r _ _ I u thu Hu).
      + intros u Hu. rewrite length_set_nth. exact (inv_r_dom _ _ I u Hu).
      + exact (inv_excl _ _ I).
      + exact (inv_nodup _ _ I).
      + intros u thu f' x' Hu Hp. destruct (Nat.eq_dec t u) as [<-|Hneq].
        * rewrite nth_set_same in Hu by exact Hlt. injection Hu as <-. discriminate.
        * rewrite nth_set_other in Hu by exact Hneq. exact (inv_read _ _ I u thu f' x' Hu Hp).
      + (* a failed update leaves the value unchanged *)
        rewrite <- (inv_cell _ _ I), Hcx, Hfx. reflexivity.
      + split; [exact (inv_legal _ _ I)|]. simpl. unfold ret_of_swap. rewrite <- (inv_cell _ _ I), Hcx, Hfx. reflexivity.
    - (* SwapWritten: Unlock *)
      injection Hs as <-. constructor; simpl; unfold upd.
      + intros u thu Hu. destruct (Nat.eq_dec t u) as [<-|Hneq].
        * rewrite nth_set_same in Hu by exact Hlt. injection Hu as <-. simpl. split; discriminate.
        * rewrite nth_set_other in Hu by exact Hneq. rewrite (inv_w _ _ I u thu Hu).
          assert (wlock V s = Some t) as -> by (apply Hw; reflexivity). split; [congruence | discriminate].
      + discriminate.
      + intros u thu Hu. destruct (Nat.eq_dec t u) as [<-|Hneq].
        * rewrite nth_set_same in Hu by exact Hlt. injection Hu as <-. simpl. rewrite <- Hr. simpl. tauto.
        * rewrite nth_set_other in Hu by exact Hneq. exact (inv_r _ _ I u thu Hu).
      + intros u Hu. rewrite length_set_nth. exact (inv_r_dom _ _ I u Hu).
      + congruence.
      + exact (inv_nodup _ _ I).
      + intros u thu f x Hu Hp. destruct (Nat.eq_dec t u) as [<-|Hneq].
        * rewrite nth_set_same in Hu by exact Hlt. injection Hu as <-. discriminate.
        * rewrite nth_set_other in Hu by exact Hneq. exact (inv_read _ _ I u thu f x Hu Hp).
      + exact (inv_cell _ _ I).
      + exact (inv_legal _ _ I).
    - (* SwapFailed: the deferred Unlock still runs *)
      injection Hs as <-. constructor; simpl; unfold upd.
      + intros u thu Hu. destruct (Nat.eq_dec t u) as [<-|Hneq].
        * rewrite nth_set_same in Hu by exact Hlt. injection Hu as <-. simpl. split; discriminate.
        * rewrite nth_set_other in Hu by exact Hneq. rewrite (inv_w _ _ I u thu Hu).
          assert (wlock V s = Some t) as -> by (apply Hw; reflexivity). split; [congruence | discriminate].
      + discriminate.
      + intros u thu Hu. destruct (Nat.eq_dec t u) as [<-|Hneq].
        * rewrite nth_set_same in Hu by exact Hlt. injection Hu as <-. simpl. rewrite <- Hr. simpl. tauto.
        * rewrite nth_set_other in Hu by exact Hneq. exact (inv_r _ _ I u thu Hu).
      + intros u Hu. rewrite length_set_nth. exact (inv_r_dom _ _ I u Hu).
      + congruence.
      + exact (inv_nodup _ _ I).
      + intros u thu f x Hu Hp. destruct (Nat.eq_dec t u) as [<-|Hneq].
        * rewrite nth_set_same in Hu by exact Hlt. injection Hu as <-. discriminate.
        * rewrite nth_set_other in Hu by exact Hneq. exact (inv_read _ _ I u thu f x Hu Hp).
      + exact (inv_cell _ _ I).
      + exact (inv_legal _ _ I).
    - (* SelfLocked *)
      injection Hs as <-. constructor; simpl; unfold upd.
      + intros u thu Hu. destruct (Nat.eq_dec t u) as [<-|Hneq].
        * rewrite nth_set_same in Hu by exact Hlt. injection Hu as <-. simpl. rewrite <- Hw. simpl. tauto.
        * rewrite nth_set_other in Hu by exact Hneq. exact (inv_w _ _ I u thu Hu).
      + intros u Hu. rewrite length_set_nth. exact (inv_w_dom _ _ I u Hu).
      + intros u thu Hu. destruct (Nat.eq_dec t u) as [<-|Hneq].
        * rewrite nth_set_same in Hu by exact Hlt. injection Hu as <-. simpl. rewrite <- Hr. simpl. tauto.
        * rewrite nth_set_other in Hu by exact Hneq. exact (inv_r _ _ I u thu Hu).
      + intros u Hu. rewrite length_set_nth. exact (inv_r_dom _ _ I u Hu).
      + exact (inv_excl _ _ I).
      + exact (inv_nodup _ _ I).
      + intros u thu f' x Hu Hp. destruct (Nat.eq_dec t u) as [<-|Hneq].
        * rewrite nth_set_same in Hu by exact Hlt. injection Hu as <-. discriminate.
        * rewrite nth_set_other in Hu by exact Hneq. exact (inv_read _ _ I u thu f' x Hu Hp).
      + exact (inv_cell _ _ I).
      + exact (inv_legal _ _ I).
    - (* SelfRead: cannot move while the write lock is held (by itself) *)
      destruct (wlock V s); [discriminate|]. injection Hs as <-. exact I.
  Qed.

  Theorem run_inv v0 sched : forall s, Inv v0 s -> Inv v0 (run V s sched).
  Proof.
    induction sched as [|t r IH]; intros s I; simpl; [exact I|].
    destruct (step V s t) as [s'|] eqn:E; [apply IH; eapply step_inv; eauto | apply IH; exact I].
  Qed.

  (** ---- the statements of C09 ---- *)

  (** Linearizability: under EVERY schedule the value of the atom is the replay of the history of
      linearisation points, and every reported result is the one the sequential atom gives at that
      point.  The linearisation point of an operation is one of its own steps, hence lies between
      its invocation and its response: the order is consistent with real time. *)
  Theorem atom_linearizable v0 progs sched :
    let s := run V (init V v0 progs) sched in
    cell V s = replay V v0 (hist V s) /\ legal v0 (hist V s).
  Proof.
    intros s. pose proof (run_inv v0 sched _ (init_inv v0 progs)) as I. split; [exact (inv_cell _ _ I) | exact (inv_legal _ _ I)].
  Qed.

  (** mutual exclusion: a writer excludes every other thread from the critical sections *)
  Theorem atom_exclusion v0 progs sched t u tht thu :
    let s := run V (init V v0 progs) sched in
    nth_error (threads V s) t = Some tht -> nth_error (threads V s) u = Some thu ->
    wcrit (tpc V tht) = true -> (wcrit (tpc V thu) = true \/ rcrit (tpc V thu) = true) -> t = u.
  Proof.
    intros s Ht Hu Hwt Hcu. pose proof (run_inv v0 sched _ (init_inv v0 progs)) as I. fold s in I.
    pose proof (proj1 (inv_w _ _ I t tht Ht) Hwt) as Wt.
    destruct Hcu as [Hwu|Hru].
    - pose proof (proj1 (inv_w _ _ I u thu Hu) Hwu) as Wu. congruence.
    - pose proof (proj1 (inv_r _ _ I u thu Hu) Hru) as Ru.
      assert (wlock V s <> None) as Hne by congruence. rewrite (inv_excl _ _ I Hne) in Ru. destruct Ru.
  Qed.

  (** usable: whenever every thread is between operations the lock is free *)
  Definition all_idle (s : cstate) : Prop := forall t th, nth_error (threads V s) t = Some th -> tpc V th = Idle V.

  Theorem atom_quiescent_unlocked v0 progs sched :
    let s := run V (init V v0 progs) sched in
    all_idle s -> wlock V s = None /\ rlocks V s = [].
  Proof.
    intros s Hidle. pose proof (run_inv v0 sched _ (init_inv v0 progs)) as I. fold s in I. split.
    - destruct (wlock V s) as [t|] eqn:Hw; [|reflexivity].
      pose proof (inv_w_dom _ _ I t Hw) as Hlt. destruct (nth_error (threads V s) t) as [th|] eqn:Ht.
      + pose proof (proj2 (inv_w _ _ I t th Ht) Hw) as Hc. rewrite (Hidle t th Ht) in Hc. discriminate.
      + apply nth_error_None in Ht. lia.
    - destruct (rlocks V s) as [|t l] eqn:Hr; [reflexivity|].
      assert (In t (rlocks V s)) as Hin by (rewrite Hr; left; reflexivity).
      pose proof (inv_r_dom _ _ I t Hin) as Hlt. destruct (nth_error (threads V s) t) as [th|] eqn:Ht.
      + pose proof (proj2 (inv_r _ _ I t th Ht) Hin) as Hc. rewrite (Hidle t th Ht) in Hc. discriminate.
      + apply nth_error_None in Ht. lia.
  Qed.

  (** no hang: unless some update function re-locks the atom it is swapping, a thread that still
      has something to do can always be found that is able to move *)
  Definition no_self (s : cstate) : Prop :=
    forall t th, nth_error (threads V s) t = Some th ->
      (forall f, tpc V th <> SelfLocked V f) /\ (forall f x, tpc V th <> SelfRead V f x) /\
      (forall f, ~ In (OpSwapSelfDeref V f) (todo V th)).

  Definition unfinished (th : thread) : Prop := tpc V th <> Idle V \/ todo V th <> [].

  Lemma mid_or_idle_list (l : list thread) :
    (exists u thu, nth_error l u = Some thu /\ tpc V thu <> Idle V) \/
    (forall t th, nth_error l t = Some th -> tpc V th = Idle V).
  Proof.
    induction l as [|th l IH].
    - right. intros [|t] th H; discriminate.
    - destruct (tpc V th) eqn:Hp;
        try (left; exists 0, th; split; [reflexivity | rewrite Hp; discriminate]).
      destruct IH as [(u & thu & Hu & Hne)|Hall].
      + left. exists (S u), thu. split; assumption.
      + right. intros [|t] th' H; simpl in H; [injection H as <-; exact Hp | eapply Hall; eauto].
  Qed.
  Lemma classic_mid (s : cstate) :
    (exists u thu, nth_error (threads V s) u = Some thu /\ tpc V thu <> Idle V) \/ all_idle s.
  Proof. apply mid_or_idle_list. Qed.

  Theorem atom_deadlock_free v0 s :
    Inv v0 s -> no_self s ->
    (exists t th, nth_error (threads V s) t = Some th /\ unfinished th) ->
    exists t s', step V s t = Some s'.
  Proof.
    intros I Hns (t & th & Ht & Hun).
    (* is some thread inside an operation? *)
    destruct (classic_mid s) as [(u & thu & Hu & Hmid)|Hall].
    - exists u. unfold step. rewrite Hu. destruct (Hns u thu Hu) as (N1 & N2 & _).
      destruct (tpc V thu) eqn:Hp; try (eexists; reflexivity); try contradiction.
      + destruct (f x); eexists; reflexivity.
      + exfalso. eapply N2; reflexivity.
    - (* everybody idle: the lock is free *)
      assert (wlock V s = None /\ rlocks V s = []) as [Hw Hr].
      { split.
        - destruct (wlock V s) as [w|] eqn:Hw; [|reflexivity].
          pose proof (inv_w_dom _ _ I w Hw) as Hlt. destruct (nth_error (threads V s) w) as [thw|] eqn:Htw.
          + pose proof (proj2 (inv_w _ _ I w thw Htw) Hw) as Hc. rewrite (Hall w thw Htw) in Hc. discriminate.
          + apply nth_error_None in Htw. lia.
        - destruct (rlocks V s) as [|r l] eqn:Hr; [reflexivity|].
          assert (In r (rlocks V s)) as Hin by (rewrite Hr; left; reflexivity).
          pose proof (inv_r_dom _ _ I r Hin) as Hlt. destruct (nth_error (threads V s) r) as [thr|] eqn:Htr.
          + pose proof (proj2 (inv_r _ _ I r thr Htr) Hin) as Hc. rewrite (Hall r thr Htr) in Hc. discriminate.
          + apply nth_error_None in Htr. lia. }
      exists t. unfold step. rewrite Ht, (Hall t th Ht), Hw, Hr.
      destruct Hun as [Hc|Hc]; [rewrite (Hall t th Ht) in Hc; congruence|].
      destruct (todo V th) as [|[|v|f|f] r]; [congruence| | | |]; eexists; reflexivity.
  Qed.

  (** ---- the history is the history OF THE OPERATIONS THE THREADS ISSUED ----
      per thread: the events carrying its id are, in program order, the operations it has taken
      past their linearisation point, and the results it has been handed are the results those
      events record. *)
  Definition ev_tid (e : event) : nat := match e with EDeref _ t _ | EReset _ t _ | ESwap _ t _ _ => t end.
  Definition ev_ret (e : event) : ret V :=
    match e with EDeref _ _ x => RVal V x | EReset _ _ v => RVal V v | ESwap _ _ _ r => r end.
  Definition ev_op (e : event) : aop V :=
    match e with EDeref _ _ _ => OpDeref V | EReset _ _ v => OpReset V v | ESwap _ _ f _ => OpSwap V f end.
  Definition evs (t : nat) (h : list event) : list event := filter (fun e => Nat.eqb (ev_tid e) t) h.

  (** result of the operation in flight, once it is past its linearisation point *)
  Definition pend (p : pc) : list (ret V) :=
    match p with
    | DerefRead _ v | ResetWritten _ v | SwapWritten _ v => [RVal V v]
    | SwapFailed _ => [RErr V]
    | _ => []
    end.
  (** the operation in flight, while it is before its linearisation point *)
  Definition before (p : pc) : list (aop V) :=
    match p with
    | DerefLocked _ => [OpDeref V]
    | ResetLocked _ v => [OpReset V v]
    | SwapLocked _ f | SwapRead _ f _ => [OpSwap V f]
    | SelfLocked _ f | SelfRead _ f _ => [OpSwapSelfDeref V f]
    | _ => []
    end.

  Definition Inv2 (progs : list (list (aop V))) (s : cstate) : Prop :=
    forall t th, nth_error (threads V s) t = Some th ->
      map ev_ret (evs t (hist V s)) = pend (tpc V th) ++ results V th /\
      (exists p, nth_error progs t = Some p /\
                 rev (map ev_op (evs t (hist V s))) ++ before (tpc V th) ++ todo V th = p).

  Lemma init_inv2 v0 progs : Inv2 progs (init V v0 progs).
  Proof.
    intros t th H. simpl in H. rewrite nth_error_map in H.
    destruct (nth_error progs t) as [p|] eqn:E; [|discriminate]. injection H as <-. simpl.
    split; [reflexivity | exists p; split; reflexivity].
  Qed.

  Lemma evs_cons_same t e h : ev_tid e = t -> evs t (e :: h) = e :: evs t h.
  Proof. intros <-. unfold evs. simpl. rewrite Nat.eqb_refl. reflexivity. Qed.
  Lemma evs_cons_other t e h : ev_tid e <> t -> evs t (e :: h) = evs t h.
  Proof. intros H. unfold evs. simpl. apply Nat.eqb_neq in H. rewrite H. reflexivity. Qed.

  Arguments evs : simpl never.

  Lemma step_inv2 progs s t s' : Inv2 progs s -> step V s t = Some s' -> Inv2 progs s'.
  Proof.
    intros I Hs u thu Hu. unfold step in Hs.
    destruct (nth_error (threads V s) t) as [th|] eqn:Ht; [|discriminate].
    pose proof (nth_some_lt _ _ _ Ht) as Hlt.
    destruct (I t th Ht) as (R & p & Hp & P).
    assert (forall h' ths', (forall e, h' = e :: hist V s -> ev_tid e = t) -> (h' = hist V s \/ exists e, h' = e :: hist V s) ->
            t <> u -> nth_error (set_nth (threads V s) t ths') u = Some thu ->
            map ev_ret (evs u h') = pend (tpc V thu) ++ results V thu /\
            (exists p, nth_error progs u = Some p /\ rev (map ev_op (evs u h')) ++ before (tpc V thu) ++ todo V thu = p)) as Other.
    { intros h' ths' Htid Hh Hne Hnth. rewrite nth_set_other in Hnth by exact Hne.
      destruct Hh as [->|[e ->]]; [exact (I u thu Hnth)|].
      rewrite evs_cons_other by (rewrite (Htid e eq_refl); exact Hne). exact (I u thu Hnth). }
    destruct (tpc V th) eqn:Hpc; simpl in R, P.
    - destruct (todo V th) as [|[|v|f|f] r] eqn:Htodo; [discriminate| | | |].
      + destruct (wlock V s); [discriminate|]. injection Hs as <-. simpl in *. unfold upd in Hu.
        destruct (Nat.eq_dec t u) as [<-|Hne]; [|eapply Other; [intros e He; exfalso; eapply (list_cons_neq _ _ He) | left; reflexivity | exact Hne | exact Hu]].
        rewrite nth_set_same in Hu by exact Hlt. injection Hu as <-. simpl. split; [exact R | exists p; split; [exact Hp | exact P]].
      + destruct (wlock V s); [discriminate|]. destruct (rlocks V s); [|discriminate]. injection Hs as <-. simpl in *. unfold upd in Hu.
        destruct (Nat.eq_dec t u) as [<-|Hne]; [|eapply Other; [intros e He; exfalso; eapply (list_cons_neq _ _ He) | left; reflexivity | exact Hne | exact Hu]].
        rewrite nth_set_same in Hu by exact Hlt. injection Hu as <-. simpl. split; [exact R | exists p; split; [exact Hp | exact P]].
      + destruct (wlock V s); [discriminate|]. destruct (rlocks V s); [|discriminate]. injection Hs as <-. simpl in *. unfold upd in Hu.
        destruct (Nat.eq_dec t u) as [<-|Hne]; [|eapply Other; [intros e He; exfalso; eapply (list_cons_neq _ _ He) | left; reflexivity | exact Hne | exact Hu]].
        rewrite nth_set_same in Hu by exact Hlt. injection Hu as <-. simpl. split; [exact R | exists p; split; [exact Hp | exact P]].
      + destruct (wlock V s); [discriminate|]. destruct (rlocks V s); [|discriminate]. injection Hs as <-. simpl in *. unfold upd in Hu.
        destruct (Nat.eq_dec t u) as [<-|Hne]; [|eapply Other; [intros e He; exfalso; eapply (list_cons_neq _ _ He) | left; reflexivity | exact Hne | exact Hu]].
        rewrite nth_set_same in Hu by exact Hlt. injection Hu as <-. simpl. split; [exact R | exists p; split; [exact Hp | exact P]].
    - injection Hs as <-. simpl in *. unfold upd in Hu.
      destruct (Nat.eq_dec t u) as [<-|Hne]; [|eapply Other; [intros e [= <-]; reflexivity | right; eexists; reflexivity | exact Hne | exact Hu]].
      rewrite nth_set_same in Hu by exact Hlt. injection Hu as <-. rewrite evs_cons_same by reflexivity. simpl.
      split; [rewrite R; reflexivity | exists p; split; [exact Hp|]]. rewrite <- P, <- app_assoc. reflexivity.
    - injection Hs as <-. simpl in *. unfold upd in Hu.
      destruct (Nat.eq_dec t u) as [<-|Hne]; [|eapply Other; [intros e He; exfalso; eapply (list_cons_neq _ _ He) | left; reflexivity | exact Hne | exact Hu]].
      rewrite nth_set_same in Hu by exact Hlt. injection Hu as <-. simpl. split; [exact R | exists p; split; [exact Hp | exact P]].
    - injection Hs as <-. simpl in *. unfold upd in Hu.
      destruct (Nat.eq_dec t u) as [<-|Hne]; [|eapply Other; [intros e [= <-]; reflexivity | right; eexists; reflexivity | exact Hne | exact Hu]].
      rewrite nth_set_same in Hu by exact Hlt. injection Hu as <-. rewrite evs_cons_same by reflexivity. simpl.
      split; [rewrite R; reflexivity | exists p; split; [exact Hp|]]. rewrite <- P, <- app_assoc. reflexivity.
    - injection Hs as <-. simpl in *. unfold upd in Hu.
      destruct (Nat.eq_dec t u) as [<-|Hne]; [|eapply Other; [intros e He; exfalso; eapply (list_cons_neq _ _ He) | left; reflexivity | exact Hne | exact Hu]].
      rewrite nth_set_same in Hu by exact Hlt. injection Hu as <-. simpl. split; [exact R | exists p; split; [exact Hp | exact P]].
    - injection Hs as <-. simpl in *. unfold upd in Hu.
      destruct (Nat.eq_dec t u) as [<-|Hne]; [|eapply Other; [intros e He; exfalso; eapply (list_cons_neq _ _ He) | left; reflexivity | exact Hne | exact Hu]].
      rewrite nth_set_same in Hu by exact Hlt. injection Hu as <-. simpl. split; [exact R | exists p; split; [exact Hp | exact P]].
    - destruct (f x) as [r|] eqn:Hfx; injection Hs as <-; simpl in *; unfold upd in Hu.
      + destruct (Nat.eq_dec t u) as [<-|Hne]; [|eapply Other; [intros e [= <-]; reflexivity | right; eexists; reflexivity | exact Hne | exact Hu]].
        rewrite nth_set_same in Hu by exact Hlt. injection Hu as <-. rewrite evs_cons_same by reflexivity. simpl.
        split; [rewrite R; reflexivity | exists p; split; [exact Hp|]]. rewrite <- P, <- app_assoc. reflexivity.
      + destruct (Nat.eq_dec t u) as [<-|Hne]; [|eapply Other; [intros e [= <-]; reflexivity | right; eexists; reflexivity | exact Hne | exact Hu]].
        rewrite nth_set_same in Hu by exact Hlt. injection Hu as <-. rewrite evs_cons_same by reflexivity. simpl.
        split; [rewrite R; reflexivity | exists p; split; [exact Hp|]]. rewrite <- P, <- app_assoc. reflexivity.
    - injection Hs as <-. simpl in *. unfold upd in Hu.
      destruct (Nat.eq_dec t u) as [<-|Hne]; [|eapply Other; [intros e He; exfalso; eapply (list_cons_neq _ _ He) | left; reflexivity | exact Hne | exact Hu]].
      rewrite nth_set_same in Hu by exact Hlt. injection Hu as <-. simpl. split; [exact R | exists p; split; [exact Hp | exact P]].
    - injection Hs as <-. simpl in *. unfold upd in Hu.
      destruct (Nat.eq_dec t u) as [<-|Hne]; [|eapply Other; [intros e He; exfalso; eapply (list_cons_neq _ _ He) | left; reflexivity | exact Hne | exact Hu]].
      rewrite nth_set_same in Hu by exact Hlt. injection Hu as <-. simpl. split; [exact R | exists p; split; [exact Hp | exact P]].
    - injection Hs as <-. simpl in *. unfold upd in Hu.
      destruct (Nat.eq_dec t u) as [<-|Hne]; [|eapply Other; [intros e He; exfalso; eapply (list_cons_neq _ _ He) | left; reflexivity | exact Hne | exact Hu]].
      rewrite nth_set_same in Hu by exact Hlt. injection Hu as <-. simpl. split; [exact R | exists p; split; [exact Hp | exact P]].
    - destruct (wlock V s); [discriminate|]. injection Hs as <-. exact (I u thu Hu).
  Qed.

  Theorem run_inv2 progs sched : forall s, Inv2 progs s -> Inv2 progs (run V s sched).
  Proof.
    induction sched as [|t r IH]; intros s I; simpl; [exact I|].
    destruct (step V s t) as [s'|] eqn:E; [apply IH; eapply step_inv2; eauto | apply IH; exact I].
  Qed.

  (** when a thread has finished, the results it was handed are, in program order, the results of
      the sequential atom at the linearisation points of exactly its own operations *)
  Theorem atom_results_are_history v0 progs sched t th :
    let s := run V (init V v0 progs) sched in
    nth_error (threads V s) t = Some th -> tpc V th = Idle V -> todo V th = [] ->
    map ev_ret (evs t (hist V s)) = results V th /\
    nth_error progs t = Some (rev (map ev_op (evs t (hist V s)))).
  Proof.
    intros s Ht Hp Hd. destruct (run_inv2 progs sched _ (init_inv2 v0 progs) t th Ht) as (R & p & Hpp & P).
    fold s in R, P. rewrite Hp in R, P. rewrite Hd in P. simpl in R, P. rewrite app_nil_r in P. split; [exact R | rewrite Hpp, P; reflexivity].
  Qed.
End Proofs.
