#!/usr/bin/env python3
"""confirm_seed.py <src dir with patch.diff + demo_test.go> <seed id> <property>
Confirms in a scratch worktree of /repo (removed afterwards) that the seeded change
 (1) applies, compiles, (2) passes the pinned baseline, (3) makes the demonstration fail,
 while on the clean tree the demonstration passes; then stores it under /verif/seeded/<id>/."""
import json, os, re, shutil, subprocess, sys, tempfile
src, sid, prop = sys.argv[1], sys.argv[2], sys.argv[3]
ENV = dict(os.environ, GOFLAGS="-mod=mod", GOPROXY="off", GOSUMDB="off", GOTOOLCHAIN="local")
def sh(cmd, cwd=None):
    p = subprocess.run(cmd, cwd=cwd, env=ENV, capture_output=True, text=True, shell=isinstance(cmd, str))
    return p.returncode, (p.stdout + p.stderr)
demo = open(os.path.join(src, "demo_test.go")).read()
pkg = re.search(r"^package\s+(\w+)", demo, re.M).group(1)
target = {"example": "example", "lisp": ".", "lisp_test": ".", "call": "lib/call", "call_test": "lib/call", "reader": "reader", "reader_test": "reader", "repl_test": "repl", "env_test": "env", "core_test": "lib/core", "repl": "repl", "core": "lib/core", "env": "env", "concurrent": "lib/concurrent", "concurrent_test": "lib/concurrent"}[pkg]
wt = tempfile.mkdtemp(prefix="seedwt_", dir="/tmp")
os.rmdir(wt)
rc, out = sh(["git", "-C", "/repo", "worktree", "add", "--detach", wt, "HEAD"])
assert rc == 0, out
res = {}
try:
    shutil.copy(os.path.join(src, "demo_test.go"), os.path.join(wt, target, "zz_demo_test.go"))
    run = "go test -vet=off -count=1 -run 'TestC[0-9]+|TestDemo' ./%s" % target
    rc, out = sh(run, cwd=wt); res["clean_demo_passes"] = rc == 0; res["clean_demo_out"] = out[-600:]
    os.remove(os.path.join(wt, target, "zz_demo_test.go"))
    rc, out = sh(["python3", "/verif/bin/baseline.py", wt]); res["clean_baseline"] = rc == 0
    rc, out = sh(["git", "apply", os.path.join(os.path.abspath(src), "patch.diff")], cwd=wt); res["applies"] = rc == 0
    rc, out = sh("go build ./...", cwd=wt); res["compiles"] = rc == 0
    rc, out = sh(["python3", "/verif/bin/baseline.py", wt]); res["mutated_baseline"] = rc == 0
    shutil.copy(os.path.join(src, "demo_test.go"), os.path.join(wt, target, "zz_demo_test.go"))
    rc, out = sh(run, cwd=wt); res["mutated_demo_fails"] = rc != 0; res["mutated_demo_out"] = out[-900:]
finally:
    sh(["git", "-C", "/repo", "worktree", "remove", "--force", wt])
ok = all(res[k] for k in ("clean_demo_passes", "clean_baseline", "applies", "compiles", "mutated_baseline", "mutated_demo_fails"))
print(json.dumps({k: v for k, v in res.items() if not k.endswith("_out")}), "OK" if ok else "REJECTED")
if ok:
    dst = os.path.join("/verif/seeded", sid)
    os.makedirs(dst, exist_ok=True)
    shutil.copy(os.path.join(src, "patch.diff"), dst)
    shutil.copy(os.path.join(src, "demo_test.go"), dst)
    notes = open(os.path.join(src, "notes.md")).read() if os.path.exists(os.path.join(src, "notes.md")) else ""
    open(os.path.join(dst, "notes.md"), "w").write(notes)
    meta = {"id": sid, "breaks_property": prop, "demo": "copy demo_test.go into %s/ of the repository and run: %s" % (target, run),
            "needs_to_manifest": "see notes.md (written by the independent sub-agent that produced the change)",
            "confirmed": {k: v for k, v in res.items() if not k.endswith("_out")},
            "confirmed_how": "bin/confirm_seed.py in a scratch git worktree of /repo HEAD (removed afterwards): clean tree = baseline 48/48 + demo passes; with patch = compiles, baseline 48/48, demo fails",
            "mutated_demo_output_tail": res["mutated_demo_out"][-400:]}
    json.dump(meta, open(os.path.join(dst, "meta.json"), "w"), indent=1)
sys.exit(0 if ok else 1)
