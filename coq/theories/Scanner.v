(** github.com/jig/scanner v1.2.0 (Scan in its default mode LispTokens) and reader.tokenize,
    transcribed as pure functions over the list of runes that remain to be read: the head of
    the list is the scanner's lookahead [ch], [] is EOF, [next] is [tl].  The text of a token
    is the prefix consumed; its line is the line of the lookahead after it (what s.Pos()
    reports when tokenize looks at it).
    Modelled, not verified: the 1024-byte buffer refill and tokBuf splicing (the model scans
    an in-memory rune list); columns and byte offsets (only lines are modelled).
    Runes are code points; an invalid UTF-8 byte b is 1114112 + b (the harness decodes).
    Definitions only. *)
From Lisp Require Export Base.
From Lisp.Gen Require Import Unicode.
Local Open Scope N_scope.

(** token kinds: the scanner's negative constants, or the rune itself *)
Inductive tkind := KIdent | KInt | KFloat | KString | KKeyword | KRawString | KChar (c : N).

Record token := mkTok { tkind_of : tkind; ttext : str; tline : Z }.

Fixpoint in_ranges (c : N) (rs : list (N * N)) : bool :=
  match rs with
  | [] => false
  | (lo, hi) :: r => (N.leb lo c && N.leb c hi) || in_ranges c r
  end.
(** unicode.IsLetter / unicode.IsDigit: Go's tables (Gen/Unicode.v), with an ASCII fast path
    (justified against the tables by ScannerProofs.fast_path_agrees) *)
Definition is_letter (c : N) : bool :=
  if N.ltb c 170 then (N.leb 65 c && N.leb c 90) || (N.leb 97 c && N.leb c 122) else in_ranges c letter_ranges.
Definition is_udigit (c : N) : bool :=
  if N.ltb c 1632 then N.leb 48 c && N.leb c 57 else in_ranges c digit_ranges.

Definition BAD0 : N := 1114112.
Definition is_bad (c : N) : bool := N.leb BAD0 c.
(** what next() hands to the scanning logic: utf8.RuneError for an invalid byte *)
Definition norm (c : N) : N := if is_bad c then 65533 else c.
(** next() raises the error count on NUL and on invalid UTF-8 *)
Definition rune_error (c : N) : bool := N.eqb c 0 || is_bad c.

Definition isDecimal (c : N) : bool := N.leb 48 c && N.leb c 57.
Definition lowerc (c : N) : N := N.lor 32 c.
Definition isHex (c : N) : bool := isDecimal c || (N.leb 97 (lowerc c) && N.leb (lowerc c) 102 && N.ltb c 128).

Definition is_ident_sym (c : N) : bool :=
  existsb (N.eqb c) [95; 36; 42; 43; 47; 63; 33; 60; 62; 61].   (* _ $ * + / ? ! < > = *)

(** Scanner.isIdentRune(ch, i): [later] is i > 0 *)
Definition isIdentRune (later : bool) (c0 : N) : bool :=
  let c := norm c0 in
  is_ident_sym c || is_letter c || (later && (N.eqb c 45 || is_udigit c)).

Definition is_ws (c : N) : bool := N.eqb c 9 || N.eqb c 10 || N.eqb c 13 || N.eqb c 32.

Fixpoint drop_while (p : N -> bool) (l : str) : str :=
  match l with
  | c :: r => if p c then drop_while p r else l
  | [] => []
  end.

(** scanIdentifier: consumes the current rune unconditionally, then identifier runes *)
Definition scan_identifier (l : str) : str :=
  match l with
  | _ :: r => drop_while (isIdentRune true) r
  | [] => []
  end.

(** digits(ch0, base, &invalid): returns (rest, digsep, invalid) *)
Fixpoint digits (base : N) (l : str) (digsep : N) (invalid : N) : str * N * N :=
  match l with
  | c :: r =>
      if N.leb base 10 then
        if isDecimal c || N.eqb c 95 then
          let ds := if N.eqb c 95 then 2 else 1 in
          let invalid' := if negb (N.eqb c 95) && N.leb (48 + base) c && N.eqb invalid 0 then c else invalid in
          digits base r (N.lor digsep ds) invalid'
        else (l, digsep, invalid)
      else
        if isHex c || N.eqb c 95 then digits base r (N.lor digsep (if N.eqb c 95 then 2 else 1)) invalid
        else (l, digsep, invalid)
  | [] => ([], digsep, invalid)
  end.

(** invalidSep(x) >= 0 *)
Definition invalid_sep (x : str) : bool :=
  let '(x1, d0, body) :=
    match x with
    | 48 :: c :: r =>
        let lc := lowerc c in
        if (N.eqb lc 120 || N.eqb lc 111 || N.eqb lc 98) && N.ltb c 128 then (lc, 48, r) else (32, 46, x)
    | _ => (32, 46, x)
    end in
  (fix go (d : N) (l : str) : bool :=
     match l with
     | [] => N.eqb d 95
     | c :: r =>
         if N.eqb c 95 then (if N.eqb d 48 then go 95 r else true)
         else if isDecimal c || (N.eqb x1 120 && isHex c) then go 48 r
         else (if N.eqb d 95 then true else go 46 r)
     end) d0 body.

Definition head_is (l : str) (c : N) : bool := match l with x :: _ => N.eqb x c | [] => false end.
Definition head_lower_is (l : str) (c : N) : bool :=
  match l with x :: _ => N.eqb (lowerc x) c && N.ltb x 128 | [] => false end.

(** the text consumed between two suffixes of the same list *)
Definition consumed (l rest : str) : str := firstn (length l - length rest) l.

(** scanNumber(ch, seenDot, negative), in four stages.  [tok0] is the token start (for
    invalidSep's TokenText); the result is (kind, rest, error?) *)
Definition num_prefix (l : str) (seenDot : bool) : N * N * N * str :=     (* base, prefix, digsep, rest *)
  if seenDot then (10, 0, 0, l)
  else if head_is l 48 then
    let r := tl l in
    if head_lower_is r 120 then (16, 120, 0, tl r)
    else if head_lower_is r 111 then (8, 111, 0, tl r)
    else if head_lower_is r 98 then (2, 98, 0, tl r)
    else (8, 48, 1, r)
  else (10, 0, 0, l).

Definition num_int (base digsep0 : N) (l1 : str) (seenDot : bool) : str * N * N * bool :=   (* rest, digsep, invalid, seenDot *)
  if seenDot then (l1, digsep0, 0, true)
  else
    let '(r, ds, inv) := digits base l1 digsep0 0 in
    if head_is r 46 then (tl r, ds, inv, true) else (r, ds, inv, false).

Definition num_frac (base : N) (l2 : str) (digsep1 invalid1 : N) (seenDot1 : bool) : str * N * N :=
  if seenDot1 then digits base l2 digsep1 invalid1 else (l2, digsep1, invalid1).

Definition num_exp (l3 : str) : str * N * bool :=        (* rest, digit/separator flags of the exponent, exponent seen *)
  if head_lower_is l3 101 || head_lower_is l3 112 then
    let r := tl l3 in
    let r := if head_is r 43 || head_is r 45 then tl r else r in
    let '(r', ds, _) := digits 10 r 0 0 in (r', ds, true)
  else (l3, 0, false).

Definition scan_number (tok0 : str) (l : str) (seenDot negative : bool) : tkind * str * bool :=
  let '(base, prefix, digsep0, l1) := num_prefix l seenDot in
  let '(l2, digsep1, invalid1, seenDot1) := num_int base digsep0 l1 seenDot in
  let '(l3, digsep2, invalid2) := num_frac base l2 digsep1 invalid1 seenDot1 in
  let is_float := seenDot1 in
  let err1 := is_float && (N.eqb prefix 111 || N.eqb prefix 98) in
  let nodigits := N.eqb (N.land digsep2 1) 0 in
  let err2 := nodigits && negb negative in
  let '(l4, dsE, has_exp) := num_exp l3 in
  let e_is_e := head_lower_is l3 101 in
  let err3 :=
    if has_exp then
      (e_is_e && negb (N.eqb prefix 0) && negb (N.eqb prefix 48)) || (negb e_is_e && negb (N.eqb prefix 120))
      || N.eqb (N.land dsE 1) 0
    else N.eqb prefix 120 && is_float && negb (nodigits && negative) in
  let kind :=
    if has_exp then KFloat
    else if nodigits && negative then KChar 45
    else if is_float then KFloat else KInt in
  let err4 := match kind with KInt => negb (N.eqb invalid2 0) | _ => false end in
  let digsep3 := N.lor digsep2 dsE in
  let err5 := if N.eqb (N.land digsep3 2) 0 then false else invalid_sep (consumed tok0 l4) in
  (kind, l4, err1 || err2 || err3 || err4 || err5).

Definition digit_val (c : N) : N :=
  if isDecimal c then c - 48
  else if N.leb 97 (lowerc c) && N.leb (lowerc c) 102 && N.ltb c 128 then lowerc c - 97 + 10 else 16.

(** scanDigits(ch, base, n) *)
Fixpoint scan_digits (l : str) (base : N) (n : nat) {struct n} : str * bool :=
  match n with
  | O => (l, false)
  | S n' =>
      match l with
      | c :: r => if N.ltb (digit_val c) base then scan_digits r base n' else (l, true)
      | [] => ([], true)
      end
  end.

(** scanEscape(quote): [l] starts AFTER the backslash's successor was requested, i.e. l = the rune after '\' *)
Definition scan_escape (l : str) : str * bool :=
  match l with
  | [] => ([], true)
  | c :: r =>
      if existsb (N.eqb c) [97; 98; 102; 110; 114; 116; 118; 92; 34] then (r, false)
      else if N.leb 48 c && N.leb c 55 then scan_digits l 8 3
      else if N.eqb c 120 then scan_digits r 16 2
      else if N.eqb c 117 then scan_digits r 16 4
      else if N.eqb c 85 then scan_digits r 16 8
      else (l, true)
  end.

(** scanString('''') followed by the `ch = s.next()` of Scan: [l] starts after the opening quote;
    returns (rest after the closing quote, error?) *)
Fixpoint scan_string (fuel : nat) (l : str) (err : bool) : str * bool :=
  match fuel with
  | O => (l, true)
  | S fuel' =>
      match l with
      | [] => ([], true)                                   (* literal not terminated; next() at EOF stays EOF *)
      | c :: r =>
          if N.eqb c 34 then (r, err)
          else if N.eqb c 10 then (r, true)                 (* not terminated; Scan then reads one more rune *)
          else if N.eqb c 92 then let '(r', e) := scan_escape r in scan_string fuel' r' (err || e)
          else scan_string fuel' r err
      end
  end.


(** scanRawString: [l] starts after the opening ¬; returns (rest, error?).  On an unterminated
    literal Go returns ch = 0: the error is raised, the rest does not matter (tokenize aborts). *)
Fixpoint scan_raw (l : str) : str * bool :=
  match l with
  | [] => ([], true)
  | c :: r =>
      if N.eqb c RAWQ then
        match r with
        | c2 :: r2 => if N.eqb c2 RAWQ then scan_raw r2 else (r, false)
        | [] => ([], false)
        end
      else scan_raw r
  end.

(** white space and comments before a token (the `redo` loop) *)
Fixpoint skip_blank (fuel : nat) (l : str) : str :=
  match fuel with
  | O => l
  | S fuel' =>
      match l with
      | c :: r =>
          if is_ws c then skip_blank fuel' r
          else if N.eqb c 59 then skip_blank fuel' (drop_while (fun x => negb (N.eqb x 10)) r)
          else l
      | [] => []
      end
  end.

(** one Scan(), the lookahead being the head of [l] (blanks already skipped, l <> []):
    returns (kind, rest, lexical error?) *)
Definition scan_token (l : str) : tkind * str * bool :=
  match l with
  | [] => (KChar 0, [], false)
  | c0 :: r =>
      let c := norm c0 in
      if isIdentRune false c0 then (KIdent, scan_identifier l, false)
      else if isDecimal c then scan_number l l false false
      else if N.eqb c 45 then
        match r with
        | d :: _ =>
            if isIdentRune false d then (KIdent, scan_identifier r, false)
            else if isDecimal (norm d) then scan_number l r false true
            else (KIdent, r, false)
        | [] => (KIdent, [], false)
        end
      else if N.eqb c 34 then let '(r', e) := scan_string (S (length r)) r false in (KString, r', e)
      else if N.eqb c 58 then (KKeyword, scan_identifier l, false)
      else if N.eqb c 46 then
        (if match r with d :: _ => isDecimal (norm d) | [] => false end then scan_number l r true false else (KChar 46, r, false))
      else if N.eqb c RAWQ then let '(r', e) := scan_raw r in (KRawString, r', e)
      else if N.eqb c 126 then (if head_is r 64 then (KIdent, tl r, false) else (KChar 126, r, false))
      else if N.eqb c 35 then (if head_is r 123 then (KIdent, tl r, false) else (KChar 35, r, false))
      else (KChar c, r, false)
  end.

Definition count_nl (l : str) : Z := Z.of_nat (length (filter (N.eqb 10) l)).

(** reader.tokenize.  [whole] is the complete input (for line numbers). After each non-EOF
    token tokenize looks at the error count, which next() raises for NUL / invalid UTF-8 in
    every rune read so far — the lookahead after the token included. *)
Fixpoint tokenize_n (fuel : nat) (whole : str) (l : str) (seen_bad : bool) : option (list token) :=
  match fuel with
  | O => Some []
  | S fuel' =>
      let l1 := skip_blank (S (length l)) l in
      let skipped := consumed l l1 in
      match l1 with
      | [] => Some []                                   (* EOF: the error count is not looked at *)
      | _ :: _ =>
          let '(k, rest, lexerr) := scan_token l1 in
          let text := consumed l1 rest in
          let look := match rest with c :: _ => rune_error c | [] => false end in
          let bad := seen_bad || existsb rune_error skipped || existsb rune_error text || look in
          if bad || lexerr then None
          else
            let idx := (length whole - length rest)%nat in
            let line := 1 + count_nl (firstn idx whole) in
            match tokenize_n fuel' whole rest false with
            | Some ts => Some (mkTok k text line :: ts)
            | None => None
            end
      end
  end%Z.

Definition BOM : N := 65279.

Definition tokenize (input : str) : option (list token) :=
  let l := match input with c :: r => if N.eqb c BOM then r else input | [] => [] end in
  let bom_bad := false in
  tokenize_n (S (length input)) input l bom_bad.
