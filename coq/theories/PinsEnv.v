(** C11: the lock discipline of env/env.go on the regenerated action lists. *)
From Lisp Require Import Base Lockset LocksetProofs PinsCommon Gen.ConcActions.
Local Open Scope nat_scope.

Definition env_shared (f : str) : bool := str_eqb f (s_ "data") || str_eqb f (s_ "outer").
Definition env_entry_points := toks ["Find"; "Set"; "Remove"; "Get"; "Update"; "Symbols";
                                     "NewEnv"; "NewSubordinateEnv"; "NewSubordinateEnvWithBinds"]%string.

Lemma env_discipline : discipline env_shared env_all env_entry_points = true.
Proof. vm_compute. reflexivity. Qed.
Lemma env_all_fn_ok : all_fn_ok env_shared env_all = true.
Proof. vm_compute. reflexivity. Qed.

(** ---- from the discipline to race freedom of a scope ---- *)
From Lisp Require Import MutexProofs BaseProofs.

(** every entry point of env.go is accepted when entered with the scope's mutex free, against the final table *)
Definition entries_fn_ok (shared : str -> bool) (fns : list (str * list str)) (entries : list str) : bool :=
  let tbl := final_table shared fns in
  forallb (fun n => forallb (fun p => negb (str_eqb (fst p) n) || fn_ok shared tbl MFree (parse (snd p))) fns) entries.

Lemma env_entries_fn_ok : entries_fn_ok env_shared env_all env_entry_points = true.
Proof. vm_compute. reflexivity. Qed.

(** a path through an entry point of env.go *)
Definition env_entry_path (tr : list ev) : Prop :=
  exists name code r, In (name, code) env_all /\ In name env_entry_points /\ LocksetProofs.run (parse code) tr r.

(** ANY number of threads, each running ANY path of ANY entry point of env.go on one scope, under
    EVERY schedule: a thread about to write the bindings map never coexists with another thread
    about to read or write it *)
Theorem env_scope_race_free traces sched t u tht thu :
  (forall tr, In tr traces -> env_entry_path tr) ->
  let tbl := final_table env_shared env_all in
  let s := grun env_shared tbl (ginit traces) sched in
  nth_error (g_threads s) t = Some tht -> nth_error (g_threads s) u = Some thu ->
  next_is_write env_shared tht -> next_is_access env_shared thu -> t = u.
Proof.
  intros H tbl s. apply discipline_implies_race_freedom.
  intros tr Hin. destruct (H tr Hin) as (name & code & r & Hfn & Hent & Hrun).
  pose proof env_entries_fn_ok as E. unfold entries_fn_ok in E.
  pose proof (proj1 (forallb_forall _ _) E name Hent) as E1.
  pose proof (proj1 (forallb_forall _ _) E1 (name, code) Hfn) as E2. cbn [fst snd] in E2.
  rewrite str_eqb_refl in E2. cbn [negb orb] in E2.
  exact (fn_ok_sound env_shared (final_table env_shared env_all) MFree (parse code) E2 tr r Hrun).
Qed.
