#!/usr/bin/env python3
"""Run jig/lisp's pinned baseline (the 48 tests of /root/.vp/BASELINE.json) with the
verif build tag OFF against a repo directory (default /repo). Exit 0 iff all pass."""
import json, os, subprocess, sys
repo = sys.argv[1] if len(sys.argv) > 1 else "/repo"
base = json.load(open("/root/.vp/BASELINE.json"))["stable_pass"] if os.path.exists("/root/.vp/BASELINE.json") else json.load(open(os.path.join(os.path.dirname(os.path.abspath(__file__)), "baseline_tests.json")))
env = dict(os.environ, GOFLAGS="-mod=mod", GOPROXY="off", GOSUMDB="off", GOTOOLCHAIN="local")
p = subprocess.run(["go", "test", "-json", "-vet=off", "-count=1", "-timeout", "25m", "./..."], cwd=repo, env=env, capture_output=True, text=True)
passed = set()
for line in p.stdout.splitlines():
    try:
        ev = json.loads(line)
    except Exception:
        continue
    if ev.get("Action") == "pass" and ev.get("Test"):
        passed.add(ev["Package"] + "::" + ev["Test"])
missing = [t for t in base if t not in passed]
print("baseline: %d/%d pass" % (len(base) - len(missing), len(base)))
for t in missing:
    print("MISSING", t)
sys.exit(1 if missing else 0)
