package main

import (
	lisp "github.com/jig/lisp"
	"fmt"

	"github.com/jig/lisp/types"
	. "verif.local/harness/h"
)

func init() { runners["C12"] = runC12 }

type c12gen struct {
	r    *Rng
	hist map[string]int
	n    int
}

// tv: one template node. Returns template, list of values it contributes to the enclosing sequence, trace.
func (g *c12gen) tv(depth int, inSeq bool) (types.MalType, []types.MalType, []types.MalType) {
	k := g.r.Intn(13)
	if depth <= 0 && k >= 7 {
		k = g.r.Intn(7)
	}
	switch k {
	case 0, 1:
		g.hist["atom"]++
		v := []types.MalType{1, 2, "s", Kw("k"), nil, true}[g.r.Intn(6)]
		return v, []types.MalType{v}, nil
	case 2:
		g.hist["symbol"]++
		s := S(g.r.Pick([]string{"a", "b", "unquoted", "if", "undefined-q"}))
		return s, []types.MalType{s}, nil
	case 3, 4: // (unquote e)
		g.hist["unquote"]++
		g.n++
		v := []types.MalType{g.n, L(S("q"), g.n), V(g.n), Kw("u")}[g.r.Intn(4)]
		return L(S("unquote"), Call("trace!", Q(v))), []types.MalType{v}, []types.MalType{v}
	case 5, 6: // (splice-unquote e), only meaningful inside a sequence
		if !inSeq {
			return g.tv(depth, inSeq)
		}
		g.hist["splice"]++
		g.n++
		n := g.r.Intn(3)
		items := make([]types.MalType, n)
		for i := range items {
			items[i] = g.n*10 + i
		}
		var coll types.MalType = types.List{Val: items}
		if g.r.Bool() {
			coll = types.Vector{Val: items}
			g.hist["splice-vector"]++
		}
		return L(S("splice-unquote"), Call("trace!", Q(coll))), items, []types.MalType{coll}
	case 7, 8, 9: // list
		g.hist["list"]++
		n := g.r.Intn(4)
		var ts, vs, tr []types.MalType
		for i := 0; i < n; i++ {
			t, v, r := g.tv(depth-1, true)
			ts, vs, tr = append(ts, t), append(vs, v...), append(tr, r...)
		}
		if len(ts) > 0 {
			if sy, ok := ts[0].(types.Symbol); ok && (sy.Val == "unquote" || sy.Val == "splice-unquote") {
				ts[0], vs[0] = 0, 0
			}
		}
		if n == 1 {
			if l, ok := ts[0].(types.List); ok && len(l.Val) == 2 && l.Val[0] == S("splice-unquote") {
				g.hist["list-only-splice"]++
			}
		}
		// (quote ...) inside a template is an ordinary list: what is unquoted below it is still substituted ('~x)
		if g.r.Intn(6) == 0 {
			g.hist["list-headed-by-the-symbol-quote"]++
			ts = append([]types.MalType{S("quote")}, ts...)
			vs = append([]types.MalType{S("quote")}, vs...)
		}
		return types.List{Val: ts}, []types.MalType{types.List{Val: vs}}, tr
	case 10, 11: // vector
		g.hist["vector"]++
		n := g.r.Intn(4)
		var ts, vs, tr []types.MalType
		for i := 0; i < n; i++ {
			t, v, r := g.tv(depth-1, true)
			ts, vs, tr = append(ts, t), append(vs, v...), append(tr, r...)
		}
		// a vector is never an unquote form, even when it is spelt [unquote x] or [splice-unquote xs]: the symbol is data
		if g.r.Intn(5) == 0 {
			sy := S(g.r.Pick([]string{"unquote", "splice-unquote"}))
			g.hist["vector-headed-by-the-symbol-unquote"]++
			ts = append([]types.MalType{sy}, ts...)
			vs = append([]types.MalType{sy}, vs...)
		}
		return types.Vector{Val: ts}, []types.MalType{types.Vector{Val: vs}}, tr
	default: // map: returned literally, unquote inside is NOT evaluated
		g.hist["map-literal"]++
		m := types.HashMap{Val: map[string]types.MalType{Kw("m"): L(S("unquote"), S("never-evaluated"))}}
		return m, []types.MalType{m}, nil
	}
}

func runC12(tier string, seed uint64, rep *Report) {
	rep.Rule = "(a) quasiquote templates of nesting <=4 (<=6 thorough) over lists, vectors, maps, symbols, atoms with unquote and splice-unquote at " +
		"every position; every unquoted expression is (trace! 'v), so the expected value and the expected evaluation order are computed by the " +
		"generator as a substitution outside the interpreter (direct oracle). (b) macros defined from such templates and the library macros " +
		"cond/and/or/->/->> applied to traced operands: the call must equal (eval (macroexpand call)) in result and trace, and the head of the " +
		"macroexpand result must not be a macro. Non-trivial: the template contains an unquote/splice or the program calls a macro."
	g := &c12gen{r: NewRng(seed), hist: map[string]int{}}
	n, depth := 1200, 4
	if tier == "thorough" {
		n, depth = 30000, 6
	}
	for i := 0; i < n; i++ {
		g.n = 0
		t, v, tr := g.tv(1+g.r.Intn(depth), false)
		prog := L(S("quasiquote"), t)
		idx, line, _ := addProgram(rep, prog, len(tr) > 0, "template")
		want := val(v[0], tr...)
		if line != want {
			rep.Violate(idx, fmt.Sprintf("quasiquote did not build the template substitution: got %q want %q", line, want), Show(prog))
		}
	}
	// (a') the same value spliced several times into one template, from text (lists built by the reader have spare
	// capacity): every splice is a copy; and quote inside a template
	for _, c := range []struct{ src, want string }{
		{"(let [xs '(1 2 3)] `((~@xs :a) (~@xs :b)))", "((1 2 3 :a) (1 2 3 :b))"},
		{"(let [xs '(1 2 3 4 5)] `((~@xs :a) (~@xs :b) (~@xs)))", "((1 2 3 4 5 :a) (1 2 3 4 5 :b) (1 2 3 4 5))"},
		{"(let [xs [1 2 3]] `[(~@xs :a) [~@xs :b] ~@xs])", "[(1 2 3 :a) [1 2 3 :b] 1 2 3]"},
		{"(do (defmacro call-both (fn [& fargs] `(list (~@fargs 1) (~@fargs 2)))) (call-both + 10))", "(11 12)"},
		{"(do (defmacro call-both (fn [& fargs] `(list (~@fargs 1) (~@fargs 2)))) (macroexpand (call-both + 10)))", "(list (+ 10 1) (+ 10 2))"},
		{"(let [x 5] `(a '~x))", "(a (quote 5))"},
		{"(let [xs '(1 2)] `(a '(~@xs 3)))", "(a (quote (1 2 3)))"},
		{"(do (defmacro name-and-value (fn [form] `(list '~form ~form))) (name-and-value (+ 1 2)))", "((+ 1 2) 3)"},
		{"(let [x 7] (quasiquote [unquote x]))", "[unquote x]"},
	} {
		for _, module := range []bool{false, true} {
			core, _, o := evalText(c.src, module)
			idx := rep.Add("P n", "V n | l 0 ", c.src, true, "text-template")
			got := "?"
			if o.Err == nil && o.Panic == nil {
				got = lisp.PRINT(o.Val)
			}
			if got != c.want {
				rep.Violate(idx, fmt.Sprintf("template read from text: got %s (%s), the substitution gives %s", got, core, c.want), c.src)
			}
		}
	}
	// (b) macros
	type mac struct {
		def  types.MalType
		call func(a, b types.MalType) types.MalType
	}
	macs := []mac{
		{Call("defmacro", S("m1"), Call("fn", V(S("a"), S("b")), L(S("quasiquote"), L(S("list"), L(S("unquote"), S("a")), L(S("unquote"), S("b")), L(S("unquote"), S("a")))))), func(a, b types.MalType) types.MalType { return Call("m1", a, b) }},
		{Call("defmacro", S("m2"), Call("fn", V(S("a"), S("&"), S("r")), L(S("quasiquote"), L(S("do"), L(S("splice-unquote"), S("r")), L(S("unquote"), S("a")))))), func(a, b types.MalType) types.MalType { return Call("m2", a, b, b) }},
		{Call("defmacro", S("m3"), Call("fn", V(S("&"), S("xs")), Call("if", Call("empty?", S("xs")), Kw("done"), L(S("quasiquote"), L(S("do"), L(S("unquote"), Call("first", S("xs"))), L(S("m3"), L(S("splice-unquote"), Call("rest", S("xs"))))))))), func(a, b types.MalType) types.MalType { return Call("m3", a, b, a) }},
		{Call("defmacro", S("m4"), Call("fn", V(S("f")), L(S("quasiquote"), L(L(S("splice-unquote"), S("f")))))), func(a, b types.MalType) types.MalType { return Call("m4", V(S("list"), a, b)) }},
		{Call("defmacro", S("m0"), Call("fn", V(), Q(Call("trace!", Kw("nullary"))))), func(a, b types.MalType) types.MalType { return Call("m0") }},
		{Call("defmacro", S("m5"), Call("fn", V(S("a")), Call("list", Q(S("m1")), S("a"), S("a")))), func(a, b types.MalType) types.MalType { return Call("m5", a) }},
		// a macro VALUE that went through with-meta is still a macro; a function given metadata and then installed by defmacro is one
		{Call("def", S("m1d"), Call("with-meta", S("m1"), types.HashMap{Val: map[string]types.MalType{Kw("doc"): "d"}})), func(a, b types.MalType) types.MalType { return Call("m1d", a, b) }},
		{Call("defmacro", S("m6"), Call("with-meta", Call("fn", V(S("a"), S("b")), L(S("quasiquote"), L(S("if"), L(S("unquote"), S("a")), L(S("unquote"), S("b")), Kw("no")))), types.HashMap{Val: map[string]types.MalType{Kw("k"): 1}})), func(a, b types.MalType) types.MalType { return Call("m6", a, b) }},
		{nil, func(a, b types.MalType) types.MalType { return Call("cond", a, b, Kw("else"), a) }},
		{nil, func(a, b types.MalType) types.MalType { return Call("and", a, b, a) }},
		{nil, func(a, b types.MalType) types.MalType { return Call("or", a, b) }},
		{nil, func(a, b types.MalType) types.MalType { return Call("->", a, Call("list", b), S("list")) }},
		{nil, func(a, b types.MalType) types.MalType { return Call("->>", a, Call("list", b)) }},
	}
	operands := []types.MalType{Call("trace!", 1), Call("trace!", nil), Call("trace!", false), Call("trace!", Q(S("sym"))), 7, Call("do", Call("trace!", 2), Call("trace!", 3))}
	for _, m := range macs {
		if m.def == nil {
			continue
		}
		name := m.def.(types.List).Val[1]
		prog := Call("do", macs[0].def, m.def, Call("macro?", name))
		idx, line, _ := addProgram(rep, prog, true, "macro-is-macro")
		if line != val(true) {
			rep.Violate(idx, "a value installed as a macro (defmacro, or a macro value given metadata and bound with def) is not a macro: its calls would evaluate their operands first", Show(prog))
		}
	}
	for mi, m := range macs {
		for _, a := range operands {
			for _, b := range operands {
				call := m.call(a, b)
				wrap := func(body types.MalType) types.MalType {
					if m.def == nil {
						return body
					}
					return Call("do", macs[0].def, m.def, body)
				}
				direct := wrap(call)
				via := wrap(Call("eval", Call("macroexpand", call)))
				i1, l1, _ := addProgram(rep, direct, true, fmt.Sprintf("macro-%d", mi))
				_, l2, _ := addProgram(rep, via, true, "macro-via-expand")
				if l1 != l2 {
					rep.Violate(i1, fmt.Sprintf("macro call differs from evaluating its macroexpand result: %q vs %q", l1, l2), Show(direct))
				}
				// head of the expansion must not be a macro
				head := wrap(Call("let", V(S("e"), Call("macroexpand", call)), Call("if", Call("list?", S("e")), Call("if", Call("symbol?", Call("first", S("e"))),
					Call("try", Call("macro?", Call("eval", Call("first", S("e")))), Call("catch", S("x"), false)), false), false)))
				i3, l3, _ := addProgram(rep, head, true, "macro-head")
				if l3 != val(false) {
					rep.Violate(i3, "the head of the macroexpand result is still a macro (or the check failed): "+l3, Show(head))
				}
			}
		}
	}
	mergeHist(rep, g.hist)
}
