package main

import (
	"fmt"
	"strings"

	lisp "github.com/jig/lisp"
	"github.com/jig/lisp/reader"
	"github.com/jig/lisp/types"
	. "verif.local/harness/h"
)

func init() { runners["C15"] = runC15 }

var c15Names = []string{"$A", "$B", "$NUMBER", "$x-1", "$a_b", "$1", "$EXPR1", "$-", "$MODULE"}

var c15Sources = []string{
	"(f $A)", "(list $A $B $A)", "'($A [$B {:k $A}])", "(prn \"$A is\" $A)", "(do ; $A in a comment\n  $B)", "[$A ¬$B raw¬ \"$A\" $C]",
	"(def v {:a $A})\n", "$A", ";; $A 5\n(list $A)", ";; $A 10\n;; $B :fast\n(list $A $B)", "  ;; $B (a b)\n\n(f $B)", "(let [x $A] `(~x ~@$B))", "(str \"a\n$A\nb\" $A)", ";; $A looks like preamble\n(list $A)", "(list\n;; $A 5\n$A)", "(a $UNSET $A)", "#{$A}", "{$A $B}",
}

func c15Value(r *Rng, depth int) types.MalType {
	hard := []string{"\"", "\\", "\n", ";", "(", ")", "[", "$A", "$B", ";; $A 1", "{", "}", "¬", " ", "é", "\t", "\r\n", "{\"k\":\n1}", "{\"a\": \"¬\"}", "x", "\n;; $B 2\n", ":", "%", "%d", "%s", "100%", "%!v(", "%%"}
	if depth <= 0 || r.Intn(3) == 0 {
		switch r.Intn(7) {
		case 0:
			return r.Intn(100) - 50
		case 1:
			return nil
		case 2:
			return Kw(r.Pick([]string{"k", "a-b"}))
		case 3:
			return types.Symbol{Val: r.Pick([]string{"sym", "+", "x-1"})}
		case 4:
			return r.Bool()
		default:
			s := ""
			for i, n := 0, r.Intn(5); i < n; i++ {
				s += r.Pick(hard)
			}
			if strings.HasPrefix(s, "ʞ") {
				s = "x" + s
			}
			return s
		}
	}
	n := r.Intn(3)
	switch r.Intn(4) {
	case 0:
		l := make([]types.MalType, n)
		for i := range l {
			l[i] = c15Value(r, depth-1)
		}
		return types.List{Val: l}
	case 1:
		l := make([]types.MalType, n)
		for i := range l {
			l[i] = c15Value(r, depth-1)
		}
		return types.Vector{Val: l}
	case 2:
		m := map[string]types.MalType{}
		for i := 0; i < n; i++ {
			k := Kw(r.Pick([]string{"a", "b"}))
			if r.Intn(3) == 0 { // string keys are printed like any string: quotes, backslashes, newlines escaped
				k = r.Pick([]string{"k\"q", "a b", "%d", "back\\slash", "x\ny", "$A", "", "plain"})
			}
			m[k] = c15Value(r, depth-1)
		}
		return types.HashMap{Val: m}
	default:
		return c15Value(r, 0)
	}
}

func runC15(tier string, seed uint64, rep *Report) {
	rep.Rule = "source texts with placeholder tokens in code, quoted data, nested collections, map keys, sets, inside strings, raw strings and comments, with " +
		"preamble-looking comment lines of their own, x maps (0..3 entries, names over letters, digits, - and _) to nested data values whose strings contain quotes, " +
		"backslashes, newlines, semicolons, brackets, other placeholder names, preamble-looking lines, CRLF, multi-line JSON. Three results compared: " +
		"READWithPreamble(AddPreamble(src, m)), reader.Read_str(src, m) (direct oracle: structurally equal), and the model of both functions. Also every C05-style " +
		"raw text through READWithPreamble vs the model. Non-trivial: the map is non-empty and the source mentions one of its names."
	r := NewRng(seed)
	n := 1500
	if tier == "thorough" {
		n = 50000
	}
	for i := 0; i < n; i++ {
		src := c15Sources[r.Intn(len(c15Sources))]
		m := map[string]types.MalType{}
		for j, k := 0, r.Intn(4); j < k; j++ {
			m[r.Pick(c15Names[:6])] = c15Value(r, 2)
		}
		// model case: keys sorted
		wire := fmt.Sprintf("A %d ", len(m))
		for _, k := range SortedKeys(m) {
			wire += encSrc(k) + EncS(m[k])
		}
		wire += encSrc(src)
		pre, _ := lisp.AddPreamble(src, m)
		o := Guard(func() (types.MalType, error) { return lisp.READWithPreamble(pre, nil, nil) })
		nontrivial := false
		for k := range m {
			if strings.Contains(src, k) {
				nontrivial = true
			}
		}
		pretty := fmt.Sprintf("AddPreamble(%q, %s) -> READWithPreamble", src, Show(types.HashMap{Val: m}))
		idx := rep.Add(wire, readClass(o), pretty, nontrivial, "transport", fmt.Sprintf("entries:%d", len(m)))
		// direct oracle: same AST as reading the source with the values as placeholder map
		d := Guard(func() (types.MalType, error) { return reader.Read_str(src, nil, &types.HashMap{Val: m}) })
		if o.Panic != nil || d.Panic != nil {
			rep.Violate(idx, fmt.Sprintf("panic: %v %v", o.Panic, d.Panic), pretty)
		} else if (o.Err == nil) != (d.Err == nil) || (o.Err == nil && !StrictEq(o.Val, d.Val)) {
			rep.Violate(idx, fmt.Sprintf("the preamble transport does not give the AST obtained by substituting the values: transported %s, direct %s; preamble text %q", readClass(o), readClass(d), pre), pretty)
		}
	}
	// raw texts through READWithPreamble (model of the line loop and of the regular expression)
	lines := []string{";; $A 1", ";; $B (a b)", ";; $A", ";; $ 1", ";; $A  two spaces", ";;$A 1", ";; $A;; $B 3", ";; $A\t\"x\"", "  ;; $A 1  ", ";; $é 1", ";; $A-1_b {:k 1}", ";; $MODULE m", ";; plain comment", "", "(list $A $B)", "$A", "\r", ";; $A ¬{\"a\":", ";; $A (", ";; $A 1 2", ";; $A \"unterminated"}
	m := 1500
	if tier == "thorough" {
		m = 60000
	}
	for i := 0; i < m; i++ {
		var b strings.Builder
		for j, k := 0, 1+r.Intn(5); j < k; j++ {
			b.WriteString(lines[r.Intn(len(lines))])
			if r.Intn(8) > 0 {
				b.WriteString("\n")
			} else if r.Bool() {
				b.WriteString("\r\n")
			}
		}
		src := b.String()
		for _, rt := range []struct {
			wire string
			run  func() (types.MalType, error)
		}{
			{"Y 0 0 ", func() (types.MalType, error) { return lisp.READWithPreamble(src, nil, nil) }},
			{"Y 1 0 ", func() (types.MalType, error) { return lisp.READWithPreamble(src, types.NewCursorFile("mod"), nil) }},
		} {
			o := Guard(rt.run)
			idx := rep.Add(rt.wire+encSrc(src), readClass(o), fmt.Sprintf("READWithPreamble %q", src), strings.Contains(src, ";; $"), "raw-preamble")
			if o.Panic != nil {
				rep.Violate(idx, fmt.Sprintf("READWithPreamble panicked: %v", o.Panic), fmt.Sprintf("%q", src))
			}
		}
	}
}
