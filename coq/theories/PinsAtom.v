(** C09: the tie between the atom model and lib/concurrent/concurrent.go.  The action sequences the
    translator extracts on every run (Gen/ConcActions.v) are exactly the sequences ConcAtom.step
    follows, and every function of the file guards Atom.Val by the atom's RWMutex. *)
From Lisp Require Import Base Lockset LocksetProofs LinCheck ConcAtom Paths PinsCommon Gen.ConcActions.
Local Open Scope nat_scope.

(** The paths of each function (Paths.fn_paths: every branch, deferred unlocks expanded at the returns), as
    sets.  ConcAtom.step follows exactly these: swap! either returns at once (the non-atom guard), or
    Lock (Idle->SwapLocked), Read:Val (->SwapRead), Apply and then either the early return with the
    unlock (SwapFailed->Idle) or WriteVal (->SwapWritten) and the unlock (->Idle). *)
Definition swap_paths : list (list pev) :=
  [ []; [PLock; rd "Val"; tk "Apply"; PUnlock]; [PLock; rd "Val"; tk "Apply"; wr "Val"; PUnlock] ].
Definition reset_paths : list (list pev) := [ []; [PLock; wr "Val"; PUnlock] ].
Definition deref_paths : list (list pev) := [ [PRLock; rd "Val"; PRUnlock] ].
Definition print_paths : list (list pev) := [ [PRLock; rd "Val"; PRUnlock; tk "Apply"] ].

Lemma swap_actions : same_paths (fn_paths conc_swap_BANG) swap_paths = true. Proof. vm_compute. reflexivity. Qed.
Lemma reset_actions : same_paths (fn_paths conc_reset_BANG) reset_paths = true. Proof. vm_compute. reflexivity. Qed.
Lemma deref_actions : same_paths (fn_paths conc_Atom_Deref) deref_paths = true. Proof. vm_compute. reflexivity. Qed.
Lemma print_actions : same_paths (fn_paths conc_Atom_LispPrint) print_paths = true. Proof. vm_compute. reflexivity. Qed.

Definition val_shared (f : str) : bool := str_eqb f (s_ "Val").

Lemma atom_discipline : discipline val_shared conc_all conc_entry_points = true.
Proof. vm_compute. reflexivity. Qed.
Lemma atom_all_fn_ok : all_fn_ok val_shared conc_all = true.
Proof. vm_compute. reflexivity. Qed.
(** ---- the register specification used on recorded histories is the model's sequential atom ---- *)
Definition model_event (t : nat) (o : aspec_op) (st : list Z) : option (event Z) :=
  match o with
  | AoDeref 0 => Some (EDeref Z t (aget st 0))
  | AoReset 0 v => Some (EReset Z t v)
  | AoSwapAdd 0 k => Some (ESwap Z t (fun x => Some (x + k)%Z) (RVal Z (aget st 0 + k)%Z))
  | AoSwapMulAdd 0 m k => Some (ESwap Z t (fun x => Some (x * m + k)%Z) (RVal Z (aget st 0 * m + k)%Z))
  | AoSwapFail 0 => Some (ESwap Z t (fun _ => None) (RErr Z))
  | _ => None
  end.

Lemma aspec_is_model_spec t o v e :
  model_event t o [v] = Some e ->
  fst (aspec_step [v] o) = [fst (spec_event Z v e)].
Proof.
  destruct o as [[|i]|[|i] x|[|i] k|[|i] m k|[|i]|i j|i j k]; simpl; intros H; try discriminate; injection H as <-; reflexivity.
Qed.

(** ---- D12 (open known finding): an update function that derefs the atom being swapped blocks for
    ever — the write lock is held across the call and sync.RWMutex is not reentrant ---- *)
Definition self_deref_prog : list (list (aop nat)) := [[OpSwapSelfDeref nat (fun x y => Some (x + y))]].
Definition self_deref_stuck : cstate nat := ConcAtom.run nat (init nat 1 self_deref_prog) [0; 0].

Lemma self_deref_deadlock :
  (exists th, nth_error (threads nat self_deref_stuck) 0 = Some th /\ tpc nat th <> Idle nat) /\
  (forall t, step nat self_deref_stuck t = None).
Proof.
  split.
  - eexists. split; [reflexivity | discriminate].
  - intros [|[|t]]; reflexivity.
Qed.
