(** C10: the tie between the future model and lib/concurrent/concurrent.go. *)
From Lisp Require Import Base Lockset LocksetProofs ConcFuture PinsCommon Gen.ConcActions.
Local Open Scope nat_scope.

(** ---- futures: ConcFuture.body_step / caller_step follow these lists ---- *)
Definition expected_future_go := toks ["Apply"; "Lock"; "Write:Done"; "Unlock"; "If("; "Send:f.ErrChan"; "Return"; ")"; "Send:f.ValChan"]%string.
Definition expected_future_deref :=
  toks ["Select("; "Case("; "Recv:ctx.Done()"; "Return"; ")";
        "Case("; "Recv:f.ErrChan"; "Send:f.ErrChan"; "Return"; ")";
        "Case("; "Recv:f.ValChan"; "Send:f.ValChan"; "Return"; ")"; ")"]%string.
Definition expected_future_cancel :=
  toks ["Lock"; "DeferUnlock"; "Read:Done"; "If("; "Write:Cancelled"; "Write:Done"; "CallCancel"; ")"; "Read:Cancelled"; "Return"]%string.
Definition expected_is_done := toks ["Lock"; "DeferUnlock"; "Read:Done"; "Return"]%string.
Definition expected_is_cancelled := toks ["Lock"; "DeferUnlock"; "Read:Cancelled"; "Return"]%string.
Definition expected_new_future := toks ["Go"; "Return"]%string.

Lemma future_go_actions : conc_NewFuture_go = expected_future_go. Proof. reflexivity. Qed.
Lemma future_deref_actions : conc_Future_Deref = expected_future_deref. Proof. reflexivity. Qed.
Lemma future_cancel_actions : conc_Future_Cancel = expected_future_cancel. Proof. reflexivity. Qed.
Lemma is_done_actions : conc_Future_IsDone = expected_is_done. Proof. reflexivity. Qed.
Lemma is_cancelled_actions : conc_Future_IsCancelled = expected_is_cancelled. Proof. reflexivity. Qed.
Lemma new_future_actions : conc_NewFuture = expected_new_future. Proof. reflexivity. Qed.
(** the builtins future-cancelled? / future-done? / future-cancel go through the locked accessors *)
Lemma status_builtins_actions :
  conc_Load_lit4 = toks ["Call:own:IsCancelled"; "Return"]%string /\
  conc_Load_lit5 = toks ["Call:own:IsDone"; "Return"]%string /\
  conc_future_cancel = toks ["Call:own:Cancel"; "Return"]%string.
Proof. repeat split; reflexivity. Qed.

Definition flags_shared (f : str) : bool := str_eqb f (s_ "Done") || str_eqb f (s_ "Cancelled").

Lemma future_discipline : discipline flags_shared conc_all conc_entry_points = true.
Proof. vm_compute. reflexivity. Qed.
Lemma future_all_fn_ok : all_fn_ok flags_shared conc_all = true.
Proof. vm_compute. reflexivity. Qed.
