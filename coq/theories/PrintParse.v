(** C06: printing then reading returns the same value — for EVERY printable value.
    Part 1: the scanner cuts the printed text into the tokens the printer wrote (PrintScan.v lifted
    from units to values).  Part 2: the reader rebuilds the value from those tokens.  Together:
    [read_str None None None (pr_str true v)] is [v] up to the source positions the reader attaches. *)
From Lisp Require Import Base Value Core Scanner Reader Printer Wire BaseProofs ReaderProofs PrintReadProofs PrintScan PrintInt.
Local Open Scope N_scope.

(** ---- printable values ---- *)
Definition name_ok (name : str) : bool := forallb (isIdentRune true) name.

Definition str_ok (s : str) : bool :=
  match s with c :: rest => if N.eqb c KW then name_ok rest else true | [] => true end.

Definition sym_ok (s : str) : bool :=
  ident_ok s && negb (str_eqb s (s_ "nil")) && negb (str_eqb s (s_ "true")) && negb (str_eqb s (s_ "false"))
  && negb (head_is s 36).

Fixpoint pv (v : val) : bool :=
  match v with
  | VNil | VBool _ => true
  | VInt z => in_int64 z
  | VStr s => str_ok s
  | VSym s _ => sym_ok s
  | VList l _ | VVec l _ => (fix go (l : list val) : bool := match l with [] => true | x :: r => pv x && go r end) l
  | VMap m => (fix go (m : list (str * val)) : bool :=
                 match m with [] => true | kv :: r => str_ok (fst kv) && pv (snd kv) && go r end) m && nodup_keys m
  | VSet ks => forallb str_ok ks && nodup_strs ks
  | _ => false
  end.

Lemma pv_list l p : pv (VList l p) = forallb pv l.
Proof. simpl. induction l as [|x r IH]; simpl; [reflexivity | now rewrite IH]. Qed.
Lemma pv_vec l p : pv (VVec l p) = forallb pv l.
Proof. simpl. induction l as [|x r IH]; simpl; [reflexivity | now rewrite IH]. Qed.
Lemma pv_map m : pv (VMap m) = (forallb (fun kv => str_ok (fst kv) && pv (snd kv)) m && nodup_keys m)%bool.
Proof. cbn [pv]. f_equal. Qed.

(** the token of a printed string *)
Definition str_tok (s : str) : tkind * str :=
  match s with
  | c :: rest => if N.eqb c KW then (KKeyword, 58 :: rest)
                 else if json_looking s then (KRawString, RAWQ :: replace1 RAWQ [RAWQ; RAWQ] s ++ [RAWQ])
                 else (KString, 34 :: escape_str s ++ [34])
  | [] => (KString, [34; 34])
  end.

Lemma pr_string_tok s : pr_string true s = snd (str_tok s).
Proof.
  destruct s as [|c rest]; [reflexivity|]. unfold pr_string, str_tok. destruct (N.eqb c KW); [reflexivity|].
  destruct (json_looking (c :: rest)); reflexivity.
Qed.

Lemma str_UP s : str_ok s = true -> UP (mkU (pr_string true s) [str_tok s]).
Proof.
  intros H. rewrite pr_string_tok. destruct s as [|c rest].
  - apply (string_UP []).
  - unfold str_tok. simpl in H. destruct (N.eqb c KW).
    + apply keyword_UP, H.
    + destruct (json_looking (c :: rest)); [apply raw_UP | apply string_UP].
Qed.

(** the tokens of a printed value *)
Fixpoint toks (v : val) : list (tkind * str) :=
  match v with
  | VNil => [(KIdent, s_ "nil")]
  | VBool true => [(KIdent, s_ "true")]
  | VBool false => [(KIdent, s_ "false")]
  | VInt z => [(KInt, show_Z z)]
  | VStr s => [str_tok s]
  | VSym s _ => [(KIdent, s)]
  | VList l _ => (KChar 40, [40]) :: (fix go (l : list val) := match l with [] => [] | x :: r => toks x ++ go r end) l ++ [(KChar 41, [41])]
  | VVec l _ => (KChar 91, [91]) :: (fix go (l : list val) := match l with [] => [] | x :: r => toks x ++ go r end) l ++ [(KChar 93, [93])]
  | VMap m => (KChar 123, [123]) ::
              (fix go (m : list (str * val)) := match m with [] => [] | kv :: r => str_tok (fst kv) :: toks (snd kv) ++ go r end) m
              ++ [(KChar 125, [125])]
  | VSet ks => (KIdent, [35; 123]) :: map str_tok ks ++ [(KChar 125, [125])]
  | _ => []
  end.

Lemma toks_list l p : toks (VList l p) = (KChar 40, [40]) :: concat (map toks l) ++ [(KChar 41, [41])].
Proof. simpl. do 2 f_equal. induction l as [|x r IH]; simpl; [reflexivity | now rewrite IH]. Qed.
Lemma toks_vec l p : toks (VVec l p) = (KChar 91, [91]) :: concat (map toks l) ++ [(KChar 93, [93])].
Proof. simpl. do 2 f_equal. induction l as [|x r IH]; simpl; [reflexivity | now rewrite IH]. Qed.
Lemma toks_map m : toks (VMap m) = (KChar 123, [123]) :: concat (map (fun kv => str_tok (fst kv) :: toks (snd kv)) m) ++ [(KChar 125, [125])].
Proof. simpl. do 2 f_equal. induction m as [|x r IH]; simpl; [reflexivity | now rewrite IH]. Qed.

Definition uv (v : val) : unit := mkU (pr_str true v) (toks v).
Definition ukey (k : str) : unit := mkU (pr_string true k) [str_tok k].

Lemma open_paren rest : scan_token ([40] ++ rest) = (KChar 40, rest, false). Proof. reflexivity. Qed.
Lemma open_brack rest : scan_token ([91] ++ rest) = (KChar 91, rest, false). Proof. reflexivity. Qed.
Lemma open_brace rest : scan_token ([123] ++ rest) = (KChar 123, rest, false). Proof. reflexivity. Qed.
Lemma open_set rest : scan_token ([35; 123] ++ rest) = (KIdent, rest, false). Proof. reflexivity. Qed.

Theorem pv_UP : forall v, pv v = true -> UP (uv v).
Proof.
  induction v using val_ind'; intros Hp; try discriminate; unfold uv.
  - apply (ident_UP (s_ "nil")). reflexivity.
  - destruct b; [apply (ident_UP (s_ "true")) | apply (ident_UP (s_ "false"))]; reflexivity.
  - apply int_UP.
  - apply str_UP, Hp.
  - simpl in Hp. unfold sym_ok in Hp. rewrite !andb_true_iff in Hp. apply ident_UP. tauto.
  - rewrite pv_list in Hp. rewrite toks_list. cbn [pr_str].
    assert (HF : Forall UP (map uv l)).
    { rewrite Forall_forall in *. intros u Hu. apply in_map_iff in Hu. destruct Hu as [x [<- Hx]].
      apply H; auto. rewrite forallb_forall in Hp. auto. }
    pose proof (coll_UP [40] (KChar 40) 41 (map uv l) ltac:(discriminate) eq_refl open_paren ltac:(auto) HF) as G.
    rewrite !map_map in G. exact G.
  - rewrite pv_vec in Hp. rewrite toks_vec. cbn [pr_str].
    assert (HF : Forall UP (map uv l)).
    { rewrite Forall_forall in *. intros u Hu. apply in_map_iff in Hu. destruct Hu as [x [<- Hx]].
      apply H; auto. rewrite forallb_forall in Hp. auto. }
    pose proof (coll_UP [91] (KChar 91) 93 (map uv l) ltac:(discriminate) eq_refl open_brack ltac:(auto) HF) as G.
    rewrite !map_map in G. exact G.
  - rewrite pv_map, andb_true_iff in Hp. destruct Hp as [Hp _]. rewrite toks_map. cbn [pr_str].
    set (us := concat (map (fun kv : str * val => [ukey (fst kv); uv (snd kv)]) m)).
    assert (HF : Forall UP us).
    { subst us. rewrite Forall_forall in *. intros u Hu. apply in_concat in Hu. destruct Hu as [l2 [Hl2 Hu]].
      apply in_map_iff in Hl2. destruct Hl2 as [kv [<- Hkv]]. rewrite forallb_forall in Hp. specialize (Hp _ Hkv).
      rewrite andb_true_iff in Hp. destruct Hu as [<-|[<-|[]]]; [apply str_UP; tauto | apply H; tauto]. }
    pose proof (coll_UP [123] (KChar 123) 125 us ltac:(discriminate) eq_refl open_brace ltac:(auto) HF) as G.
    assert (E1 : map utext us = concat (map (fun kv => [pr_string true (fst kv); pr_str true (snd kv)]) m)).
    { subst us. clear. induction m as [|kv r IH]; simpl; [reflexivity | now rewrite IH]. }
    assert (E2 : concat (map utoks us) = concat (map (fun kv => str_tok (fst kv) :: toks (snd kv)) m)).
    { subst us. clear. induction m as [|kv r IH]; simpl; [reflexivity | now rewrite IH]. }
    rewrite E1, E2 in G. exact G.
  - simpl in Hp. rewrite andb_true_iff in Hp. destruct Hp as [Hp _]. cbn [pr_str toks].
    assert (HF : Forall UP (map ukey ks)).
    { rewrite Forall_forall. intros u Hu. apply in_map_iff in Hu. destruct Hu as [k [<- Hk]].
      apply str_UP. rewrite forallb_forall in Hp. auto. }
    pose proof (coll_UP [35; 123] KIdent 125 (map ukey ks) ltac:(discriminate) eq_refl open_set ltac:(auto) HF) as G.
    rewrite !map_map in G. simpl in G.
    assert (E : concat (map (fun x : str => [str_tok x]) ks) = map str_tok ks) by (clear; induction ks; simpl; congruence).
    rewrite E in G. exact G.
Qed.

(** first character of a printed value *)
Lemma ident_head_not_bom c : isIdentRune false c = true -> N.eqb c BOM = false.
Proof. intros H. destruct (N.eqb_spec c BOM) as [->|]; [|reflexivity]. vm_compute in H. discriminate. Qed.

Lemma pr_head v : pv v = true ->
  match pr_str true v with c :: _ => N.eqb c BOM = false /\ N.eqb c 59 = false | [] => False end.
Proof.
  destruct v; intros Hp; try discriminate; cbn [pr_str]; try (split; reflexivity).
  - destruct b; split; reflexivity.
  - destruct (show_Z_cases z) as [[_ ->]|[[p [_ ->]]|[p [_ ->]]]]; try (split; reflexivity).
    pose proof (numeral_pos p) as Hn. destruct (digits_of_uint (Pos.to_uint p)) as [|c r]; [discriminate|].
    pose proof (numeral_head_dec c r Hn) as Hc. unfold isDecimal in Hc. rewrite andb_true_iff, !N.leb_le in Hc.
    split; apply N.eqb_neq; unfold BOM; lia.
  - rewrite pr_string_tok. destruct s as [|c rest]; [split; reflexivity|]. unfold str_tok.
    destruct (N.eqb c KW); [split; reflexivity|]. destruct (json_looking (c :: rest)); split; reflexivity.
  - simpl in Hp. unfold sym_ok in Hp. rewrite !andb_true_iff in Hp. destruct Hp as [[[[Hi _] _] _] _].
    destruct s as [|c r]; [discriminate|]. simpl in Hi. rewrite andb_true_iff in Hi. destruct Hi as [Hi _].
    split; [apply ident_head_not_bom, Hi|]. destruct (N.eqb_spec c 59) as [->|]; [|reflexivity]. vm_compute in Hi. discriminate.
Qed.

Theorem tokenize_printed v : pv v = true -> clean (pr_str true v) = true ->
  exists ts, tokenize (pr_str true v) = Some ts /\ map tt ts = toks v.
Proof.
  intros Hp Hc. unfold tokenize. pose proof (pr_head v Hp) as Hh.
  destruct (pr_str true v) as [|c r] eqn:E; [contradiction|]. destruct Hh as [Hb _]. rewrite Hb. rewrite <- E in *.
  pose proof (pv_UP v Hp (S (length (pr_str true v))) (pr_str true v) [] [] [] (or_introl eq_refl) eq_refl) as G.
  unfold uv in G. cbn [utext utoks] in G. rewrite !app_nil_r in G. simpl app in G.
  apply G; auto.
  intros fuel Hf. destruct fuel; [simpl in Hf; lia|]. exists []. split; reflexivity.
Qed.

(** ---- Part 2: the reader on the printed tokens ---- *)

(** positions erased *)
Fixpoint unpos (v : val) : val :=
  match v with
  | VSym s _ => VSym s None
  | VList l _ => VList ((fix go (l : list val) := match l with [] => [] | x :: r => unpos x :: go r end) l) None
  | VVec l _ => VVec ((fix go (l : list val) := match l with [] => [] | x :: r => unpos x :: go r end) l) None
  | VMap m => VMap ((fix go (m : list (str * val)) := match m with [] => [] | kv :: r => (fst kv, unpos (snd kv)) :: go r end) m)
  | x => x
  end.
Lemma unpos_list l p : unpos (VList l p) = VList (map unpos l) None.
Proof. simpl. f_equal. Qed.
Lemma unpos_vec l p : unpos (VVec l p) = VVec (map unpos l) None.
Proof. simpl. f_equal. Qed.
Lemma unpos_map m : unpos (VMap m) = VMap (map (fun kv => (fst kv, unpos (snd kv))) m).
Proof. simpl. f_equal. Qed.

(** a token that is neither a reader macro, nor ^, nor a bracket, nor a placeholder: decided by its first character *)
Definition plain_head (s : str) : bool :=
  match s with
  | c :: _ => negb (existsb (N.eqb c) [39; 96; 126; 64; 94; 41; 93; 125; 40; 91; 123; 35; 171; 36])
  | [] => false
  end.

Lemma str_eqb_head_ne c r d r' : N.eqb c d = false -> str_eqb (c :: r) (d :: r') = false.
Proof. intros H. simpl. now rewrite H. Qed.

Section ReadBack.
  Variable m : option str.

  Lemma plain_dispatch t fuel rest : plain_head (ttext t) = true ->
    read_form m None None (S fuel) (t :: rest) = (let* v := read_atom m t in Ok (v, rest)).
  Proof.
    intros H. destruct (ttext t) as [|c r] eqn:E; [discriminate|]. simpl in H. rewrite negb_true_iff in H.
    cbn [existsb] in H. rewrite !orb_false_iff in H.
    destruct H as (H1 & H2 & H3 & H4 & H5 & H6 & H7 & H8 & H9 & H10 & H11 & H12 & H13 & H14 & _).
    assert (T : forall (x : String.string) d r', s_ x = d :: r' -> N.eqb c d = false -> text_is t x = false).
    { intros x d r' Ex Hd. unfold text_is. rewrite E, Ex. apply str_eqb_head_ne, Hd. }
    cbn [read_form]. unfold macro_name, closer_of.
    rewrite (T "'"%string 39 [] eq_refl H1), (T "`"%string 96 [] eq_refl H2), (T "~"%string 126 [] eq_refl H3), (T "~@"%string 126 [64] eq_refl H3),
            (T "@"%string 64 [] eq_refl H4), (T "^"%string 94 [] eq_refl H5), (T ")"%string 41 [] eq_refl H6), (T "]"%string 93 [] eq_refl H7),
            (T "}"%string 125 [] eq_refl H8), (T "("%string 40 [] eq_refl H9), (T "["%string 91 [] eq_refl H10), (T "{"%string 123 [] eq_refl H11),
            (T "#{"%string 35 [123] eq_refl H12).
    rewrite E, (str_eqb_head_ne c r 171 [] H13).
    unfold head_is. rewrite H14. reflexivity.
  Qed.
End ReadBack.

Lemma ident_plain c r : isIdentRune false c = true -> N.eqb c 36 = false -> plain_head (c :: r) = true.
Proof.
  intros H H36. unfold plain_head. rewrite negb_true_iff. cbn [existsb]. rewrite H36.
  repeat match goal with
  | |- context [N.eqb c ?k] => destruct (N.eqb_spec c k) as [->|_]; [vm_compute in H; discriminate|]
  end. reflexivity.
Qed.

Lemma unpos_str_inv v k : unpos v = VStr k -> v = VStr k.
Proof. destruct v; simpl; intros E; try discriminate; auto. Qed.

Definition not_closer (s : str) : bool :=
  match s with c :: _ => negb (N.eqb c 41 || N.eqb c 93 || N.eqb c 125) | [] => false end.
Definition first_text (tk : list (tkind * str)) : str := match tk with (_, s) :: _ => s | [] => [] end.

Lemma plain_not_closer s : plain_head s = true -> not_closer s = true.
Proof.
  destruct s as [|c r]; [discriminate|]. unfold plain_head, not_closer. rewrite !negb_true_iff. cbn [existsb].
  rewrite !orb_false_iff. tauto.
Qed.

Section ReadBack2.
  Variable m : option str.

  (** reading element [e] back from its printed tokens [tk] *)
  Definition RP (e : val) (tk : list (tkind * str)) : Prop :=
    not_closer (first_text tk) = true /\
    forall ts1 ts2 fuel, map tt ts1 = tk -> (length ts1 < fuel)%nat ->
      exists v', read_form m None None fuel (ts1 ++ ts2) = Ok (v', ts2) /\ unpos v' = unpos e.

  Lemma RP_atom e k A : plain_head A = true ->
    (forall line, exists v', read_atom m (mkTok k A line) = Ok v' /\ unpos v' = unpos e) -> RP e [(k, A)].
  Proof.
    intros Hp Hr. split; [apply plain_not_closer, Hp|].
    intros ts1 ts2 fuel Hm Hf. destruct ts1 as [|t [|? ?]]; try discriminate. simpl in Hm. inversion Hm as [Ht].
    destruct fuel; [simpl in Hf; lia|]. simpl app.
    destruct t as [k' A' line]. unfold tt in Ht. simpl in Ht. inversion Ht; subst.
    rewrite plain_dispatch by exact Hp. destruct (Hr line) as [v' [E U]]. simpl in E. rewrite E. simpl. eauto.
  Qed.

  Lemma RP_str s : str_ok s = true -> RP (VStr s) [str_tok s].
  Proof.
    intros Hs. destruct s as [|c rest].
    - apply RP_atom; [reflexivity|]. intros line. exists (VStr []). split; reflexivity.
    - unfold str_tok. simpl in Hs. destruct (N.eqb_spec c KW) as [->|Hne].
      + apply RP_atom; [reflexivity|]. intros line. exists (VStr (KW :: rest)). split; [|reflexivity].
        unfold read_atom. cbn [tkind_of ttext]. unfold strip. simpl length.
        replace (Nat.leb (1 + 0) (S (length rest))) with true by reflexivity.
        cbn [bind]. simpl skipn. simpl. rewrite !Nat.sub_0_r, firstn_all. reflexivity.
      + destruct (json_looking (c :: rest)) eqn:Ej.
        * apply RP_atom; [reflexivity|]. intros line. exists (VStr (c :: rest)). split; [|reflexivity].
          apply read_atom_printed_raw. discriminate.
        * apply RP_atom; [reflexivity|]. intros line. exists (VStr (c :: rest)). split; [|reflexivity].
          apply read_atom_printed_string.
  Qed.

  Lemma RP_ident_const s v : plain_head s = true ->
    (forall line, read_atom m (mkTok KIdent s line) = Ok v) -> unpos v = v -> RP v [(KIdent, s)].
  Proof. intros Hp Hr Hu. apply RP_atom; auto. intros line. exists v. split; auto. Qed.

  Lemma RP_sym s p : sym_ok s = true -> RP (VSym s p) [(KIdent, s)].
  Proof.
    unfold sym_ok. rewrite !andb_true_iff, !negb_true_iff. intros [[[[Hi H1] H2] H3] H4].
    destruct s as [|c r]; [discriminate|]. simpl in Hi. rewrite andb_true_iff in Hi.
    apply RP_atom; [apply ident_plain; [tauto | exact H4]|].
    intros line. eexists. unfold read_atom. cbn [tkind_of ttext]. rewrite H1, H2, H3. split; reflexivity.
  Qed.

  Lemma show_Z_plain z : plain_head (show_Z z) = true.
  Proof.
    destruct (show_Z_cases z) as [[_ ->]|[[p [_ ->]]|[p [_ ->]]]]; try reflexivity.
    pose proof (numeral_pos p) as Hn. destruct (digits_of_uint (Pos.to_uint p)) as [|c r]; [discriminate|].
    pose proof (numeral_head_dec c r Hn) as Hc. unfold isDecimal in Hc. rewrite andb_true_iff, !N.leb_le in Hc.
    unfold plain_head. rewrite negb_true_iff. cbn [existsb]. rewrite !orb_false_iff, !N.eqb_neq. repeat split; lia.
  Qed.

  Lemma RP_int z : in_int64 z = true -> RP (VInt z) [(KInt, show_Z z)].
  Proof.
    intros Hz. apply RP_atom; [apply show_Z_plain|]. intros line. exists (VInt z). split; [|reflexivity].
    unfold read_atom. cbn [tkind_of ttext]. now rewrite parse_show_Z.
  Qed.

  (** the loop of read_list over the tokens of a sequence of elements *)
  Lemma read_items_els fuel' fin closer :
    (closer = s_ ")" \/ closer = s_ "]" \/ closer = s_ "}") ->
    forall els, Forall (fun e : val * list (tkind * str) => RP (fst e) (snd e)) els ->
    forall k tss cl ts2 acc last,
      map tt tss = concat (map snd els) -> ttext cl = closer ->
      (length tss < k)%nat -> (length tss < fuel')%nat ->
      exists vs, map unpos vs = map unpos (map fst els) /\
        read_items m (read_form m None None fuel') fin closer k (tss ++ cl :: ts2) acc last =
        (let* v := fin (rev acc ++ vs) cl in Ok (v, ts2)).
  Proof.
    intros Hcl. induction els as [|[e tk] els IH]; intros HF k tss cl ts2 acc last Hm Hc Hk Hf.
    - simpl in Hm. destruct tss; [|discriminate]. destruct k; [simpl in Hk; lia|]. exists []. split; [reflexivity|].
      simpl app. cbn [read_items]. rewrite Hc. rewrite str_eqb_refl.
      now rewrite app_nil_r.
    - pose proof (Forall_inv HF) as [Hnc Hrp]. pose proof (Forall_inv_tail HF) as Hels. simpl in Hm. cbn [fst snd] in *.
      apply map_eq_app in Hm. destruct Hm as [t1 [t2 [-> [Ht1 Ht2]]]].
      destruct k; [simpl in Hk; lia|].
      destruct t1 as [|c0 t1']. { simpl in Ht1. subst tk. discriminate. }
      rewrite <- app_assoc. simpl app. cbn [read_items].
      assert (Hnot : str_eqb (ttext c0) closer = false).
      { destruct tk as [|[k0 s0] tk']; [discriminate|]. simpl in Ht1. inversion Ht1 as [[Hk0 Hs0] ]. unfold tt in Hk0.
        simpl in Hnc. rewrite <- Hs0 in Hnc. unfold tt in Hs0. simpl in Hs0.
        destruct (ttext c0) as [|ch r0]; [discriminate|]. simpl in Hnc. rewrite negb_true_iff, !orb_false_iff in Hnc.
        destruct Hcl as [->|[->| ->]]; apply str_eqb_head_ne; tauto. }
      rewrite Hnot.
      rewrite app_length in Hk, Hf.
      destruct (Hrp (c0 :: t1') (t2 ++ cl :: ts2) fuel' Ht1 ltac:(lia)) as [v' [Er Eu]].
      change (c0 :: t1' ++ t2 ++ cl :: ts2) with ((c0 :: t1') ++ t2 ++ cl :: ts2). rewrite Er. cbn [bind].
      destruct (IH Hels k t2 cl ts2 (v' :: acc) c0 Ht2 Hc ltac:(simpl in Hk; lia) ltac:(lia)) as [vs [Evs Eread]].
      exists (v' :: vs). split; [simpl; now rewrite Eu, Evs|].
      rewrite Eread. simpl rev. rewrite <- app_assoc. reflexivity.
  Qed.
End ReadBack2.

(** ---- rebuilding maps and sets from their items ---- *)
Lemma aset_fresh {A} k (v : A) acc : ~ In k (map fst acc) -> aset k v acc = acc ++ [(k, v)].
Proof.
  induction acc as [|[k' v'] r IH]; simpl; intros Hn; [reflexivity|].
  destruct (str_eqb_spec k k') as [->|Hne]; [exfalso; apply Hn; left; reflexivity|].
  rewrite IH; [reflexivity|]. intros Hi. apply Hn. right. exact Hi.
Qed.

Lemma new_hash_map_pairs : forall (m0 : list (str * val)) vs acc,
  map unpos vs = map unpos (concat (map (fun kv => [VStr (fst kv); snd kv]) m0)) ->
  NoDup (map fst acc ++ map fst m0) ->
  exists m', new_hash_map acc vs = Ok (acc ++ m') /\ map fst m' = map fst m0 /\
             map (fun kv => unpos (snd kv)) m' = map (fun kv => unpos (snd kv)) m0.
Proof.
  induction m0 as [|[k v] r IH]; intros vs acc Hv Hnd.
  - simpl in Hv. destruct vs; [|discriminate]. exists []. rewrite app_nil_r. auto.
  - simpl in Hv. destruct vs as [|k' [|v' vs']]; try discriminate. simpl in Hv. inversion Hv as [[Hk Hv' Hrest]].
    apply unpos_str_inv in Hk. subst k'. cbn [new_hash_map].
    simpl in Hnd.
    assert (Hfresh : ~ In k (map fst acc)).
    { intros Hi. apply NoDup_remove_2 in Hnd. apply Hnd. apply in_or_app. left. exact Hi. }
    rewrite (aset_fresh k v' acc Hfresh).
    destruct (IH vs' (acc ++ [(k, v')]) Hrest) as [m' [E [F G]]].
    { rewrite map_app. simpl. rewrite <- app_assoc. simpl. 
      (* acc ++ k :: r  has the same keys *) exact Hnd. }
    exists ((k, v') :: m'). rewrite E. rewrite <- app_assoc. simpl. split; [reflexivity|]. split; simpl; congruence.
Qed.

Lemma set_items_strs : forall ks vs acc,
  map unpos vs = map VStr ks -> NoDup (acc ++ ks) -> set_items acc vs = Ok (acc ++ ks).
Proof.
  induction ks as [|k r IH]; intros vs acc Hv Hnd.
  - destruct vs; [|discriminate]. simpl. now rewrite app_nil_r.
  - destruct vs as [|k' vs']; [discriminate|]. simpl in Hv. inversion Hv as [[Hk Hrest]]. apply unpos_str_inv in Hk. subst k'.
    cbn [set_items]. unfold sadd.
    assert (Hfresh : smem k acc = false).
    { destruct (smem k acc) eqn:E; [|reflexivity]. apply smem_In in E. apply NoDup_remove_2 in Hnd. exfalso. apply Hnd.
      apply in_or_app. left. exact E. }
    rewrite Hfresh. rewrite (IH vs' (acc ++ [k]) Hrest); [now rewrite <- app_assoc|]. now rewrite <- app_assoc.
Qed.

Lemma odd_double {A} (l : list A) n : length l = (2 * n)%nat -> Nat.odd (length l) = false.
Proof. intros ->. rewrite Nat.odd_mul. reflexivity. Qed.

Lemma map_pairs_eq : forall (m' m0 : list (str * val)), map fst m' = map fst m0 ->
  map (fun kv => unpos (snd kv)) m' = map (fun kv => unpos (snd kv)) m0 ->
  map (fun kv => (fst kv, unpos (snd kv))) m' = map (fun kv => (fst kv, unpos (snd kv))) m0.
Proof.
  induction m' as [|[k v] r IH]; intros [|[k0 v0] r0] F G; try discriminate; [reflexivity|].
  simpl in *. inversion F. inversion G. subst. rewrite H2. f_equal. apply IH; auto.
Qed.

(** ---- every printable value reads back ---- *)
Section ReadValue.
  Variable m : option str.

  Lemma open_dispatch t fuel rest (o : str) closer kind :
    ttext t = o ->
    (o = [40] /\ closer = s_ ")" /\ kind = 0%nat) \/ (o = [91] /\ closer = s_ "]" /\ kind = 1%nat) \/
    (o = [123] /\ closer = s_ "}" /\ kind = 2%nat) \/ (o = [35; 123] /\ closer = s_ "}" /\ kind = 3%nat) ->
    read_form m None None (S fuel) (t :: rest) =
    read_items m (read_form m None None fuel) (fun items c => finish_coll None kind items (span_pos m t c)) closer fuel rest [] t.
  Proof.
    intros Et H. cbn [read_form]. unfold macro_name, closer_of, text_is. rewrite Et.
    destruct H as [[-> [-> ->]]|[[-> [-> ->]]|[[-> [-> ->]]|[-> [-> ->]]]]]; reflexivity.
  Qed.

  Lemma map_tt_cons ts k s tk : map tt ts = (k, s) :: tk -> exists t ts', ts = t :: ts' /\ tkind_of t = k /\ ttext t = s /\ map tt ts' = tk.
  Proof. destruct ts as [|t ts']; [discriminate|]. simpl. intros E. inversion E. eauto 7. Qed.

  Lemma coll_RP (els : list (val * list (tkind * str))) o ko closer kind cch e :
    (o = [40] /\ closer = s_ ")" /\ kind = 0%nat /\ cch = 41) \/ (o = [91] /\ closer = s_ "]" /\ kind = 1%nat /\ cch = 93) \/
    (o = [123] /\ closer = s_ "}" /\ kind = 2%nat /\ cch = 125) \/ (o = [35; 123] /\ closer = s_ "}" /\ kind = 3%nat /\ cch = 125) ->
    Forall (fun e : val * list (tkind * str) => RP m (fst e) (snd e)) els ->
    (forall vs p, map unpos vs = map unpos (map fst els) -> exists v', finish_coll None kind vs p = Ok v' /\ unpos v' = unpos e) ->
    RP m e ((ko, o) :: concat (map snd els) ++ [(KChar cch, [cch])]).
  Proof.
    intros Hk HF Hfin. split.
    { simpl. destruct Hk as [[-> _]|[[-> _]|[[-> _]|[-> _]]]]; reflexivity. }
    intros ts1 ts2 fuel Hm Hf.
    apply map_tt_cons in Hm. destruct Hm as [t0 [ts' [-> [_ [Et Hm]]]]].
    apply map_eq_app in Hm. destruct Hm as [tss [tcl [-> [Htss Hcl]]]].
    apply map_tt_cons in Hcl. destruct Hcl as [cl [tnil [-> [_ [Ecl Hnil]]]]]. destruct tnil; [|discriminate].
    destruct fuel as [|fuel']; [simpl in Hf; lia|].
    simpl app. rewrite <- app_assoc. simpl app.
    rewrite (open_dispatch t0 fuel' (tss ++ cl :: ts2) o closer kind Et).
    2:{ destruct Hk as [[? [? [? ?]]]|[[? [? [? ?]]]|[[? [? [? ?]]]|[? [? [? ?]]]]]]; subst; auto 10. }
    simpl in Hf. rewrite app_length in Hf. simpl in Hf.
    destruct (read_items_els m fuel' (fun items c => finish_coll None kind items (span_pos m t0 c)) closer) with
      (els := els) (k := fuel') (tss := tss) (cl := cl) (ts2 := ts2) (acc := @nil val) (last := t0) as [vs [Evs Er]]; auto; try lia.
    - destruct Hk as [[? [? [? ?]]]|[[? [? [? ?]]]|[[? [? [? ?]]]|[? [? [? ?]]]]]]; subst; auto.
    - rewrite Ecl. destruct Hk as [[? [? [? ?]]]|[[? [? [? ?]]]|[[? [? [? ?]]]|[? [? [? ?]]]]]]; subst; reflexivity.
    - rewrite Er. simpl rev. simpl app. destruct (Hfin vs (span_pos m t0 cl) Evs) as [v' [Ef Eu]]. rewrite Ef. simpl. eauto.
  Qed.

  Theorem pv_RP : forall v, pv v = true -> RP m v (toks v).
  Proof.
    induction v using val_ind'; intros Hp; try discriminate.
    - apply RP_ident_const; auto.
    - destruct b; apply RP_ident_const; auto.
    - apply RP_int, Hp.
    - apply RP_str, Hp.
    - apply RP_sym, Hp.
    - rewrite pv_list in Hp. rewrite toks_list.
      set (els := map (fun x => (x, toks x)) l).
      assert (E1 : concat (map toks l) = concat (map snd els)) by (subst els; now rewrite map_map).
      assert (E2 : map fst els = l) by (subst els; rewrite map_map; simpl; apply map_id).
      rewrite E1. apply (coll_RP els [40] (KChar 40) (s_ ")") 0%nat 41); auto 10.
      + subst els. rewrite Forall_forall in *. intros e He. apply in_map_iff in He. destruct He as [x [<- Hx]]. simpl.
        apply H; auto. rewrite forallb_forall in Hp. auto.
      + intros vs p' Hvs. eexists. split; [reflexivity|]. rewrite !unpos_list, Hvs, E2. reflexivity.
    - rewrite pv_vec in Hp. rewrite toks_vec.
      set (els := map (fun x => (x, toks x)) l).
      assert (E1 : concat (map toks l) = concat (map snd els)) by (subst els; now rewrite map_map).
      assert (E2 : map fst els = l) by (subst els; rewrite map_map; simpl; apply map_id).
      rewrite E1. apply (coll_RP els [91] (KChar 91) (s_ "]") 1%nat 93); auto 10.
      + subst els. rewrite Forall_forall in *. intros e He. apply in_map_iff in He. destruct He as [x [<- Hx]]. simpl.
        apply H; auto. rewrite forallb_forall in Hp. auto.
      + intros vs p' Hvs. eexists. split; [reflexivity|]. rewrite !unpos_vec, Hvs, E2. reflexivity.
    - rewrite pv_map, andb_true_iff in Hp. destruct Hp as [Hp Hnd]. rewrite toks_map.
      set (els := concat (map (fun kv : str * val => [(VStr (fst kv), [str_tok (fst kv)]); (snd kv, toks (snd kv))]) m0)).
      assert (E1 : concat (map (fun kv => str_tok (fst kv) :: toks (snd kv)) m0) = concat (map snd els)).
      { subst els. clear. induction m0 as [|kv r IH]; simpl; [reflexivity | now rewrite IH]. }
      assert (E2 : map fst els = concat (map (fun kv => [VStr (fst kv); snd kv]) m0)).
      { subst els. clear. induction m0 as [|kv r IH]; simpl; [reflexivity | now rewrite IH]. }
      rewrite E1. apply (coll_RP els [123] (KChar 123) (s_ "}") 2%nat 125); auto 10.
      + subst els. rewrite Forall_forall in *. intros e He. apply in_concat in He. destruct He as [l2 [Hl2 He]].
        apply in_map_iff in Hl2. destruct Hl2 as [kv [<- Hkv]]. rewrite forallb_forall in Hp. specialize (Hp _ Hkv).
        rewrite andb_true_iff in Hp. destruct He as [<-|[<-|[]]]; simpl; [apply RP_str; tauto | apply H; tauto].
      + intros vs p' Hvs. rewrite E2 in Hvs. cbn [finish_coll].
        assert (Hlen : length vs = (2 * length m0)%nat).
        { apply (f_equal (@length val)) in Hvs. rewrite !map_length in Hvs. rewrite Hvs. clear. induction m0; simpl; lia. }
        rewrite (odd_double vs _ Hlen).
        destruct (new_hash_map_pairs m0 vs [] Hvs) as [m' [E [F G]]]; [simpl; apply nodup_keys_NoDup, Hnd|].
        rewrite E. cbn [app bind]. eexists. split; [reflexivity|]. rewrite (unpos_map m'), (unpos_map m0). f_equal.
        apply map_pairs_eq; auto.
    - simpl in Hp. rewrite andb_true_iff in Hp. destruct Hp as [Hp Hnd]. cbn [toks].
      set (els := map (fun k : str => (VStr k, [str_tok k])) ks).
      assert (E1 : map str_tok ks = concat (map snd els)).
      { subst els. clear. induction ks as [|k r IH]; simpl; [reflexivity | now rewrite IH]. }
      assert (E2 : map fst els = map VStr ks) by (subst els; now rewrite map_map).
      rewrite E1. apply (coll_RP els [35; 123] KIdent (s_ "}") 3%nat 125); auto 10.
      + subst els. rewrite Forall_forall. intros e He. apply in_map_iff in He. destruct He as [k [<- Hk]]. simpl.
        apply RP_str. rewrite forallb_forall in Hp. auto.
      + intros vs p' Hvs. rewrite E2 in Hvs. cbn [finish_coll]. unfold new_set. cbn [get_slice bind].
        assert (Hv' : map unpos vs = map VStr ks).
        { rewrite Hvs. clear. induction ks; simpl; congruence. }
        rewrite (set_items_strs ks vs [] Hv'); [|simpl; apply nodup_strs_NoDup, Hnd]. simpl. eexists. split; reflexivity.
  Qed.
End ReadValue.

Lemma module_of_head c r : N.eqb c 59 = false -> module_of (c :: r) = None.
Proof.
  intros H. unfold module_of. change (s_ ";; $MODULE ") with (59 :: s_ "; $MODULE "). cbn [prefix_of].
  rewrite N.eqb_sym, H. reflexivity.
Qed.

(** ---- C06 ---- *)
Theorem print_then_read v : pv v = true -> clean (pr_str true v) = true ->
  exists v', read_str None None None (pr_str true v) = Ok v' /\ unpos v' = unpos v.
Proof.
  intros Hp Hc. unfold read_str.
  assert (Hm : module_of (pr_str true v) = None).
  { unfold module_of. pose proof (pr_head v Hp) as Hh. destruct (pr_str true v) as [|c r]; [contradiction|].
    destruct Hh as [_ H59]. apply module_of_head, H59. }
  rewrite Hm. destruct (tokenize_printed v Hp Hc) as [ts [Et Em]]. rewrite Et.
  unfold read_all. destruct ts as [|t ts']. { destruct v; simpl in Em; try discriminate; destruct b; discriminate. }
  destruct (pv_RP None v Hp) as [_ Hr].
  destruct (Hr (t :: ts') [] (S (length (t :: ts'))) Em ltac:(lia)) as [v' [Er Eu]].
  rewrite app_nil_r in Er. rewrite Er. simpl. eauto.
Qed.

(** the same under any module name of the cursor (positions then carry the name; the value is the same) *)
Theorem print_then_read_module cm v : pv v = true -> clean (pr_str true v) = true ->
  exists v', read_str cm None None (pr_str true v) = Ok v' /\ unpos v' = unpos v.
Proof.
  intros Hp Hc. destruct cm as [x|]; [|apply print_then_read; auto].
  unfold read_str. destruct (tokenize_printed v Hp Hc) as [ts [Et Em]]. rewrite Et.
  unfold read_all. destruct ts as [|t ts']. { destruct v; simpl in Em; try discriminate; destruct b; discriminate. }
  destruct (pv_RP (Some x) v Hp) as [_ Hr].
  destruct (Hr (t :: ts') [] (S (length (t :: ts'))) Em ltac:(lia)) as [v' [Er Eu]].
  rewrite app_nil_r in Er. rewrite Er. simpl. eauto.
Qed.
