package main

import (
	"context"
	"fmt"

	lisp "github.com/jig/lisp"
	"github.com/jig/lisp/printer"

	"github.com/jig/lisp/types"
	"verif.local/harness/h"
)

func init() { runners["C14"] = runC14 }

// universe for the exhaustive part: every kind, same spellings across kinds, maps that
// differ only in which keys are present, maps holding nil, nesting.
func c14Universe() []types.MalType {
	K := h.Kw
	hm := func(kv ...types.MalType) types.MalType {
		m := map[string]types.MalType{}
		for i := 0; i+1 < len(kv); i += 2 {
			m[kv[i].(string)] = kv[i+1]
		}
		return types.HashMap{Val: m}
	}
	set := func(ks ...string) types.MalType {
		m := map[string]struct{}{}
		for _, k := range ks {
			m[k] = struct{}{}
		}
		return types.Set{Val: m}
	}
	L := func(xs ...types.MalType) types.MalType { return types.List{Val: xs} }
	V := func(xs ...types.MalType) types.MalType { return types.Vector{Val: xs} }
	u := []types.MalType{
		nil, false, true, 0, 1, -1, "", "a", "nil", "0", K("a"), K("b"), "ʞ",
		types.Symbol{Val: "a"}, types.Symbol{Val: "nil"},
		L(), V(), L(nil), V(nil), L(0), L(false), L(1, 2), V(1, 2), L(2, 1), L(1, 2, 3), L(L()), L(V()), V(L(1), 2), L(V(1), 2),
		L("a"), L(K("a")), L(types.Symbol{Val: "a"}),
		hm(), hm(K("a"), nil), hm(K("b"), nil), hm(K("b"), 2), hm(K("a"), 1), hm("a", 1), hm(K("a"), 1, K("b"), 2), hm(K("b"), 2, K("a"), 1),
		hm(K("a"), 1, K("b"), nil), hm(K("a"), 1, K("c"), nil), hm(K("a"), nil, K("b"), nil), hm(K("a"), nil, K("c"), nil), hm(K("k"), 1, K("a"), nil), hm(K("k"), 1, K("b"), 2),
		hm(K("a"), L(1, 2)), hm(K("a"), V(1, 2)), hm(K("a"), hm(K("x"), nil)), hm(K("a"), hm(K("y"), nil)), hm(K("a"), L()), hm(K("a"), false),
		set(), set("a"), set(K("a")), set("a", "b"), set("b", "a"), set(K("a"), "a"), set("a", "c"),
		types.Set{Val: nil}, V(types.Set{Val: nil}), // the empty set as (set nil) builds it: no member map at all
		L(hm(K("a"), nil)), L(hm(K("b"), nil)), V(set("a")), V(set("b")), L(1, L()), L(1, nil), hm(K("a"), V()),
	}
	return u
}

func runC14(tier string, seed uint64, rep *Report) {
	rep.Rule = "pairs (a,b) of data values through the `=` builtin: every ordered pair of a fixed universe " +
		"(exhaustive) plus seeded random pairs (independent / near-equal by one local mutation / rebuilt along another " +
		"construction path); a case is non-trivial when both operands are collections of the same family (sequence/map/set); " +
		"direct oracle: `=` vs an independent structural comparison, symmetry, and transitivity on triples"
	w, err := h.NewWorld()
	if err != nil {
		panic(err)
	}
	eq := func(a, b types.MalType) h.Outcome { return w.CallBuiltin("=", a, b) }
	family := func(v types.MalType) int {
		switch v.(type) {
		case types.List, types.Vector:
			return 1
		case types.HashMap:
			return 2
		case types.Set:
			return 3
		}
		return 0
	}
	one := func(a, b types.MalType, tag string) {
		o := eq(a, b)
		res := "P"
		if o.Panic == nil && o.Err == nil {
			if bv, ok := o.Val.(bool); ok && bv {
				res = "T"
			} else {
				res = "F"
			}
		} else if o.Err != nil {
			res = "P" // the model says P for an uncomparable comparison; never expected on data
		}
		pretty := fmt.Sprintf("(= '%s '%s)", h.Show(a), h.Show(b))
		idx := rep.Add("Q "+h.EncS(a)+h.EncS(b), res, pretty, family(a) != 0 && family(a) == family(b), tag, "result:"+res)
		want := h.StructEq(a, b)
		if res == "P" || (res == "T") != want {
			rep.Violate(idx, fmt.Sprintf("= returned %s, structural comparison says %v", res, want), pretty)
		}
		o2 := eq(b, a)
		if o2.Panic == nil && o2.Err == nil && o.Panic == nil && o.Err == nil && o.Val != o2.Val {
			rep.Violate(idx, "= is not symmetric on this pair", pretty)
		}
	}
	u := c14Universe()
	for _, a := range u {
		for _, b := range u {
			one(a, b, "universe")
		}
	}
	rep.Extra["universe_size"] = len(u)
	r := h.NewRng(seed)
	n := 3000
	if tier == "thorough" {
		n = 150000
	}
	for i := 0; i < n; i++ {
		a := h.GenData(r, 4)
		var b types.MalType
		tag := ""
		switch r.Intn(4) {
		case 0:
			b, tag = h.GenData(r, 4), "random-independent"
		case 1:
			b, tag = h.Rebuild(a), "random-rebuilt"
		default:
			b, tag = h.Mutate(r, a, 4), "random-near"
		}
		one(a, b, tag)
		if i%10 == 0 { // transitivity on a triple
			c := h.Mutate(r, b, 4)
			ab, bc, ac := eq(a, b), eq(b, c), eq(a, c)
			if ab.Val == true && bc.Val == true && ac.Val != true {
				rep.Violate(-1, "= is not transitive", fmt.Sprintf("a=%s b=%s c=%s", h.Show(a), h.Show(b), h.Show(c)))
			}
			rep.Histogram["triples"]++
		}
	}
	// values that SHARE STORAGE: a sequence and a proper prefix / a window of it over the same Go array (what subvec,
	// rest and the reader's slices produce), alone and nested at matching positions; a map and a copy sharing element values
	m := 400
	if tier == "thorough" {
		m = 20000
	}
	for i := 0; i < m; i++ {
		k := 1 + r.Intn(5)
		base := make([]types.MalType, k, k+r.Intn(3))
		for j := range base {
			base[j] = h.GenData(r, 2)
		}
		lo := r.Intn(k + 1)
		hi := lo + r.Intn(k-lo+1)
		mk := func(xs []types.MalType, vec bool) types.MalType {
			if vec {
				return types.Vector{Val: xs}
			}
			return types.List{Val: xs}
		}
		va, vb := r.Bool(), r.Bool()
		a, b := mk(base, va), mk(base[lo:hi], vb)
		if r.Bool() {
			b = mk(base[:hi], vb) // a prefix starting at the same element
		}
		one(a, b, "shared-storage")
		one(types.Vector{Val: []types.MalType{a, 1}}, types.Vector{Val: []types.MalType{b, 1}}, "shared-storage-nested")
		one(types.HashMap{Val: map[string]types.MalType{h.Kw("k"): a}}, types.HashMap{Val: map[string]types.MalType{h.Kw("k"): b}}, "shared-storage-in-map")
		// transitivity through a fresh copy of the shorter one
		c := h.Rebuild(b)
		ab, bc, ac := eq(a, b), eq(b, c), eq(a, c)
		if ab.Val == true && bc.Val == true && ac.Val != true {
			rep.Violate(-1, "= is not transitive", fmt.Sprintf("a=%s b=%s (a window of a's storage) c=%s (a copy of b)", h.Show(a), h.Show(b), h.Show(c)))
		}
	}
	// empty collections however they were built (through the builtins): all empty sets are equal, all empty maps, ...
	builders := map[string][]string{
		"set":  {"(set nil)", "(hash-set)", "(set [])", "#{}", "(dissoc #{:a} :a)", "(with-meta (set nil) {:m 1})", "(set ())"},
		"map":  {"{}", "(hash-map)", "(dissoc {:a 1} :a)", "(merge {} nil)", "(merge nil {})", "(with-meta {} {:m 1})"},
		"list": {"()", "(list)", "(rest [1])", "(rest nil)", "(take 0 [1 2])", "(concat)", "(concat nil)", "(seq [])"},
		"vec":  {"[]", "(vec nil)", "(vec ())", "(subvec [1] 1)", "(vector)"},
	}
	for kind, srcs := range builders {
		var vals []types.MalType
		var ok []string
		for _, src := range srcs {
			o := w.EvalText(context.Background(), src)
			if o.Err != nil || o.Panic != nil || o.Val == nil {
				continue // not every spelling yields a collection (e.g. (seq []) is nil): those are not compared
			}
			vals = append(vals, o.Val)
			ok = append(ok, src)
		}
		for i := range vals {
			for j := range vals {
				one(vals[i], vals[j], "empty-"+kind+"-built-differently")
				one(types.Vector{Val: []types.MalType{1, vals[i]}}, types.Vector{Val: []types.MalType{1, vals[j]}}, "empty-"+kind+"-nested")
				_ = ok
			}
		}
	}
	// values that came out of the READER carry source positions (symbols, lists, vectors): the same data read from
	// two texts with different layout / module name, against each other and against the position-less built value
	nr := 600
	if tier == "thorough" {
		nr = 30000
	}
	for i := 0; i < nr; i++ {
		a := h.GenData(r, 3)
		if i < 8 {
			a = []types.MalType{types.Symbol{Val: "a"}, types.List{Val: []types.MalType{types.Symbol{Val: "a"}, types.Symbol{Val: "b"}}},
				types.Vector{Val: []types.MalType{types.Symbol{Val: "k"}, types.List{Val: []types.MalType{1, 2}}, types.Vector{Val: []types.MalType{3}}}},
				types.HashMap{Val: map[string]types.MalType{h.Kw("k"): types.Symbol{Val: "a"}}},
				types.List{Val: []types.MalType{types.List{Val: []types.MalType{1, 2}}}}, types.Vector{Val: []types.MalType{types.Vector{Val: []types.MalType{}}}},
				types.HashMap{Val: map[string]types.MalType{h.Kw("xs"): types.List{Val: []types.MalType{1, 2}}}},
				types.HashMap{Val: map[string]types.MalType{h.Kw("xs"): types.Vector{Val: []types.MalType{types.Symbol{Val: "q"}}}}}}[i]
		}
		txt := printer.Pr_str(a, true)
		r1, e1 := lisp.READ(txt, nil, w.Env)
		r2, e2 := lisp.READ("\n\n   "+txt+" ; c", types.NewCursorFile("mod.lisp"), w.Env)
		if e1 != nil || e2 != nil || !h.StructEq(a, r1) {
			rep.Histogram["read-skipped"]++
			continue // not every generated value has a readable printed form (C06's business)
		}
		one(r1, r2, "read-at-two-positions")
		one(r1, a, "read-vs-built")
		one(a, r2, "built-vs-read")
		one(types.Vector{Val: []types.MalType{r1}}, types.List{Val: []types.MalType{r2}}, "read-nested")
		one(types.HashMap{Val: map[string]types.MalType{h.Kw("k"): r1}}, types.HashMap{Val: map[string]types.MalType{h.Kw("k"): r2}}, "read-in-map")
		if ab, bc, ac := eq(r1, a), eq(a, r2), eq(r1, r2); ab.Val == true && bc.Val == true && ac.Val != true {
			rep.Violate(-1, "= is not transitive", fmt.Sprintf("read once, built, read again: %s", txt))
		}
	}
	// the same through programs: quoted data compared with data built by calls
	for _, src := range []string{"(= 'a 'a)", "(= 'a (symbol \"a\"))", "(= '(a b) (list 'a 'b))", "(= {:k 'a} {:k 'a})", "(= `(a ~(+ 1 1)) '(a 2))",
		"(= (read-string \"(a [b])\") '(a [b]))", "(let [s 'a] (= s 'a))", "(= ['a] ['a])", "(= {:xs (list 1 2)} {:xs [1 2]})", "(= [(list 1 2)] [[1 2]])",
		"(= {:a {:xs (rest [0 1])}} {:a {:xs [1]}})", "(= (list {:xs '(1)}) [{:xs [1]}])"} {
		o := w.EvalText(context.Background(), src)
		rep.Histogram["program-level"]++
		if o.Val != true {
			rep.Violate(-1, "structurally equal data compared unequal", src+" => "+h.Show(o.Val))
		}
	}
	// reflexivity over the universe and random values
	for _, a := range u {
		if o := eq(a, a); o.Val != true {
			rep.Violate(-1, "= is not reflexive", h.Show(a))
		}
	}
	rep.Exhaustive = false
}
