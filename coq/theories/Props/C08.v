(** C08 — tail calls use no host stack.
    [d] in [eval n d ast env] is the number of lisp.EVAL frames on the Go stack.  Each
    theorem is one iteration of EVAL's loop: the form in tail position is evaluated at the
    SAME depth d, sub-expressions at depth S d.  Only `exact`; proofs in EvalProofs.v. *)
From Lisp Require Import Base Value Core Binder Env Eval Interp EvalProofs Run.
From Lisp.Gen Require Import Examples.

Theorem C08_if_branch_same_depth : forall n d c a b cur env st,
  macro_of st (VList [sy "if"; c; a; b] cur) env = None ->
  eval (S n) d (VList [sy "if"; c; a; b] cur) env st =
  prop (eval n (S d) c env st) (fun cv st' => if truthy cv then eval n d a env st' else eval n d b env st').
Proof. exact eval_if. Qed.

Theorem C08_do_last_same_depth : forall n d forms cur env st,
  macro_of st (VList (sy "do" :: forms) cur) env = None ->
  eval (S n) d (VList (sy "do" :: forms) cur) env st =
  prop (do_forms (eval n) d (sy "do" :: forms) 1 true env st) (fun last st' => eval n d last env st').
Proof. exact eval_do. Qed.

Theorem C08_closure_body_same_depth : forall n d s p args cur env st params body fenv vs st1,
  macro_of st (VList (VSym s p :: args) cur) env = None ->
  is_special s = false ->
  eval_list (eval n) d (VSym s p :: args) env st = (Ok (VFn params body fenv false :: vs), st1) ->
  eval (S n) d (VList (VSym s p :: args) cur) env st =
  match new_env_binds fenv params (VList vs None) st1 with
  | (Ok env', st2) => eval n d body env' st2
  | (Err e, st2) => (bind_error e body, st2)
  | (Panic x, st2) => (Panic x, st2)
  | (OutOfFuel, st2) => (OutOfFuel, st2)
  end.
Proof. exact eval_call_closure. Qed.

(** macros (cond, and, or ... are the repository's lisp text): the expansion is evaluated by
    the same loop iteration, at depth d; only the macro's own body ran at depth S d *)
Theorem C08_macro_expansion_same_depth : forall n d head p rest cur env st mac,
  macro_of st (VList (VSym head p :: rest) cur) env = Some mac ->
  eval (S n) d (VList (VSym head p :: rest) cur) env st =
  prop (macroexpand (eval n) (call_builtin n (eval n)) n d (VList (VSym head p :: rest) cur) env st)
       (fun ast' st' => eval_step (eval n) (eval n) (call_builtin n (eval n)) n d ast' env st').
Proof. exact eval_macro_call. Qed.

(** Computed instances on the generated headers (tests, not the unbounded claim): the depth
    observed at the base case is the same for 0, 10 and 200 iterations, through if, cond,
    and/or, let+do, and mutual recursion; a non-tail call does grow. *)
Example C08_loop_if : observe ex_c08_if = s_ "V l 3 i 2 i 2 i 2 | l 0 ". Proof. vm_compute. reflexivity. Qed.
Example C08_loop_cond : observe ex_c08_cond = s_ "V l 3 i 2 i 2 i 2 | l 0 ". Proof. vm_compute. reflexivity. Qed.
Example C08_loop_and_or : observe ex_c08_and_or = s_ "V l 3 i 2 i 2 i 2 | l 0 ". Proof. vm_compute. reflexivity. Qed.
Example C08_loop_let_do : observe ex_c08_let_do = s_ "V l 3 i 2 i 2 i 2 | l 0 ". Proof. vm_compute. reflexivity. Qed.
Example C08_loop_mutual : observe ex_c08_mutual = s_ "V l 3 i 2 i 2 i 2 | l 0 ". Proof. vm_compute. reflexivity. Qed.
Example C08_nontail_grows : observe ex_c08_nontail = s_ "V l 2 i 2 i 5 | l 0 ". Proof. vm_compute. reflexivity. Qed.

Print Assumptions C08_if_branch_same_depth.
Print Assumptions C08_do_last_same_depth.
Print Assumptions C08_closure_body_same_depth.
Print Assumptions C08_macro_expansion_same_depth.
