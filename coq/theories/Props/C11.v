(** C11 — concurrent evaluations on one environment are race-free and isolated. *)
From Lisp Require Import Base Value Env EnvProofs Lockset LocksetProofs MutexProofs PinsCommon PinsEnv.
From Lisp.Gen Require Import ConcActions.

(** RACE FREEDOM OF SCOPES.  On the action lists regenerated from env/env.go at every run: every
    function is accepted by the lock-discipline analysis, the entry points other packages use can be
    entered with the mutex free, and the *NT variants are only ever called with the lock already
    held in a sufficient mode (never re-locking the same scope) *)
Theorem C11_env_lock_discipline : discipline env_shared env_all env_entry_points = true.
Proof. exact env_discipline. Qed.

(** the analysis is sound: on EVERY path through such a function — any branch, any number of loop
    iterations — each read of the bindings map happens under the scope's read or write lock, each
    write under the write lock, no lock is taken twice, and the function returns with its locks
    balanced *)
Theorem C11_analysis_sound : forall shared tbl entry code,
  fn_ok shared tbl entry code = true ->
  forall tr r, LocksetProofs.run code tr r ->
  exists st', mon shared tbl (mkL entry None) tr = Some st' /\ ret_ok entry st' = true.
Proof. exact fn_ok_sound. Qed.

Theorem C11_env_accesses_guarded : forall name code, In (name, code) env_all ->
  exists m, forall tr r, LocksetProofs.run (parse code) tr r ->
    accesses_guarded env_shared (final_table env_shared env_all) (mkL m None) tr.
Proof. exact (all_fn_ok_guarded env_shared env_all env_all_fn_ok). Qed.

(** ... and from that discipline, race freedom: ANY number of threads, each running ANY path of ANY
    entry point of env.go against one scope whose RWMutex is exclusive for writers, shared for
    readers and blocking — under EVERY schedule a thread about to write the bindings map never
    coexists with another thread about to read or write it *)
Theorem C11_scope_race_free : forall traces sched t u tht thu,
  (forall tr, In tr traces -> env_entry_path tr) ->
  let tbl := final_table env_shared env_all in
  let s := grun env_shared tbl (ginit traces) sched in
  nth_error (g_threads s) t = Some tht -> nth_error (g_threads s) u = Some thu ->
  next_is_write env_shared tht -> next_is_access env_shared thu -> t = u.
Proof. exact env_scope_race_free. Qed.

(** (the general form: whatever the code, monitor-accepted traces are race free) *)
Theorem C11_discipline_implies_race_freedom : forall shared tbl traces sched t u tht thu,
  (forall tr, In tr traces -> exists st', mon shared tbl (mkL MFree None) tr = Some st' /\ ret_ok MFree st' = true) ->
  let s := grun shared tbl (ginit traces) sched in
  nth_error (g_threads s) t = Some tht -> nth_error (g_threads s) u = Some thu ->
  next_is_write shared tht -> next_is_access shared thu -> t = u.
Proof. exact discipline_implies_race_freedom. Qed.

(** ISOLATION OF LOCAL SCOPES (evaluator model).  A binding goes into exactly one frame; *)
Theorem C11_write_is_local : forall env key v st o st',
  env_set env key v st = (o, st') -> forall e', e' <> env -> get_frame st' e' = get_frame st e'.
Proof. exact env_set_frame_local. Qed.

(** a let / call / catch scope gets an identifier no existing scope, closure or chain can name; *)
Theorem C11_new_scope_is_fresh : forall outer_id st id st',
  heap_wf st -> new_env outer_id st = (Ok id, st') ->
  get_frame st id = None /\ (forall e', e' <> id -> get_frame st' e' = get_frame st e') /\ heap_wf st'.
Proof. exact new_env_fresh. Qed.

(** a lookup reads the frames of its own outer chain and nothing else; *)
Theorem C11_lookup_reads_own_chain : forall n st st' env key p,
  (forall id, In id (chain_n n st env) -> get_frame st' id = get_frame st id) ->
  env_get_n n st' env key p = env_get_n n st env key p.
Proof. exact env_get_chain_only. Qed.

(** hence what another evaluation binds in a scope of its own is invisible from every scope that
    existed before: only definitions into a shared ancestor (the root) are seen by both *)
Theorem C11_foreign_scope_invisible : forall n st env key p outer_id id st1 k v o st2,
  heap_wf st -> get_frame st env <> None ->
  (forall e f o, get_frame st e = Some f -> outer f = Some o -> get_frame st o <> None) ->
  new_env outer_id st = (Ok id, st1) -> env_set id k v st1 = (o, st2) ->
  env_get_n n st2 env key p = env_get_n n st env key p.
Proof. exact foreign_scope_invisible. Qed.

Print Assumptions C11_env_lock_discipline.
Print Assumptions C11_analysis_sound.
Print Assumptions C11_env_accesses_guarded.
Print Assumptions C11_scope_race_free.
Print Assumptions C11_discipline_implies_race_freedom.
Print Assumptions C11_write_is_local.
Print Assumptions C11_new_scope_is_fresh.
Print Assumptions C11_lookup_reads_own_chain.
Print Assumptions C11_foreign_scope_invisible.
