(** The value universe of jig/lisp (types/types.go), as one inductive type.
    Go's MalType is interface{}; the constructors below are the dynamic types a
    program can meet.  Definitions only. *)
From Lisp Require Export Base.

(** types/positiontype.go Position; a nil *Position is None *)
Record position := mkPos { pmod : option str; brow : Z; bcol : Z; erow : Z; ecol : Z }.
Definition opos := option position.

Inductive val :=
| VNil
| VBool (b : bool)
| VInt (z : Z)                        (* Go int: int64, wrap made explicit where arithmetic happens *)
| VStr (s : str)                      (* Go string; a keyword is a string whose first rune is U+029E *)
| VSym (s : str) (p : opos)           (* types.Symbol{Val, Cursor} *)
| VList (l : list val) (p : opos)     (* types.List{Val, Cursor}   (Meta not modelled) *)
| VVec (l : list val) (p : opos)      (* types.Vector *)
| VMap (m : list (str * val))         (* types.HashMap: association list, keys pairwise distinct *)
| VSet (ks : list str)                (* types.Set *)
| VFn (params body : val) (env : positive) (macro : bool)   (* types.MalFunc; env = frame id in the heap *)
| VBuiltin (name : str)               (* types.Func registered in the environment *)
| VAtom (id : nat)                    (* *concurrent.Atom, id = index in the atom store *)
| VGoErr (msg : str)                  (* a Go error value that is not a LispError *)
| VLispErr (payload : val) (p : opos) (* lisperror.LispError{err, cursor} *)
| VOther (tag : str).                 (* floats, placeholders, futures, foreign Go values: opaque *)

Definition kw (s : str) : val := VStr (KW :: s).
Definition sym (s : str) : val := VSym s None.
Definition lst (l : list val) : val := VList l None.
Definition vec (l : list val) : val := VVec l None.

(** Four-way outcome: Go panics are part of the semantics and never totalised away. *)
Inductive outcome (A : Type) :=
| Ok (a : A)
| Err (e : val)          (* a Go `error` return: VLispErr or VGoErr *)
| Panic (site : str)     (* an escaped Go panic; site names the checked primitive *)
| OutOfFuel.
Arguments Ok {A} a.
Arguments Err {A} e.
Arguments Panic {A} site.
Arguments OutOfFuel {A}.

Definition bind {A B} (x : outcome A) (f : A -> outcome B) : outcome B :=
  match x with
  | Ok a => f a
  | Err e => Err e
  | Panic s => Panic s
  | OutOfFuel => OutOfFuel
  end.
Notation "'let*' x ':=' c1 'in' c2" := (bind c1 (fun x => c2))
  (at level 61, x pattern, c1 at next level, right associativity).

Definition goerr {A} (msg : String.string) : outcome A := Err (VGoErr (s_ msg)).
Arguments goerr {A} msg%string.

(** Nested induction principle *)
Section ValInd.
  Variable P : val -> Prop.
  Hypothesis HNil : P VNil.
  Hypothesis HBool : forall b, P (VBool b).
  Hypothesis HInt : forall z, P (VInt z).
  Hypothesis HStr : forall s, P (VStr s).
  Hypothesis HSym : forall s p, P (VSym s p).
  Hypothesis HList : forall l p, Forall P l -> P (VList l p).
  Hypothesis HVec : forall l p, Forall P l -> P (VVec l p).
  Hypothesis HMap : forall m, Forall (fun kv => P (snd kv)) m -> P (VMap m).
  Hypothesis HSet : forall ks, P (VSet ks).
  Hypothesis HFn : forall ps b e m, P ps -> P b -> P (VFn ps b e m).
  Hypothesis HBuiltin : forall n, P (VBuiltin n).
  Hypothesis HAtom : forall a, P (VAtom a).
  Hypothesis HGoErr : forall m, P (VGoErr m).
  Hypothesis HLispErr : forall v p, P v -> P (VLispErr v p).
  Hypothesis HOther : forall t, P (VOther t).

  Fixpoint val_ind' (v : val) : P v :=
    match v with
    | VNil => HNil
    | VBool b => HBool b
    | VInt z => HInt z
    | VStr s => HStr s
    | VSym s p => HSym s p
    | VList l p => HList l p
        ((fix go (l : list val) : Forall P l :=
            match l with [] => Forall_nil _ | x :: r => Forall_cons _ (val_ind' x) (go r) end) l)
    | VVec l p => HVec l p
        ((fix go (l : list val) : Forall P l :=
            match l with [] => Forall_nil _ | x :: r => Forall_cons _ (val_ind' x) (go r) end) l)
    | VMap m => HMap m
        ((fix go (m : list (str * val)) : Forall (fun kv => P (snd kv)) m :=
            match m with [] => Forall_nil _ | kv :: r => Forall_cons _ (val_ind' (snd kv)) (go r) end) m)
    | VSet ks => HSet ks
    | VFn ps b e m => HFn ps b e m (val_ind' ps) (val_ind' b)
    | VBuiltin n => HBuiltin n
    | VAtom a => HAtom a
    | VGoErr m => HGoErr m
    | VLispErr x p => HLispErr x p (val_ind' x)
    | VOther t => HOther t
    end.
End ValInd.

(** Association-list view of Go maps *)
Fixpoint alookup {A} (k : str) (m : list (str * A)) : option A :=
  match m with
  | [] => None
  | (k', v) :: r => if str_eqb k k' then Some v else alookup k r
  end.

Fixpoint aset {A} (k : str) (v : A) (m : list (str * A)) : list (str * A) :=
  match m with
  | [] => [(k, v)]
  | (k', v') :: r => if str_eqb k k' then (k, v) :: r else (k', v') :: aset k v r
  end.

Fixpoint adel {A} (k : str) (m : list (str * A)) : list (str * A) :=
  match m with
  | [] => []
  | (k', v') :: r => if str_eqb k k' then r else (k', v') :: adel k r
  end.

Fixpoint smem (k : str) (s : list str) : bool :=
  match s with [] => false | k' :: r => str_eqb k k' || smem k r end.
Definition sadd (k : str) (s : list str) : list str := if smem k s then s else s ++ [k].
Fixpoint sdel (k : str) (s : list str) : list str :=
  match s with [] => [] | k' :: r => if str_eqb k k' then r else k' :: sdel k r end.

(** Go map keys are pairwise distinct *)
Fixpoint nodup_keys {A} (m : list (str * A)) : bool :=
  match m with [] => true | (k, _) :: r => negb (existsb (fun kv => str_eqb k (fst kv)) r) && nodup_keys r end.
Fixpoint nodup_strs (s : list str) : bool :=
  match s with [] => true | k :: r => negb (smem k r) && nodup_strs r end.
