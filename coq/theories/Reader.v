(** reader/reader.go: read_form / read_list / read_atom / read_hash_map / read_set /
    read_placeholder / read_external and Read_str, transcribed over the token list produced
    by Scanner.tokenize.  Every pointer dereference, index and type assertion is a checked
    primitive ([Panic]).  Positions: only rows are modelled (columns are 0).
    Definitions only. *)
From Lisp Require Export Value Core Scanner.
Local Open Scope N_scope.

Definition rerr {A} (msg : String.string) (p : opos) : outcome A := Err (VLispErr (VGoErr (s_ msg)) p).
Arguments rerr {A} msg%string p.

Definition tok_pos (m : option str) (t : token) : opos :=
  Some (mkPos m (tline t) 0 (tline t) 0).
Definition span_pos (m : option str) (first last : token) : opos :=
  Some (mkPos m (tline first) 0 (tline last) 0).

(** strconv.ParseInt(tok, 0, 0) on the token language the scanner accepts as Int *)
Fixpoint digits_value (base : Z) (l : str) (acc : Z) : option Z :=
  match l with
  | [] => Some acc
  | c :: r =>
      if N.eqb c 95 then digits_value base r acc
      else let d := Z.of_N (digit_val c) in
           if Z.ltb d base then digits_value base r (acc * base + d) else None
  end.

Definition parse_int (tok : str) : option Z :=
  let '(neg, body) := match tok with 45 :: r => (true, r) | _ => (false, tok) end in
  let '(base, ds) :=
    match body with
    | 48 :: c :: r =>
        if head_lower_is (c :: r) 120 then (16%Z, r)
        else if head_lower_is (c :: r) 111 then (8%Z, r)
        else if head_lower_is (c :: r) 98 then (2%Z, r)
        else (8%Z, c :: r)
    | _ => (10%Z, body)
    end in
  match ds, digits_value base ds 0%Z with
  | _ :: _, Some v =>
      let z := if neg then (- v)%Z else v in
      if in_int64 z then Some z else None
  | [], Some _ => match body with [48] => Some 0%Z | _ => None end
  | _, None => None
  end.

(** strconv.ParseFloat(tok, 32) fails on the float tokens the scanner accepts only when the
    value rounds to infinity: |value| >= 2^128 - 2^103.  Exact integer arithmetic. *)
Definition FLOAT32_OVERFLOW : Z := (2 ^ 128 - 2 ^ 103)%Z.

(** mantissa digits in [base], '_' skipped, '.' noted: returns (mantissa, fraction digits, rest) *)
Fixpoint mantissa (base : Z) (l : str) (acc : Z) (fd : Z) (seen_dot : bool) : Z * Z * str :=
  match l with
  | [] => (acc, fd, [])
  | c :: r =>
      if N.eqb c 95 then mantissa base r acc fd seen_dot
      else if N.eqb c 46 then mantissa base r acc fd true
      else let d := Z.of_N (digit_val c) in
           if Z.ltb d base && negb (Z.eqb base 10 && (N.eqb (lowerc c) 101))
           then mantissa base r (acc * base + d)%Z (if seen_dot then fd + 1 else fd)%Z seen_dot
           else (acc, fd, l)
  end.

Definition float_overflows (tok : str) : bool :=
  let body := match tok with 45 :: r => r | _ => tok end in
  let '(base, ds) := match body with
                     | 48 :: c :: r => if head_lower_is (c :: r) 120 then (16%Z, r) else (10%Z, body)
                     | _ => (10%Z, body)
                     end in
  let '(mant, fd, rest) := mantissa base ds 0%Z 0%Z false in
  let ex : Z :=
    match rest with
    | _ :: r =>
        let '(neg, r1) := match r with 45 :: r' => (true, r') | 43 :: r' => (false, r') | _ => (false, r) end in
        match digits_value 10 r1 0%Z with
        | Some v => if neg then (- v)%Z else v
        | None => 0%Z
        end
    | [] => 0%Z
    end in
  let len := Z.of_nat (length tok) in
  if Z.eqb mant 0 then false
  else if Z.eqb base 10 then
    let n := (ex - fd)%Z in
    if Z.ltb 60 n then true
    else if Z.ltb n (- len - 60) then false
    else if Z.leb 0 n then Z.leb FLOAT32_OVERFLOW (mant * 10 ^ n) else Z.leb (FLOAT32_OVERFLOW * 10 ^ (- n)) mant
  else
    let n := (ex - 4 * fd)%Z in
    if Z.ltb 200 n then true
    else if Z.ltb n (- 4 * len - 200) then false
    else if Z.leb 0 n then Z.leb FLOAT32_OVERFLOW (mant * 2 ^ n) else Z.leb (FLOAT32_OVERFLOW * 2 ^ (- n)) mant.

(** reader.unescape (single left-to-right pass, fix of D8) *)
Fixpoint unescape (l : str) : str :=
  match l with
  | c :: r =>
      if N.eqb c 92 then
        match r with
        | c2 :: r2 =>
            if N.eqb c2 92 then 92 :: unescape r2
            else if N.eqb c2 34 then 34 :: unescape r2
            else if N.eqb c2 110 then 10 :: unescape r2
            else 92 :: unescape r
        | [] => [92]
        end
      else c :: unescape r
  | [] => []
  end.

(** strings.Replace(s, ''¬¬'', ''¬'', -1) *)
Fixpoint undouble (l : str) : str :=
  match l with
  | c :: r =>
      match r with
      | c2 :: r2 => if N.eqb c RAWQ && N.eqb c2 RAWQ then RAWQ :: undouble r2 else c :: undouble r
      | [] => [c]
      end
  | [] => []
  end.

(** s[i : len(s)-j] on a token text, checked *)
Definition strip (i j : nat) (s : str) : outcome str :=
  if Nat.leb (i + j) (length s) then Ok (firstn (length s - i - j) (skipn i s))
  else Panic (s_ "slice bounds out of range").

Definition read_atom (m : option str) (t : token) : outcome val :=
  match tkind_of t with
  | KInt => match parse_int (ttext t) with
            | Some z => Ok (VInt z)
            | None => rerr "integer parse error" (tok_pos m t)
            end
  | KString => let* s := strip 1 1 (ttext t) in Ok (VStr (unescape s))
  | KRawString =>
      if str_eqb (ttext t) [RAWQ] then Err (VLispErr (VGoErr (s_ "expected '" ++ [RAWQ] ++ s_ "', got EOF")) (tok_pos m t))
      else let* s := strip 1 1 (ttext t) in Ok (VStr (undouble s))
  | KKeyword => let* s := strip 1 0 (ttext t) in Ok (VStr (KW :: s))
  | KFloat => if float_overflows (ttext t) then rerr "float parse error" (tok_pos m t) else Ok (VOther (ttext t))
  | KIdent =>
      if str_eqb (ttext t) (s_ "nil") then Ok VNil
      else if str_eqb (ttext t) (s_ "true") then Ok (VBool true)
      else if str_eqb (ttext t) (s_ "false") then Ok (VBool false)
      else Ok (VSym (ttext t) (tok_pos m t))
  | KChar _ => Ok (VSym (ttext t) (tok_pos m t))
  end.

Section Reader.
  Variable m : option str.                                   (* module name of the cursor *)
  Variable ph : option (list (str * val)).                   (* placeholder values, None = nil map pointer *)
  Variable ext : option (str -> list val -> outcome val).    (* ns.Get(''new-''+name) then call; None = no environment *)

  Definition text_is (t : token) (s : String.string) : bool := str_eqb (ttext t) (s_ s).

  (** reader macros: 'x `x ~x ~@x @x expand to (name x); the list's cursor is the macro token's *)
  Definition macro_name (t : token) : option str :=
    if text_is t "'" then Some (s_ "quote")
    else if text_is t "`" then Some (s_ "quasiquote")
    else if text_is t "~" then Some (s_ "unquote")
    else if text_is t "~@" then Some (s_ "splice-unquote")
    else if text_is t "@" then Some (s_ "deref")
    else None.

  Definition closer_of (t : token) : option (str * nat) :=   (* closer text, collection kind *)
    if text_is t "(" then Some (s_ ")", 0%nat)
    else if text_is t "[" then Some (s_ "]", 1%nat)
    else if text_is t "{" then Some (s_ "}", 2%nat)
    else if text_is t "#{" then Some (s_ "}", 3%nat)
    else if str_eqb (ttext t) [171] then Some ([187], 4%nat)   (* « » *)
    else None.

  Definition expected_eof (closer : str) (p : opos) : outcome (val * list token) :=
    Err (VLispErr (VGoErr (s_ "expected '" ++ closer ++ s_ "', got EOF")) p).

  (** what read_vector / read_hash_map / read_set / read_external make of the items *)
  Definition finish_coll (kind : nat) (items : list val) (p : opos) : outcome val :=
    match kind with
    | 0%nat => Ok (VList items p)
    | 1%nat => Ok (VVec items p)
    | 2%nat =>
        if Nat.odd (length items) then Err (VGoErr (s_ "odd number of arguments to NewHashMap"))
        else let* mp := new_hash_map [] items in Ok (VMap mp)
    | 3%nat => new_set (VList items p)
    | _ =>
        match items with
        | [] => rerr "expected a type name after the opening bracket" p
        | VSym name _ :: args =>
            match ext with
            | None => rerr "no environment to look up constructor" p
            | Some f => f name args
            end
        | _ :: _ => rerr "cannot use as type name after the opening bracket" p
        end
    end.

  (** read_list's loop: items until the closer; [last] is the last token peeked (lastKnown);
      [rf] reads one form, [fin] builds the collection from the items and the closing token *)
  Fixpoint read_items (rf : list token -> outcome (val * list token))
           (fin : list val -> token -> outcome val) (closer : str)
           (k : nat) (ts : list token) (acc : list val) (last : token) {struct k}
    : outcome (val * list token) :=
    match k with
    | O => OutOfFuel
    | S k' =>
        match ts with
        | [] => expected_eof closer (tok_pos m last)
        | c :: r =>
            if str_eqb (ttext c) closer then
              let* v := fin (rev acc) c in Ok (v, r)
            else
              let* (f, r') := rf ts in
              read_items rf fin closer k' r' (f :: acc) c
        end
    end.

  Fixpoint read_form (fuel : nat) (ts : list token) {struct fuel} : outcome (val * list token) :=
    match fuel with
    | O => OutOfFuel
    | S fuel' =>
        match ts with
        | [] => rerr "read_form underflow" None
        | t :: rest =>
            match macro_name t with
            | Some name =>
                let* (form, rest') := read_form fuel' rest in
                Ok (VList [VSym name (tok_pos m t); form] (tok_pos m t), rest')
            | None =>
                if text_is t "^" then
                  let* (meta, r1) := read_form fuel' rest in
                  let* (form, r2) := read_form fuel' r1 in
                  Ok (VList [VSym (s_ "with-meta") (tok_pos m t); form; meta] (tok_pos m t), r2)
                else if text_is t ")" then rerr "unexpected ')'" (tok_pos m t)
                else if text_is t "]" then rerr "unexpected ']'" (tok_pos m t)
                else if text_is t "}" then rerr "unexpected '}'" (tok_pos m t)
                else
                  match closer_of t with
                  | Some (closer, kind) =>
                      read_items (read_form fuel') (fun items c => finish_coll kind items (span_pos m t c))
                                 closer fuel' rest [] t
                  | None =>
                      if head_is (ttext t) 36 then       (* $name: read_placeholder *)
                        match ph with
                        | None => Ok (VNil, rest)
                        | Some mp => Ok (lookup_or_nil (ttext t) mp, rest)
                        end
                      else let* v := read_atom m t in Ok (v, rest)
                  end
            end
        end
    end.
End Reader.

(** moduleNamePrefixRE = `^;; [$]MODULE (.+)`: the rest of the first line, at least one rune *)
Definition module_of (src : str) : option str :=
  let p := s_ ";; $MODULE " in
  if prefix_of p src then
    let rest := skipn (length p) src in
    let name := (fix take (l : str) : str := match l with c :: r => if N.eqb c 10 then [] else c :: take r | [] => [] end) rest in
    match name with [] => None | _ => Some name end
  else None.

(** the part of Read_str after tokenize: one form, and nothing left over *)
Definition read_all (m : option str) (ph : option (list (str * val)))
           (ext : option (str -> list val -> outcome val)) (ts : list token) : outcome val :=
  match ts with
  | [] => Err (VGoErr (s_ "<empty line>"))
  | _ :: _ =>
      let* (v, rest) := read_form m ph ext (S (length ts)) ts in
      match rest with
      | [] => Ok v
      | _ :: _ => rerr "not all tokens where parsed" None
      end
  end.

(** reader.Read_str(str, cursor, placeholderValues, ns) *)
(** the text after the first line (strings.IndexByte(str, '\n') + 1), "" when there is none *)
Fixpoint drop_first_line (l : str) : str :=
  match l with c :: r => if N.eqb c 10 then r else drop_first_line r | [] => [] end.

Definition read_str (cursor_module : option str) (ph : option (list (str * val)))
           (ext : option (str -> list val -> outcome val)) (src : str) : outcome val :=
  (* a ";; $MODULE name" header names the module and is not part of it (fix 1c03c0b): the
     module's first line is the one after the header *)
  let '(m, text) :=
    match cursor_module with
    | Some x => (Some x, src)
    | None => match module_of src with
              | Some name => (Some name, drop_first_line src)
              | None => (None, src)
              end
    end in
  match tokenize text with
  | None => rerr "invalid token" None
  | Some ts => read_all m ph ext ts
  end.
