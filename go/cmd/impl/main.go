// impl runs the implementation side of a property check: it generates the cases
// (seeded), runs them against /repo (linked through the replace directive), applies
// the model-free direct oracle, and writes
//   <out>/cases.txt   one wire-format case per line (input of the model driver)
//   <out>/impl.txt    one canonical result per line (compared with the driver's output)
//   <out>/pretty.txt  one human-readable rendering per case (used in replay files)
//   <out>/meta.json   counts, input distribution, samples, oracle violations
package main

import (
	"strings"
	"verif.local/harness/h"
	"bufio"
	"encoding/json"
	"flag"
	"fmt"
	"os"
	"path/filepath"
	"sort"
)

type Violation struct {
	Case   int    `json:"case"`   // index into cases.txt, -1 when not tied to a model case
	What   string `json:"what"`   // what failed
	Replay string `json:"replay"` // input that reproduces it
	Key    string `json:"key,omitempty"` // identity of a known finding this violation is an instance of
}

type Report struct {
	Property   string         `json:"property"`
	Rule       string         `json:"rule"`
	Exhaustive bool           `json:"exhaustive"`
	Histogram  map[string]int `json:"histogram"`
	Samples    []string       `json:"samples"`
	Violations []Violation    `json:"oracle_violations"`
	Extra      map[string]any `json:"extra,omitempty"`

	cases, impl, pretty []string
	keys                []string
	nontrivial          map[string]bool
}

func NewReport(p string) *Report {
	return &Report{Property: p, Histogram: map[string]int{}, nontrivial: map[string]bool{}, Extra: map[string]any{}}
}

// Add records one case. nontrivial says whether it exercises the interesting part of
// the property (the rule is stated in Report.Rule).
func (r *Report) Add(caseLine, implLine, pretty string, nontrivial bool, tags ...string) int {
	if h.DeepValues > 0 {
		// the encoder met a value nested deeper than any generator builds: a value that contains itself
		h.DeepValues = 0
		defer func(i int) {
			r.Violate(i, "a value nested more than 300 levels deep (a value that contains itself) was produced: values are immutable trees, this takes an in-place mutation", pretty)
		}(len(r.cases))
	}
	r.cases = append(r.cases, caseLine)
	r.impl = append(r.impl, implLine)
	r.pretty = append(r.pretty, strings.ReplaceAll(pretty, "\n", " \u23ce "))
	if nontrivial {
		r.nontrivial[caseLine] = true
	}
	for _, t := range tags {
		r.Histogram[t]++
	}
	return len(r.cases) - 1
}

func (r *Report) Violate(idx int, what, replay string) {
	if len(r.Violations) < 200 {
		r.Violations = append(r.Violations, Violation{Case: idx, What: what, Replay: replay})
	}
}

// ViolateKnown records a violation that is an instance of a (possibly) known finding
func (r *Report) ViolateKnown(idx int, what, replay, key string) {
	if len(r.Violations) < 200 {
		r.Violations = append(r.Violations, Violation{Case: idx, What: what, Replay: replay, Key: key})
	}
}

func (r *Report) Write(out string) error {
	if err := os.MkdirAll(out, 0o755); err != nil {
		return err
	}
	for name, lines := range map[string][]string{"cases.txt": r.cases, "impl.txt": r.impl, "pretty.txt": r.pretty} {
		f, err := os.Create(filepath.Join(out, name))
		if err != nil {
			return err
		}
		w := bufio.NewWriterSize(f, 1<<20)
		for _, l := range lines {
			w.WriteString(l)
			w.WriteByte('\n')
		}
		w.Flush()
		f.Close()
	}
	if len(r.Samples) == 0 {
		step := len(r.pretty)/3 + 1
		for i := 0; i < len(r.pretty) && len(r.Samples) < 3; i += step {
			r.Samples = append(r.Samples, r.pretty[i])
		}
	}
	distinct := map[string]bool{}
	for _, c := range r.cases {
		distinct[c] = true
	}
	meta := map[string]any{
		"property": r.Property, "rule": r.Rule, "exhaustive": r.Exhaustive,
		"evaluations": len(r.cases), "distinct": len(distinct), "distinct_nontrivial": len(r.nontrivial),
		"histogram": r.Histogram, "samples": r.Samples, "oracle_violations": r.Violations, "extra": r.Extra,
	}
	b, _ := json.MarshalIndent(meta, "", " ")
	return os.WriteFile(filepath.Join(out, "meta.json"), b, 0o644)
}

// emergencyFlush writes what has been collected so far and ends the process: used when the
// implementation hangs in a goroutine that cannot be stopped (it may eat all memory).
var emergencyOut string

func emergencyFlush(rep *Report) {
	rep.Extra["aborted"] = "a call into the implementation did not return; the run was cut short after recording the violation"
	if err := rep.Write(emergencyOut); err != nil {
		fmt.Fprintln(os.Stderr, err)
		os.Exit(2)
	}
	os.Exit(0)
}

type runner func(tier string, seed uint64, rep *Report)

var runners = map[string]runner{}

func main() {
	tier := flag.String("tier", "quick", "quick|thorough")
	seed := flag.Uint64("seed", 1, "PRNG seed")
	out := flag.String("out", "", "output directory")
	flag.Parse()
	if flag.NArg() != 1 || *out == "" {
		var names []string
		for k := range runners {
			names = append(names, k)
		}
		sort.Strings(names)
		fmt.Fprintln(os.Stderr, "usage: impl -tier T -seed N -out DIR <property>; properties:", names)
		os.Exit(2)
	}
	run, ok := runners[flag.Arg(0)]
	if !ok {
		fmt.Fprintln(os.Stderr, "unknown property", flag.Arg(0))
		os.Exit(2)
	}
	rep := NewReport(flag.Arg(0))
	emergencyOut = *out
	run(*tier, *seed, rep)
	if err := rep.Write(*out); err != nil {
		fmt.Fprintln(os.Stderr, err)
		os.Exit(2)
	}
}
