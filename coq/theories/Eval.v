(** mal.go: EVAL, eval_ast, do, macroexpand, is_macro_call, quasiquote, qq_loop, and
    types.Apply, transcribed as one fuel-indexed evaluator.

    - The TCO loop `for { ... continue }` is a recursive call at the SAME depth [d]; every
      Go-level re-entry of EVAL (eval_ast, do, Apply, macroexpand, the builtin `eval`) is
      at depth [S d].  [d] is the number of lisp.EVAL frames on the Go stack (C08).
    - Every unchecked Go operation is a checked primitive producing [Panic].
    - Builtins are dispatched through the reflective binder model (Binder.v).
    Definitions only. *)
From Lisp Require Export Env Printer Binder.

Definition sy (s : string) : val := VSym (s_ s) None.
Arguments sy s%string.

Definition sym_is (v : val) (s : str) : bool :=
  match v with VSym n _ => str_eqb n s | _ => false end.

(** mal.go starts_with / second / quasiquote / qq_loop *)
Definition starts_with (xs : list val) (name : str) : bool :=
  match xs with x :: _ => sym_is x name | [] => false end.

Definition second (xs : list val) : val :=
  match xs with _ :: x :: _ => x | _ => VNil end.

Fixpoint quasiquote (ast : val) : val :=
  let qq_loop := fix go (xs : list val) : val :=
    match xs with
    | [] => VList [] None
    | elt :: r =>
        let acc := go r in
        match elt with
        | VList e _ =>
            if starts_with e (s_ "splice-unquote")
            then VList [sy "concat"; second e; acc] None
            else VList [sy "cons"; quasiquote elt; acc] None
        | _ => VList [sy "cons"; quasiquote elt; acc] None
        end
    end in
  match ast with
  | VVec l _ => VList [sy "vec"; qq_loop l] None
  | VMap _ | VSym _ _ => VList [sy "quote"; ast] None
  | VList l _ => if starts_with l (s_ "unquote") then second l else qq_loop l
  | _ => ast
  end.

(** mal.go first(): the head symbol of a clause, "" otherwise *)
Definition clause_head (v : val) : str :=
  match v with
  | VList (VSym s _ :: _) _ => s
  | _ => []
  end.

Definition truthy (v : val) : bool :=
  match v with VNil | VBool false => false | _ => true end.

(** do()'s first statement: `if outing1 { defer func() { skip = true; outing1 = false; outing2 = true }() }`
    — only with a Stepper installed and after an Out command *)
Definition outing_hook (m : M val) : M val :=
  fun st =>
    match dbg st with
    | Some g =>
        if douting1 g then
          let '(r, st') := m st in
          (r, set_dbg st' (match dbg st' with
                           | Some g' => Some (mkDbg true false true (dcmds g') (dlog g'))
                           | None => None
                           end))
        else m st
    | None => m st
    end.

(** `if !skip { cmd := Stepper(ast, env); switch cmd {...} }`: the new flags, whether the Next
    command registered its deferred reset, whether the command was outside the four *)
Definition dbg_decide (g : dbgst) (ast : val) (env : positive) : dbgst * bool * bool :=
  if dskip g then (g, false, false)
  else
    let c := match dcmds g with c :: _ => c | [] => CNoOp end in
    let g' := mkDbg (dskip g) (douting1 g) (douting2 g) (tl (dcmds g)) ((ast, env) :: dlog g) in
    match c with
    | CNext => (mkDbg true (douting1 g') (douting2 g') (dcmds g') (dlog g'), true, false)
    | CIn => (mkDbg false false (douting2 g') (dcmds g') (dlog g'), false, false)
    | COut => (mkDbg true true (douting2 g') (dcmds g') (dlog g'), false, false)
    | CNoOp => (g', false, false)
    | CBad => (g', false, true)
    end.

(** the deferred functions of the debugger section, last registered first *)
Definition dbg_after (out2 next_defer : bool) (g2 : dbgst) : dbgst :=
  let g3 := if out2 then mkDbg false (douting1 g2) false (dcmds g2) (dlog g2) else g2 in
  if next_defer then mkDbg false (douting1 g3) (douting2 g3) (dcmds g3) (dlog g3) else g3.

(** the debugger section at the top of EVAL, around the rest of the invocation [body] *)
Definition dbg_entry (ast : val) (env : positive) (body : M val) : M val :=
  fun st =>
    match dbg st with
    | None => body st
    | Some g =>
        let '(g1, next_defer, bad) := dbg_decide g ast env in
        if bad then (Panic (s_ "debugger command not handled"), set_dbg st (Some g1))
        else
          let out2 := douting2 g1 in          (* `if outing2 { defer ... }` is evaluated at entry *)
          let '(r, st') := body (set_dbg st (Some g1)) in
          (r, set_dbg st' (match dbg st' with Some g2 => Some (dbg_after out2 next_defer g2) | None => None end))
    end.

Section OpenRecursion.
  (** the evaluator one fuel unit below: [ev d ast env] *)
  Variable ev : nat -> val -> positive -> M val.

  (** the `continue` statement inside the try form: the next iteration of the SAME EVAL
      invocation (no new Go frame, and with a Stepper installed no debugger section) *)
  Variable ev_cont : nat -> val -> positive -> M val.

  (** a registered Go function, called from an EVAL frame at depth [d] *)
  Variable call_builtin : nat -> str -> list val -> M val.

  (** types.Apply: a closure is evaluated by a fresh Go call of EVAL, at depth [S d] *)

  Definition apply_fn (d : nat) (f : val) (args : list val) : M val :=
    match f with
    | VFn params body fenv _ =>
        let+ env := new_env_binds fenv params (VList args None) in
        ev (S d) body env
    | VBuiltin name => call_builtin d name args
    | _ => fail (VGoErr (s_ "invalid function to Apply"))
    end.

  (** eval_ast *)
  Fixpoint eval_list (d : nat) (l : list val) (env : positive) : M (list val) :=
    match l with
    | [] => ret []
    | a :: r =>
        let+ v := ev (S d) a env in
        let+ vs := eval_list d r env in
        ret (v :: vs)
    end.

  Fixpoint eval_map (d : nat) (m : list (str * val)) (env : positive) : M (list (str * val)) :=
    match m with
    | [] => ret []
    | (k, a) :: r =>
        let+ v := ev (S d) a env in
        let+ vs := eval_map d r env in
        ret ((k, v) :: vs)
    end.

  Definition eval_ast (d : nat) (ast : val) (env : positive) : M val :=
    match ast with
    | VSym s p =>
        fun st => match env_get st env s p with
                  | Ok v => (Ok v, st)
                  | Err e => (Err (new_lisp_error e p), st)
                  | Panic x => (Panic x, st)
                  | OutOfFuel => (OutOfFuel, st)
                  end
    | VList l _ => let+ vs := eval_list d l env in ret (VList vs None)
    | VVec l _ => let+ vs := eval_list d l env in ret (VVec vs None)
    | VMap m => let+ m' := eval_map d m env in ret (VMap m')
    | _ => ret ast
    end.

  (** do(ctx, ast, from, to, env) with to ∈ {0, -1}: evaluates lst[from : len+to];
      returns the last evaluated value (to = 0) or the last form unevaluated (to = -1) *)
  Definition do_forms (d : nat) (lst : list val) (from : nat) (keep_last : bool) (env : positive) : M val :=
    outing_hook (
    if Nat.eqb (length lst) from then ret VNil else
    let upto := if keep_last then Z.of_nat (length lst) - 1 else Z.of_nat (length lst) in
    let+ forms := lift (slice lst (Z.of_nat from) upto) in
    let+ vs := eval_list d forms env in   (* do and eval_ast are not EVAL frames; the elements are evaluated by EVAL called from eval_ast *)
    if keep_last then
      match nth_opt lst (length lst - 1) with Some x => ret x | None => lift (Panic (s_ "index out of range")) end
    else
      match nth_opt vs (length vs - 1) with Some x => ret x | None => lift (Panic (s_ "index out of range")) end).

  (** is_macro_call *)
  Definition macro_of (st : state) (ast : val) (env : positive) : option val :=
    match ast with
    | VList (VSym s p :: _) _ =>
        match env_find st env s with
        | None => None
        | Some _ =>
            match env_get st env s p with
            | Ok (VFn ps b e true) => Some (VFn ps b e true)
            | _ => None
            end
        end
    | _ => None
    end.

  (** macroexpand: `for is_macro_call(ast, env) { ast = Apply(mac, ast[1:]) }` *)
  Fixpoint macroexpand (k : nat) (d : nat) (ast : val) (env : positive) : M val :=
    fun st =>
      match macro_of st ast env with
      | None => (Ok ast, st)
      | Some mac =>
          match k with
          | O => (OutOfFuel, st)
          | S k' =>
              let args := match ast with VList (_ :: r) _ => r | _ => [] end in
              (let+ ast' := apply_fn d mac args in macroexpand k' d ast' env) st
          end
      end.

  (** ---- the special form `try` ---- *)
  Record try_parts := mkTry {
    t_body : list val; t_catch : option (val * list val); t_finally : option (list val) }.

  (** splitting of (try body... (catch x h...) (finally f...)) exactly as EVAL does *)
  Definition split_try (ast : val) (lst : list val) : outcome try_parts :=
    let n := length lst in
    let last := match nth_opt lst (n - 1) with Some x => x | None => VNil end in
    let prelast := if Nat.leb 3 n then match nth_opt lst (n - 2) with Some x => x | None => VNil end else VNil in
    let cerr := Err (lisp_goerr (s_ "catch must have 2 arguments at least") (get_position ast)) in
    let items v := match v with VList l _ => l | _ => [] end in
    if str_eqb (clause_head last) (s_ "catch") then
      if Nat.ltb (length (items last)) 2 then cerr else
      let cbind := match nth_opt (items last) 1 with Some x => x | None => VNil end in
      let cdo := skipn 2 (items last) in
      let* body := slice lst 1 (Z.of_nat n - 1) in
      if Nat.eqb (length cdo) 0 then cerr else Ok (mkTry body (Some (cbind, cdo)) None)
    else if str_eqb (clause_head last) (s_ "finally") then
      let fdo := skipn 1 (items last) in
      if str_eqb (clause_head prelast) (s_ "catch") then
        if Nat.ltb (length (items prelast)) 2 then Err (lisp_goerr (s_ "catch must have a variable name") (get_position ast)) else
        let cbind := match nth_opt (items prelast) 1 with Some x => x | None => VNil end in
        let cdo := skipn 2 (items prelast) in
        let* body := slice lst 1 (Z.of_nat n - 2) in
        Ok (mkTry body (Some (cbind, cdo)) (Some fdo))
      else
        let* body := slice lst 1 (Z.of_nat n - 1) in
        Ok (mkTry body None (Some fdo))
    else
      let* body := slice lst 1 (Z.of_nat n) in
      Ok (mkTry body None None).

  (** what a catch clause binds: ErrorValue() of a LispError, else the message string *)
  Definition caught_value (e : val) : val :=
    match e with
    | VLispErr payload _ => payload
    | VGoErr msg => VStr msg
    | _ => e
    end.

  (** `defer func() { do(ctx, finallyDo, 0, 0, tryEnv) }()`: runs after the rest of this EVAL
      invocation; its value and error are discarded, a panic inside it propagates *)
  Definition with_finally (d : nat) (fin : option (list val)) (env : positive) (rest : M val) : M val :=
    fun st =>
      let '(r, st1) := rest st in
      match r with
      | OutOfFuel => (OutOfFuel, st1)
      | _ =>
          match fin with
          | None => (r, snd (outing_hook (ret VNil) st1))   (* do(ctx, nil, ...) still runs do's first statement *)
          | Some forms =>
              match do_forms d forms 0 false env st1 with
              | (Panic s, st2) => (Panic s, st2)
              | (OutOfFuel, st2) => (OutOfFuel, st2)
              | (_, st2) => (r, st2)
              end
          end
      end.

  (** the recover around the try body: a Go panic becomes the error value *)
  Definition recover_try (m : M val) : M val :=
    fun st => match m st with
              | (Panic s, st') => (Err (VGoErr (s_ "runtime error: " ++ s)), st')
              | x => x
              end.

  Definition catch_errors (m : M val) (h : val -> M val) : M val :=
    fun st => match m st with
              | (Err e, st') => h e st'
              | x => x
              end.

  (** the error of a failed parameter binding, as EVAL decorates it from fn.Exp *)
  Definition bind_error (e body : val) : outcome val :=
    match body with
    | VList (VSym v _ :: _) p => Err (lisp_goerr (s_ "binding error (around " ++ v ++ s_ ")") p)
    | VList (_ :: _) p => Err (new_lisp_error e p)
    | VList [] _ => Panic (s_ "index out of range")
    | _ => Panic (s_ "interface conversion: not List")
    end.

  (** ---- one iteration of EVAL's loop.  [k] = fuel left for macro expansion loops. ---- *)
  Definition eval_step (k : nat) (d : nat) (ast : val) (env : positive) : M val :=
    match ast with
    | VList _ _ =>
        let+ ast := macroexpand k d ast env in
        match ast with
        | VList [] _ => ret ast
        | VList ((a0 :: rest) as lst) cur =>
            let a1 := match rest with x :: _ => x | [] => VNil end in
            let a2 := match rest with _ :: x :: _ => x | _ => VNil end in
            let head := match a0 with VSym s _ => s | _ => s_ "__<*fn>__" end in
            if str_eqb head (s_ "def") then
              let+ res := ev (S d) a2 env in
              match a1 with
              | VSym name _ => env_set env name res
              | _ => fail (lisp_goerr (s_ "cannot use as identifier") cur)
              end
            else if str_eqb head (s_ "let") then
              let+ let_env := new_env (Some env) in
              let+ arr := lift (get_slice a1) in
              if Nat.odd (length arr) then fail (lisp_goerr (s_ "let: odd elements on binding vector") (get_position a1)) else
              let+ _ := (fix go (arr : list val) : M unit :=
                           match arr with
                           | VSym name _ :: e :: r =>
                               let+ v := ev (S d) e let_env in
                               let+ _ := env_set let_env name v in go r
                           | [] => ret tt
                           | _ => fail (lisp_goerr (s_ "non-symbol bind value") (get_position a1))
                           end) arr in
              let+ ast' := do_forms d lst 2 true let_env in
              ev d ast' let_env
            else if str_eqb head (s_ "quote") then ret a1
            else if str_eqb head (s_ "quasiquoteexpand") then ret (quasiquote a1)
            else if str_eqb head (s_ "quasiquote") then ev d (quasiquote a1) env
            else if str_eqb head (s_ "defmacro") then
              let+ fn := ev (S d) a2 env in
              match fn with
              | VFn ps b e _ =>
                  match a1 with
                  | VSym name _ => env_set env name (VFn ps b e true)
                  | _ => fail (lisp_goerr (s_ "cannot use as identifier") cur)
                  end
              | _ => fail (lisp_goerr (s_ "defmacro: cannot use as macro") cur)
              end
            else if str_eqb head (s_ "macroexpand") then macroexpand k d a1 env
            else if str_eqb head (s_ "try") then
              match rest with
              | [] => ret VNil
              | _ =>
                  let+ parts := lift (split_try ast lst) in
                  with_finally d (t_finally parts) env
                    (catch_errors (recover_try (do_forms d (t_body parts) 0 false env))
                       (fun e =>
                          match t_catch parts with
                          | None => fail e
                          | Some (cbind, cdo) =>
                              let+ new_env := new_env_binds env (VList [cbind] None) (VList [caught_value e] None) in
                              let+ ast' := do_forms d cdo 0 true new_env in
                              ev_cont d ast' new_env
                          end))
              end
            else if str_eqb head (s_ "do") then
              let+ ast' := do_forms d lst 1 true env in
              ev d ast' env
            else if str_eqb head (s_ "if") then
              let+ c := ev (S d) a1 env in
              if truthy c then ev d a2 env
              else match rest with
                   | _ :: _ :: x :: _ => ev d x env
                   | _ => ret VNil
                   end
            else if str_eqb head (s_ "fn") then
              match rest with
              | [] => fail (lisp_goerr (s_ "fn requires a parameter list") cur)
              | _ :: body => ret (VFn a1 (VList (sy "do" :: body) None) env false)
              end
            else
              let+ el := eval_list d lst env in
              match el with
              | VFn params body fenv _ :: args =>
                  fun st =>
                    match new_env_binds fenv params (VList args None) st with
                    | (Ok env', st') => ev d body env' st'
                    | (Err e, st') => (bind_error e body, st')
                    | (Panic x, st') => (Panic x, st')
                    | (OutOfFuel, st') => (OutOfFuel, st')
                    end
              | VBuiltin name :: args =>
                  catch_errors (call_builtin d name args) (fun e => fail (new_lisp_error e cur))
              | f :: _ => fail (lisp_goerr (s_ "attempt to call non-function") None)
              | [] => lift (Panic (s_ "index out of range"))
              end
        | _ => eval_ast d ast env
        end
    | _ => eval_ast d ast env
    end.
End OpenRecursion.
