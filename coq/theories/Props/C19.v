(** C19 — a program means the same however it is delivered. *)
From Lisp Require Import Base Value Core Binder Env Eval Interp EvalProofs Scanner Reader Printer PrintReadProofs Run PrintScan PrintParse PosErase PosErase2 PosEraseEval Reread.
From Lisp.Gen Require Headers.

(** THE property for the routes that differ in source positions only (an AST built by a Go host, the same text read
    without a module name, under a module name, at another place of a file): evaluation commutes with erasing every
    position — from the form, from every value in every scope, atom and the trace, from closures' bodies and from the
    cursor of error values.  For every program, scope, state, fuel and depth. *)
Theorem C19_positions_do_not_matter : forall n d ast env st,
  eval n d (erase ast) env (est st) = (eoA erase (fst (eval n d ast env st)), est (snd (eval n d ast env st))).
Proof. exact positions_do_not_matter. Qed.

Theorem C19_same_up_to_positions : forall n d a1 a2 env s1 s2,
  erase a1 = erase a2 -> est s1 = est s2 ->
  eoA erase (fst (eval n d a1 env s1)) = eoA erase (fst (eval n d a2 env s2)) /\
  est (snd (eval n d a1 env s1)) = est (snd (eval n d a2 env s2)).
Proof. exact same_up_to_positions. Qed.

(** ... and for the route through the printer: a printable program re-read from its printed form, without or under a
    module name, evaluates like the form it was printed from (C06 composed with the theorem above) *)
Theorem C19_reread_evaluates_the_same : forall cm ast, pv ast = true -> clean (pr_str true ast) = true ->
  exists ast', read_str cm None None (pr_str true ast) = Ok ast' /\
    forall n d env s1 s2, est s1 = est s2 ->
      eoA erase (fst (eval n d ast' env s1)) = eoA erase (fst (eval n d ast env s2)) /\
      est (snd (eval n d ast' env s1)) = est (snd (eval n d ast env s2)).
Proof. exact reread_evaluates_the_same. Qed.

(** one `do` = the forms one after the other in the same scope, value of the last *)
Theorem C19_do_is_sequential : forall n d forms cur env st,
  macro_of st (VList (sy "do" :: forms) cur) env = None ->
  eval (S n) d (VList (sy "do" :: forms) cur) env st =
  prop (do_forms (eval n) d (sy "do" :: forms) 1 true env st) (fun last st' => eval n d last env st').
Proof. exact eval_do. Qed.

(** re-reading the printed form: strings come back exactly (C06) *)
Theorem C19_printed_strings_reread : forall m line s,
  read_atom m (mkTok KString (34%N :: escape_str s ++ [34%N]) line) = Ok (VStr s).
Proof. exact read_atom_printed_string. Qed.

(** generated-source obligation: the text load-file builds around the file is
    ";; $MODULE <f>" newline "(do " <file> newline "nil)" — the closing is on a line of its own, so
    a last line ending in a comment without final newline cannot swallow it (fix 9ef2ca3) *)
Fixpoint val_strings (fuel : nat) (v : val) : list str :=
  match fuel with
  | O => []
  | S f => match v with
           | VStr s => [s]
           | VList l _ | VVec l _ => concat (map (val_strings f) l)
           | _ => []
           end
  end.

Lemma C19_load_file_wrapper :
  val_strings 10 Headers.header_load_file = [s_ ";; $MODULE "; 10%N :: s_ "(do "; 10%N :: s_ "nil)"].
Proof. vm_compute. reflexivity. Qed.

(** computed instances: the same program as position-less AST, re-read from its printed form,
    with comments / CRLF / trailing comment, under a module name: same outcome and trace;
    load-file's wrapper around a file ending in a comment *)
Definition prog_text : str := s_ "(do (def f (fn [a & r] (trace! a) (count r))) (list (f 1 2 3) (f ""s"")))".
Definition prog_layout : str :=
  s_ "; leading ( "" comment" ++ [10%N] ++ s_ "(do (def f ; c )" ++ [13%N; 10%N] ++ s_ "(fn [a & r]" ++ [10%N; 10%N; 9%N] ++
  s_ "(trace! a) (count r))) (list (f 1 2 3) (f ""s""))) ; trailing without newline".
Definition outcome_part (l : list N) : list N := firstn 40 l.

Example C19_routes_agree :
  (let go (md : Z) (src : str) := run_read_eval (TNum md :: TNum (Z.of_nat (length src)) :: map (fun c => TNum (Z.of_N c)) src) in
   go 0 prog_text = go 0 prog_layout /\ go 1 prog_text = go 0 prog_text /\
   go 0 prog_text = s_ "V l 2 i 2 i 0 | l 2 i 1 s 1 115 | p - ").
Proof. vm_compute. repeat split; reflexivity. Qed.

Example C19_load_file_trailing_comment :
  read_str None None None (s_ ";; $MODULE f.lisp" ++ [10%N] ++ s_ "(do 1 ;c" ++ [10%N] ++ s_ "nil)") <>
  read_str None None None (s_ ";; $MODULE f.lisp" ++ [10%N] ++ s_ "(do 1 ;c nil)") /\
  (exists v, read_str None None None (s_ ";; $MODULE f.lisp" ++ [10%N] ++ s_ "(do 1 ;c" ++ [10%N] ++ s_ "nil)") = Ok v).
Proof. split; [vm_compute; discriminate | eexists; vm_compute; reflexivity]. Qed.

Print Assumptions C19_positions_do_not_matter.
Print Assumptions C19_same_up_to_positions.
Print Assumptions C19_reread_evaluates_the_same.
Print Assumptions C19_do_is_sequential.
Print Assumptions C19_printed_strings_reread.
Print Assumptions C19_load_file_wrapper.
