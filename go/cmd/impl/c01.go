package main

import (
	"github.com/jig/lisp/types"
	. "verif.local/harness/h"
)

func init() { runners["C01"] = runC01 }

func val(v types.MalType, trace ...types.MalType) string {
	return "V " + EncS(v) + "| " + EncS(types.List{Val: trace})
}

// c01Small enumerates every program up to a small size over a reduced alphabet.
func c01Small(maxNodes int) []types.MalType {
	atoms := []types.MalType{0, 1, nil, false, S("x"), S("f"), Call("trace!", 1), L()}
	var out []types.MalType
	out = append(out, atoms...)
	// one-level forms over atoms
	heads := []string{"def", "let", "if", "do", "fn", "quote", "list", "+", "=", "trace!"}
	for _, hd := range heads {
		out = append(out, L(S(hd)))
		for _, a := range atoms {
			out = append(out, L(S(hd), a))
			for _, b := range atoms {
				out = append(out, L(S(hd), a, b))
				if maxNodes >= 4 && (hd == "if" || hd == "let" || hd == "do" || hd == "fn") {
					for _, c := range atoms[:5] {
						out = append(out, L(S(hd), a, b, c))
					}
				}
			}
		}
	}
	// let/fn with binding vectors, applications of literal closures
	for _, a := range atoms {
		out = append(out, Call("let", V(S("x"), a), S("x")))
		out = append(out, Call("let", V(S("x"), a, S("f"), S("x")), S("f"), S("x")))
		out = append(out, L(Call("fn", V(S("x")), S("x")), a))
		out = append(out, L(Call("fn", V(S("x"), S("&"), S("f")), S("f")), a, a))
		out = append(out, L(Call("fn", V(), a)))
		out = append(out, L(Call("fn", V(S("x")), a)))
		out = append(out, Call("do", Call("def", S("x"), a), S("x")))
	}
	return out
}

func runC01(tier string, seed uint64, rep *Report) {
	rep.Rule = "programs over def/let/if/do/fn(&)/quote/closures/recursion/builtin calls as position-less ASTs, each in a fresh " +
		"environment: (i) every program of a small-size enumeration over a reduced alphabet, (ii) seeded typed random programs " +
		"(depth<=6 quick, <=8 thorough) with effects through trace!, (iii) definitional templates with prescribed results (direct oracle). " +
		"Observables: result or error value (canonical), ordered trace. Non-trivial: the program has an effect or a closure call or an error."
	// (iii) the clauses of the definition as templates with prescribed outcomes
	expect(rep, "innermost binding wins", Call("let", V(S("x"), 1), Call("let", V(S("x"), 2), S("x"))), val(2), "tmpl")
	expect(rep, "sequential let", Call("let", V(S("x"), 1, S("y"), Call("+", S("x"), 1)), S("y")), val(2), "tmpl")
	expect(rep, "def binds in the current scope and returns the value", Call("do", Call("trace!", Call("def", S("x"), 5)), S("x")), val(5, 5), "tmpl")
	expect(rep, "def inside let binds the let scope only", Call("do", Call("def", S("x"), 1), Call("let", V(S("y"), 0), Call("def", S("x"), 2)), S("x")), val(1), "tmpl")
	expect(rep, "def inside an empty-binding let binds the let scope only", Call("do", Call("def", S("x"), 1), Call("let", V(), Call("def", S("x"), 2)), S("x")), val(1), "tmpl")
	expect(rep, "closure captures its defining scope", Call("let", V(S("k"), Call("let", V(S("c"), 7), Call("fn", V(), S("c")))), Call("let", V(S("c"), 8), Call("k"))), val(7), "tmpl")
	expect(rep, "an inner let shadows (does not overwrite) a name a closure captured", Call("let", V(S("a"), 1, S("f"), Call("fn", V(), S("a"))), Call("let", V(S("a"), 2), Call("list", S("a"), Call("f")))), val(L(2, 1)), "tmpl")
	expect(rep, "an inner let in a function body shadows the parameter a closure captured", L(Call("fn", V(S("p")), Call("let", V(S("g"), Call("fn", V(), S("p"))), Call("do", 0, Call("let", V(S("p"), 2), Call("list", S("p"), Call("g")))))), 1), val(L(2, 1)), "tmpl")
	expect(rep, "a collection literal that is not the last form of a body evaluates its elements", Call("do", V(Call("trace!", 1), Call("trace!", 2)), Call("trace!", 3)), val(3, 1, 2, 3), "tmpl")
	expect(rep, "a map literal that is not the last form of a body evaluates its values", L(Call("fn", V(), types.HashMap{Val: map[string]types.MalType{Kw("k"): Call("trace!", 1)}}, 2)), val(2, 1), "tmpl")
	expect(rep, "def inside a call without parameters binds in that call's scope only", Call("do", Call("def", S("x"), 1), L(Call("fn", V(), Call("def", S("x"), 2))), S("x")), val(1), "tmpl")
	expect(rep, "def inside a call binds in that call's scope only", Call("let", V(S("x"), 1), L(Call("fn", V(S("p")), Call("def", S("x"), 2)), 0), S("x")), val(1), "tmpl")
	expect(rep, "closures made in successive iterations of a self tail call keep the n of their iteration",
		Call("do", Call("def", S("it"), Call("fn", V(S("n"), S("acc")), Call("if", Call("=", S("n"), 0), Call("map", Call("fn", V(S("g")), L(S("g"))), S("acc")),
			Call("it", Call("-", S("n"), 1), Call("cons", Call("fn", V(), S("n")), S("acc")))))), Call("it", 3, Call("list"))), val(L(1, 2, 3)), "tmpl")
	expect(rep, "a binding added to a scope after a nested scope was opened in it is seen from the nested scope",
		Call("do", Call("def", S("k"), Kw("outer")), L(Call("fn", V(), Call("def", S("g"), Call("let", V(S("z"), 1), Call("fn", V(), S("k")))), Call("def", S("k"), Kw("inner")), Call("g")))), val(Kw("inner")), "tmpl")
	for _, c := range []types.MalType{0, "", L(S("list")), V(), Kw("k"), true} {
		expect(rep, "only nil and false are falsy", Call("if", c, 1, 2), val(1), "tmpl")
	}
	for _, c := range []types.MalType{nil, false} {
		expect(rep, "nil and false are falsy", Call("if", c, 1, 2), val(2), "tmpl")
		expect(rep, "if without else yields nil", Call("if", c, 1), val(nil), "tmpl")
	}
	expect(rep, "only the selected branch is evaluated", Call("if", true, Call("trace!", 1), Call("trace!", 2)), val(1, 1), "tmpl")
	expect(rep, "only the selected branch is evaluated", Call("if", nil, Call("trace!", 1), Call("trace!", 2)), val(2, 2), "tmpl")
	expect(rep, "do evaluates every form in order, returns the last", Call("do", Call("trace!", 1), Call("trace!", 2), Call("trace!", 3)), val(3, 1, 2, 3), "tmpl")
	expect(rep, "empty do is nil", Call("do"), val(nil), "tmpl")
	expect(rep, "let body evaluates every form in order", Call("let", V(), Call("trace!", 1), Call("trace!", 2)), val(2, 1, 2), "tmpl")
	expect(rep, "empty let body is nil", Call("let", V(S("x"), 1)), val(nil), "tmpl")
	expect(rep, "fn body evaluates every form in order", L(Call("fn", V(), Call("trace!", 1), Call("trace!", 2))), val(2, 1, 2), "tmpl")
	expect(rep, "empty fn body is nil", L(Call("fn", V())), val(nil), "tmpl")
	expect(rep, "arguments are evaluated once, left to right, before the call",
		L(Call("fn", V(S("a"), S("b")), Call("trace!", 9), S("a")), Call("trace!", 1), Call("trace!", 2)), val(1, 1, 2, 9), "tmpl")
	expect(rep, "the callee is evaluated before the arguments",
		L(Call("do", Call("trace!", 1), S("list")), Call("trace!", 2), Call("trace!", 3)), val(L(2, 3), 1, 2, 3), "tmpl")
	expect(rep, "the callee is looked up before an argument rebinds its name",
		Call("do", Call("def", S("w"), Call("fn", V(S("x")), Call("list", Kw("old"), S("x")))), Call("w", Call("do", Call("def", S("w"), Call("fn", V(S("x")), Call("list", Kw("new"), S("x")))), 7))),
		val(L(Kw("old"), 7)), "tmpl")
	expect(rep, "a free name resolves to its innermost binding at the time of each lookup",
		Call("do", Call("def", S("gx"), 1), Call("def", S("gf"), Call("let", V(S("k"), 10), Call("fn", V(), Call("+", S("gx"), S("k"))))),
			Call("list", Call("gf"), Call("do", Call("def", S("gx"), 2), Call("gf")))), val(L(11, 12)), "tmpl")
	expect(rep, "a closure calls the current definition of a global helper",
		Call("do", Call("def", S("hh"), Call("fn", V(S("n")), Call("*", S("n"), 2))), Call("def", S("mk"), Call("fn", V(S("k")), Call("fn", V(S("n")), Call("+", S("k"), Call("hh", S("n")))))),
			Call("def", S("api"), Call("mk", 100)), Call("list", Call("api", 1), Call("do", Call("def", S("hh"), Call("fn", V(S("n")), Call("*", S("n"), 3))), Call("api", 1)))), val(L(102, 103)), "tmpl")
	expect(rep, "& rest collects the remaining arguments", L(Call("fn", V(S("a"), S("&"), S("r")), S("r")), 1, 2, 3), val(L(2, 3)), "tmpl")
	expect(rep, "& rest may be empty", L(Call("fn", V(S("a"), S("&"), S("r")), S("r")), 1), val(L()), "tmpl")
	expect(rep, "quote returns its operand unevaluated", Q(L(S("trace!"), 1)), val(L(S("trace!"), 1)), "tmpl")
	for _, k := range []int{0, 1, 2, 3} { // arity errors exactly where prescribed
		params := []types.MalType{}
		for i := 0; i < k; i++ {
			params = append(params, S(string(rune('a'+i))))
		}
		for n := 0; n <= 4; n++ {
			args := []types.MalType{Call("fn", V(params...), Call("trace!", 42))}
			for i := 0; i < n; i++ {
				args = append(args, Call("trace!", i))
			}
			idx, line, _ := addProgram(rep, L(args...), true, "tmpl-arity")
			isErr := outcomeKind(line) == "E"
			if isErr != (n != k) {
				rep.Violate(idx, "arity: a closure of "+string(rune('0'+k))+" parameters called with "+string(rune('0'+n))+" arguments: error expected exactly when the counts differ", Show(L(args...)))
			}
		}
	}
	// (i) exhaustive small programs
	small := c01Small(map[string]int{"quick": 3, "thorough": 4}[tier])
	for _, p := range small {
		addProgram(rep, p, true, "small")
	}
	rep.Extra["small_programs"] = len(small)
	// (ii) random typed programs
	n, depth := 1500, 6
	if tier == "thorough" {
		n, depth = 40000, 8
	}
	g := NewPG(NewRng(seed))
	for i := 0; i < n; i++ {
		p := g.Program(2 + g.R.Intn(depth-1))
		idx, line, _ := addProgram(rep, p, true, "random")
		if i%2 == 0 {
			textRoutes(rep, idx, p, line, "same program, built as a form")
		}
	}
	mergeHist(rep, g.Hist)
}
