(** types.Equal_Q transcribed (equalI), and the structural equality it is meant to be (eqS).
    Definitions only; proofs in EqualProofs.v. *)
From Lisp Require Export Value.

(** reflect.TypeOf: the dynamic Go type, as a tag *)
Definition type_tag (v : val) : nat :=
  match v with
  | VNil => 0 | VBool _ => 1 | VInt _ => 2 | VStr _ => 3 | VSym _ _ => 4
  | VList _ _ => 5 | VVec _ _ => 6 | VMap _ => 7 | VSet _ => 8 | VFn _ _ _ _ => 9
  | VBuiltin _ => 10 | VAtom _ => 11 | VGoErr _ => 12 | VLispErr _ _ => 13 | VOther _ => 14
  end%nat.

Definition sequential (v : val) : bool :=
  match v with VList _ _ | VVec _ _ => true | _ => false end.

Definition seq_items (v : val) : option (list val) :=
  match v with VList l _ | VVec l _ => Some l | _ => None end.

(** Go's == on two interface values of the same dynamic type; None = run-time panic
    "comparing uncomparable type" (structs holding func values). *)
Definition go_eq_same_type (a b : val) : option bool :=
  match a, b with
  | VNil, VNil => Some true
  | VBool x, VBool y => Some (Bool.eqb x y)
  | VInt x, VInt y => Some (Z.eqb x y)
  | VStr x, VStr y => Some (str_eqb x y)
  | VAtom x, VAtom y => Some (Nat.eqb x y)          (* pointer identity *)
  | VFn _ _ _ _, VFn _ _ _ _ => None                 (* MalFunc has func fields *)
  | VBuiltin _, VBuiltin _ => None                   (* Func has a func field *)
  | VGoErr _, VGoErr _ => Some false                 (* distinct *errorString pointers; never data *)
  | VLispErr _ _, VLispErr _ _ => Some false         (* struct of interface + pointer; conservatively unequal *)
  | VOther x, VOther y => Some (str_eqb x y)
  | _, _ => Some false
  end.

(** Equal_Q.  Short-circuits exactly as the Go loops do. *)
Fixpoint equalI (a b : val) {struct a} : option bool :=
  if negb (Nat.eqb (type_tag a) (type_tag b) || (sequential a && sequential b)) then Some false else
  match a with
  | VSym s _ => match b with VSym t _ => Some (str_eqb s t) | _ => Some false end
  | VList la _ | VVec la _ =>
      match seq_items b with
      | None => Some false
      | Some lb =>
          if negb (Nat.eqb (length la) (length lb)) then Some false else
          (fix go (la lb : list val) {struct la} : option bool :=
             match la, lb with
             | x :: la', y :: lb' =>
                 match equalI x y with
                 | Some true => go la' lb'
                 | r => r
                 end
             | _, _ => Some true
             end) la lb
      end
  | VMap ma =>
      match b with
      | VMap mb =>
          if negb (Nat.eqb (length ma) (length mb)) then Some false else
          (fix go (ma : list (str * val)) {struct ma} : option bool :=
             match ma with
             | [] => Some true
             | (k, v) :: ma' =>
                 match alookup k mb with
                 | None => Some false                      (* the presence test (fix 3571099) *)
                 | Some bv =>
                     match equalI v bv with
                     | Some true => go ma'
                     | r => r
                     end
                 end
             end) ma
      | _ => Some false
      end
  | VSet sa =>
      match b with
      | VSet sb =>
          if negb (Nat.eqb (length sa) (length sb)) then Some false else
          Some (forallb (fun k => smem k sb) sa)
      | _ => Some false
      end
  | _ => go_eq_same_type a b
  end.

(** ---- Specification: structural equality on data, written independently ---- *)

(** data values of the property: nil, booleans, integers, strings/keywords, symbols,
    lists, vectors, hash-maps, sets; Go maps have pairwise distinct keys *)

Fixpoint data (v : val) : bool :=
  match v with
  | VNil | VBool _ | VInt _ | VStr _ | VSym _ _ => true
  | VList l _ | VVec l _ => forallb data l
  | VMap m => nodup_keys m && forallb (fun kv => data (snd kv)) m
  | VSet s => nodup_strs s
  | _ => false
  end.

Fixpoint eqS (a b : val) {struct a} : bool :=
  match a with
  | VNil => match b with VNil => true | _ => false end
  | VBool x => match b with VBool y => Bool.eqb x y | _ => false end
  | VInt x => match b with VInt y => Z.eqb x y | _ => false end
  | VStr x => match b with VStr y => str_eqb x y | _ => false end
  | VSym x _ => match b with VSym y _ => str_eqb x y | _ => false end
  | VList la _ | VVec la _ =>
      match seq_items b with
      | Some lb =>
          (fix go (la lb : list val) {struct la} : bool :=
             match la, lb with
             | [], [] => true
             | x :: la', y :: lb' => eqS x y && go la' lb'
             | _, _ => false
             end) la lb
      | None => false
      end
  | VMap ma =>
      match b with
      | VMap mb =>
          (* same keys, equal values *)
          (fix go (ma : list (str * val)) {struct ma} : bool :=
             match ma with
             | [] => true
             | (k, v) :: ma' =>
                 match alookup k mb with Some bv => eqS v bv | None => false end && go ma'
             end) ma
          && forallb (fun kv => match alookup (fst kv) ma with Some _ => true | None => false end) mb
      | _ => false
      end
  | VSet sa =>
      match b with
      | VSet sb => forallb (fun k => smem k sb) sa && forallb (fun k => smem k sa) sb
      | _ => false
      end
  | _ => false
  end.
