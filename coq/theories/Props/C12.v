(** C12 — macro calls equal their expansion; quasiquote builds exactly the template. *)
From Lisp Require Import Base Value Core Binder Env Eval Interp EvalProofs QuasiProofs Run.
From Lisp.Gen Require Import Examples.

(** a macro receives its operands UNEVALUATED and the loop goes on with the expansion *)
Theorem C12_macro_receives_operands_unevaluated : forall ev cb k d head p rest cur env st mac,
  macro_of st (VList (VSym head p :: rest) cur) env = Some mac ->
  macroexpand ev cb (S k) d (VList (VSym head p :: rest) cur) env st =
  bindM (apply_fn ev cb d mac rest) (fun ast' => macroexpand ev cb k d ast' env) st.
Proof. exact macroexpand_step. Qed.

(** the result of macroexpand is a form whose head is no longer a macro *)
Theorem C12_macroexpand_head_not_macro : forall ev cb k d ast env st ast' st',
  macroexpand ev cb k d ast env st = (Ok ast', st') -> macro_of st' ast' env = None.
Proof. exact macroexpand_head_not_macro. Qed.

(** evaluating a macro call = expanding, then evaluating the expansion in the caller's scope *)
Theorem C12_call_is_expansion_then_eval : forall n d head p rest cur env st mac,
  macro_of st (VList (VSym head p :: rest) cur) env = Some mac ->
  eval (S n) d (VList (VSym head p :: rest) cur) env st =
  prop (macroexpand (eval n) (call_builtin n (eval n)) n d (VList (VSym head p :: rest) cur) env st)
       (fun ast' st' => eval_step (eval n) (eval n) (call_builtin n (eval n)) n d ast' env st').
Proof. exact eval_macro_call. Qed.

(** ordinary functions are unaffected: a form that is not a macro call is not expanded *)
Theorem C12_functions_unaffected : forall ev cb k d ast env st,
  macro_of st ast env = None -> macroexpand ev cb k d ast env st = (Ok ast, st).
Proof. exact macroexpand_not_macro. Qed.

(** quasiquote: for every evaluation function that gives quote/cons/concat/vec their
    standard meaning, evaluating the expansion equals the template substitution — unquotes
    replaced by the value of their expression, splices by the elements of theirs, in place
    and in order (same state threading, hence same effect order), vectors stay vectors, maps
    and everything else literal. *)
Theorem C12_quasiquote_is_template : forall (rho : val -> M val),
  (forall x, rho (VList [sy "quote"; x] None) == ret x) ->
  (forall a b, rho (VList [sy "cons"; a; b] None) == (let+ x := rho a in let+ y := rho b in lift (b_cons [x; y]))) ->
  (forall a b, rho (VList [sy "concat"; a; b] None) == (let+ x := rho a in let+ y := rho b in lift (b_concat [x; y]))) ->
  (forall a, rho (VList [sy "vec"; a] None) == (let+ x := rho a in lift (b_vec [x]))) ->
  rho (VList [] None) == ret (VList [] None) ->
  (forall a, self_evaluating a = true -> rho a == ret a) ->
  forall t, rho (quasiquote t) == subst rho t.
Proof. exact quasiquote_is_template. Qed.

(** computed instances (tests): a template with unquote and splices at several positions in a
    list and a vector, a map kept literally; a user macro and its macroexpand result *)
Example C12_template_example :
  observe ex_c12_template =
  s_ "V l 5 i 1 i 2 v 4 y 1 97 i 3 i 4 m 1 2 670 107 l 2 y 7 117 110 113 117 111 116 101 y 1 120 i 5 y 1 98 | l 3 i 2 l 2 i 3 i 4 v 1 i 5 ".
Proof. vm_compute. reflexivity. Qed.
Example C12_macro_example : observe ex_c12_macro = s_ "V l 2 i 1 l 4 y 2 105 102 f i 2 i 1 | l 1 i 1 ".
Proof. vm_compute. reflexivity. Qed.

Print Assumptions C12_macro_receives_operands_unevaluated.
Print Assumptions C12_macroexpand_head_not_macro.
Print Assumptions C12_call_is_expansion_then_eval.
Print Assumptions C12_functions_unaffected.
Print Assumptions C12_quasiquote_is_template.
