(** C20 — reflectively bound Go functions are called only within their declared contract. *)
From Lisp Require Import Base Value Core Binder BinderProofs EvalProofs.

(** the Go function is entered iff the argument count lies within the lisp-visible bounds
    (declared or signature-derived) and every argument is assignable to its parameter *)
Theorem C20_entered_iff_within_contract : forall s mn mx args,
  gate s mn mx args = Ok tt <-> within_contract s mn mx args = true.
Proof. exact gate_iff_contract. Qed.

(** inside the contract the function runs on exactly the arguments given and its result is
    mapped by convention; outside, the caller gets an error that does not depend on the function *)
Theorem C20_invoke : forall s mn mx f args,
  (within_contract s mn mx args = true -> invoke s mn mx f args = finish (map_result s (f args))) /\
  (within_contract s mn mx args = false -> exists e, invoke s mn mx f args = Err e /\ forall f', invoke s mn mx f' args = Err e).
Proof. exact invoke_enters_iff. Qed.

(** ... and that error is about the count or about the type of a specific argument *)
Theorem C20_error_is_count_or_type : forall s mn mx args,
  gate s mn mx args = Ok tt \/ gate s mn mx args = Err arity_error \/
  exists v t, (gate s mn mx args = Err (type_error v t) \/ gate s mn mx args = Err (type_error_variadic v t))
              /\ In v args /\ assignable v t = false.
Proof. exact gate_error_class. Qed.

(** nil is the zero interface value: assignable to interface-typed parameters only *)
Example C20_nil_only_to_interface :
  assignable VNil TAny = true /\ assignable VNil TInt = false /\ assignable VNil TString = false /\
  assignable VNil TVector = false /\ assignable VNil TError = false /\ assignable VNil TDeref = false.
Proof. repeat split. Qed.

(** effective bounds *)
Theorem C20_declared_pair_counts_lisp_arguments : forall s m M mn mx,
  variadic s <> None -> bind s [m; M] = Bound mn mx ->
  lisp_bounds s mn mx = (m, M) \/ (M = UNLIMITED /\ has_ctx s = true).
Proof. exact bind_declared_pair. Qed.
Theorem C20_declared_min_counts_lisp_arguments : forall s m mn mx,
  variadic s <> None -> bind s [m] = Bound mn mx -> fst (lisp_bounds s mn mx) = m.
Proof. exact bind_declared_min. Qed.
Theorem C20_fixed_arity_from_signature : forall s mn mx,
  variadic s = None -> bind s [] = Bound mn mx ->
  lisp_bounds s mn mx = (Z.of_nat (length (fixed s)), Z.of_nat (length (fixed s))).
Proof. exact bind_fixed_arity. Qed.

(** registration panics only for the documented misuse *)
Theorem C20_registration_panics_only_on_misuse : forall s decl why,
  bind s decl = RegPanic why ->
  (variadic s = None /\ (length decl = 1 \/ length decl = 2)%nat)
  \/ (exists m M, decl = [m; M] /\ M < m)
  \/ (exists m, In m decl /\ m < 0)
  \/ (exists m, decl = [m] /\ UNLIMITED < m)
  \/ (2 < nresults s)%nat.
Proof. exact bind_panics_only_on_misuse. Qed.

(** result conventions and panic containment *)
Theorem C20_no_value_result_is_nil : forall s v, (nresults s < 2)%nat -> map_result s (Ok v) = Ok VNil.
Proof. exact result_no_value_is_nil. Qed.
Theorem C20_value_result : forall s v, (2 <= nresults s)%nat -> map_result s (Ok v) = Ok v.
Proof. exact result_value. Qed.
Theorem C20_error_result : forall s e, map_result s (Err e) = Err e.
Proof. exact result_error. Qed.
Theorem C20_panic_contained : forall s mn mx f args site,
  within_contract s mn mx args = true -> f args = Panic site ->
  invoke s mn mx f args = Err (recover_panic site).
Proof. exact panic_contained. Qed.
Theorem C20_never_panics : forall sg mn mx f args s, invoke sg mn mx f args <> Panic s.
Proof. exact invoke_no_panic. Qed.

(** non-vacuity: apply's registration (context, variadic, declared minimum 2) *)
Example C20_apply_bounds :
  bind (mkSig true [] (Some TAny) 2) [2] = Bound 3 UNLIMITED /\
  within_contract (mkSig true [] (Some TAny) 2) 3 UNLIMITED [VInt 1] = false /\
  within_contract (mkSig true [] (Some TAny) 2) 3 UNLIMITED [VInt 1; VNil] = true.
Proof. repeat split. Qed.

Print Assumptions C20_entered_iff_within_contract.
Print Assumptions C20_invoke.
Print Assumptions C20_error_is_count_or_type.
Print Assumptions C20_declared_pair_counts_lisp_arguments.
Print Assumptions C20_registration_panics_only_on_misuse.
Print Assumptions C20_panic_contained.
