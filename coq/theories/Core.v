(** lib/core/core.go: the first-order collection builtins, transcribed (layer L0: values are
    immutable lists; Go slices/maps aliasing is the business of Arena.v).  Each function
    takes the argument list as the reflective binder hands it over (arity and parameter
    types already checked by Binder.v) and follows the Go control flow: same case order,
    same error points; every Go operation that can panic (index, slice, type assertion)
    is a checked primitive producing [Panic].  Definitions only. *)
From Lisp Require Export Value Equal.

Definition wrap64 (z : Z) : Z :=
  let m := Z.modulo (z + 9223372036854775808) 18446744073709551616 in m - 9223372036854775808.

Definition in_int64 (z : Z) : bool := Z.leb (-9223372036854775808) z && Z.leb z 9223372036854775807.

(** types.GetSlice *)
Definition get_slice (v : val) : outcome (list val) :=
  match v with
  | VList l _ | VVec l _ => Ok l
  | _ => goerr "GetSlice called on non-sequence"
  end.

Definition vlist (l : list val) : val := VList l None.
Definition vvec (l : list val) : val := VVec l None.

(** Go slice expression s[i:j] checked against the length (L0 has no spare capacity) *)
Definition slice {A} (l : list A) (i j : Z) : outcome (list A) :=
  if (Z.leb 0 i && Z.leb i j && Z.leb j (Z.of_nat (length l)))%bool
  then Ok (firstn (Z.to_nat (j - i)) (skipn (Z.to_nat i) l))
  else Panic (s_ "slice bounds out of range").

Definition index {A} (l : list A) (i : Z) : outcome A :=
  if Z.ltb i 0 then Panic (s_ "index out of range")
  else match nth_opt l (Z.to_nat i) with Some x => Ok x | None => Panic (s_ "index out of range") end.

Fixpoint set_nth {A} (l : list A) (n : nat) (x : A) : option (list A) :=
  match l, n with
  | [], _ => None
  | _ :: r, O => Some (x :: r)
  | y :: r, S n' => match set_nth r n' x with Some r' => Some (y :: r') | None => None end
  end.

Definition is_str (v : val) : bool := match v with VStr _ => true | _ => false end.

(** ---- sequences ---- *)

Definition b_list (a : list val) : outcome val := Ok (vlist a).
Definition b_vector (a : list val) : outcome val := Ok (vvec a).

Definition b_cons (a : list val) : outcome val :=
  match a with
  | [x; s] => let* l := get_slice s in Ok (vlist (x :: l))
  | _ => Panic (s_ "arity")
  end.

Fixpoint concat_rest (acc : list val) (a : list val) : outcome (list val) :=
  match a with
  | [] => Ok acc
  | s :: r => let* l := get_slice s in concat_rest (acc ++ l) r
  end.

Definition b_concat (a : list val) : outcome val :=
  match a with
  | [] => Ok (vlist [])
  | s :: r => let* l0 := get_slice s in let* l := concat_rest l0 r in Ok (vlist l)
  end.

Definition b_vec (a : list val) : outcome val :=
  match a with
  | [VSet ks] => Ok (vvec (map VStr ks))
  | [VList l _] | [VVec l _] => Ok (vvec l)
  | [_] => goerr "cannot convert from type"
  | _ => Panic (s_ "arity")
  end.

Definition b_nth (a : list val) : outcome val :=
  match a with
  | [s; VInt i] =>
      let* l := get_slice s in
      if Z.ltb i (Z.of_nat (length l)) then index l i else goerr "nth: index out of range"
  | _ => Panic (s_ "arity")
  end.

Definition b_first (a : list val) : outcome val :=
  match a with
  | [VNil] => Ok VNil
  | [s] => let* l := get_slice s in match l with [] => Ok VNil | x :: _ => Ok x end
  | _ => Panic (s_ "arity")
  end.

Definition b_rest (a : list val) : outcome val :=
  match a with
  | [VNil] => Ok (vlist [])
  | [s] => let* l := get_slice s in match l with [] => Ok (vlist []) | _ :: r => Ok (vlist r) end
  | _ => Panic (s_ "arity")
  end.

Definition b_empty_Q (a : list val) : outcome val :=
  match a with
  | [VList l _] | [VVec l _] => Ok (VBool (Nat.eqb (length l) 0))
  | [VMap m] => Ok (VBool (Nat.eqb (length m) 0))
  | [VSet s] => Ok (VBool (Nat.eqb (length s) 0))
  | [VNil] => Ok (VBool true)
  | [_] => goerr "empty? called on non-sequence"
  | _ => Panic (s_ "arity")
  end.

Definition b_count (a : list val) : outcome val :=
  match a with
  | [VList l _] | [VVec l _] => Ok (VInt (Z.of_nat (length l)))
  | [VMap m] => Ok (VInt (Z.of_nat (length m)))
  | [VSet s] => Ok (VInt (Z.of_nat (length s)))
  | [VNil] => Ok (VInt 0)
  | [_] => goerr "count called on non-sequence type"
  | _ => Panic (s_ "arity")
  end.

(** for i := 1; i < len(a); i += 2 { key := a[i]; string? ; m[key] = a[i+1] } — a[i+1] is an
    unchecked index: it panics when the number of key/value arguments is odd *)
Fixpoint assoc_pairs (m : list (str * val)) (kvs : list val) : outcome (list (str * val)) :=
  match kvs with
  | [] => Ok m
  | VStr k :: v :: r => assoc_pairs (aset k v m) r
  | VStr _ :: [] => Panic (s_ "index out of range")
  | _ :: _ => goerr "called with non-string key"
  end.

Fixpoint add_keys (s : list str) (ks : list val) : outcome (list str) :=
  match ks with
  | [] => Ok s
  | VStr k :: r => add_keys (sadd k s) r
  | _ :: _ => goerr "called with non-string key"
  end.

Fixpoint del_keys (m : list (str * val)) (ks : list val) : outcome (list (str * val)) :=
  match ks with
  | [] => Ok m
  | VStr k :: r => del_keys (adel k m) r
  | _ :: _ => goerr "dissoc called with non-string key"
  end.

Fixpoint del_skeys (s : list str) (ks : list val) : outcome (list str) :=
  match ks with
  | [] => Ok s
  | VStr k :: r => del_skeys (sdel k s) r
  | _ :: _ => goerr "dissoc called with non-string key"
  end.

Definition b_conj (a : list val) : outcome val :=
  match a with
  | [] => Panic (s_ "index out of range")
  | VList l _ :: xs => Ok (vlist (rev xs ++ l))
  | VVec l _ :: xs => Ok (vvec (l ++ xs))
  | VMap m :: xs =>
      if Nat.even (length xs) then let* m' := assoc_pairs m xs in Ok (VMap m')
      else goerr "conj called with on a hash map requires an odd number of arguments"
  | VSet s :: xs => let* s' := add_keys s xs in Ok (VSet s')
  | _ :: _ => goerr "conj called on non-hash map and a non-list and a non-set and a non-vector"
  end.

Definition b_seq (a : list val) : outcome val :=
  match a with
  | [VNil] => Ok VNil
  | [VList l p] => match l with [] => Ok VNil | _ => Ok (VList l p) end
  | [VVec l _] => match l with [] => Ok VNil | _ => Ok (vlist l) end
  | [VSet ks] => Ok (vlist (map VStr ks))
  | [VStr s] => match s with [] => Ok VNil | _ => Ok (vlist (map (fun c => VStr [c]) s)) end
  | [_] => goerr "seq requires string or list or vector or nil"
  | _ => Panic (s_ "arity")
  end.

(** take family: the results are always lists *)
Definition clampn (z : Z) : nat := Z.to_nat (Z.max 0 z).

Definition b_take (a : list val) : outcome val :=
  match a with
  | [VInt n; VList l _] | [VInt n; VVec l _] => Ok (vlist (firstn (clampn n) l))
  | [VInt _; VNil] => Ok (vlist [])
  | [VInt _; _] => goerr "take called on non-list and non-vector"
  | _ => Panic (s_ "arity")
  end.

Definition nil_if_empty (l : list val) : val := match l with [] => VNil | _ => vlist l end.

Definition b_take_last (a : list val) : outcome val :=
  match a with
  | [VInt n; VList l _] | [VInt n; VVec l _] => Ok (nil_if_empty (skipn (length l - clampn n) l))
  | [VInt _; VNil] => Ok VNil
  | [VInt _; _] => goerr "take called on non-list and non-vector"
  | _ => Panic (s_ "arity")
  end.

Definition b_drop (a : list val) : outcome val :=
  match a with
  | [VInt n; VList l _] | [VInt n; VVec l _] => Ok (vlist (skipn (clampn n) l))
  | [VInt _; VNil] => Ok (vlist [])
  | [VInt _; _] => goerr "drop called on non-list and non-vector"
  | _ => Panic (s_ "arity")
  end.

Definition b_drop_last (a : list val) : outcome val :=
  match a with
  | [VInt n; VList l _] | [VInt n; VVec l _] => Ok (vlist (firstn (length l - clampn n) l))
  | [VInt _; VNil] => Ok (vlist [])
  | [VInt _; _] => goerr "drop called on non-list and non-vector"
  | _ => Panic (s_ "arity")
  end.

Definition as_int (v : val) : outcome Z :=
  match v with VInt z => Ok z | _ => Panic (s_ "interface conversion: not int") end.
Definition as_str (v : val) : outcome str :=
  match v with VStr s => Ok s | _ => Panic (s_ "interface conversion: not string") end.

Definition b_subvec (a : list val) : outcome val :=
  match a with
  | [v; f] | [v; f; _] =>
      match v with
      | VVec l _ =>
          let* from := as_int f in
          let* to := match a with [_; _; t] => as_int t | _ => Ok (Z.of_nat (length l)) end in
          if (Z.ltb from 0 || Z.ltb (Z.of_nat (length l)) to || Z.ltb to from)%bool
          then goerr "subvec index out of range"
          else let* r := slice l from to in Ok (vvec r)
      | _ => goerr "subvec requires a vector"
      end
  | _ => goerr "subvec wrong number of args"
  end.

Fixpoint range_list (from : Z) (n : nat) : list val :=
  match n with O => [] | S n' => VInt from :: range_list (from + 1) n' end.

Definition b_range (a : list val) : outcome val :=
  match a with
  | [VInt from; VInt to] => Ok (vvec (range_list from (Z.to_nat (to - from))))
  | _ => Panic (s_ "arity")
  end.

(** ---- hash maps and sets ---- *)

(** types.NewHashMap *)
Fixpoint new_hash_map (m : list (str * val)) (kvs : list val) : outcome (list (str * val)) :=
  match kvs with
  | [] => Ok m
  | VStr k :: v :: r => new_hash_map (aset k v m) r
  | _ :: _ :: _ => goerr "expected hash-map key string"
  | [_] => Panic (s_ "unreachable: odd length checked before")
  end.

Definition b_hash_map (a : list val) : outcome val :=
  match a with
  | [] => Ok (VMap [])
  | [_] => Panic (s_ "interface conversion: not marshaler.HashMap")
  | _ =>
      if Nat.odd (length a) then goerr "odd number of arguments to NewHashMap"
      else let* m := new_hash_map [] a in Ok (VMap m)
  end.

(** types.NewSet *)
Fixpoint set_items (s : list str) (l : list val) : outcome (list str) :=
  match l with
  | [] => Ok s
  | VStr k :: r => set_items (sadd k s) r
  | _ :: _ => goerr "set items must be strings or keywords"
  end.

Definition new_set (v : val) : outcome val :=
  match v with
  | VNil => Ok (VSet [])
  | _ => let* l := get_slice v in
         let* s := set_items [] l in
         Ok (VSet s)
  end.

Definition b_set (a : list val) : outcome val :=
  match a with [v] => new_set v | _ => Panic (s_ "arity") end.
Definition b_hash_set (a : list val) : outcome val := new_set (vlist a).

Definition b_assoc (a : list val) : outcome val :=
  match a with
  | [] => Panic (s_ "index out of range")
  | VMap m :: xs =>
      if Nat.ltb (length a) 3 then goerr "assoc requires at least 3 arguments"
      else if Nat.even (length a) then goerr "assoc requires odd number of arguments"
      else let* m' := assoc_pairs m xs in Ok (VMap m')
  | VVec l _ :: xs =>
      if Nat.ltb (length a) 3 then goerr "assoc requires at least 3 arguments"
      else
        let* l' := (fix go (l : list val) (kvs : list val) : outcome (list val) :=
                      match kvs with
                      | [] => Ok l
                      | VInt i :: v :: r =>
                          if Z.ltb i 0 then Panic (s_ "index out of range")
                          else match set_nth l (Z.to_nat i) v with
                               | Some l' => go l' r
                               | None => Panic (s_ "index out of range")
                               end
                      | VInt _ :: [] => Panic (s_ "index out of range")
                      | _ :: _ => goerr "assoc called with non-int key"
                      end) l xs in
        Ok (vvec l')
  | VSet s :: xs =>
      if Nat.ltb (length a) 2 then goerr "assoc requires at least 2 arguments"
      else let* s' := add_keys s xs in Ok (VSet s')
  | _ :: _ => goerr "assoc called on non-hash map and non-set"
  end.

Definition b_dissoc (a : list val) : outcome val :=
  if Nat.ltb (length a) 2 then goerr "dissoc requires at least 3 arguments" else
  match a with
  | VMap m :: ks => let* m' := del_keys m ks in Ok (VMap m')
  | VSet s :: ks => let* s' := del_skeys s ks in Ok (VSet s')
  | _ => goerr "assoc called on non-hash map and non-set"
  end.

Definition lookup_or_nil (k : str) (m : list (str * val)) : val :=
  match alookup k m with Some v => v | None => VNil end.

(** core.get(hm, key) *)
Definition get2 (hm key : val) : outcome val :=
  match hm with
  | VNil => Ok VNil
  | _ =>
      match key with
      | VStr _ | VInt _ =>
          match hm with
          | VMap m => let* k := as_str key in Ok (lookup_or_nil k m)
          | VVec l _ | VList l _ => let* i := as_int key in index l i
          | VSet s => let* k := as_str key in Ok (if smem k s then VStr k else VNil)
          | _ => goerr "get called on non-hash map and a non-set"
          end
      | _ => goerr "get called with non-string key nor a non-int key"
      end
  end.

Definition b_get (a : list val) : outcome val :=
  match a with [hm; key] => get2 hm key | _ => Panic (s_ "arity") end.

(** _getIn: recursion on the path *)
Fixpoint get_in_path (v : val) (path : list val) : outcome val :=
  match path with
  | [] => Ok v
  | [idx] => get2 v idx
  | idx :: rest =>
      let* branch :=
        match v with
        | VMap m => let* k := as_str idx in
                    Ok (match lookup_or_nil k m with VNil => VMap [] | b => b end)
        | VList l _ => let* i := as_int idx in let* b := index l i in
                       Ok (match b with VNil => vlist [] | b => b end)
        | VVec l _ => let* i := as_int idx in let* b := index l i in
                      Ok (match b with VNil => vvec [] | b => b end)
        | _ => Ok VNil
        end in
      get_in_path branch rest
  end.

Definition b_get_in (a : list val) : outcome val :=
  match a with
  | [VNil; _] => Ok VNil
  | [hm; VVec path _] => get_in_path hm path
  | [_; _] => goerr "get-in index must be a vector"
  | _ => Panic (s_ "arity")
  end.

Definition b_contains_Q (a : list val) : outcome val :=
  match a with
  | [VNil; VStr _] => Ok (VBool false)
  | [VMap m; VStr k] => Ok (VBool (match alookup k m with Some _ => true | None => false end))
  | [VSet s; VStr k] => Ok (VBool (smem k s))
  | [_; VStr _] => goerr "get called on non-hash map and a non-set"
  | _ => Panic (s_ "arity")
  end.

(** keys / vals: Go iterates the map in random order; the model uses the list order and the
    correspondence check compares the results as multisets (sorted). *)
Definition b_keys (a : list val) : outcome val :=
  match a with
  | [VMap m] => Ok (vlist (map (fun kv => VStr (fst kv)) m))
  | [_] => goerr "keys called on non-hash map"
  | _ => Panic (s_ "arity")
  end.

Definition b_vals (a : list val) : outcome val :=
  match a with
  | [VMap m] => Ok (vlist (map snd m))
  | [_] => goerr "vals called on non-hash map"
  | _ => Panic (s_ "arity")
  end.

Definition b_merge (a : list val) : outcome val :=
  match a with
  | [VNil; VNil] => Ok VNil
  | [x; y] =>
      let* m0 := match x with VNil => Ok [] | VMap m => Ok m | _ => goerr "expected hash map" end in
      let* m1 := match y with VNil => Ok [] | VMap m => Ok m | _ => goerr "expected hash map" end in
      Ok (VMap (fold_left (fun acc kv => aset (fst kv) (snd kv) acc) m1 m0))
  | _ => Panic (s_ "arity")
  end.

(** rename_keys after fix: unrenamed keys first, then the renamed ones *)
Definition b_rename_keys (a : list val) : outcome val :=
  match a with
  | [VMap data; VMap alt] =>
      let keep := filter (fun kv => match alookup (fst kv) alt with Some _ => false | None => true end) data in
      let* out := (fix go (out : list (str * val)) (d : list (str * val)) : outcome (list (str * val)) :=
                     match d with
                     | [] => Ok out
                     | (k, v) :: r =>
                         match alookup k alt with
                         | Some nk => let* nk' := as_str nk in go (aset nk' v out) r
                         | None => go out r
                         end
                     end) keep data in
      Ok (VMap out)
  | _ => Panic (s_ "arity")
  end.

(** _assocIn *)
Fixpoint assoc_in_path (v : val) (path : list val) (nv : val) : outcome val :=
  match path with
  | [] => Ok v
  | [idx] => b_assoc [v; idx; nv]
  | idx :: rest =>
      let* branch :=
        match v with
        | VMap m => let* k := as_str idx in
                    Ok (match lookup_or_nil k m with VNil => VMap [] | b => b end)
        | VVec l _ => let* i := as_int idx in let* b := index l i in
                      Ok (match b with VNil => vvec [] | b => b end)
        | _ => Ok VNil
        end in
      let* inner := assoc_in_path branch rest nv in
      b_assoc [v; idx; inner]
  end.

Definition b_assoc_in (a : list val) : outcome val :=
  match a with
  | [hm; VVec path _; data] => assoc_in_path hm path data
  | _ => Panic (s_ "arity")
  end.

(** ---- predicates and scalars ---- *)
Definition pred1 (f : val -> bool) (a : list val) : outcome val :=
  match a with [v] => Ok (VBool (f v)) | _ => Panic (s_ "arity") end.

Definition is_keyword (v : val) : bool := match v with VStr s => is_kw s | _ => false end.
Definition is_string (v : val) : bool := match v with VStr s => negb (is_kw s) | _ => false end.

Definition b_symbol (a : list val) : outcome val :=
  match a with [VStr s] => Ok (VSym s None) | _ => Panic (s_ "arity") end.
Definition b_keyword (a : list val) : outcome val :=
  match a with [VStr s] => Ok (VStr (if is_kw s then s else KW :: s)) | _ => Panic (s_ "arity") end.

Definition arith (f : Z -> Z -> Z) (a : list val) : outcome val :=
  match a with [VInt x; VInt y] => Ok (VInt (wrap64 (f x y))) | _ => Panic (s_ "arity") end.
Definition cmp (f : Z -> Z -> bool) (a : list val) : outcome val :=
  match a with [VInt x; VInt y] => Ok (VBool (f x y)) | _ => Panic (s_ "arity") end.
Definition b_div (a : list val) : outcome val :=
  match a with
  | [VInt x; VInt y] => if Z.eqb y 0 then Panic (s_ "integer divide by zero") else Ok (VInt (wrap64 (Z.quot x y)))
  | _ => Panic (s_ "arity")
  end.

Definition b_equal (a : list val) : outcome val :=
  match a with
  | [x; y] => match equalI x y with Some b => Ok (VBool b) | None => Panic (s_ "comparing uncomparable type") end
  | _ => Panic (s_ "arity")
  end.

(** core.throw *)
Definition is_error (v : val) : bool := match v with VGoErr _ | VLispErr _ _ => true | _ => false end.
Definition b_throw (a : list val) : outcome val :=
  match a with
  | [v] => if is_error v then Err v else Err (VLispErr v None)
  | _ => Panic (s_ "arity")
  end.

(** core.assert (bounds 1..2) *)
Definition b_assert (a : list val) : outcome val :=
  match a with
  | [a0] | [a0; _] =>
      let a1 := match a with [_; x] => x | _ => VNil end in
      match a0 with
      | VBool true => Ok VNil
      | VBool false | VNil =>
          match a1 with
          | VNil => match a0 with VNil => goerr "assertion failed: nil" | _ => goerr "assertion failed: false" end
          | VStr s => Err (VGoErr s)
          | _ => Err (VLispErr a1 None)
          end
      | _ => Ok VNil
      end
  | _ => goerr "one or two parameters required"
  end.

(** with-meta / meta: metadata is not modelled; with-meta returns the object itself for the
    kinds that carry metadata, meta returns nil for them. *)
Definition b_with_meta (a : list val) : outcome val :=
  match a with
  | [VList l _; _] => Ok (vlist l)
  | [VVec l _; _] => Ok (vvec l)
  | [VMap m; _] => Ok (VMap m)
  | [VSet s; _] => Ok (VSet s)
  | [VBuiltin n; _] => Ok (VBuiltin n)
  | [VFn p b e m; _] => Ok (VFn p b e m)
  | [_; _] => goerr "with-meta not supported on type"
  | _ => Panic (s_ "arity")
  end.
