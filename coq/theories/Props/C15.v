(** C15 — placeholders are substituted as data and survive the preamble transport. *)
From Lisp Require Import Base Value Core Scanner Reader Printer Preamble PreambleProofs PrintReadProofs.
From Lisp.Gen Require Strings.

(** READWithPreamble(AddPreamble(src, m)) = reading src with every placeholder bound to its
    value as re-read from its printed form.  For EVERY source text (its own comments, strings
    and preamble-looking lines are untouched: the source is handed to the reader verbatim) and
    every map whose names are valid and whose values print as one non-empty line. *)
Theorem C15_transport : forall cm ext src m,
  forallb good_entry m = true ->
  read_with_preamble cm ext (add_preamble src m) =
  read_str cm (Some (fold_left (fun acc kv => aset (fst kv) (reread ext (snd kv)) acc) m [])) ext src.
Proof. exact preamble_transport_top. Qed.

(** the regular expression accepts exactly the line AddPreamble writes, for every valid name
    and every non-empty printed value *)
Theorem C15_line_roundtrip : forall k txt,
  valid_key k = true -> txt <> [] -> preamble_line (s_ ";; " ++ k ++ 32%N :: txt) = Some (k, txt).
Proof. exact preamble_line_roundtrip. Qed.

(** values are inserted as data: whatever a string contains, its printed (quoted) form has no
    raw newline, so it stays on its preamble line (the printer's raw ¬ form is used only for
    strings without newline since fix 9935961 — json_looking) *)
Theorem C15_quoted_strings_are_single_line : forall s, existsb (N.eqb 10) (escape_str s) = false.
Proof. exact escape_str_no_newline. Qed.

Lemma C15_raw_form_only_without_newline : forall s, json_looking s = true -> has_newline s = false.
Proof. intros s H. unfold json_looking in H. apply andb_true_iff in H as [_ H]. now apply negb_true_iff in H. Qed.

(** a placeholder without a value reads as nil; placeholder-looking text is a token only when it
    is a token: inside a string it belongs to the String token (computed instances) *)
Example C15_unset_and_inside_strings :
  read_str None (Some [(s_ "$A", VInt 7)]) None (s_ "(list $A $UNSET ""$A"" " ++ [RAWQ] ++ s_ "$A" ++ [RAWQ] ++ s_ ") ; $A") =
  Ok (VList [VSym (s_ "list") (Some (mkPos None 1 0 1 0)); VInt 7; VNil; VStr (s_ "$A"); VStr (s_ "$A")] (Some (mkPos None 1 0 1 0))).
Proof. vm_compute. reflexivity. Qed.

(** generated-source obligations: the regular expressions and the prefix constant of mal.go and
    reader.go are the ones the hand-written matchers implement *)
Lemma C15_regex_pinned :
  Strings.regex_lits_mal = [s_ "^(;; \$[\-\d\w]+)+\s(.+)"] /\
  Strings.regex_lits_reader = [s_ "^;; [$]MODULE (.+)"] /\
  Strings.const_lits_mal = [s_ ";; $"].
Proof. repeat split. Qed.

(** non-vacuity: an entry with a multi-line JSON-looking string, quotes, semicolons, brackets
    and another placeholder name inside is a good entry, and the transport gives the value back *)
Example C15_good_entry_example :
  let v := VMap [(s_ "k", VStr (s_ "{""a"":" ++ [10%N] ++ s_ "1} ; $B ( ""x"" ;; $A 1"))] in
  good_entry (s_ "$A", v) = true /\
  read_with_preamble None None (add_preamble (s_ "(f $A)") [(s_ "$A", v)]) =
  Ok (VList [VSym (s_ "f") (Some (mkPos None 1 0 1 0)); v] (Some (mkPos None 1 0 1 0))).
Proof. vm_compute. split; reflexivity. Qed.

Print Assumptions C15_transport.
Print Assumptions C15_line_roundtrip.
Print Assumptions C15_quoted_strings_are_single_line.
