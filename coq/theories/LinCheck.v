(** A linearizability checker for complete histories against a deterministic sequential
    specification, and the register specification of atoms used by the C09 harness.
    [search] is the executable checker run (extracted) on the histories the Go harness records;
    LinCheckProofs.v proves it sound and complete, so that its verdict IS linearizability. *)
From Lisp Require Export Base.
Local Open Scope nat_scope.

Section Lin.
  Variables (St Op Rt : Type).
  Variable sstep : St -> Op -> St * Rt.
  Variable req : Rt -> Rt -> bool.

  (** one completed call: operation, observed result, invocation and response instants *)
  Record call := mkCall { c_op : Op; c_ret : Rt; c_inv : nat; c_resp : nat }.

  (** c may be linearised before all of l: nobody in l had already responded when c was invoked *)
  Definition minimal (c : call) (l : list call) : bool :=
    forallb (fun d => negb (Nat.ltb (c_resp d) (c_inv c))) l.

  (** all ways of taking one element out of a list *)
  Fixpoint picks {A} (l : list A) : list (A * list A) :=
    match l with
    | [] => []
    | x :: r => (x, r) :: map (fun p => (fst p, x :: snd p)) (picks r)
    end.

  (** existsb, but stopping at the first success also under call-by-value evaluation *)
  Fixpoint any_lazy {A} (f : A -> bool) (l : list A) : bool :=
    match l with [] => false | a :: r => if f a then true else any_lazy f r end.

  Fixpoint search (fuel : nat) (st : St) (pending : list call) : bool :=
    match pending with
    | [] => true
    | _ :: _ =>
        match fuel with
        | O => false
        | S f =>
            any_lazy (fun p =>
                       let c := fst p in
                       (* nested ifs, not &&: under call-by-value evaluation (vm_compute) the
                          recursive search must not run for a candidate that is already rejected *)
                       if minimal c (snd p) then
                         if req (snd (sstep st (c_op c))) (c_ret c) then search f (fst (sstep st (c_op c))) (snd p) else false
                       else false)
                    (picks pending)
        end
    end.

  Definition linearizable_b (st : St) (h : list call) : bool := search (length h) st h.

  (** the definition of linearizability the checker decides *)
  Fixpoint seq_ok (st : St) (l : list call) : Prop :=
    match l with
    | [] => True
    | c :: r => req (snd (sstep st (c_op c))) (c_ret c) = true /\ seq_ok (fst (sstep st (c_op c))) r
    end.

  (** the order respects real time: nothing later in the order had responded before an earlier
      element was invoked *)
  Fixpoint rt_ok (l : list call) : Prop :=
    match l with
    | [] => True
    | c :: r => (forall d, In d r -> ~ (c_resp d < c_inv c)) /\ rt_ok r
    end.
End Lin.

Arguments mkCall {Op Rt}.
Arguments c_op {Op Rt}.
Arguments c_ret {Op Rt}.
Arguments c_inv {Op Rt}.
Arguments c_resp {Op Rt}.

(** ---- the sequential specification of a family of integer atoms ---- *)
Inductive aspec_op :=
| AoDeref (i : nat)
| AoReset (i : nat) (v : Z)
| AoSwapAdd (i : nat) (k : Z)                (* (swap! a_i + k) *)
| AoSwapMulAdd (i : nat) (m k : Z)           (* swap! a_i with x -> x times m plus k *)
| AoSwapFail (i : nat)                       (* the update function throws *)
| AoSwapAddFrom (i j : nat)                  (* (swap! a_i (fn [x] (+ x @a_j))), j <> i *)
| AoSwapBump (i j : nat) (k : Z).            (* (swap! a_i (fn [x] (swap! a_j + k) (+ x 1))), j <> i *)

Inductive aspec_ret := ArVal (v : Z) | ArErr.

Definition aget (st : list Z) (i : nat) : Z := nth i st 0%Z.
Fixpoint aput (st : list Z) (i : nat) (v : Z) : list Z :=
  match st, i with
  | [], _ => []
  | _ :: r, O => v :: r
  | x :: r, S i' => x :: aput r i' v
  end.

Definition aspec_step (st : list Z) (o : aspec_op) : list Z * aspec_ret :=
  match o with
  | AoDeref i => (st, ArVal (aget st i))
  | AoReset i v => (aput st i v, ArVal v)
  | AoSwapAdd i k => let v := (aget st i + k)%Z in (aput st i v, ArVal v)
  | AoSwapMulAdd i m k => let v := (aget st i * m + k)%Z in (aput st i v, ArVal v)
  | AoSwapFail i => (st, ArErr)
  | AoSwapAddFrom i j => let v := (aget st i + aget st j)%Z in (aput st i v, ArVal v)
  | AoSwapBump i j k =>
      let st1 := aput st j (aget st j + k)%Z in
      let v := (aget st1 i + 1)%Z in (aput st1 i v, ArVal v)
  end.

Definition aspec_req (a b : aspec_ret) : bool :=
  match a, b with
  | ArVal x, ArVal y => Z.eqb x y
  | ArErr, ArErr => true
  | _, _ => false
  end.

Definition atoms_linearizable (init : list Z) (h : list (@call aspec_op aspec_ret)) : bool :=
  linearizable_b (list Z) aspec_op aspec_ret aspec_step aspec_req init h.
