// enc: debugging aid. Reads lisp text lines from stdin, prints "P <wire AST>" for each and,
// with -impl, the implementation's outcome for it in a fresh world.
package main

import (
	"bufio"
	"context"
	"flag"
	"fmt"
	"os"

	lisp "github.com/jig/lisp"
	"verif.local/harness/h"
)

func main() {
	impl := flag.Bool("impl", false, "print the implementation's outcome instead")
	flag.Parse()
	sc := bufio.NewScanner(os.Stdin)
	sc.Buffer(make([]byte, 1<<20), 1<<20)
	for sc.Scan() {
		ast, err := lisp.READ(sc.Text(), nil, nil)
		if err != nil {
			fmt.Println("READERR", err)
			continue
		}
		if *impl {
			w, _ := h.NewWorld()
			o := w.Eval(context.Background(), ast)
			fmt.Println(o.Class(), "| trace", len(w.Trace))
		} else {
			fmt.Println("P " + h.EncS(ast))
		}
	}
}
