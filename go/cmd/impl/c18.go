package main

import (
	"context"
	"fmt"
	"os"
	"strings"
	"time"

	lisp "github.com/jig/lisp"
	"github.com/jig/lisp/debuggertypes"
	"github.com/jig/lisp/types"
	. "verif.local/harness/h"
)

func init() { runners["C18"] = runC18 }

// runWithStepper evaluates ast with lisp.Stepper set to a scripted callback.
func runWithStepper(ast types.MalType, cmds []int) (string, Outcome, []types.MalType) {
	w, _ := NewWorld()
	var handed []types.MalType
	i := 0
	lisp.ResetStepperForVerif() // skip/outing1/outing2 are package variables that survive an evaluation
	lisp.Stepper = func(a types.MalType, ns types.EnvType) debuggertypes.Command {
		handed = append(handed, a)
		c := 0
		if i < len(cmds) {
			c = cmds[i]
		}
		i++
		return []debuggertypes.Command{debuggertypes.NoOp, debuggertypes.Next, debuggertypes.In, debuggertypes.Out}[c]
	}
	// the Next command prints "ANSWER: ..." on stdout: silence it
	saved := os.Stdout
	devnull, _ := os.OpenFile(os.DevNull, os.O_WRONLY, 0)
	os.Stdout = devnull
	o := w.Eval(context.Background(), ast)
	os.Stdout = saved
	devnull.Close()
	lisp.Stepper = nil
	return outcomeLine(o) + "| " + EncS(types.List{Val: w.Trace}), o, handed
}

func runC18(tier string, seed uint64, rep *Report) {
	rep.Rule = "programs of the C01, C03 and C12 generators (special forms, closures, bounded recursion, macros, try/catch/finally) x scripted Stepper callbacks: " +
		"constant (all NoOp / Next / In / Out), periodic and seeded random command sequences. Each program runs without a stepper and with each script in a fresh " +
		"environment. Direct oracle: same result or error payload and same ordered trace with and without the stepper. The model (eval_dbg: debugger section, " +
		"skip/outing flags, do's deferred flag reset) predicts result, trace and the exact list of forms handed to the callback. Non-trivial: the script contains Next or Out."
	r := NewRng(seed)
	g := NewPG(r)
	g3 := &c03gen{r: r, hist: map[string]int{}}
	n := 250
	if tier == "thorough" {
		n = 6000
	}
	for i := 0; i < n; i++ {
		var prog types.MalType
		switch i % 4 {
		case 3:
			// failures whose error is a bare Go error or carries no position, observed through the caught value:
			// stepping over the enclosing form must not re-wrap or re-position them
			bad := []types.MalType{Call("let", 5, S("x")), Call("do", Call("let", 5, S("x"))), Call("do", Call("defmacro", S("m1"), Call("fn", V(S("a")), S("a"))), Call("m1")),
				Call("undefined-zz"), Call("nth", V(), 3), L(Call("fn", V(S("a")), S("a"))), Call("throw", "s"), Call("throw", types.HashMap{Val: map[string]types.MalType{Kw("a"): 1}}),
				Call("let", V(S("x")), 1), Call("def"), Call("first", 5),
				// special forms with fewer operands than usual, in tail position after longer forms
				Call("do", 1, 2, Call("if", true)), Call("do", Call("trace!", 1), Call("trace!", 2), Call("if", nil)),
				L(Call("fn", V(S("a"), S("b")), Call("if", S("a"))), 1, Call("trace!", 2)), Call("do", 1, 2, Call("quote")),
				Call("do", Call("if", true, 1, 2), Call("do"))}[r.Intn(16)]
			wrap := []func(types.MalType) types.MalType{
				func(x types.MalType) types.MalType { return x },
				func(x types.MalType) types.MalType { return Call("do", Call("trace!", 1), x) },
				func(x types.MalType) types.MalType { return Call("let", V(S("q"), 1), x) },
				func(x types.MalType) types.MalType { return L(Call("fn", V(), x)) },
			}[r.Intn(4)]
			prog = Call("try", wrap(bad), Call("catch", S("e"), Call("list", Call("string?", S("e")), Call("map?", S("e")), Call("trace!", S("e")))))
		case 0:
			prog = g.Program(2 + r.Intn(4))
		case 1:
			g3.n = 0
			prog = g3.try(1 + r.Intn(2))
		default:
			prog = Call("do", Call("defmacro", S("unless"), Call("fn", V(S("c"), S("a"), S("b")), L(S("quasiquote"), L(S("if"), L(S("unquote"), S("c")), L(S("unquote"), S("b")), L(S("unquote"), S("a")))))),
				Call("unless", Call("trace!", r.Bool()), g.Program(2), Call("cond", false, 1, Kw("else"), Call("and", 1, Call("trace!", 2)))))
		}
		ref, _, _ := runProgram(prog)
		scripts := [][]int{{}, {1}, {2, 2, 2, 2, 2, 2, 2, 2}, {3}, {0, 0, 3}, {2, 2, 3, 0, 1}, {0, 1}, {0, 0, 1}, {2, 1}, {2, 2, 1}}
		for k := 0; k < 3; k++ {
			var sc []int
			for j, m := 0, r.Intn(12); j < m; j++ {
				sc = append(sc, r.Intn(4))
			}
			scripts = append(scripts, sc)
		}
		for _, sc := range scripts {
			line, o, handed := runWithStepper(prog, sc)
			wire := fmt.Sprintf("D %d ", len(sc))
			for _, c := range sc {
				wire += fmt.Sprintf("%d ", c)
			}
			nontrivial := false
			for _, c := range sc {
				if c == 1 || c == 3 {
					nontrivial = true
				}
			}
			full := line + "| " + EncS(types.List{Val: handed})
			idx := rep.Add(wire+EncS(prog), full, fmt.Sprintf("stepper script %v on %s", sc, Show(prog)), nontrivial, fmt.Sprintf("script-len:%d", len(sc)/4*4))
			if o.Panic != nil {
				rep.Violate(idx, fmt.Sprintf("panic with a stepper installed: %v", o.Panic), Show(prog))
			}
			if line != ref && !strings.HasPrefix(ref, "HANG") {
				rep.Violate(idx, fmt.Sprintf("with the stepper script %v the program gives %q, without a stepper %q", sc, line, ref), Show(prog))
			}
		}
	}
	// ---- evaluation under a DEADLINE with a stepper installed: the try form's time budget (body, then handler and finally)
	// must be the same, so the same clauses run and the same value comes out
	for _, src := range []string{
		"(try (sleep 100000) (catch e (do (trace! :handler) :caught)) (finally (trace! :finally)))",
		"(try (try (sleep 100000) (finally (trace! :inner))) (catch e :c) (finally (trace! :outer)))",
		"(do (trace! 1) (let [x 2] (try (do (trace! x) (sleep 100000)) (catch e (list :caught x)))))",
	} {
		run := func(cmds []int, install bool, d time.Duration) string {
			w, _ := NewWorld()
			lisp.ResetStepperForVerif()
			i := 0
			if install {
				lisp.Stepper = func(a types.MalType, ns types.EnvType) debuggertypes.Command {
					c := 0
					if i < len(cmds) {
						c = cmds[i]
					}
					i++
					return []debuggertypes.Command{debuggertypes.NoOp, debuggertypes.Next, debuggertypes.In, debuggertypes.Out}[c]
				}
			}
			saved := os.Stdout
			devnull, _ := os.OpenFile(os.DevNull, os.O_WRONLY, 0)
			os.Stdout = devnull
			ctx, cancel := context.WithTimeout(context.Background(), d)
			o := w.EvalText(ctx, src)
			cancel()
			os.Stdout = saved
			devnull.Close()
			lisp.Stepper = nil
			return outcomeLine(o) + "| " + EncS(types.List{Val: w.TraceSnapshot()})
		}
		for _, sc := range [][]int{{}, {2, 2, 2, 2, 2, 2, 2, 2, 2, 2, 2, 2}, {0, 2, 0, 2}} {
			d := 600 * time.Millisecond
			ref, got := run(nil, false, d), run(sc, true, d)
			if ref != got {
				// the handler gets a fifth of what is left: on a loaded machine that can be too short; verdict on a second pair of runs, 4 s
				rep.Histogram["deadline-retried"]++
				d = 4 * time.Second
				ref, got = run(nil, false, d), run(sc, true, d)
			}
			idx := rep.Add("P n", "V n | l 0 ", fmt.Sprintf("stepper script %v, deadline %v: %s", sc, d, src), true, "deadline-with-stepper")
			if ref != got {
				rep.Violate(idx, fmt.Sprintf("under a %v deadline the program gives %q with the stepper script %v and %q without a stepper", d, got, sc, ref), src)
			}
		}
	}
	mergeHist(rep, g.Hist)
}
