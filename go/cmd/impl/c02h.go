package main

import (
	"context"
	"fmt"
	"strings"

	lisp "github.com/jig/lisp"
	"github.com/jig/lisp/types"
	. "verif.local/harness/h"
)

// L1 histories: operations restricted to the ones the arena machine (Arena.v) executes, on
// registers whose kind and length the generator tracks, so that the same history runs on the
// Go implementation (as lisp forms) and on the slice-level model (op H of the driver).

type regInfo struct {
	kind string          // "vec", "list", "map"
	n    int             // length of a sequence
	keys map[string]bool // keys of a map
}

func keysOf(ks ...string) map[string]bool {
	m := map[string]bool{}
	for _, k := range ks {
		m[k] = true
	}
	return m
}
func unionKeys(a, b map[string]bool) map[string]bool {
	m := map[string]bool{}
	for k := range a {
		m[k] = true
	}
	for k := range b {
		m[k] = true
	}
	return m
}

type l1gen struct {
	r    *Rng
	hist map[string]int
	regs []regInfo
}

func (g *l1gen) pickKind(kinds ...string) int {
	var c []int
	for i, ri := range g.regs {
		for _, k := range kinds {
			if ri.kind == k {
				c = append(c, i)
			}
		}
	}
	if len(c) == 0 {
		return -1
	}
	// early registers are re-used most
	if g.r.Intn(3) == 0 {
		return c[g.r.Intn((len(c)+1)/2)]
	}
	return c[g.r.Intn(len(c))]
}

// operand: a register or an atomic literal; returns (wire, lisp form)
func (g *l1gen) operand() (string, types.MalType) {
	if len(g.regs) > 0 && g.r.Intn(3) == 0 {
		i := g.r.Intn(len(g.regs))
		return fmt.Sprintf("0 %d ", i), reg(i)
	}
	v := []types.MalType{1, 2, 7, "s", Kw("k"), nil, true}[g.r.Intn(7)]
	return "1 " + EncS(v), v
}

// next returns the wire encoding and the lisp expression of one more step
func (g *l1gen) next() (string, types.MalType) {
	K := Kw
	for {
		switch g.r.Intn(18) {
		case 0, 1: // literal vector of 3, 5 or 9 operands (arrays with spare capacity)
			n := []int{0, 3, 5, 9}[g.r.Intn(4)]
			w := fmt.Sprintf("1 %d ", n)
			xs := make([]types.MalType, n)
			for i := range xs {
				ow, ol := g.operand()
				w += ow
				xs[i] = ol
			}
			g.hist["lit-vector"]++
			g.regs = append(g.regs, regInfo{"vec", n, nil})
			return w, types.Vector{Val: xs}
		case 2: // literal map of 0..3 entries over four keys (merge of a small into a larger map, disjoint or overlapping)
			keys := []string{K("a"), K("b"), K("c"), K("d")}
			for i := len(keys) - 1; i > 0; i-- {
				j := g.r.Intn(i + 1)
				keys[i], keys[j] = keys[j], keys[i]
			}
			n := g.r.Intn(4)
			w := fmt.Sprintf("2 %d ", n)
			form := []types.MalType{S("hash-map")}
			for i := 0; i < n; i++ {
				ow, ol := g.operand()
				w += encKey(keys[i]) + ow
				form = append(form, keys[i], ol)
			}
			g.hist[fmt.Sprintf("lit-map-%d", n)]++
			g.regs = append(g.regs, regInfo{"map", 0, keysOf(keys[:n]...)})
			return w, types.List{Val: form}
		case 3, 4, 5: // conj
			if r := g.pickKind("vec", "list"); r >= 0 {
				n := 1 + g.r.Intn(2)
				w := fmt.Sprintf("3 %d %d ", r, n)
				form := []types.MalType{S("conj"), reg(r)}
				for i := 0; i < n; i++ {
					ow, ol := g.operand()
					w += ow
					form = append(form, ol)
				}
				g.hist["conj-"+g.regs[r].kind]++
				g.regs = append(g.regs, regInfo{g.regs[r].kind, g.regs[r].n + n, nil})
				return w, types.List{Val: form}
			}
		case 6, 7: // concat
			if r := g.pickKind("vec", "list"); r >= 0 {
				m := g.r.Intn(3)
				w := fmt.Sprintf("4 %d %d ", r, m)
				form := []types.MalType{S("concat"), reg(r)}
				total := g.regs[r].n
				for i := 0; i < m; i++ {
					r2 := g.pickKind("vec", "list")
					w += fmt.Sprintf("%d ", r2)
					form = append(form, reg(r2))
					total += g.regs[r2].n
				}
				g.hist["concat"]++
				g.regs = append(g.regs, regInfo{"list", total, nil})
				return w, types.List{Val: form}
			}
		case 8: // cons
			if r := g.pickKind("vec", "list"); r >= 0 {
				ow, ol := g.operand()
				g.hist["cons"]++
				g.regs = append(g.regs, regInfo{"list", g.regs[r].n + 1, nil})
				return "5 " + ow + fmt.Sprintf("%d ", r), Call("cons", ol, reg(r))
			}
		case 9: // rest
			if r := g.pickKind("vec", "list"); r >= 0 {
				n := g.regs[r].n - 1
				if n < 0 {
					n = 0
				}
				g.hist["rest"]++
				g.regs = append(g.regs, regInfo{"list", n, nil})
				return fmt.Sprintf("6 %d ", r), Call("rest", reg(r))
			}
		case 10: // vec / seq (seq only on non-empty sequences: (seq ()) is nil)
			if r := g.pickKind("vec", "list"); r >= 0 {
				if g.r.Bool() || g.regs[r].n == 0 {
					g.hist["vec"]++
					g.regs = append(g.regs, regInfo{"vec", g.regs[r].n, nil})
					return fmt.Sprintf("7 %d ", r), Call("vec", reg(r))
				}
				g.hist["seq"]++
				g.regs = append(g.regs, regInfo{"list", g.regs[r].n, nil})
				return fmt.Sprintf("8 %d ", r), Call("seq", reg(r))
			}
		case 11: // subvec within range
			if r := g.pickKind("vec"); r >= 0 && g.regs[r].n > 0 {
				from := g.r.Intn(g.regs[r].n + 1)
				to := from + g.r.Intn(g.regs[r].n-from+1)
				g.hist["subvec"]++
				g.regs = append(g.regs, regInfo{"vec", to - from, nil})
				return fmt.Sprintf("10 %d %d %d ", r, from, to), Call("subvec", reg(r), from, to)
			}
		case 12: // take / drop
			if r := g.pickKind("vec", "list"); r >= 0 {
				n := g.r.Intn(4)
				m := g.regs[r].n
				if g.r.Bool() {
					if n < m {
						m = n
					}
					g.hist["take"]++
					g.regs = append(g.regs, regInfo{"list", m, nil})
					return fmt.Sprintf("11 %d %d ", n, r), Call("take", n, reg(r))
				}
				m -= n
				if m < 0 {
					m = 0
				}
				g.hist["drop"]++
				g.regs = append(g.regs, regInfo{"list", m, nil})
				return fmt.Sprintf("12 %d %d ", n, r), Call("drop", n, reg(r))
			}
		case 13: // assoc on a map
			if r := g.pickKind("map"); r >= 0 {
				k := g.r.Pick([]string{K("a"), K("b"), K("c")})
				ow, ol := g.operand()
				g.hist["assoc-map"]++
				g.regs = append(g.regs, regInfo{"map", 0, unionKeys(g.regs[r].keys, keysOf(k))})
				return fmt.Sprintf("13 %d ", r) + encKey(k) + ow, Call("assoc", reg(r), k, ol)
			}
		case 14: // assoc on a vector, index in range
			if r := g.pickKind("vec"); r >= 0 && g.regs[r].n > 0 {
				i := g.r.Intn(g.regs[r].n)
				ow, ol := g.operand()
				g.hist["assoc-vec"]++
				g.regs = append(g.regs, regInfo{"vec", g.regs[r].n, nil})
				return fmt.Sprintf("14 %d %d ", r, i) + ow, Call("assoc", reg(r), i, ol)
			}
		case 15: // dissoc (first key possibly absent, later one present)
			if r := g.pickKind("map"); r >= 0 {
				ks := []string{g.r.Pick([]string{K("zz"), K("a")}), g.r.Pick([]string{K("a"), K("b")})}
				g.hist["dissoc"]++
				left := unionKeys(g.regs[r].keys, nil)
				delete(left, ks[0])
				delete(left, ks[1])
				g.regs = append(g.regs, regInfo{"map", 0, left})
				return fmt.Sprintf("15 %d 2 ", r) + encKey(ks[0]) + encKey(ks[1]), Call("dissoc", reg(r), ks[0], ks[1])
			}
		case 16: // merge
			if r := g.pickKind("map"); r >= 0 {
				r2 := g.pickKind("map")
				// half of the time: a smaller map that brings a new key, merged into a strictly larger one
				if g.r.Bool() {
					for a, ra := range g.regs {
						for b, rb := range g.regs {
							if ra.kind == "map" && rb.kind == "map" && len(rb.keys) > len(ra.keys) && len(unionKeys(ra.keys, rb.keys)) > len(rb.keys) {
								r, r2 = a, b
							}
						}
					}
					if len(g.regs[r2].keys) > len(g.regs[r].keys) {
						g.hist["merge-small-with-new-key-into-larger"]++
					}
				}
				g.hist["merge"]++
				g.regs = append(g.regs, regInfo{"map", 0, unionKeys(g.regs[r].keys, g.regs[r2].keys)})
				return fmt.Sprintf("16 %d %d ", r, r2), Call("merge", reg(r), reg(r2))
			}
		default: // with-meta: shares the array / map
			if r := g.pickKind("vec", "list", "map"); r >= 0 {
				g.hist["with-meta"]++
				g.regs = append(g.regs, g.regs[r])
				return fmt.Sprintf("9 %d ", r), Call("with-meta", reg(r), types.HashMap{Val: map[string]types.MalType{K("m"): 1}})
			}
		}
	}
}

func encKey(k string) string {
	var b strings.Builder
	cps := CodePoints(k)
	fmt.Fprintf(&b, "%d ", len(cps))
	for _, c := range cps {
		fmt.Fprintf(&b, "%d ", c)
	}
	return b.String()
}

func runC02L1(tier string, seed uint64, rep *Report) {
	n, maxLen := 700, 14
	if tier == "thorough" {
		n, maxLen = 20000, 50
	}
	g := &l1gen{r: NewRng(seed + 77), hist: map[string]int{}}
	ctx := context.Background()
	for i := 0; i < n; i++ {
		w, _ := NewWorld()
		g.regs = nil
		steps := 3 + g.r.Intn(maxLen-2)
		wire := fmt.Sprintf("H %d ", steps)
		var forms []types.MalType
		var snaps []string
		violated := false
		for k := 0; k < steps; k++ {
			ow, expr := g.next()
			wire += ow
			form := Call("def", reg(k), expr)
			forms = append(forms, form)
			o := Guard(func() (types.MalType, error) { return lisp.EVAL(ctx, form, w.Env) })
			if o.Panic != nil || o.Err != nil {
				rep.Violate(-1, fmt.Sprintf("an in-domain collection operation failed: %v %v", o.Panic, o.Err), Show(types.List{Val: append([]types.MalType{S("do")}, forms...)}))
			}
			for j := 0; j <= k; j++ {
				v, err := w.Env.Get(types.Symbol{Val: fmt.Sprintf("r%d", j)})
				enc := "unbound"
				if err == nil {
					enc = EncS(v)
				}
				if j == k {
					snaps = append(snaps, enc)
				} else if enc != snaps[j] && !violated {
					violated = true
					prog := types.List{Val: append(append([]types.MalType{S("do")}, forms...), reg(j))}
					rep.Violate(len(rep.cases), fmt.Sprintf("register r%d changed after step %d: an existing value was modified (was %q, now %q)", j, k, snaps[j], enc), Show(prog))
				}
			}
		}
		prog := types.List{Val: append([]types.MalType{S("do")}, forms...)}
		final := "V l " + fmt.Sprint(steps) + " " + strings.Join(snaps, "") + "| l 0 "
		rep.Add(wire, final, Show(prog), true, "l1-history", fmt.Sprintf("l1-len:%d", steps/5*5))
	}
	for k, v := range g.hist {
		rep.Histogram["l1:"+k] += v
	}
}
